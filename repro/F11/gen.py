#!/usr/bin/env python3
# Generates main.go: 400 compiled-in struct types, 32 goroutines decode and encode each for the first time.
# Build WITHOUT -race (the race build selects the locked cache): go build -o probe . ; loop ./probe until it exits 1.
# Observed on the pinned tree: about one run in 50-80 panics in (*structDecoder).Decode(0x0, ...):
# the two-word interface slot cachedDecoder[index] was read between its two word stores.
n=400
src=['package main','import (','"fmt"','"os"','"sync"','json "github.com/goccy/go-json"',')']
for i in range(n):
    src.append('type T%d struct{ A%d int `json:"a"`; B string `json:"b"` }'%(i,i))
src.append('var mk = []func() interface{}{')
for i in range(n):
    src.append('func() interface{} { return new(T%d) },'%i)
src.append('}')
src.append('''
func main() {
	var wg sync.WaitGroup
	start := make(chan struct{})
	var mu sync.Mutex
	fails := 0
	for g := 0; g < 32; g++ {
		wg.Add(1)
		go func(g int) {
			defer wg.Done()
			defer func() {
				if r := recover(); r != nil {
					mu.Lock(); fails++; mu.Unlock()
					fmt.Println("PANIC:", r)
				}
			}()
			<-start
			for i := range mk {
				v := mk[i]()
				if err := json.Unmarshal([]byte(`{"a":1,"b":"x"}`), v); err != nil {
					mu.Lock(); fails++; mu.Unlock()
					fmt.Println("ERR:", err)
				}
				if _, err := json.Marshal(v); err != nil {
					mu.Lock(); fails++; mu.Unlock()
				}
			}
		}(g)
	}
	close(start)
	wg.Wait()
	if fails > 0 { os.Exit(1) }
}
''')
open('main.go','w').write('\n'.join(src))
