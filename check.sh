#!/bin/sh
# usage: check.sh <property> <tier>    (cwd=/verif)
# Rebuilds nothing from /repo ahead of time: verifcheck loads /repo's current working tree on every run.
export GOFLAGS=-mod=mod GOPROXY=off GOSUMDB=off GOTOOLCHAIN=local GOWORK=off
unset GOARCH GOOS
D="$(cd "$(dirname "$0")" && pwd)"
if [ ! -x "$D/bin/verifcheck" ] || [ -n "$(find "$D/checker" -name '*.go' -newer "$D/bin/verifcheck" 2>/dev/null | head -1)" ]; then
  (cd "$D/checker" && go build -o "$D/bin/verifcheck" ./cmd/verifcheck) || { echo "VIOLATION property=$1 replay=$D/evidence/violations/$1/build-failure.json"; exit 1; }
fi
exec "$D/bin/verifcheck" -property "$1" -tier "${2:-${VERIF_TIER:-quick}}"
