#!/usr/bin/env python3
"""Run /repo's test suite (guard off) and compare with /root/.vp/BASELINE.json stable_pass."""
import json, subprocess, os, sys
env = dict(os.environ, GOFLAGS='-mod=mod', GOPROXY='off', GOSUMDB='off', GOTOOLCHAIN='local')
env.pop('GOWORK', None)
p = subprocess.run('go test -json -vet=off -count=1 -timeout 25m ./...', shell=True, cwd='/repo', env=env, capture_output=True, text=True)
res = {}
for l in p.stdout.splitlines():
    try: e = json.loads(l)
    except Exception: continue
    if e.get('Action') in ('pass', 'fail', 'skip') and e.get('Test'):
        res[e['Package'] + '::' + e['Test']] = e['Action']
base = json.load(open('/root/.vp/BASELINE.json'))['stable_pass']
bad = [t for t in base if res.get(t) != 'pass']
print('baseline', len(base), 'passed now', sum(1 for t in base if res.get(t) == 'pass'), 'not passing', len(bad))
for t in bad[:20]: print('  ', t, res.get(t))
if p.returncode != 0 and not bad:
    print('go test exit', p.returncode); print(p.stderr[-2000:])
sys.exit(1 if bad else 0)
