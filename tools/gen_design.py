#!/usr/bin/env python3
"""Developer tool: rewrite the generated blocks of /verif/DESIGN.md (between
<!-- BEGIN GENERATED name --> and <!-- END GENERATED name -->) from the rule registry
(bin/verifcheck -list), known_findings.json, mutants/ and seeded/. Never run by a check."""
import json, os, re, subprocess, glob

V = '/verif'
out = subprocess.run([V + '/bin/verifcheck', '-list'], capture_output=True, text=True).stdout
props = []
cur = None
for l in out.splitlines():
    m = re.match(r'^(C\d\d): (.*)$', l)
    if m:
        cur = {'id': m.group(1), 'decided': m.group(2), 'not': '', 'rules': []}
        props.append(cur)
        continue
    m = re.match(r'^  NOT-COVERED (.*)$', l)
    if m:
        cur['not'] = m.group(1)
        continue
    m = re.match(r'^  (\S+)\s+min=(\d+)\s+\[(.*?)\] (.*?) \|\| (.*)$', l)
    if m:
        cur['rules'].append({'id': m.group(1), 'min': m.group(2), 'cfg': m.group(3), 'title': m.group(4), 'covers': m.group(5)})

titles = {}
for l in open(V + '/properties.jsonl'):
    l = l.strip()
    if l:
        p = json.loads(l)
        titles[p.get('id') or p.get('property_id')] = p.get('title') or p.get('name') or ''

mut = {}
for f in sorted(glob.glob(V + '/mutants/*/*.json')):
    m = json.load(open(f))
    mut.setdefault(m['property'], []).append((os.path.basename(f)[:-5], m))
seed = {}
hist = json.load(open(V + '/seeded/HISTORY.json'))
for d in sorted(glob.glob(V + '/seeded/*/meta.json')):
    m = json.load(open(d))
    sid = os.path.basename(os.path.dirname(d))
    seed.setdefault(m['property'], []).append((sid, m))

def esc(s):
    return s.replace('|', '\\|').replace('\n', ' ')

def gen_rules():
    o = []
    for p in props:
        o.append('### %s %s — level `other`\n' % (p['id'], titles.get(p['id'], '')))
        o.append('*Decided.* ' + p['decided'] + '\n')
        o.append('*Not covered (no structural counterpart, nothing claimed).* ' + p['not'] + '\n')
        o.append('| rule | floor | configs | what is checked | clause it is a necessary condition for |')
        o.append('|---|---|---|---|---|')
        for r in p['rules']:
            o.append('| %s | %s | %s | %s | %s |' % (r['id'], r['min'], r['cfg'], esc(r['title']), esc(r['covers'])))
        o.append('')
        ms = mut.get(p['id'], [])
        ss = seed.get(p['id'], [])
        if ms or ss:
            o.append('Self-test patches of the thorough tier (each must produce a new violation of the named rule on a patched copy):\n')
            for name, m in ms:
                o.append('* `mutants/%s/%s.diff` → %s (%s)' % (p['id'], name, m.get('expect_rule'), m.get('origin', 'hand-written')))
            for sid, m in ss:
                if m.get('retired'):
                    o.append('* `seeded/%s/patch.diff` — retired (no longer breaks the property; now a benign edit)' % sid)
                    continue
                o.append('* `seeded/%s/patch.diff` → %s (independent sub-agent)' % (sid, m.get('expect_rule')))
            o.append('')
    return '\n'.join(o)

def gen_findings():
    kf = json.load(open(V + '/known_findings.json'))
    o = ['| id | properties | rule | sites | what fails (failing input or history) | why recorded, not repaired |', '|---|---|---|---|---|---|']
    for f in kf['findings']:
        rules = f['rule'] + (' (+' + ','.join(f['also_rules']) + ')' if f.get('also_rules') else '')
        o.append('| %s | %s | %s | %d | %s — %s | %s |' % (f['id'], ','.join(f['properties']), rules, len(f['keys']), esc(f['what_fails']), esc(f['repro']), esc(f.get('why_not_fixed', ''))))
    o.append('')
    o.append('Repaired (`fix:` commits in /repo, one line each as recorded in `known_findings.json`; a fixed entry suppresses nothing):\n')
    for l in kf['fixed']:
        o.append('* ' + l[len('fixed: '):] if l.startswith('fixed: ') else '* ' + l)
    return '\n'.join(o)

def gen_seeded():
    o = ['| seeded change | property | needs, to manifest | result when it arrived | what changed because of it | reported today by |', '|---|---|---|---|---|---|']
    for pid in sorted(seed):
        for sid, m in seed[pid]:
            h = hist.get(sid, {})
            today = '%s `%s`' % (m.get('expect_rule'), esc(m.get('expect_key_contains', '')))
            if m.get('retired'):
                today = 'nothing (retired: the change is behaviour-preserving today)'
            o.append('| `%s` | %s | %s | %s | %s | %s |' % (sid, pid, esc(m.get('needs', '')), esc(h.get('first', '?')), esc(h.get('then', '?')), today))
    return '\n'.join(o)

blocks = {'rules': gen_rules(), 'findings': gen_findings(), 'seeded': gen_seeded()}
s = open(V + '/DESIGN.md').read()
for name, body in blocks.items():
    pat = re.compile(r'(<!-- BEGIN GENERATED %s -->\n).*?(<!-- END GENERATED %s -->)' % (name, name), re.S)
    if not pat.search(s):
        raise SystemExit('marker for %s not found' % name)
    s = pat.sub(lambda m: m.group(1) + body + '\n' + m.group(2), s)
open(V + '/DESIGN.md', 'w').write(s)
print('DESIGN.md: %d properties, %d rules, %d mutants, %d seeded' % (len(props), sum(len(p['rules']) for p in props), sum(len(v) for v in mut.values()), sum(len(v) for v in seed.values())))
