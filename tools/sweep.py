#!/usr/bin/env python3
"""Developer tool: run every distinct rule on each stored patch (seeded + mutants) and list the rules that
report it but are not registered under the patch's property. usage: sweep.py [-j N]"""
import json, glob, os, re, subprocess, sys, shutil, concurrent.futures as cf
env = dict(os.environ, GOFLAGS='-mod=mod', GOPROXY='off', GOSUMDB='off', GOTOOLCHAIN='local'); env.pop('GOWORK', None)
lst = subprocess.run(['/verif/bin/verifcheck', '-list'], capture_output=True, text=True).stdout
reg = {}; cur = None
for l in lst.splitlines():
    m = re.match(r'^(C\d\d):', l)
    if m: cur = m.group(1); reg[cur] = set(); continue
    m = re.match(r'\s+(C\d\d\.R\w+)', l)
    if m and cur: reg[cur].add(m.group(1))
base = subprocess.run(['/verif/bin/verifcheck', '-property', 'ALL'], capture_output=True, text=True, env=dict(env, VERIF_REPO='/repo')).stdout
def keys(out):
    s = set()
    for l in out.splitlines():
        m = re.match(r'^  (violation|undecided) (C\d\d\.R\w+) \[\w+\] (.*?) at ', l)
        if m: s.add((m.group(2), m.group(3)))
    return s
basekeys = keys(base)
items = []
for f in sorted(glob.glob('/verif/seeded/*/patch.diff')):
    meta = json.load(open(os.path.dirname(f) + '/meta.json')); items.append((f, meta['property'], os.path.basename(os.path.dirname(f))))
for f in sorted(glob.glob('/verif/mutants/*/*.diff')):
    meta = json.load(open(f[:-5] + '.json')); items.append((f, meta['property'], os.path.basename(f)[:-5]))
def work(it):
    f, prop, name = it
    d = '/tmp/sweep/' + re.sub(r'\W', '_', name)
    shutil.rmtree(d, ignore_errors=True); os.makedirs(d)
    subprocess.run(['rsync', '-a', '--exclude', '.git', '/repo/', d + '/'], check=True)
    r = subprocess.run(['patch', '-p1', '-s', '-i', f], cwd=d, capture_output=True, text=True)
    if r.returncode != 0:
        shutil.rmtree(d, ignore_errors=True); return (name, prop, None)
    out = subprocess.run(['/verif/bin/verifcheck', '-property', 'ALL'], capture_output=True, text=True, env=dict(env, VERIF_REPO=d)).stdout
    shutil.rmtree(d, ignore_errors=True)
    new = keys(out) - basekeys
    return (name, prop, sorted({r for r, _ in new}))
j = int(sys.argv[sys.argv.index('-j') + 1]) if '-j' in sys.argv else 6
res = []
with cf.ThreadPoolExecutor(j) as ex:
    for r in ex.map(work, items): res.append(r)
for name, prop, rules in res:
    if rules is None: print('NOAPPLY', prop, name); continue
    own = [r for r in rules if r in reg[prop]]; other = [r for r in rules if r not in reg[prop]]
    print('%-4s %-60s own=%s other=%s' % (prop, name[:60], ','.join(own) or '-', ','.join(other) or '-'))
