#!/bin/bash
# Developer tool (never run by a check): re-anchor stored patches on /repo's current tree.
# For every patch that `git apply --check` rejects, try `patch -F3` in a scratch copy and
# regenerate the diff from the result; report the ones that need a hand.
set -u
export GOFLAGS=-mod=mod GOPROXY=off GOSUMDB=off GOTOOLCHAIN=local; unset GOWORK
cd /repo || exit 1
for f in /verif/mutants/*/*.diff /verif/seeded/*/patch.diff /verif/benign/*.diff; do
  case "$f" in */seeded/*) grep -q "\"retired\"" "$(dirname "$f")/meta.json" 2>/dev/null && continue;; esac
  git apply --check "$f" 2>/dev/null && continue
  tmp=$(mktemp -d /tmp/refresh-XXXXXX)
  rsync -a --exclude .git /repo/ "$tmp/"
  (cd "$tmp" && git init -q && git add -A >/dev/null 2>&1 && git -c user.email=x -c user.name=x commit -qm base)
  if (cd "$tmp" && patch -p1 -F3 -s --no-backup-if-mismatch < "$f" >/dev/null 2>&1); then
    if (cd "$tmp" && go build ./... >/dev/null 2>&1); then
      (cd "$tmp" && find . -name '*.orig' -delete; git diff) > "$f.new"
      if [ -s "$f.new" ]; then mv "$f.new" "$f"; echo "refreshed $f"; else rm -f "$f.new"; echo "EMPTY    $f"; fi
    else
      echo "NOBUILD  $f"
    fi
  else
    echo "MANUAL   $f"
  fi
  rm -rf "$tmp"
done
