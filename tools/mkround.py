#!/usr/bin/env python3
"""Developer tool: prepare a round of independent seeded changes: one scratch worktree of /repo and one prompt per property
under /tmp/seed<R>/<Cnn>/ (wt/, out/, prompt.txt). The prompt holds the property text, the template and a list of the areas
earlier changes used (so that the new one goes somewhere else). usage: mkround.py R [Cnn ...]"""
import json, glob, os, re, subprocess, sys
R = sys.argv[1]; only = sys.argv[2:]
props = {}
for l in open('/verif/properties.jsonl'):
    p = json.loads(l); props[p['id']] = p
seeds = {}
for d in sorted(glob.glob('/verif/seeded/*/')):
    m = json.load(open(d + 'meta.json'))
    files = sorted(set(re.findall(r'^\+\+\+ b/(\S+)', open(d + 'patch.diff').read(), re.M)))
    seeds.setdefault(m['property'], []).append((os.path.basename(d[:-1]), files, m['needs']))
tmpl = open('/verif/tools/seed-prompt-template.txt').read()
extra = open('/verif/tools/seed-prompt-round-extra.txt').read() if os.path.exists('/verif/tools/seed-prompt-round-extra.txt') else ''
for pid, p in sorted(props.items()):
    if only and pid not in only: continue
    base = '/tmp/seed%s/%s' % (R, pid)
    wt, out = base + '/wt', base + '/out'
    os.makedirs(out, exist_ok=True)
    if not os.path.exists(wt):
        subprocess.run(['git', '-C', '/repo', 'worktree', 'add', '-q', '--detach', wt, 'HEAD'], check=True)
    text = '%s — %s\n\n%s' % (pid, p['title'], p['statement'])
    s = tmpl.replace('WORKTREE', wt).replace('OUTDIR', out).replace('PROPERTY_TEXT', text)
    prev = seeds.get(pid, [])
    if prev:
        s += '\n\nEarlier independent changes for this property already used the following areas; yours must be in a DIFFERENT place and of a different kind (another file or function, another mechanism):\n'
        for name, files, needs in prev:
            s += ' - %s (in %s); needed: %s\n' % (re.sub(r'^C\d\d-', '', name).replace('-', ' '), ', '.join(files), needs)
    s += '\n' + extra
    open(base + '/prompt.txt', 'w').write(s)
    print(pid, wt)
