#!/usr/bin/env python3
"""Developer tool: create /verif/mutants/<prop>/<name>.diff (+ .json) from textual replacements.
usage: mkmutant.py PROP NAME RULE KEYSUBSTR 'needs' FILE OLD NEW [FILE OLD NEW ...] [--all]
OLD must occur exactly once in FILE (path relative to /repo) unless --all is given."""
import sys, os, json, subprocess, tempfile, shutil
args = sys.argv[1:]
allocc = '--all' in args
if allocc: args.remove('--all')
tier = None
if '--tier' in args:
    i = args.index('--tier'); tier = args[i+1]; del args[i:i+2]
prop, name, rule, key, needs = args[:5]
edits = args[5:]
tmp = tempfile.mkdtemp(prefix='mkmut-')
diff = ''
try:
    files = {}
    for i in range(0, len(edits), 3):
        f, old, new = edits[i:i+3]
        s = files.get(f) or open('/repo/' + f).read()
        n = s.count(old)
        if n == 0 or (n != 1 and not allocc):
            sys.exit('%s: OLD occurs %d times in %s' % (name, n, f))
        files[f] = s.replace(old, new)
    for f, s in files.items():
        os.makedirs(os.path.join(tmp, 'a', os.path.dirname(f)), exist_ok=True)
        os.makedirs(os.path.join(tmp, 'b', os.path.dirname(f)), exist_ok=True)
        shutil.copy('/repo/' + f, os.path.join(tmp, 'a', f))
        open(os.path.join(tmp, 'b', f), 'w').write(s)
        diff += subprocess.run(['diff', '-u', 'a/' + f, 'b/' + f], cwd=tmp, capture_output=True, text=True).stdout
finally:
    shutil.rmtree(tmp)
d = '/verif/mutants/' + prop
os.makedirs(d, exist_ok=True)
open('%s/%s.diff' % (d, name), 'w').write(diff)
meta = {"property": prop, "expect_rule": rule, "expect_key_contains": key, "needs": needs, "origin": "hand-written"}
if tier: meta['tier'] = tier
json.dump(meta, open('%s/%s.json' % (d, name), 'w'), indent=1)
print(name, len(diff.splitlines()), 'lines')
