#!/usr/bin/env python3
"""Developer tool: confirm a sub-agent's seeded change in its scratch worktree and store it under /verif/seeded/<id>/.
usage: keep_seed.py PROP ID WORKTREE OUTDIR 'what it needs to manifest' [expect_rule] [expect_key_substring]"""
import sys, os, re, json, subprocess, shutil, glob
prop, sid, wt, out = sys.argv[1:5]
needs = sys.argv[5]
rule = sys.argv[6] if len(sys.argv) > 6 else ''
key = sys.argv[7] if len(sys.argv) > 7 else ''
env = dict(os.environ, GOFLAGS='-mod=mod', GOPROXY='off', GOSUMDB='off', GOTOOLCHAIN='local'); env.pop('GOWORK', None)
def run(cmd, cwd=wt, timeout=1500):
    p = subprocess.run(cmd, shell=True, cwd=cwd, env=env, capture_output=True, text=True, errors='replace', timeout=timeout)
    return p.returncode, (p.stdout + p.stderr)[-1500:]
ran = []
def step(name, cmd, want_ok, cwd=wt):
    rc, o = run(cmd, cwd)
    ok = (rc == 0) == want_ok
    ran.append({"step": name, "cmd": cmd, "exit": rc, "as_expected": ok})
    print(('ok   ' if ok else 'FAIL ') + name + ' (exit %d)' % rc)
    if not ok: print(o)
    return ok
patch = os.path.join(out, 'patch.diff')
run('git checkout -- . && git clean -fdq')
good = step('patch applies', 'git apply ' + patch, True)
good = good and step('build with patch', 'go build ./...', True)
good = good and step('full suite with patch', "bash -c 'set -o pipefail; go test -vet=off -count=1 ./... 2>&1 | tail -15'", True)
demo_go = os.path.join(out, 'demo_test.go')
demo_dir = os.path.join(out, 'demo')
if os.path.exists(demo_go):
    names = re.findall(r'func (Test\w+)', open(demo_go).read())
    runpat = '^(' + '|'.join(names) + ')$'
    shutil.copy(demo_go, os.path.join(wt, 'zz_seed_demo_test.go'))
    democmd = "go test %s-vet=off -count=1 -run '%s' ." % (os.environ.get('DEMO_FLAGS', '') + ' ' if os.environ.get('DEMO_FLAGS') else '', runpat)
    if os.environ.get('DEMO_PREFIX'):
        democmd = os.environ['DEMO_PREFIX'] + ' ' + democmd  # e.g. GOARCH=386 for a change that shows on 32-bit builds only
    good = good and step('demo fails with patch', democmd, False)
    run('git apply -R ' + patch)
    good = good and step('demo passes without patch', democmd, True)
    os.remove(os.path.join(wt, 'zz_seed_demo_test.go'))
    demo_files = [demo_go]
elif os.path.isdir(demo_dir):
    # program in its own module; rewrite the replace directive to this worktree
    gm = os.path.join(demo_dir, 'go.mod')
    s = open(gm).read(); s = re.sub(r'=>\s*\S+', '=> ' + wt, s); open(gm, 'w').write(s)
    if not os.path.exists(os.path.join(demo_dir, 'go.sum')): shutil.copy(os.path.join(wt, 'go.sum'), demo_dir)
    good = good and step('demo fails with patch', 'go run .', False, cwd=demo_dir)
    run('git apply -R ' + patch)
    good = good and step('demo passes without patch', 'go run .', True, cwd=demo_dir)
    demo_files = glob.glob(demo_dir + '/*')
else:
    sys.exit('no demo found')
if not good:
    sys.exit('NOT KEPT: a confirmation step failed')
d = '/verif/seeded/' + sid
os.makedirs(d, exist_ok=True)
shutil.copy(patch, d + '/patch.diff')
for f in demo_files:
    if os.path.isfile(f): shutil.copy(f, d + '/' + os.path.basename(f))
if os.path.exists(os.path.join(out, 'notes.md')): shutil.copy(os.path.join(out, 'notes.md'), d + '/agent_notes.md')
meta = {"property": prop, "breaks": prop, "needs": needs, "expect_rule": rule, "expect_key_contains": key,
        "origin": "independent sub-agent given only the property text and a scratch worktree", "confirmed": ran}
json.dump(meta, open(d + '/meta.json', 'w'), indent=1)
print('kept as', d)
