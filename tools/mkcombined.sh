#!/bin/bash
# usage: mkcombined.sh TRANSFORM NAME  -> /verif/benign/NAME.diff built from applying TRANSFORM to every library file
export GOFLAGS=-mod=mod GOPROXY=off GOSUMDB=off GOTOOLCHAIN=local; unset GOWORK
t=$1; name=$2
d=$(mktemp -d /tmp/comb-XXXX)
rsync -a --exclude .git --exclude benchmarks /repo/ $d/
cd $d && git init -q && git add -A >/dev/null && git -c user.email=x -c user.name=x commit -qm base
for f in $(cd /repo; ls internal/decoder/*.go internal/encoder/*.go internal/runtime/*.go *.go | grep -v _test.go | grep -v map112 | grep -v race); do
  /verif/bin/refactor -dir $d -file $f -t $t >/dev/null 2>&1
done
if go build ./... && go test -vet=off -count=1 . ./internal/... 2>&1 | tail -3 | grep -q FAIL; then echo "TESTS FAIL"; else
  git diff > /verif/benign/$name.diff; echo "$(grep -c '^diff' /verif/benign/$name.diff) files, $(wc -l < /verif/benign/$name.diff) lines"
fi
cd /; rm -rf $d
