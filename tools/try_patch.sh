#!/bin/sh
# developer tool: apply a patch to /repo, run the quick checks of the given properties, undo.
P="$1"; shift
cd /repo && git apply "$P" || { echo "patch does not apply"; exit 2; }
for prop in "$@"; do
  (cd /verif && ./check.sh $prop quick 2>&1 | grep -v "^  C[0-9]" | grep -v "KNOWN-FINDING" | cut -c1-400 | head -${LINES_MAX:-12})
done
cd /repo && git checkout -- . && git status --short | head -3
