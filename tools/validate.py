#!/opt/veriftools/pyvenv/bin/python
"""Developer tool: validate MANIFEST.json and evidence/*.json against the schemas in /root/.vp."""
import json, glob, sys, jsonschema
bad = 0
def v(path, schema):
    global bad
    try:
        jsonschema.validate(json.load(open(path)), json.load(open(schema)))
    except Exception as e:
        bad += 1; print('INVALID', path, str(e)[:300])
v('/verif/MANIFEST.json', '/root/.vp/MANIFEST.schema.json')
for f in sorted(glob.glob('/verif/evidence/C*.json')): v(f, '/root/.vp/EVIDENCE.schema.json')
m = json.load(open('/verif/MANIFEST.json'))
ids = {c['property_id'] if 'property_id' in c else c.get('id') for c in m['checks']}
print('manifest checks', len(m['checks']), 'evidence files', len(glob.glob('/verif/evidence/C*.json')), 'invalid', bad)
sys.exit(1 if bad else 0)
