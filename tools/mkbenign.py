#!/usr/bin/env python3
"""Developer tool: create /verif/benign/<name>.diff (+ .json) from textual replacements: a behaviour-preserving edit of
/repo on which every rule has to stay silent. usage: mkbenign.py NAME 'what' FILE OLD NEW [FILE OLD NEW ...]"""
import sys, os, json, subprocess, tempfile, shutil
name, what = sys.argv[1:3]
edits = sys.argv[3:]
tmp = tempfile.mkdtemp(prefix='mkben-')
diff = ''
try:
    files = {}
    for i in range(0, len(edits), 3):
        f, old, new = edits[i:i+3]
        s = files.get(f) or open('/repo/' + f).read()
        if s.count(old) != 1: sys.exit('%s: OLD occurs %d times in %s' % (name, s.count(old), f))
        files[f] = s.replace(old, new)
    for f, s in files.items():
        for side in 'ab': os.makedirs(os.path.join(tmp, side, os.path.dirname(f)), exist_ok=True)
        shutil.copy('/repo/' + f, os.path.join(tmp, 'a', f))
        open(os.path.join(tmp, 'b', f), 'w').write(s)
        diff += subprocess.run(['diff', '-u', 'a/' + f, 'b/' + f], cwd=tmp, capture_output=True, text=True).stdout
    # must build
    d = os.path.join(tmp, 'repo'); subprocess.run(['rsync', '-a', '--exclude', '.git', '/repo/', d + '/'], check=True)
    open(os.path.join(tmp, 'p.diff'), 'w').write(diff)
    subprocess.run(['patch', '-p1', '-s', '-i', os.path.join(tmp, 'p.diff')], cwd=d, check=True)
    env = dict(os.environ, GOFLAGS='-mod=mod', GOPROXY='off', GOSUMDB='off', GOTOOLCHAIN='local'); env.pop('GOWORK', None)
    r = subprocess.run(['go', 'build', './...'], cwd=d, env=env, capture_output=True, text=True)
    if r.returncode != 0: sys.exit('%s does not build:\n%s' % (name, r.stderr))
    if '--test' in os.environ.get('MKBENIGN', ''):
        r = subprocess.run('go test -vet=off -count=1 ./... 2>&1 | tail -6', shell=True, cwd=d, env=env, capture_output=True, text=True); print(r.stdout)
finally:
    shutil.rmtree(tmp)
os.makedirs('/verif/benign', exist_ok=True)
open('/verif/benign/%s.diff' % name, 'w').write(diff)
json.dump({"properties": [], "what": what}, open('/verif/benign/%s.json' % name, 'w'), indent=1)
print(name, len(diff.splitlines()), 'lines')
