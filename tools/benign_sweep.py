#!/usr/bin/env python3
"""Developer tool: for each (transformation, file) apply bin/refactor to a scratch copy of /repo, check that the copy still
builds and passes the root package tests (sanity of the transformation), then run every rule (verifcheck -property ALL)
and report the rules that say something new. usage: benign_sweep.py [-j N] [-t T1,T2] [files...]"""
import os, re, subprocess, sys, shutil, tempfile, glob, concurrent.futures as cf
env = dict(os.environ, GOFLAGS='-mod=mod', GOPROXY='off', GOSUMDB='off', GOTOOLCHAIN='local'); env.pop('GOWORK', None)
args = sys.argv[1:]
j = 6
if '-j' in args: i = args.index('-j'); j = int(args[i+1]); del args[i:i+2]
trs = ['reverse-cases', 'swap-if-else', 'inc-to-add', 'rename-locals']
if '-t' in args: i = args.index('-t'); trs = args[i+1].split(','); del args[i:i+2]
files = args or [os.path.relpath(f, '/repo') for f in sorted(glob.glob('/repo/internal/decoder/*.go') + glob.glob('/repo/internal/encoder/*.go') + glob.glob('/repo/internal/runtime/*.go') + glob.glob('/repo/*.go')) if not f.endswith('_test.go') and 'map112' not in f and 'race' not in f]
def keys(out):
    s = {}
    for l in out.splitlines():
        m = re.match(r'^  (violation|undecided) (C\d\d\.R\w+) \[\w+\] (.*?) at (.*)$', l)
        if m: s[(m.group(2), m.group(3))] = m.group(1) + ' @ ' + m.group(4)[:160]
    return s
base = keys(subprocess.run(['/verif/bin/verifcheck', '-property', 'ALL'], capture_output=True, text=True, env=dict(env, VERIF_REPO='/repo')).stdout)
def work(item):
    t, f = item
    d = tempfile.mkdtemp(prefix='bsweep-')
    try:
        subprocess.run(['rsync', '-a', '--exclude', '.git', '--exclude', 'benchmarks', '/repo/', d + '/'], check=True)
        r = subprocess.run(['/verif/bin/refactor', '-dir', d, '-file', f, '-t', t], capture_output=True, text=True, env=env)
        if r.returncode == 3: return (t, f, 'nothing', [])
        if r.returncode != 0: return (t, f, 'refactor failed: ' + r.stderr[-200:], [])
        b = subprocess.run('go build ./... && go test -vet=off -count=1 . ./internal/... 2>&1 | tail -3', shell=True, cwd=d, env=env, capture_output=True, text=True)
        if b.returncode != 0 or 'FAIL' in b.stdout: return (t, f, 'transformed copy does not build/pass: ' + (b.stdout + b.stderr)[-300:], [])
        out = keys(subprocess.run(['/verif/bin/verifcheck', '-property', 'ALL'], capture_output=True, text=True, env=dict(env, VERIF_REPO=d)).stdout)
        new = sorted((k[0], k[1], v) for k, v in out.items() if k not in base)
        # keep the diff of alarming cases
        if new:
            diff = subprocess.run(['diff', '-u', '/repo/' + f, d + '/' + f], capture_output=True, text=True).stdout
            open('/tmp/bsweep_%s_%s.diff' % (t, f.replace('/', '_')), 'w').write(diff.replace('/repo/' + f, 'a/' + f).replace(d + '/' + f, 'b/' + f))
        return (t, f, r.stdout.strip(), new)
    finally:
        shutil.rmtree(d, ignore_errors=True)
items = [(t, f) for t in trs for f in files]
with cf.ThreadPoolExecutor(j) as ex:
    for t, f, note, new in ex.map(work, items):
        if note == 'nothing': continue
        if not new:
            print('silent  %-14s %-40s %s' % (t, f, note)); continue
        print('ALARM   %-14s %-40s %s' % (t, f, note))
        for r, k, v in new[:60]: print('          ', r, k[:90], v[:120])
        sys.stdout.flush()
