#!/usr/bin/env python3
"""Developer tool: apply one patch to a scratch copy of /repo and list every rule (of any property) that reports something
the unpatched tree does not. usage: allrules.py PATCH"""
import os, re, subprocess, sys, shutil, tempfile
env = dict(os.environ, GOFLAGS='-mod=mod', GOPROXY='off', GOSUMDB='off', GOTOOLCHAIN='local'); env.pop('GOWORK', None)
def keys(out):
    s = {}
    for l in out.splitlines():
        m = re.match(r'^  (violation|undecided) (C\d\d\.R\w+) \[\w+\] (.*?) at (.*)$', l)
        if m: s[(m.group(2), m.group(3))] = (m.group(1), m.group(4))
    return s
base = keys(subprocess.run(['/verif/bin/verifcheck', '-property', 'ALL'], capture_output=True, text=True, env=dict(env, VERIF_REPO='/repo')).stdout)
d = tempfile.mkdtemp(prefix='allrules-')
try:
    subprocess.run(['rsync', '-a', '--exclude', '.git', '/repo/', d + '/'], check=True)
    r = subprocess.run(['patch', '-p1', '-s', '-i', os.path.abspath(sys.argv[1])], cwd=d, capture_output=True, text=True)
    if r.returncode != 0: sys.exit('patch does not apply: ' + r.stdout + r.stderr)
    out = keys(subprocess.run(['/verif/bin/verifcheck', '-property', 'ALL'], capture_output=True, text=True, env=dict(env, VERIF_REPO=d)).stdout)
finally:
    shutil.rmtree(d, ignore_errors=True)
new = {k: v for k, v in out.items() if k not in base}
if not new: print('NO RULE REPORTS IT')
for (rule, key), (verdict, rest) in sorted(new.items()):
    print(verdict, rule, key, '@', rest[:220])
