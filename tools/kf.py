#!/usr/bin/env python3
"""Developer tool (never run by a check): add an entry to known_findings.json from the
violations the checker currently reports for one rule.
usage: kf.py ID PROPS RULE 'what fails' 'repro' ['why not fixed'] [--filter REGEX]"""
import json, re, subprocess, sys, os
args = sys.argv[1:]
flt = None
if '--filter' in args:
    i = args.index('--filter'); flt = re.compile(args[i+1]); del args[i:i+2]
fid, props, rule, what, repro = args[:5]
why = args[5] if len(args) > 5 else ''
prop = rule.split('.')[0]
out = subprocess.run(['/verif/bin/verifcheck', '-property', props.split(',')[0], '-rule', rule, '-dump'], capture_output=True, text=True).stdout
keys = []
for l in out.splitlines():
    if l.startswith('violation') or l.startswith('known-finding'):
        m = re.match(r'\S+\s+(\S+)\s+(\S+)\s+(.*?) @ ', l)
        if m and m.group(1) == rule:
            k = m.group(3)
            if flt is None or flt.search(k):
                if k not in keys: keys.append(k)
path = '/verif/known_findings.json'
kf = json.load(open(path)) if os.path.exists(path) else {"comment": "Genuine defects of goccy/go-json that are recorded rather than repaired (findings) and records of repaired ones (fixed). Read-only at check time. Keys are rule + construct, never line numbers.", "findings": [], "fixed": []}
kf['findings'] = [f for f in kf['findings'] if f['id'] != fid]
kf['findings'].append({"id": fid, "properties": props.split(','), "rule": rule, "keys": keys, "what_fails": what, "repro": repro, "why_not_fixed": why})
kf['findings'].sort(key=lambda f: f['id'])
json.dump(kf, open(path, 'w'), indent=1)
print(fid, len(keys), 'keys')
