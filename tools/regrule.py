#!/usr/bin/env python3
"""Developer tool: register a rule under a property in checker/rules/registry.go (appended to that property's Rules list).
usage: regrule.py PROP RULEID RUNFUNC MIN 'title' 'covers' [configs-go-expr]"""
import sys, re
prop, rid, run, mn, title, covers = sys.argv[1:7]
extra = sys.argv[7] if len(sys.argv) > 7 else ''
p = '/verif/checker/rules/registry.go'
s = open(p).read()
i = s.index('ID:         "%s"' % prop)
j = s.index('\n\t\t},\n\t})', i)
blk = s[i:j]
if 'ID: "%s"' % rid in blk:
    sys.exit('%s already registered under %s' % (rid, prop))
q = lambda x: '"' + x.replace('\\', '\\\\').replace('"', '\\"') + '"'
line = '\n\t\t\t{ID: %s, Title: %s, Covers: %s, Min: %s, %sRun: %s},' % (q(rid), q(title), q(covers), mn, (extra + ', ') if extra else '', run)
s = s[:j] + line + s[j:]
open(p, 'w').write(s)
print('registered', rid, 'under', prop)
