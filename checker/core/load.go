// Package core holds the loader, the obligation bookkeeping and the shared
// analyses (constant tables, byte dispatch, CFG dominance, SSA helpers) used by
// the per-property rules.
package core

import (
	"fmt"
	"go/ast"
	"go/token"
	"go/types"
	"os"
	"sort"
	"strings"
	"sync"

	"golang.org/x/tools/go/callgraph"
	"golang.org/x/tools/go/packages"
	"golang.org/x/tools/go/ssa"
	"golang.org/x/tools/go/ssa/ssautil"
)

const ModPath = "github.com/goccy/go-json"

// Short package names used throughout the rules.
var PkgPaths = map[string]string{
	"json":            ModPath,
	"decoder":         ModPath + "/internal/decoder",
	"encoder":         ModPath + "/internal/encoder",
	"errors":          ModPath + "/internal/errors",
	"runtime":         ModPath + "/internal/runtime",
	"vm":              ModPath + "/internal/encoder/vm",
	"vm_indent":       ModPath + "/internal/encoder/vm_indent",
	"vm_color":        ModPath + "/internal/encoder/vm_color",
	"vm_color_indent": ModPath + "/internal/encoder/vm_color_indent",
	"generator":       ModPath + "/internal/cmd/generator",
}

var VMPkgs = []string{"vm", "vm_indent", "vm_color", "vm_color_indent"}

// Program is one loaded build configuration of the repository.
type Program struct {
	Config string
	Dir    string
	Fset   *token.FileSet
	Pkgs   map[string]*packages.Package // keyed by short name (PkgPaths) and by full path
	All    []*packages.Package

	cha, vta *callgraph.Graph

	ssaOnce sync.Once
	SSAProg *ssa.Program
	ssaPkgs map[*types.Package]*ssa.Package

	declOnce sync.Once
	decls    map[types.Object]*ast.FuncDecl
	fileOf   map[*ast.FuncDecl]*ast.File
	pkgOf    map[*ast.FuncDecl]*packages.Package
}

// RepoDir is the tree that is analysed. It is /repo unless VERIF_REPO is set
// (used only by the self-test, which analyses patched scratch copies).
func RepoDir() string {
	if d := os.Getenv("VERIF_REPO"); d != "" {
		return d
	}
	return "/repo"
}

// Load type-checks every package of the module in dir under the named build
// configuration. It fails if fewer than the nine library packages are found or
// if any package has an error.
func Load(config, dir string) (*Program, error) {
	env := append(os.Environ(), "GOFLAGS=-mod=mod", "GOPROXY=off", "GOSUMDB=off", "GOTOOLCHAIN=local", "GOWORK=off")
	var flags []string
	switch config {
	case "default":
	case "race":
		flags = append(flags, "-tags=race")
	case "386":
		env = append(env, "GOARCH=386", "CGO_ENABLED=0")
	default:
		return nil, fmt.Errorf("unknown config %q", config)
	}
	fset := token.NewFileSet()
	cfg := &packages.Config{
		Mode:       packages.LoadAllSyntax,
		Dir:        dir,
		Env:        env,
		Fset:       fset,
		BuildFlags: flags,
		Tests:      false,
	}
	// comparisons with the constant on the left are turned round in the text and the tree is loaded again
	// (ConstLeftEdits); today's tree has none, so it is loaded once
	overlay := map[string][]byte{}
	var pkgs []*packages.Package
	for pass := 0; ; pass++ {
		var err error
		pkgs, err = packages.Load(cfg, "./...")
		if err != nil {
			return nil, fmt.Errorf("load %s: %v", config, err)
		}
		var errs []string
		packages.Visit(pkgs, nil, func(pk *packages.Package) {
			for _, e := range pk.Errors {
				if strings.HasPrefix(pk.PkgPath, ModPath) {
					errs = append(errs, e.Error())
				}
			}
		})
		if len(errs) > 0 {
			sort.Strings(errs)
			if len(errs) > 10 {
				errs = errs[:10]
			}
			return nil, fmt.Errorf("load %s: type errors:\n  %s", config, strings.Join(errs, "\n  "))
		}
		if pass == 4 {
			break
		}
		edited := 0
		for _, pk := range pkgs {
			if !strings.HasPrefix(pk.PkgPath, ModPath) {
				continue
			}
			ed, err := ConstLeftEdits(fset, pk.TypesInfo, pk.Syntax, func(name string) ([]byte, error) {
				if b, ok := overlay[name]; ok {
					return b, nil
				}
				return os.ReadFile(name)
			})
			if err != nil {
				return nil, fmt.Errorf("load %s: %v", config, err)
			}
			for name, b := range ed {
				overlay[name] = b
				edited++
			}
		}
		if edited == 0 {
			break
		}
		fset = token.NewFileSet()
		cfg.Fset = fset
		cfg.Overlay = overlay
	}
	p := &Program{Config: config, Dir: dir, Fset: fset, Pkgs: map[string]*packages.Package{}, All: pkgs}
	for _, pk := range pkgs {
		p.Pkgs[pk.PkgPath] = pk
		if strings.HasPrefix(pk.PkgPath, ModPath) {
			RegisterLooseConsts(pk)
			for _, f := range pk.Syntax {
				Normalize(pk.TypesInfo, f)
			}
		}
	}
	n := 0
	for short, path := range PkgPaths {
		if pk, ok := p.Pkgs[path]; ok {
			p.Pkgs[short] = pk
			if short != "generator" {
				n++
			}
		}
	}
	if n < 9 {
		return nil, fmt.Errorf("load %s: only %d of the 9 library packages found in %s", config, n, dir)
	}
	for _, f := range Prepare {
		f(p)
	}
	return p, nil
}

// Pkg returns a package by short name; nil if absent.
func (p *Program) Pkg(short string) *packages.Package { return p.Pkgs[short] }

// LibPkgs returns the nine library packages in a fixed order.
func (p *Program) LibPkgs() []*packages.Package {
	var out []*packages.Package
	for _, s := range []string{"json", "decoder", "encoder", "errors", "runtime", "vm", "vm_indent", "vm_color", "vm_color_indent"} {
		if pk := p.Pkgs[s]; pk != nil {
			out = append(out, pk)
		}
	}
	return out
}

func (p *Program) index() {
	p.declOnce.Do(func() {
		p.decls = map[types.Object]*ast.FuncDecl{}
		p.fileOf = map[*ast.FuncDecl]*ast.File{}
		p.pkgOf = map[*ast.FuncDecl]*packages.Package{}
		for _, pk := range p.All {
			if !strings.HasPrefix(pk.PkgPath, ModPath) {
				continue
			}
			for _, f := range pk.Syntax {
				for _, d := range f.Decls {
					if fd, ok := d.(*ast.FuncDecl); ok {
						if obj := pk.TypesInfo.Defs[fd.Name]; obj != nil {
							p.decls[obj] = fd
							registerErrorCtor(obj, fd, pk.TypesInfo)
						}
						p.fileOf[fd] = f
						p.pkgOf[fd] = pk
					}
				}
			}
		}
	})
}

// DeclOf returns the declaration of a function object of the module.
func (p *Program) DeclOf(fn types.Object) *ast.FuncDecl {
	p.index()
	if f, ok := fn.(*types.Func); ok {
		fn = f.Origin()
	}
	return p.decls[fn]
}

// PkgOfDecl returns the package that declares fd.
func (p *Program) PkgOfDecl(fd *ast.FuncDecl) *packages.Package { p.index(); return p.pkgOf[fd] }

// FuncObj looks up a package-level function "name" or a method "T.name" /
// "(*T).name" through go/types. nil if absent.
func (p *Program) FuncObj(short, name string) *types.Func {
	pk := p.Pkgs[short]
	if pk == nil {
		return nil
	}
	name = strings.TrimPrefix(name, "(*")
	name = strings.Replace(name, ").", ".", 1)
	if i := strings.Index(name, "."); i >= 0 {
		tn, _ := pk.Types.Scope().Lookup(name[:i]).(*types.TypeName)
		if tn == nil {
			return nil
		}
		obj, _, _ := types.LookupFieldOrMethod(types.NewPointer(tn.Type()), true, pk.Types, name[i+1:])
		f, _ := obj.(*types.Func)
		return f
	}
	f, _ := pk.Types.Scope().Lookup(name).(*types.Func)
	return f
}

// Func returns the declaration of a function or method (see FuncObj).
func (p *Program) Func(short, name string) *ast.FuncDecl {
	f := p.FuncObj(short, name)
	if f == nil {
		return nil
	}
	return p.DeclOf(f)
}

// Prepare holds analyses that run once per loaded program, before any rule (role inference shared by rules).
var Prepare []func(*Program)

// Funcs returns every function declaration of a package, sorted by position.
func (p *Program) Funcs(short string) []*ast.FuncDecl {
	pk := p.Pkgs[short]
	if pk == nil {
		return nil
	}
	var out []*ast.FuncDecl
	for _, f := range pk.Syntax {
		for _, d := range f.Decls {
			if fd, ok := d.(*ast.FuncDecl); ok {
				out = append(out, fd)
			}
		}
	}
	return out
}

// FuncName renders "pkg.Func" or "pkg.(*T).M" for a declaration.
func (p *Program) FuncName(fd *ast.FuncDecl) string {
	pk := p.PkgOfDecl(fd)
	short := ""
	if pk != nil {
		short = pk.Name
		for s, path := range PkgPaths {
			if path == pk.PkgPath {
				short = s
			}
		}
	}
	if fd.Recv != nil && len(fd.Recv.List) == 1 {
		return short + "." + RecvString(fd.Recv.List[0].Type) + "." + fd.Name.Name
	}
	return short + "." + fd.Name.Name
}

func RecvString(e ast.Expr) string {
	switch t := e.(type) {
	case *ast.StarExpr:
		return "(*" + RecvString(t.X) + ")"
	case *ast.Ident:
		return t.Name
	case *ast.IndexExpr:
		return RecvString(t.X)
	}
	return "?"
}

// Pos renders a position relative to the analysed directory.
func (p *Program) Pos(pos token.Pos) string {
	if !pos.IsValid() {
		return "-"
	}
	ps := p.Fset.Position(pos)
	f := strings.TrimPrefix(ps.Filename, p.Dir+"/")
	return fmt.Sprintf("%s:%d", f, ps.Line)
}

// FileBase returns the base file name containing pos.
func (p *Program) FileBase(pos token.Pos) string {
	ps := p.Fset.Position(pos)
	if i := strings.LastIndex(ps.Filename, "/"); i >= 0 {
		return ps.Filename[i+1:]
	}
	return ps.Filename
}

// Info returns the types.Info of the package that declares fd.
func (p *Program) Info(fd *ast.FuncDecl) *types.Info {
	if pk := p.PkgOfDecl(fd); pk != nil {
		return pk.TypesInfo
	}
	return nil
}

// SSA builds (once) the SSA form of all packages.
func (p *Program) SSA() *ssa.Program {
	p.ssaOnce.Do(func() {
		prog, pkgs := ssautil.AllPackages(p.All, ssa.InstantiateGenerics)
		prog.Build()
		p.SSAProg = prog
		p.ssaPkgs = map[*types.Package]*ssa.Package{}
		for _, sp := range pkgs {
			if sp != nil {
				p.ssaPkgs[sp.Pkg] = sp
			}
		}
	})
	return p.SSAProg
}

// SSAFunc returns the SSA function for a function or method (see FuncObj).
func (p *Program) SSAFunc(short, name string) *ssa.Function {
	f := p.FuncObj(short, name)
	if f == nil {
		return nil
	}
	return p.SSA().FuncValue(f)
}

// SSAPkg returns the SSA package for a short name.
func (p *Program) SSAPkg(short string) *ssa.Package {
	p.SSA()
	pk := p.Pkgs[short]
	if pk == nil {
		return nil
	}
	return p.ssaPkgs[pk.Types]
}

// ModuleFuncs returns every SSA function (including anonymous ones) whose
// package belongs to the module library.
func (p *Program) ModuleFuncs() []*ssa.Function {
	p.SSA()
	var out []*ssa.Function
	for fn := range ssautil.AllFunctions(p.SSAProg) {
		if fn.Pkg == nil || fn.Synthetic != "" && fn.Syntax() == nil {
			continue
		}
		if strings.HasPrefix(fn.Pkg.Pkg.Path(), ModPath) && !strings.Contains(fn.Pkg.Pkg.Path(), "/cmd/") {
			out = append(out, fn)
		}
	}
	sort.Slice(out, func(i, j int) bool { return out[i].Pos() < out[j].Pos() })
	return out
}
