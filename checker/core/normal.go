package core

import (
	"bytes"
	"fmt"
	"go/ast"
	"go/printer"
	"go/token"
	"go/types"
	"strings"
)

// NormOpts configures the sibling normal form (A6).
type NormOpts struct {
	// Subst maps identifier / selector names to a canonical spelling for
	// intended differences (uint8↔uint16, TrailingZeros8↔TrailingZeros16 …).
	Subst map[string]string
	// DropStmt removes statements (e.g. lock/unlock calls) before comparison.
	DropStmt func(info *types.Info, s ast.Stmt) bool
	// KeepNames: do not alpha-rename locals.
	KeepNames bool
}

// NormalStmts renders each top-level statement of list in normal form:
// comments and positions dropped, locals alpha-renamed by first appearance,
// names substituted.
func NormalStmts(fset *token.FileSet, info *types.Info, list []ast.Stmt, opt NormOpts) []string {
	ren := map[types.Object]string{}
	var out []string
	for _, st := range list {
		if opt.DropStmt != nil && opt.DropStmt(info, st) {
			continue
		}
		out = append(out, normalNode(fset, info, st, opt, ren))
	}
	return out
}

// NormalNode renders one node in normal form with a fresh renaming.
func NormalNode(fset *token.FileSet, info *types.Info, n ast.Node, opt NormOpts) string {
	return normalNode(fset, info, n, opt, map[types.Object]string{})
}

func normalNode(fset *token.FileSet, info *types.Info, n ast.Node, opt NormOpts, ren map[types.Object]string) string {
	// collect renames for locals defined inside n (and reuse earlier ones)
	repl := map[*ast.Ident]string{}
	var drop []ast.Stmt
	ast.Inspect(n, func(x ast.Node) bool {
		if bl, ok := x.(*ast.BlockStmt); ok && opt.DropStmt != nil {
			for _, s := range bl.List {
				if opt.DropStmt(info, s) {
					drop = append(drop, s)
				}
			}
		}
		id, ok := x.(*ast.Ident)
		if !ok {
			return true
		}
		if s, ok := opt.Subst[id.Name]; ok {
			repl[id] = s
			return true
		}
		if opt.KeepNames || info == nil {
			return true
		}
		obj := info.Defs[id]
		if obj == nil {
			obj = info.Uses[id]
		}
		v, ok := obj.(*types.Var)
		if !ok || v.IsField() || v.Pkg() == nil || v.Parent() == v.Pkg().Scope() {
			return true
		}
		name, seen := ren[obj]
		if !seen {
			name = fmt.Sprintf("v%d", len(ren))
			ren[obj] = name
		}
		repl[id] = name
		return true
	})
	// print with replacements applied on a shallow textual level: print the node, then substitute by position
	var buf bytes.Buffer
	cfg := printer.Config{Mode: printer.RawFormat}
	// temporarily rename identifiers
	saved := map[*ast.Ident]string{}
	for id, nn := range repl {
		saved[id] = id.Name
		id.Name = nn
	}
	// temporarily drop statements
	type blk struct {
		b    *ast.BlockStmt
		list []ast.Stmt
	}
	var restored []blk
	if len(drop) > 0 {
		isDrop := map[ast.Stmt]bool{}
		for _, s := range drop {
			isDrop[s] = true
		}
		ast.Inspect(n, func(x ast.Node) bool {
			if bl, ok := x.(*ast.BlockStmt); ok {
				var keep []ast.Stmt
				changed := false
				for _, s := range bl.List {
					if isDrop[s] {
						changed = true
						continue
					}
					keep = append(keep, s)
				}
				if changed {
					restored = append(restored, blk{bl, bl.List})
					bl.List = keep
				}
			}
			return true
		})
	}
	cfg.Fprint(&buf, token.NewFileSet(), stripComments(n))
	for id, old := range saved {
		id.Name = old
	}
	for _, r := range restored {
		r.b.List = r.list
	}
	return strings.Join(strings.Fields(buf.String()), " ")
}

// stripComments: printing a node without its file's comment map already omits
// free-floating comments; nothing to do, kept for clarity.
func stripComments(n ast.Node) ast.Node { return n }

// FirstDiff returns the index of the first differing element (or -1).
func FirstDiff(a, b []string) int {
	for i := 0; i < len(a) && i < len(b); i++ {
		if a[i] != b[i] {
			return i
		}
	}
	if len(a) != len(b) {
		if len(a) < len(b) {
			return len(a)
		}
		return len(b)
	}
	return -1
}

// Clip shortens a string for messages.
func Clip(s string, n int) string {
	if len(s) > n {
		return s[:n] + "…"
	}
	return s
}
