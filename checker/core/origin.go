package core

import (
	"fmt"
	"go/token"
	"go/types"
	"sort"

	"golang.org/x/tools/go/ssa"
)

// Origin is one root a slice/pointer value can derive from (A5 provenance).
type Origin struct {
	Kind string // make | field | global | param | call | const | alloc | other
	Name string // field path, global name, parameter name, callee
	Pos  token.Pos
	Fn   *ssa.Function
}

func (o Origin) String() string { return o.Kind + ":" + o.Name }

// OriginFinder traces values back to their roots through slicing,
// conversions, phis, appends (first operand), stores to locals, and — for
// parameters of unexported module functions — through every static caller.
type OriginFinder struct {
	P       *Program
	callers map[*ssa.Function][]ssa.CallInstruction
	MaxUp   int
}

func NewOriginFinder(p *Program) *OriginFinder {
	of := &OriginFinder{P: p, callers: map[*ssa.Function][]ssa.CallInstruction{}, MaxUp: 5}
	for _, f := range p.ModuleFuncs() {
		for _, b := range f.Blocks {
			for _, ins := range b.Instrs {
				if c, ok := ins.(ssa.CallInstruction); ok {
					if callee := c.Common().StaticCallee(); callee != nil {
						of.callers[callee] = append(of.callers[callee], c)
					}
				}
			}
		}
	}
	return of
}

// FieldNameOf renders T.f for a field address.
func FieldNameOf(fa *ssa.FieldAddr) string { return fieldName(fa) }

func fieldName(fa *ssa.FieldAddr) string {
	t := fa.X.Type()
	if p, ok := t.Underlying().(*types.Pointer); ok {
		t = p.Elem()
	}
	st, ok := t.Underlying().(*types.Struct)
	if !ok {
		return "?"
	}
	tn := "?"
	if n, ok := t.(*types.Named); ok {
		tn = n.Obj().Name()
	}
	return tn + "." + st.Field(fa.Field).Name()
}

// Origins returns the distinct roots of v.
func (of *OriginFinder) Origins(v ssa.Value) []Origin {
	seen := map[ssa.Value]bool{}
	out := map[string]Origin{}
	of.walk(v, seen, out, 0)
	var keys []string
	for k := range out {
		keys = append(keys, k)
	}
	sort.Strings(keys)
	var res []Origin
	for _, k := range keys {
		res = append(res, out[k])
	}
	return res
}

func (of *OriginFinder) add(out map[string]Origin, o Origin) { out[o.String()] = o }

func (of *OriginFinder) walk(v ssa.Value, seen map[ssa.Value]bool, out map[string]Origin, up int) {
	if v == nil || seen[v] {
		return
	}
	seen[v] = true
	switch x := v.(type) {
	case *ssa.Slice:
		of.walk(x.X, seen, out, up)
	case *ssa.ChangeType:
		of.walk(x.X, seen, out, up)
	case *ssa.Convert:
		of.walk(x.X, seen, out, up)
	case *ssa.MakeInterface:
		of.walk(x.X, seen, out, up)
	case *ssa.Phi:
		for _, e := range x.Edges {
			of.walk(e, seen, out, up)
		}
	case *ssa.Extract:
		if c, ok := x.Tuple.(*ssa.Call); ok {
			of.callResult(c, x.Index, seen, out, up)
		} else {
			of.add(out, Origin{Kind: "other", Name: fmt.Sprintf("%T", x.Tuple), Pos: x.Pos()})
		}
	case *ssa.Call:
		of.callResult(x, 0, seen, out, up)
	case *ssa.MakeSlice:
		of.add(out, Origin{Kind: "make", Name: "make", Pos: x.Pos(), Fn: x.Parent()})
	case *ssa.Alloc:
		// array/struct literal allocated here: slices of it are fresh
		of.add(out, Origin{Kind: "alloc", Name: "local", Pos: x.Pos(), Fn: x.Parent()})
	case *ssa.Const:
		of.add(out, Origin{Kind: "const", Name: "const"})
	case *ssa.Global:
		of.add(out, Origin{Kind: "global", Name: x.Name(), Pos: x.Pos()})
	case *ssa.UnOp:
		if x.Op != token.MUL {
			of.add(out, Origin{Kind: "other", Name: x.Op.String(), Pos: x.Pos()})
			return
		}
		switch a := x.X.(type) {
		case *ssa.FieldAddr:
			of.add(out, Origin{Kind: "field", Name: fieldName(a), Pos: x.Pos(), Fn: x.Parent()})
		case *ssa.Global:
			of.add(out, Origin{Kind: "global", Name: a.Name(), Pos: x.Pos()})
		case *ssa.Alloc:
			// local variable cell: every value stored into it
			for _, r := range *a.Referrers() {
				if st, ok := r.(*ssa.Store); ok && st.Addr == a {
					of.walk(st.Val, seen, out, up)
				}
			}
		case *ssa.IndexAddr:
			of.walk(a.X, seen, out, up)
		default:
			// **T style header casts: follow the pointer operand
			of.walk(x.X, seen, out, up)
		}
	case *ssa.IndexAddr:
		of.walk(x.X, seen, out, up)
	case *ssa.FieldAddr:
		of.add(out, Origin{Kind: "field", Name: fieldName(x), Pos: x.Pos(), Fn: x.Parent()})
	case *ssa.Parameter:
		fn := x.Parent()
		exported := fn.Object() != nil && fn.Object().Exported() && fn.Signature.Recv() == nil
		cs := of.callers[fn]
		if len(cs) == 0 && of.MaxUp > 0 && !exported {
			// no static caller: the function is used as a value (e.g. stored in a struct field);
			// take the call sites the VTA graph resolves to it
			if n := of.P.VTA().Nodes[fn]; n != nil {
				for _, e := range n.In {
					if e.Site != nil {
						cs = append(cs, e.Site)
					}
				}
			}
		}
		if up >= of.MaxUp || len(cs) == 0 || exported {
			of.add(out, Origin{Kind: "param", Name: SSAName(fn) + "(" + x.Name() + ")", Pos: x.Pos(), Fn: fn})
			if !(len(cs) > 0 && up < of.MaxUp) {
				return
			}
		}
		idx := -1
		for i, p := range fn.Params {
			if p == x {
				idx = i
			}
		}
		for _, c := range cs {
			args := c.Common().Args
			if idx >= 0 && idx < len(args) {
				of.walk(args[idx], seen, out, up+1)
			}
		}
	case *ssa.FreeVar:
		of.add(out, Origin{Kind: "other", Name: "freevar " + x.Name(), Pos: x.Pos()})
	default:
		of.add(out, Origin{Kind: "other", Name: fmt.Sprintf("%T", v), Pos: v.Pos()})
	}
}

// callResult: builtin append → first operand (and appended slices do not become
// the backing store); module callee → origins of what it returns; otherwise opaque.
func (of *OriginFinder) callResult(c *ssa.Call, idx int, seen map[ssa.Value]bool, out map[string]Origin, up int) {
	cc := c.Common()
	if b, ok := cc.Value.(*ssa.Builtin); ok {
		if b.Name() == "append" && len(cc.Args) > 0 {
			of.walk(cc.Args[0], seen, out, up)
			// growth allocates fresh memory
			of.add(out, Origin{Kind: "make", Name: "append-growth", Pos: c.Pos(), Fn: c.Parent()})
			return
		}
		of.add(out, Origin{Kind: "other", Name: "builtin " + b.Name(), Pos: c.Pos()})
		return
	}
	callee := cc.StaticCallee()
	if callee == nil || len(callee.Blocks) == 0 || !inModule(callee) {
		name := "dynamic"
		if callee != nil {
			name = callee.String()
		} else if cc.IsInvoke() {
			name = "invoke " + cc.Method.Name()
		}
		of.add(out, Origin{Kind: "call", Name: name, Pos: c.Pos(), Fn: c.Parent()})
		return
	}
	// origins of the callee's idx-th result, with its parameters mapped to this call's arguments
	for _, b := range callee.Blocks {
		for _, ins := range b.Instrs {
			if r, ok := ins.(*ssa.Return); ok && idx < len(r.Results) {
				sub := map[string]Origin{}
				of.walkCallee(r.Results[idx], map[ssa.Value]bool{}, sub, callee, cc.Args, seen, out, up)
			}
		}
	}
}

// walkCallee walks inside a callee; parameters are substituted by the actual arguments of this call site.
func (of *OriginFinder) walkCallee(v ssa.Value, cseen map[ssa.Value]bool, _ map[string]Origin, callee *ssa.Function, args []ssa.Value, seen map[ssa.Value]bool, out map[string]Origin, up int) {
	tmp := map[string]Origin{}
	of2 := &OriginFinder{P: of.P, callers: map[*ssa.Function][]ssa.CallInstruction{}, MaxUp: 0}
	of2.walk(v, cseen, tmp, 0)
	for _, o := range tmp {
		if o.Kind == "param" && o.Fn == callee {
			for i, p := range callee.Params {
				if SSAName(callee)+"("+p.Name()+")" == o.Name && i < len(args) {
					of.walk(args[i], seen, out, up)
				}
			}
			continue
		}
		of.add(out, o)
	}
}

func inModule(f *ssa.Function) bool {
	return f.Pkg != nil && len(f.Pkg.Pkg.Path()) >= len(ModPath) && f.Pkg.Pkg.Path()[:len(ModPath)] == ModPath
}
