package core

import (
	"encoding/json"
	"fmt"
	"go/token"
	"os"
	"path/filepath"
	"regexp"
	"sort"
	"strings"
	"time"
)

// Verdicts of an obligation.
const (
	Discharged = "discharged"
	Violation  = "violation"
	Undecided  = "undecided"
	Finding    = "known-finding"
	Observed   = "observation" // recorded, never alarms
)

type Obligation struct {
	Rule    string `json:"rule"`
	Config  string `json:"config"`
	Key     string `json:"key"` // <pkg>.<func>/<construct>, never a line number
	Pos     string `json:"pos"`
	Verdict string `json:"verdict"`
	Detail  string `json:"detail,omitempty"`
}

// Rule is one named structural necessary condition.
type Rule struct {
	ID       string
	Title    string   // the rule applied, one sentence
	Covers   string   // which clause of the property it is a necessary condition for
	Configs  []string // build configurations it runs on in the quick tier (default: "default")
	Deep     []string // additional configurations in the thorough tier
	DeepOnly bool     // only runs in the thorough tier
	Exact    bool     // the rule's expectations are specific to its configurations: no extra ones in the thorough tier
	Min      int      // vacuity floor: minimum number of obligations confirmed by hand
	Run      func(rc *RC)
}

// Property binds rules to a property id.
type Property struct {
	ID         string
	Decided    string // what the check decides, in one or two sentences
	NotCovered string
	Rules      []*Rule
}

var Registry = map[string]*Property{}

func Register(p *Property) { Registry[p.ID] = p }

// AllRules lets one property reuse another's rule by id.
func FindRule(id string) *Rule {
	for _, p := range Registry {
		for _, r := range p.Rules {
			if r.ID == id {
				return r
			}
		}
	}
	return nil
}

// RC is the context handed to a rule for one configuration.
type RC struct {
	P    *Program
	Rule *Rule
	Tier string
	obl  []Obligation
	seen map[string]bool
	// counters for evidence
	Funcs     map[string]bool
	CallSites int
}

func (rc *RC) add(verdict, key string, pos token.Pos, detail string) {
	if rc.seen == nil {
		rc.seen = map[string]bool{}
	}
	k := key
	for i := 2; rc.seen[k]; i++ {
		k = fmt.Sprintf("%s#%d", key, i)
	}
	rc.seen[k] = true
	rc.obl = append(rc.obl, Obligation{Rule: rc.Rule.ID, Config: rc.P.Config, Key: k, Pos: rc.P.Pos(pos), Verdict: verdict, Detail: detail})
}

func (rc *RC) OK(key string, pos token.Pos, format string, a ...interface{}) {
	rc.add(Discharged, key, pos, fmt.Sprintf(format, a...))
}
func (rc *RC) Bad(key string, pos token.Pos, format string, a ...interface{}) {
	rc.add(Violation, key, pos, fmt.Sprintf(format, a...))
}
func (rc *RC) Unknown(key string, pos token.Pos, format string, a ...interface{}) {
	rc.add(Undecided, key, pos, fmt.Sprintf(format, a...))
}
func (rc *RC) Note(key string, pos token.Pos, format string, a ...interface{}) {
	rc.add(Observed, key, pos, fmt.Sprintf(format, a...))
}

// Check records OK or Bad.
func (rc *RC) Check(ok bool, key string, pos token.Pos, format string, a ...interface{}) {
	if ok {
		rc.OK(key, pos, format, a...)
	} else {
		rc.Bad(key, pos, format, a...)
	}
}

// Touch records that a function was analysed.
func (rc *RC) Touch(fn string) {
	if rc.Funcs == nil {
		rc.Funcs = map[string]bool{}
	}
	rc.Funcs[fn] = true
}

// ---- known findings ----

type KnownFinding struct {
	ID        string   `json:"id"`
	Property  []string `json:"properties"`
	Rule      string   `json:"rule"`
	AlsoRules []string `json:"also_rules,omitempty"` // other rule ids that report the same construct under another property
	Keys      []string `json:"keys"`                 // exact obligation keys (config-independent)
	WhatFails string   `json:"what_fails"`
	Repro     string   `json:"repro"`
	WhyNotFix string   `json:"why_not_fixed,omitempty"`
}

type FixedRecord struct {
	Line string `json:"line"` // "fixed: property=<id> <commit> <what failed>"
}

type KnownFile struct {
	Comment  string         `json:"comment"`
	Findings []KnownFinding `json:"findings"`
	Fixed    []string       `json:"fixed"`
}

func VerifDir() string {
	if d := os.Getenv("VERIF_DIR"); d != "" {
		return d
	}
	return "/verif"
}

func LoadKnown() (*KnownFile, error) {
	b, err := os.ReadFile(filepath.Join(VerifDir(), "known_findings.json"))
	if err != nil {
		if os.IsNotExist(err) {
			return &KnownFile{}, nil
		}
		return nil, err
	}
	var k KnownFile
	if err := json.Unmarshal(b, &k); err != nil {
		return nil, fmt.Errorf("known_findings.json: %v", err)
	}
	return &k, nil
}

// ---- running ----

type RuleReport struct {
	ID          string   `json:"id"`
	Title       string   `json:"rule"`
	Covers      string   `json:"necessary_condition_for"`
	Configs     []string `json:"configs"`
	Instances   int      `json:"instances"`
	MinExpected int      `json:"min_expected"`
	Discharged  int      `json:"discharged"`
	Findings    int      `json:"known_findings"`
	Violations  int      `json:"violations"`
	Undecided   int      `json:"undecided"`
	Notes       int      `json:"observations"`
}

type Result struct {
	Property    *Property
	Tier        string
	Seed        int
	Reports     []RuleReport
	Obligations []Obligation
	Funcs       map[string]bool
	CallSites   int
	Configs     []string
	Packages    int
	Start       time.Time
	SelfTest    *SelfTestReport
	Exit        int
	Lines       []string // stdout lines (KNOWN-FINDING / VIOLATION)
}

var programs = map[string]*Program{}

// GetProgram loads (and caches for the process) one configuration of RepoDir().
func GetProgram(config string) (*Program, error) {
	key := config + "@" + RepoDir()
	if p, ok := programs[key]; ok {
		return p, nil
	}
	p, err := Load(config, RepoDir())
	if err != nil {
		return nil, err
	}
	programs[key] = p
	return p, nil
}

func DropPrograms() { programs = map[string]*Program{} }

// RunProperty evaluates every rule of the property on the configurations of
// the tier and classifies the obligations against the known-findings file.
// NoReplay suppresses the writing of replay files (self-test runs on scratch copies).
var NoReplay bool

func RunProperty(prop *Property, tier string, seed int, onlyRule string) *Result {
	res := &Result{Property: prop, Tier: tier, Seed: seed, Funcs: map[string]bool{}, Start: time.Now()}
	known, kerr := LoadKnown()
	cfgSeen := map[string]bool{}
	for _, r := range prop.Rules {
		if onlyRule != "" && r.ID != onlyRule {
			continue
		}
		if r.DeepOnly && tier != "thorough" {
			continue
		}
		cfgs := r.Configs
		if len(cfgs) == 0 {
			cfgs = []string{"default"}
		}
		if tier == "thorough" {
			cfgs = append(append([]string{}, cfgs...), r.Deep...)
		}
		if tier == "thorough" && !r.Exact {
			// the thorough tier evaluates every rule on every build configuration
			for _, c := range []string{"default", "race", "386"} {
				have := false
				for _, x := range cfgs {
					if x == c {
						have = true
					}
				}
				if !have {
					cfgs = append(cfgs, c)
				}
			}
		}
		rep := RuleReport{ID: r.ID, Title: r.Title, Covers: r.Covers, MinExpected: r.Min, Configs: cfgs}
		for _, c := range cfgs {
			prog, err := GetProgram(c)
			if err != nil {
				res.Obligations = append(res.Obligations, Obligation{Rule: r.ID, Config: c, Key: "loader", Pos: "-", Verdict: Undecided, Detail: err.Error()})
				continue
			}
			if !cfgSeen[c] {
				cfgSeen[c] = true
				res.Configs = append(res.Configs, c)
				if n := len(prog.LibPkgs()); n > res.Packages {
					res.Packages = n
				}
			}
			rc := &RC{P: prog, Rule: r, Tier: tier}
			func() {
				defer func() {
					if e := recover(); e != nil {
						rc.add(Undecided, "checker-panic", token.NoPos, fmt.Sprintf("rule panicked: %v", e))
						if os.Getenv("VERIF_DEBUG") != "" {
							panic(e)
						}
					}
				}()
				r.Run(rc)
			}()
			n := 0
			for _, o := range rc.obl {
				if o.Verdict != Observed {
					n++
				}
			}
			if n < r.Min {
				rc.add(Undecided, "vacuity", token.NoPos, fmt.Sprintf("rule found %d instances in config %s, fewer than the %d confirmed by hand: anchors moved or rule no longer matches", n, c, r.Min))
			}
			res.Obligations = append(res.Obligations, rc.obl...)
			for f := range rc.Funcs {
				res.Funcs[f] = true
			}
			res.CallSites += rc.CallSites
		}
		res.Reports = append(res.Reports, rep)
	}
	if kerr != nil {
		res.Obligations = append(res.Obligations, Obligation{Rule: "known-findings", Key: "file", Verdict: Undecided, Detail: kerr.Error()})
	}
	// classify against known findings
	type kfHit struct {
		kf   *KnownFinding
		hits int
	}
	var hits []*kfHit
	idx := map[string]*kfHit{}
	if known != nil {
		for i := range known.Findings {
			kf := &known.Findings[i]
			h := &kfHit{kf: kf}
			hits = append(hits, h)
			for _, k := range kf.Keys {
				idx[kf.Rule+"\x00"+k] = h
				for _, r := range kf.AlsoRules {
					idx[r+"\x00"+k] = h
				}
			}
		}
	}
	for i := range res.Obligations {
		o := &res.Obligations[i]
		if o.Verdict == Violation {
			if h := idx[o.Rule+"\x00"+o.Key]; h != nil {
				o.Verdict = Finding
				o.Detail = "[" + h.kf.ID + "] " + o.Detail
				h.hits++
			}
		}
	}
	byRule := map[string]*RuleReport{}
	for i := range res.Reports {
		byRule[res.Reports[i].ID] = &res.Reports[i]
	}
	for _, o := range res.Obligations {
		rep := byRule[o.Rule]
		if rep == nil {
			continue
		}
		switch o.Verdict {
		case Discharged:
			rep.Discharged++
			rep.Instances++
		case Finding:
			rep.Findings++
			rep.Instances++
		case Violation:
			rep.Violations++
			rep.Instances++
		case Undecided:
			rep.Undecided++
			rep.Instances++
		case Observed:
			rep.Notes++
		}
	}
	for _, h := range hits {
		if h.hits > 0 {
			res.Lines = append(res.Lines, fmt.Sprintf("KNOWN-FINDING: property=%s [%s] %s — %s (%d site(s))", prop.ID, h.kf.ID, h.kf.Rule, h.kf.WhatFails, h.hits))
		}
	}
	// violations and undecided -> replay files
	vdir := filepath.Join(VerifDir(), "evidence", "violations", prop.ID)
	if !NoReplay {
		os.RemoveAll(vdir)
	}
	for _, o := range res.Obligations {
		if o.Verdict != Violation && o.Verdict != Undecided {
			continue
		}
		res.Exit = 1
		if NoReplay {
			res.Lines = append(res.Lines, fmt.Sprintf("VIOLATION property=%s replay=-", prop.ID))
			res.Lines = append(res.Lines, fmt.Sprintf("  %s %s [%s] %s at %s: %s", o.Verdict, o.Rule, o.Config, o.Key, o.Pos, o.Detail))
			continue
		}
		os.MkdirAll(vdir, 0o755)
		name := sanitize(o.Rule+"_"+o.Config+"_"+o.Key) + ".json"
		path := filepath.Join(vdir, name)
		rule := FindRule(o.Rule)
		rp := map[string]interface{}{
			"property": prop.ID, "kind": o.Verdict, "rule": o.Rule, "config": o.Config, "construct": o.Key,
			"position": o.Pos, "detail": o.Detail,
			"explain": fmt.Sprintf("%s/bin/verifcheck -property %s -rule %s -explain %s", VerifDir(), prop.ID, o.Rule, path),
		}
		if rule != nil {
			rp["rule_text"] = rule.Title
			rp["necessary_condition_for"] = rule.Covers
		}
		b, _ := json.MarshalIndent(rp, "", " ")
		os.WriteFile(path, b, 0o644)
		res.Lines = append(res.Lines, fmt.Sprintf("VIOLATION property=%s replay=%s", prop.ID, path))
		res.Lines = append(res.Lines, fmt.Sprintf("  %s %s [%s] %s at %s: %s", o.Verdict, o.Rule, o.Config, o.Key, o.Pos, o.Detail))
	}
	return res
}

var sanRe = regexp.MustCompile(`[^A-Za-z0-9_.-]+`)

func sanitize(s string) string {
	s = sanRe.ReplaceAllString(s, "_")
	if len(s) > 150 {
		s = s[:150]
	}
	return s
}

// ---- evidence ----

type SelfTestReport struct {
	Run      int      `json:"mutants_run"`
	Detected int      `json:"mutants_detected"`
	Skipped  int      `json:"mutants_skipped"`
	Missed   int      `json:"mutants_missed"`
	Names    []string `json:"mutants"`
	// behaviour-preserving edits (benign/*.diff): every rule of the property has to stay silent on them
	BenignRun    int      `json:"benign_run"`
	BenignSilent int      `json:"benign_silent"`
	BenignAlarms []string `json:"benign_false_alarms,omitempty"`
}

func (res *Result) WriteEvidence() error {
	prop := res.Property
	counts := map[string]int{}
	for _, o := range res.Obligations {
		counts[o.Verdict]++
	}
	total := counts[Discharged] + counts[Finding] + counts[Violation] + counts[Undecided]
	var ruleText []string
	for _, r := range res.Reports {
		ruleText = append(ruleText, fmt.Sprintf("%s: %s [necessary for: %s]", r.ID, r.Title, r.Covers))
	}
	expl := "Static analysis of /repo's current source (go/packages + go/types, go/cfg dominators, go/ssa value flow; nothing is executed). " +
		prop.Decided + " Rules applied — " + strings.Join(ruleText, " | ") + ". NOT covered: " + prop.NotCovered
	// samples: every non-discharged obligation plus a spread of discharged ones
	var samples []Obligation
	perRule := map[string]int{}
	for _, o := range res.Obligations {
		if o.Verdict != Discharged {
			if perRule[o.Rule+o.Verdict] < 6 {
				samples = append(samples, o)
				perRule[o.Rule+o.Verdict]++
			}
		}
	}
	for _, o := range res.Obligations {
		if o.Verdict == Discharged && perRule[o.Rule+"d"] < 4 {
			samples = append(samples, o)
			perRule[o.Rule+"d"]++
		}
	}
	var funcs []string
	for f := range res.Funcs {
		funcs = append(funcs, f)
	}
	sort.Strings(funcs)
	distinct := map[string]bool{}
	for _, o := range res.Obligations {
		if o.Verdict != Observed {
			distinct[o.Rule+"/"+o.Key] = true
		}
	}
	cov := map[string]interface{}{
		"explanation":         expl,
		"obligations":         total,
		"discharged":          counts[Discharged],
		"known_findings":      counts[Finding],
		"violations":          counts[Violation],
		"undecided":           counts[Undecided],
		"observations":        counts[Observed],
		"evaluations":         total,
		"distinct_nontrivial": len(distinct),
		"rule":                "one obligation per (rule, build configuration, construct); distinct = distinct (rule, construct) pairs; every obligation names a function, call site, table entry or opcode case of /repo",
		"rules":               res.Reports,
		"configs":             res.Configs,
		"packages":            res.Packages,
		"functions_analysed":  len(funcs),
		"functions":           funcs,
		"call_sites":          res.CallSites,
		"samples":             samples,
		"exhaustive":          false,
		"checker_cmd":         fmt.Sprintf("%s/bin/verifcheck -property %s -tier %s", VerifDir(), prop.ID, res.Tier),
		"analysed_tree":       RepoDir(),
	}
	if res.SelfTest != nil {
		cov["self_test"] = res.SelfTest
	}
	ev := map[string]interface{}{
		"property_id": prop.ID,
		"tier":        res.Tier,
		"seed":        res.Seed,
		"level":       "other",
		"coverage":    cov,
		"assumptions": []string{
			"go/packages, go/types, go/cfg and go/ssa of golang.org/x/tools v0.29.0 and the installed Go toolchain's type information are correct",
			"the per-rule idiom tables in /verif/checker/rules recognise every form the repository uses; an unrecognised form is reported as undecided, not passed",
			"a green result means the named structural necessary conditions hold on the analysed tree; it is not a claim about run-time behaviour",
		},
		"wall_s":     time.Since(res.Start).Seconds(),
		"violations": counts[Violation] + counts[Undecided],
	}
	b, err := json.MarshalIndent(ev, "", " ")
	if err != nil {
		return err
	}
	dir := filepath.Join(VerifDir(), "evidence")
	os.MkdirAll(dir, 0o755)
	return os.WriteFile(filepath.Join(dir, prop.ID+".json"), b, 0o644)
}

// DropProgramsFor forgets the cached programs of one analysed directory.
func DropProgramsFor(dir string) {
	for k := range programs {
		if strings.HasSuffix(k, "@"+dir) {
			delete(programs, k)
		}
	}
}
