package core

import (
	"sort"
	"strings"

	"golang.org/x/tools/go/callgraph"
	"golang.org/x/tools/go/callgraph/cha"
	"golang.org/x/tools/go/callgraph/vta"
	"golang.org/x/tools/go/ssa"
	"golang.org/x/tools/go/ssa/ssautil"
)

// StaticGraph is the exact static-callee graph of the module's functions
// (direct calls and closure creation), used for recursion (SCC) rules (A9).
type StaticGraph struct {
	Funcs []*ssa.Function
	Succ  map[*ssa.Function][]*ssa.Function
}

func (p *Program) StaticGraph() *StaticGraph {
	g := &StaticGraph{Succ: map[*ssa.Function][]*ssa.Function{}}
	g.Funcs = p.ModuleFuncs()
	inMod := map[*ssa.Function]bool{}
	for _, f := range g.Funcs {
		inMod[f] = true
	}
	for _, f := range g.Funcs {
		seen := map[*ssa.Function]bool{}
		for _, b := range f.Blocks {
			for _, ins := range b.Instrs {
				var callee *ssa.Function
				switch x := ins.(type) {
				case ssa.CallInstruction:
					callee = x.Common().StaticCallee()
				case *ssa.MakeClosure:
					callee, _ = x.Fn.(*ssa.Function)
				}
				if callee != nil && inMod[callee] && !seen[callee] {
					seen[callee] = true
					g.Succ[f] = append(g.Succ[f], callee)
				}
			}
		}
	}
	return g
}

// SCCs returns the strongly connected components that contain a cycle
// (size > 1, or a self loop), each sorted by position.
func (g *StaticGraph) SCCs() [][]*ssa.Function {
	index := map[*ssa.Function]int{}
	low := map[*ssa.Function]int{}
	on := map[*ssa.Function]bool{}
	var stack []*ssa.Function
	var out [][]*ssa.Function
	n := 0
	var strong func(v *ssa.Function)
	strong = func(v *ssa.Function) {
		index[v], low[v] = n, n
		n++
		stack = append(stack, v)
		on[v] = true
		for _, w := range g.Succ[v] {
			if _, ok := index[w]; !ok {
				strong(w)
				if low[w] < low[v] {
					low[v] = low[w]
				}
			} else if on[w] && index[w] < low[v] {
				low[v] = index[w]
			}
		}
		if low[v] == index[v] {
			var comp []*ssa.Function
			for {
				w := stack[len(stack)-1]
				stack = stack[:len(stack)-1]
				on[w] = false
				comp = append(comp, w)
				if w == v {
					break
				}
			}
			cyc := len(comp) > 1
			if !cyc {
				for _, w := range g.Succ[v] {
					if w == v {
						cyc = true
					}
				}
			}
			if cyc {
				sort.Slice(comp, func(i, j int) bool { return comp[i].Pos() < comp[j].Pos() })
				out = append(out, comp)
			}
		}
	}
	for _, f := range g.Funcs {
		if _, ok := index[f]; !ok {
			strong(f)
		}
	}
	sort.Slice(out, func(i, j int) bool { return out[i][0].Pos() < out[j][0].Pos() })
	return out
}

// SSAName renders pkgshort.Func / pkgshort.(*T).M for an SSA function.
func SSAName(f *ssa.Function) string {
	s := f.String() // e.g. (*github.com/goccy/go-json/internal/decoder.mapDecoder).Decode
	s = strings.ReplaceAll(s, ModPath+"/internal/encoder/", "")
	s = strings.ReplaceAll(s, ModPath+"/internal/", "")
	s = strings.ReplaceAll(s, ModPath, "json")
	return s
}

// CHA returns the class-hierarchy call graph (over-approximate; used only for
// reachability from the public API).
func (p *Program) CHA() *callgraph.Graph {
	if p.cha == nil {
		p.cha = cha.CallGraph(p.SSA())
	}
	return p.cha
}

// VTA returns the variable-type-analysis call graph seeded with CHA: the
// most precise whole-program graph available in x/tools v0.29.0. Still an
// over-approximation of the dynamic calls.
func (p *Program) VTA() *callgraph.Graph {
	if p.vta == nil {
		prog := p.SSA()
		p.vta = vta.CallGraph(ssautil.AllFunctions(prog), p.CHA())
	}
	return p.vta
}

// ReachableFrom returns every function reachable in g from the roots.
func ReachableFrom(g *callgraph.Graph, roots []*ssa.Function) map[*ssa.Function]bool {
	seen := map[*ssa.Function]bool{}
	var st []*ssa.Function
	for _, r := range roots {
		if r != nil && !seen[r] {
			seen[r] = true
			st = append(st, r)
		}
	}
	for len(st) > 0 {
		f := st[len(st)-1]
		st = st[:len(st)-1]
		n := g.Nodes[f]
		if n == nil {
			continue
		}
		for _, e := range n.Out {
			c := e.Callee.Func
			if c != nil && !seen[c] {
				seen[c] = true
				st = append(st, c)
			}
		}
	}
	return seen
}
