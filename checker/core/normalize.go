package core

import (
	"go/ast"
	"go/constant"
	"go/token"
	"go/types"
)

// Normalize rewrites, after type checking, spellings that differ without a difference in meaning into one form, so
// that the rules see one idiom: `x += 1` and `x -= 1` (constant one, integer x) become `x++` and `x--`. The
// identifier and expression nodes keep their identity, so every types.Info entry stays valid; the statement node is
// replaced in the list that holds it. Rules that report source text print the normal form.
func Normalize(info *types.Info, f *ast.File) int {
	n := 0
	fix := func(s ast.Stmt) ast.Stmt {
		as, ok := s.(*ast.AssignStmt)
		if !ok || len(as.Lhs) != 1 || len(as.Rhs) != 1 || (as.Tok != token.ADD_ASSIGN && as.Tok != token.SUB_ASSIGN) {
			return s
		}
		tv, ok := info.Types[as.Rhs[0]]
		if !ok || tv.Value == nil || tv.Value.Kind() != constant.Int {
			return s
		}
		if v, exact := constant.Int64Val(tv.Value); !exact || v != 1 {
			return s
		}
		if t := info.TypeOf(as.Lhs[0]); t == nil {
			return s
		} else if b, ok := t.Underlying().(*types.Basic); !ok || b.Info()&types.IsInteger == 0 {
			return s
		}
		tok := token.INC
		if as.Tok == token.SUB_ASSIGN {
			tok = token.DEC
		}
		n++
		return &ast.IncDecStmt{X: as.Lhs[0], TokPos: as.TokPos, Tok: tok}
	}
	fixList := func(l []ast.Stmt) {
		for i := range l {
			l[i] = fix(l[i])
		}
	}
	ast.Inspect(f, func(x ast.Node) bool {
		switch v := x.(type) {
		case *ast.BlockStmt:
			fixList(v.List)
		case *ast.CaseClause:
			fixList(v.Body)
		case *ast.CommClause:
			fixList(v.Body)
		case *ast.ForStmt:
			if v.Post != nil {
				v.Post = fix(v.Post)
			}
			if v.Init != nil {
				v.Init = fix(v.Init)
			}
		case *ast.LabeledStmt:
			v.Stmt = fix(v.Stmt)
		case *ast.IfStmt:
			if v.Init != nil {
				v.Init = fix(v.Init)
			}
		case *ast.SwitchStmt:
			if v.Init != nil {
				v.Init = fix(v.Init)
			}
		}
		return true
	})
	return n
}

func unparen(e ast.Expr) ast.Expr {
	for {
		p, ok := e.(*ast.ParenExpr)
		if !ok {
			return e
		}
		e = p.X
	}
}
