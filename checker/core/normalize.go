package core

import (
	"go/ast"
	"go/constant"
	"go/token"
	"go/types"
)

// Normalize rewrites, after type checking, spellings that differ without a difference in meaning into one form, so
// that the rules see one idiom: `x += 1` and `x -= 1` (constant one, integer x) become `x++` and `x--`. The
// identifier and expression nodes keep their identity, so every types.Info entry stays valid; the statement node is
// replaced in the list that holds it. Rules that report source text print the normal form. And an else branch behind
// a then-branch that always leaves (`if c { …; return } else { B }`) is taken out of the if: its statements follow the
// if in the list that holds it, as the code is written everywhere in the library (unnestElse). The order of the
// statements in the text is kept, so positions still nest; the objects of types.Info do not depend on the block a
// statement stands in.
func Normalize(info *types.Info, f *ast.File) int {
	n := 0
	fix := func(s ast.Stmt) ast.Stmt {
		as, ok := s.(*ast.AssignStmt)
		if !ok || len(as.Lhs) != 1 || len(as.Rhs) != 1 || (as.Tok != token.ADD_ASSIGN && as.Tok != token.SUB_ASSIGN) {
			return s
		}
		tv, ok := info.Types[as.Rhs[0]]
		if !ok || tv.Value == nil || tv.Value.Kind() != constant.Int {
			return s
		}
		if v, exact := constant.Int64Val(tv.Value); !exact || v != 1 {
			return s
		}
		if t := info.TypeOf(as.Lhs[0]); t == nil {
			return s
		} else if b, ok := t.Underlying().(*types.Basic); !ok || b.Info()&types.IsInteger == 0 {
			return s
		}
		tok := token.INC
		if as.Tok == token.SUB_ASSIGN {
			tok = token.DEC
		}
		n++
		return &ast.IncDecStmt{X: as.Lhs[0], TokPos: as.TokPos, Tok: tok}
	}
	fixList := func(l []ast.Stmt) {
		for i := range l {
			l[i] = fix(l[i])
		}
	}
	ast.Inspect(f, func(x ast.Node) bool {
		switch v := x.(type) {
		case *ast.BlockStmt:
			v.List = unnestElse(info, v.List, &n)
			fixList(v.List)
		case *ast.CaseClause:
			v.Body = unnestElse(info, v.Body, &n)
			fixList(v.Body)
		case *ast.CommClause:
			v.Body = unnestElse(info, v.Body, &n)
			fixList(v.Body)
		case *ast.ForStmt:
			if v.Post != nil {
				v.Post = fix(v.Post)
			}
			if v.Init != nil {
				v.Init = fix(v.Init)
			}
		case *ast.LabeledStmt:
			v.Stmt = fix(v.Stmt)
		case *ast.IfStmt:
			if v.Init != nil {
				v.Init = fix(v.Init)
			}
		case *ast.SwitchStmt:
			if v.Init != nil {
				v.Init = fix(v.Init)
			}
		}
		return true
	})
	return n
}

func unparen(e ast.Expr) ast.Expr {
	for {
		p, ok := e.(*ast.ParenExpr)
		if !ok {
			return e
		}
		e = p.X
	}
}

// ConstLeftEdits finds, in the type-checked files of the module, every comparison with a constant or nil on the
// left and something else on the right (`K == x`, `nil != p`, `K < x`) and returns, per file, the source text with
// the operands exchanged and an ordering operator flipped (`x == K`, `p != nil`, `x > K`), so that the rules see one
// orientation. The text is rewritten (and loaded again through an overlay) instead of the tree, because the rules
// locate nodes by position and a BinaryExpr whose operands changed places in the tree would have no extent. Both
// operands are evaluated without calls (len, cap and conversions aside), so the order of evaluation does not matter;
// line numbers are unchanged unless an operand spans lines. Nested sites are left for the next pass.
func ConstLeftEdits(fset *token.FileSet, info *types.Info, files []*ast.File, read func(string) ([]byte, error)) (map[string][]byte, error) {
	flip := map[token.Token]token.Token{token.EQL: token.EQL, token.NEQ: token.NEQ, token.LSS: token.GTR, token.GTR: token.LSS, token.LEQ: token.GEQ, token.GEQ: token.LEQ}
	isConst := func(e ast.Expr) bool {
		tv, has := info.Types[e]
		return has && (tv.Value != nil || tv.IsNil())
	}
	out := map[string][]byte{}
	for _, f := range files {
		var sites []*ast.BinaryExpr
		ast.Inspect(f, func(m ast.Node) bool {
			be, ok := m.(*ast.BinaryExpr)
			if !ok {
				return true
			}
			if _, cmp := flip[be.Op]; !cmp || !isConst(be.X) || isConst(be.Y) || !callFree(info, be.Y) {
				return true
			}
			if x, isBin := be.X.(*ast.BinaryExpr); isBin {
				if _, chained := flip[x.Op]; chained {
					return true // a == b == c groups to the left: the operands cannot change places as text
				}
			}
			sites = append(sites, be)
			return false // nested sites wait for the next pass
		})
		if len(sites) == 0 {
			continue
		}
		tf := fset.File(f.Pos())
		name := tf.Name()
		src, err := read(name)
		if err != nil {
			return nil, err
		}
		// from the end of the file to its beginning, so that earlier offsets stay valid
		for i := len(sites) - 1; i >= 0; i-- {
			be := sites[i]
			xs, xe := tf.Offset(be.X.Pos()), tf.Offset(be.X.End())
			ys, ye := tf.Offset(be.Y.Pos()), tf.Offset(be.Y.End())
			os := tf.Offset(be.OpPos)
			ol := len(be.Op.String())
			if !(xs < xe && xe <= os && os+ol <= ys && ys < ye && ye <= len(src)) {
				continue
			}
			var nb []byte
			nb = append(nb, src[:xs]...)
			nb = append(nb, src[ys:ye]...)
			nb = append(nb, src[xe:os]...)
			nb = append(nb, flip[be.Op].String()...)
			nb = append(nb, src[os+ol:ys]...)
			nb = append(nb, src[xs:xe]...)
			nb = append(nb, src[ye:]...)
			src = nb
		}
		out[name] = src
	}
	return out, nil
}

func callFree(info *types.Info, e ast.Expr) bool {
	ok := true
	ast.Inspect(e, func(m ast.Node) bool {
		switch x := m.(type) {
		case *ast.CallExpr:
			if tv, has := info.Types[x.Fun]; has && tv.IsType() {
				return true
			}
			if id, isID := x.Fun.(*ast.Ident); isID && (id.Name == "len" || id.Name == "cap") {
				if _, isB := info.Uses[id].(*types.Builtin); isB {
					return true
				}
			}
			ok = false
		case *ast.FuncLit:
			ok = false
		case *ast.UnaryExpr:
			if x.Op == token.ARROW {
				ok = false
			}
		}
		return ok
	})
	return ok
}

// unnestElse rewrites, in one statement list, every `if c { …; leaves } else { B… }` to `if c { …; leaves }; B…` and
// every `if c { …; leaves } else if d { … }` to two statements. The then-branch leaves when its last statement is a
// return, a continue, break or goto, or a call of panic.
func unnestElse(info *types.Info, list []ast.Stmt, n *int) []ast.Stmt {
	leaves := func(b *ast.BlockStmt) bool {
		if b == nil || len(b.List) == 0 {
			return false
		}
		switch x := b.List[len(b.List)-1].(type) {
		case *ast.ReturnStmt:
			return true
		case *ast.BranchStmt:
			return x.Tok == token.CONTINUE || x.Tok == token.BREAK || x.Tok == token.GOTO
		case *ast.ExprStmt:
			if c, ok := x.X.(*ast.CallExpr); ok {
				if id, isID := c.Fun.(*ast.Ident); isID && id.Name == "panic" {
					if _, isB := info.Uses[id].(*types.Builtin); isB {
						return true
					}
				}
			}
		}
		return false
	}
	changed := false
	for _, st := range list {
		if ifs, ok := st.(*ast.IfStmt); ok && ifs.Else != nil && leaves(ifs.Body) {
			changed = true
		}
	}
	if !changed {
		return list
	}
	out := make([]ast.Stmt, 0, len(list)+4)
	var add func(st ast.Stmt)
	add = func(st ast.Stmt) {
		ifs, ok := st.(*ast.IfStmt)
		if !ok || ifs.Else == nil || !leaves(ifs.Body) {
			out = append(out, st)
			return
		}
		els := ifs.Else
		ifs.Else = nil
		*n++
		out = append(out, ifs)
		switch e := els.(type) {
		case *ast.BlockStmt:
			for _, s2 := range e.List {
				add(s2)
			}
		default:
			add(els)
		}
	}
	for _, st := range list {
		add(st)
	}
	return out
}
