package core

import (
	"fmt"
	"go/ast"
	"go/token"
	"go/types"
	"sort"
	"strings"

	"golang.org/x/tools/go/packages"
)

// Linear is an integer linear combination of atoms plus a constant.
type Linear struct {
	Const int64
	Terms map[string]int64
	OK    bool
}

func (l Linear) String() string {
	if !l.OK {
		return "?"
	}
	var ks []string
	for k, c := range l.Terms {
		if c != 0 {
			ks = append(ks, k)
		}
	}
	sort.Strings(ks)
	var parts []string
	for _, k := range ks {
		c := l.Terms[k]
		switch c {
		case 1:
			parts = append(parts, "+"+k)
		case -1:
			parts = append(parts, "-"+k)
		default:
			parts = append(parts, fmt.Sprintf("%+d*%s", c, k))
		}
	}
	if l.Const != 0 || len(parts) == 0 {
		parts = append(parts, fmt.Sprintf("%+d", l.Const))
	}
	return strings.TrimPrefix(strings.Join(parts, ""), "+")
}

func (l Linear) add(m Linear, sign int64) Linear {
	if !l.OK || !m.OK {
		return Linear{}
	}
	out := Linear{Const: l.Const + sign*m.Const, Terms: map[string]int64{}, OK: true}
	for k, c := range l.Terms {
		out.Terms[k] += c
	}
	for k, c := range m.Terms {
		out.Terms[k] += sign * c
	}
	return out
}

func (l Linear) Add(m Linear) Linear { return l.add(m, 1) }
func (l Linear) Sub(m Linear) Linear { return l.add(m, -1) }

func (l Linear) scale(k int64) Linear {
	if !l.OK {
		return l
	}
	out := Linear{Const: l.Const * k, Terms: map[string]int64{}, OK: true}
	for a, c := range l.Terms {
		out.Terms[a] = c * k
	}
	return out
}

// Equal compares two linear forms.
func (l Linear) Equal(m Linear) bool {
	if !l.OK || !m.OK || l.Const != m.Const {
		return false
	}
	for k, c := range l.Terms {
		if m.Terms[k] != c {
			return false
		}
	}
	for k, c := range m.Terms {
		if l.Terms[k] != c {
			return false
		}
	}
	return true
}

func LinConst(c int64) Linear { return Linear{Const: c, Terms: map[string]int64{}, OK: true} }
func linAtom(a string) Linear { return Linear{Terms: map[string]int64{a: 1}, OK: true} }

// LinearEval turns an integer expression into a linear form. Locals with a
// single definition and package-level variables that are never reassigned are
// replaced by their defining expression; len(x) and field selections are atoms.
type LinearEval struct {
	Info *types.Info
	Pkg  *packages.Package
	Body *ast.BlockStmt
}

func (le *LinearEval) Eval(e ast.Expr) Linear { return le.eval(e, 0) }

func (le *LinearEval) eval(e ast.Expr, depth int) Linear {
	if depth > 6 {
		return Linear{}
	}
	e = Unparen(e)
	if v, ok := ConstInt(le.Info, e); ok {
		return LinConst(v)
	}
	switch x := e.(type) {
	case *ast.BinaryExpr:
		l, r := le.eval(x.X, depth), le.eval(x.Y, depth)
		switch x.Op {
		case token.ADD:
			return l.Add(r)
		case token.SUB:
			return l.Sub(r)
		case token.MUL:
			if l.OK && len(nonzero(l.Terms)) == 0 {
				return r.scale(l.Const)
			}
			if r.OK && len(nonzero(r.Terms)) == 0 {
				return l.scale(r.Const)
			}
		}
		return Linear{}
	case *ast.UnaryExpr:
		if x.Op == token.SUB {
			return le.eval(x.X, depth).scale(-1)
		}
		return Linear{}
	case *ast.CallExpr:
		// conversion
		if tv, ok := le.Info.Types[x.Fun]; ok && tv.IsType() && len(x.Args) == 1 {
			return le.eval(x.Args[0], depth)
		}
		if IsBuiltin(le.Info, x, "len") && len(x.Args) == 1 {
			return linAtom("len(" + le.atomName(x.Args[0], depth) + ")")
		}
		if IsBuiltin(le.Info, x, "cap") && len(x.Args) == 1 {
			// cap(x[lo:]) is cap(x) - lo
			if se, ok := Unparen(x.Args[0]).(*ast.SliceExpr); ok && se.High == nil && se.Max == nil && se.Low != nil {
				lo := le.eval(se.Low, depth)
				if lo.OK {
					return linAtom("cap(" + le.atomName(se.X, depth) + ")").Sub(lo)
				}
				return Linear{}
			}
			return linAtom("cap(" + le.atomName(x.Args[0], depth) + ")")
		}
		// a method call without arguments is an atom named by its receiver: x.M()
		if sel, ok := x.Fun.(*ast.SelectorExpr); ok && len(x.Args) == 0 {
			if _, isMethod := le.Info.Selections[sel]; isMethod {
				return linAtom(le.atomName(sel.X, depth) + "." + sel.Sel.Name + "()")
			}
		}
		return Linear{}
	case *ast.SelectorExpr:
		return linAtom(types.ExprString(x))
	case *ast.Ident:
		obj := le.Info.Uses[x]
		if obj == nil {
			obj = le.Info.Defs[x]
		}
		v, ok := obj.(*types.Var)
		if !ok {
			return Linear{}
		}
		if def := le.singleDef(v); def != nil {
			if r := le.eval(def, depth+1); r.OK {
				return r
			}
		}
		return linAtom(x.Name)
	}
	return Linear{}
}

func nonzero(m map[string]int64) []string {
	var out []string
	for k, c := range m {
		if c != 0 {
			out = append(out, k)
		}
	}
	return out
}

func (le *LinearEval) atomName(e ast.Expr, depth int) string {
	e = Unparen(e)
	if id, ok := e.(*ast.Ident); ok {
		if v, ok := le.Info.Uses[id].(*types.Var); ok {
			if def := le.singleDef(v); def != nil {
				// x := []byte(string(r)) has no simpler name: keep the variable
				if _, isIdent := Unparen(def).(*ast.Ident); isIdent {
					return le.atomName(def, depth+1)
				}
			}
		}
		return id.Name
	}
	return types.ExprString(e)
}

// ResolveSingleDef looks through a local that is assigned exactly once (and never has its address
// taken) to the expression it was given; any other expression is returned unchanged.
func ResolveSingleDef(info *types.Info, body *ast.BlockStmt, e ast.Expr) ast.Expr {
	for i := 0; i < 4; i++ {
		id, ok := Unparen(e).(*ast.Ident)
		if !ok {
			return e
		}
		v, ok := info.Uses[id].(*types.Var)
		if !ok {
			return e
		}
		def := (&LinearEval{Info: info, Body: body}).singleDef(v)
		if def == nil {
			return e
		}
		e = def
	}
	return e
}

// singleDef returns the defining expression of a variable that is assigned exactly once.
func (le *LinearEval) singleDef(v *types.Var) ast.Expr {
	var def ast.Expr
	n := 0
	scan := func(root ast.Node) {
		ast.Inspect(root, func(m ast.Node) bool {
			switch s := m.(type) {
			case *ast.AssignStmt:
				for i, l := range s.Lhs {
					if ObjOf(le.Info, l) == v {
						n++
						if len(s.Lhs) == len(s.Rhs) && (s.Tok == token.DEFINE || s.Tok == token.ASSIGN) {
							def = s.Rhs[i]
						} else {
							n++
						}
					}
				}
			case *ast.IncDecStmt:
				if ObjOf(le.Info, s.X) == v {
					n += 2
				}
			case *ast.ValueSpec:
				for i, id := range s.Names {
					if le.Info.Defs[id] == v && i < len(s.Values) {
						n++
						def = s.Values[i]
					}
				}
			case *ast.UnaryExpr:
				if s.Op == token.AND && ObjOf(le.Info, s.X) == v {
					n += 2
				}
			}
			return true
		})
	}
	if v.Pkg() != nil && v.Parent() == v.Pkg().Scope() {
		if le.Pkg == nil {
			return nil
		}
		for _, f := range le.Pkg.Syntax {
			scan(f)
		}
	} else if le.Body != nil {
		// parameters are not definable
		scan(le.Body)
	}
	if n == 1 {
		return def
	}
	return nil
}
