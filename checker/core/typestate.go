package core

import (
	"go/ast"
	"go/token"
	"go/types"
	"sort"

	"golang.org/x/tools/go/cfg"
)

// StaleUse is one use of a variable while it is stale.
type StaleUse struct {
	Obj  types.Object
	Pos  token.Pos
	Node ast.Node
}

// StaleSpec configures the forward may-analysis (A7): a node may invalidate
// variables (they become stale after it), may refresh variables (assignment
// targets are refreshed automatically), and stale variables must not be read.
type StaleSpec struct {
	Info       *types.Info
	Invalidate func(n ast.Node) []types.Object
	// ExtraRefresh: variables refreshed by the node besides its assignment targets.
	ExtraRefresh func(n ast.Node) []types.Object
	// IgnoreUse: reads that are harmless while stale (e.g. passing the variable to the function that refreshes it).
	IgnoreUse func(n ast.Node, id *ast.Ident) bool
}

// StaleUses runs the analysis over a function CFG and returns each distinct use of a stale variable.
func StaleUses(cf *FuncCFG, spec StaleSpec) []StaleUse {
	info := spec.Info
	in := map[*cfg.Block]map[types.Object]bool{}
	var finds []StaleUse
	seen := map[token.Pos]bool{}
	transfer := func(b *cfg.Block, st map[types.Object]bool, report bool) map[types.Object]bool {
		cur := map[types.Object]bool{}
		for k := range st {
			cur[k] = true
		}
		for _, n := range b.Nodes {
			assigned := map[types.Object]bool{}
			lhsIdent := map[*ast.Ident]bool{}
			if s, ok := n.(*ast.AssignStmt); ok {
				for _, l := range s.Lhs {
					if id, ok := Unparen(l).(*ast.Ident); ok {
						lhsIdent[id] = true
						if o := ObjOf(info, id); o != nil && (s.Tok == token.ASSIGN || s.Tok == token.DEFINE) {
							assigned[o] = true
						}
					}
				}
			}
			if spec.ExtraRefresh != nil {
				for _, o := range spec.ExtraRefresh(n) {
					assigned[o] = true
				}
			}
			if report {
				ast.Inspect(n, func(m ast.Node) bool {
					if _, isLit := m.(*ast.FuncLit); isLit {
						return false
					}
					id, ok := m.(*ast.Ident)
					if !ok || lhsIdent[id] {
						return true
					}
					o := info.Uses[id]
					if o != nil && cur[o] && !seen[id.Pos()] {
						if spec.IgnoreUse != nil && spec.IgnoreUse(n, id) {
							return true
						}
						seen[id.Pos()] = true
						finds = append(finds, StaleUse{o, id.Pos(), n})
					}
					return true
				})
			}
			for _, o := range spec.Invalidate(n) {
				cur[o] = true
			}
			for o := range assigned {
				delete(cur, o)
			}
		}
		return cur
	}
	var work []*cfg.Block
	for _, b := range cf.G.Blocks {
		if cf.Reachable(b) {
			work = append(work, b)
			in[b] = map[types.Object]bool{}
		}
	}
	for len(work) > 0 {
		b := work[0]
		work = work[1:]
		out := transfer(b, in[b], false)
		for _, s := range b.Succs {
			if in[s] == nil {
				in[s] = map[types.Object]bool{}
			}
			grew := false
			for o := range out {
				if !in[s][o] {
					in[s][o] = true
					grew = true
				}
			}
			if grew {
				work = append(work, s)
			}
		}
	}
	for _, b := range cf.G.Blocks {
		if cf.Reachable(b) {
			transfer(b, in[b], true)
		}
	}
	sort.Slice(finds, func(i, j int) bool { return finds[i].Pos < finds[j].Pos })
	return finds
}
