package core

import (
	"fmt"
	"go/ast"
	"go/constant"
	"go/token"
	"go/types"
	"strings"
	"unicode"
	"unicode/utf16"
)

// BytePred evaluates integer and boolean expressions over a finite environment:
// variables bound to concrete values, constants, constant tables, and calls to
// small module functions (straight-line code with if/return). It is used to
// compute, for each of the 256 byte values, what a classification expression in
// the source yields. Nothing of the analysed program is executed: the evaluator
// folds the expression tree the way the constant-table evaluator folds literals.
type BytePred struct {
	P          *Program
	Steps      int
	ctl        int                   // an unlabelled break or continue travelling to its loop
	initFolded map[types.Object]bool // tables whose filling init function has been folded
	// OutOfRange describes the index expression that left a bound text (the fold fails there: the code would panic).
	OutOfRange string
	// Stores collects `T[i] = v` assignments to package-level tables made by interpreted
	// statements (table-filling init loops with constant bounds).
	Stores map[types.Object]map[int64]int64
	// Strings binds string or []byte variables to concrete bytes: s[i] and len(s) fold over them.
	Strings map[types.Object][]byte
	// Results holds the values of the last multi-value return statement that was interpreted.
	Results []int64
	// Fields binds struct fields (code.NumBitSize) to concrete values: a selector that names a bound field folds to it.
	Fields map[types.Object]int64
	// Globals binds package-level variables that are set once at start-up (the detected endianness).
	Globals map[types.Object]int64
	// ResultBytes holds the bytes of the last `return append(<bound slice>, …)` that was interpreted.
	ResultBytes []byte
	tables      map[types.Object]*Table
	arrays      map[types.Object]*bpArray     // local arrays (`var b [22]byte`), zeroed at declaration
	views       map[types.Object]bpView       // `u := (*[11]uint16)(unsafe.Pointer(&b))`: another element width over the same bytes
	tabPtrs     map[types.Object]types.Object // a local that points to a package-level table (`lookup := intLookup[k]`)
}

// bpArray is the memory of a local array, byte by byte.
type bpArray struct{ mem []byte }

// bpView reads and writes a local array's memory with elements of another width (little endian, the layout the
// analysed code selects on such a host through its own endianness switch).
type bpView struct {
	base  types.Object
	width int
}

type bpVal struct {
	I   int64
	B   bool
	Is  bool // is boolean
	S   string
	IsS bool // is a string
	U   bool // a value the folder does not compute (floating point): it may be stored and returned, not used
}

type bpEnv map[types.Object]bpVal

const bpMaxSteps = 200000

const (
	bpContinue = 1
	bpBreak    = 2
)

// EvalBool evaluates a boolean expression under env.
func (bp *BytePred) EvalBool(info *types.Info, e ast.Expr, env bpEnv) (bool, bool) {
	v, ok := bp.eval(info, e, env, 0)
	if !ok || !v.Is {
		return false, false
	}
	return v.B, true
}

// Bind returns an environment with obj bound to the integer v.
func Bind(obj types.Object, v int64) bpEnv { return bpEnv{obj: {I: v}} }

// trunc cuts v to the width of t in the configuration that is analysed: int, uint and uintptr are 32 bits wide in the
// 386 configuration.
func (bp *BytePred) trunc(t types.Type, v int64) int64 {
	if bp != nil && bp.P != nil && bp.P.Config == "386" && t != nil {
		if b, ok := t.Underlying().(*types.Basic); ok {
			switch b.Kind() {
			case types.Int:
				return int64(int32(v))
			case types.Uint, types.Uintptr:
				return int64(uint32(v))
			}
		}
	}
	return truncate(t, v)
}

func truncate(t types.Type, v int64) int64 {
	b, ok := t.Underlying().(*types.Basic)
	if !ok {
		return v
	}
	switch b.Kind() {
	case types.Uint8:
		return int64(uint8(v))
	case types.Int8:
		return int64(int8(v))
	case types.Uint16:
		return int64(uint16(v))
	case types.Int16:
		return int64(int16(v))
	case types.Uint32:
		return int64(uint32(v))
	case types.Int32:
		return int64(int32(v))
	}
	return v
}

// isUnsigned64 reports whether values of t are unsigned and 64 bits wide (uint64, uint, uintptr on the analysed
// 64-bit configuration): comparison, division and right shift then work on the bit pattern as an unsigned number.
func isUnsigned64(t types.Type) bool {
	if t == nil {
		return false
	}
	b, ok := t.Underlying().(*types.Basic)
	if !ok {
		return false
	}
	switch b.Kind() {
	case types.Uint64, types.Uint, types.Uintptr:
		return true
	}
	return false
}

// eval evaluates an expression. An expression of a floating-point type is not computed: its value is the unknown U,
// which can be assigned and returned; every other use of it (evalV) fails the fold.
func (bp *BytePred) eval(info *types.Info, e ast.Expr, env bpEnv, depth int) (bpVal, bool) {
	if tv, ok := info.Types[e]; ok && tv.Type != nil {
		if b, isB := tv.Type.Underlying().(*types.Basic); isB && b.Info()&types.IsFloat != 0 {
			return bpVal{U: true}, true
		}
	}
	return bp.evalRaw(info, e, env, depth)
}

// evalV evaluates an expression whose value is needed.
func (bp *BytePred) evalV(info *types.Info, e ast.Expr, env bpEnv, depth int) (bpVal, bool) {
	v, ok := bp.eval(info, e, env, depth)
	if !ok || v.U {
		return bpVal{}, false
	}
	return v, true
}

func (bp *BytePred) evalRaw(info *types.Info, e ast.Expr, env bpEnv, depth int) (bpVal, bool) {
	bp.Steps++
	if bp.Steps > bpMaxSteps || depth > 40 {
		return bpVal{}, false
	}
	e = Unparen(e)
	if tv, ok := info.Types[e]; ok && tv.Value != nil {
		switch tv.Value.Kind() {
		case constant.Bool:
			return bpVal{B: constant.BoolVal(tv.Value), Is: true}, true
		case constant.Int:
			if v, ok := constant.Int64Val(tv.Value); ok {
				return bpVal{I: v}, true
			}
			if v, ok := constant.Uint64Val(tv.Value); ok {
				return bpVal{I: int64(v)}, true // the bit pattern
			}
		case constant.String:
			return bpVal{S: constant.StringVal(tv.Value), IsS: true}, true
		}
	}
	switch x := e.(type) {
	case *ast.Ident:
		obj := info.Uses[x]
		if obj == nil {
			obj = info.Defs[x]
		}
		if v, ok := env[obj]; ok {
			return v, true
		}
		if v, ok := ConstInt(info, x); ok {
			return bpVal{I: v}, true
		}
		if v, ok := bp.Globals[obj]; ok {
			return bpVal{I: v}, true
		}
		return bpVal{}, false
	case *ast.SelectorExpr:
		if f, ok := info.Uses[x.Sel].(*types.Var); ok && f.IsField() {
			if v, bound := bp.Fields[f]; bound {
				return bpVal{I: v}, true
			}
		}
		return bpVal{}, false
	case *ast.UnaryExpr:
		v, ok := bp.evalV(info, x.X, env, depth+1)
		if !ok {
			return v, false
		}
		switch x.Op {
		case token.NOT:
			return bpVal{B: !v.B, Is: true}, v.Is
		case token.SUB:
			return bpVal{I: bp.trunc(info.Types[e].Type, -v.I)}, !v.Is
		case token.XOR:
			t := info.Types[e].Type
			return bpVal{I: bp.trunc(t, ^v.I)}, !v.Is
		}
		return bpVal{}, false
	case *ast.BinaryExpr:
		l, ok := bp.evalV(info, x.X, env, depth+1)
		if !ok {
			return l, false
		}
		// short circuit
		if x.Op == token.LAND && l.Is && !l.B {
			return bpVal{B: false, Is: true}, true
		}
		if x.Op == token.LOR && l.Is && l.B {
			return bpVal{B: true, Is: true}, true
		}
		r, ok := bp.evalV(info, x.Y, env, depth+1)
		if !ok {
			return r, false
		}
		t := info.Types[e].Type
		if l.IsS || r.IsS {
			if !l.IsS || !r.IsS {
				return bpVal{}, false
			}
			switch x.Op {
			case token.EQL:
				return bpVal{B: l.S == r.S, Is: true}, true
			case token.NEQ:
				return bpVal{B: l.S != r.S, Is: true}, true
			case token.LSS:
				return bpVal{B: l.S < r.S, Is: true}, true
			case token.LEQ:
				return bpVal{B: l.S <= r.S, Is: true}, true
			case token.GTR:
				return bpVal{B: l.S > r.S, Is: true}, true
			case token.GEQ:
				return bpVal{B: l.S >= r.S, Is: true}, true
			}
			return bpVal{}, false
		}
		switch x.Op {
		case token.LAND:
			return bpVal{B: l.B && r.B, Is: true}, l.Is && r.Is
		case token.LOR:
			return bpVal{B: l.B || r.B, Is: true}, l.Is && r.Is
		case token.EQL:
			if l.Is {
				return bpVal{B: l.B == r.B, Is: true}, true
			}
			return bpVal{B: l.I == r.I, Is: true}, true
		case token.NEQ:
			if l.Is {
				return bpVal{B: l.B != r.B, Is: true}, true
			}
			return bpVal{B: l.I != r.I, Is: true}, true
		case token.LSS, token.LEQ, token.GTR, token.GEQ:
			if isUnsigned64(info.TypeOf(x.X)) || isUnsigned64(info.TypeOf(x.Y)) {
				a, b := uint64(l.I), uint64(r.I)
				switch x.Op {
				case token.LSS:
					return bpVal{B: a < b, Is: true}, true
				case token.LEQ:
					return bpVal{B: a <= b, Is: true}, true
				case token.GTR:
					return bpVal{B: a > b, Is: true}, true
				}
				return bpVal{B: a >= b, Is: true}, true
			}
			switch x.Op {
			case token.LSS:
				return bpVal{B: l.I < r.I, Is: true}, true
			case token.LEQ:
				return bpVal{B: l.I <= r.I, Is: true}, true
			case token.GTR:
				return bpVal{B: l.I > r.I, Is: true}, true
			}
			return bpVal{B: l.I >= r.I, Is: true}, true
		case token.QUO, token.REM:
			if r.I == 0 {
				return bpVal{}, false
			}
			if isUnsigned64(t) {
				if x.Op == token.QUO {
					return bpVal{I: int64(uint64(l.I) / uint64(r.I))}, true
				}
				return bpVal{I: int64(uint64(l.I) % uint64(r.I))}, true
			}
			if bt, isBasic := t.Underlying().(*types.Basic); isBasic && bt.Info()&types.IsUnsigned != 0 {
				// narrower unsigned types hold non-negative values here
				if x.Op == token.QUO {
					return bpVal{I: bp.trunc(t, int64(uint64(l.I)/uint64(r.I)))}, true
				}
				return bpVal{I: bp.trunc(t, int64(uint64(l.I)%uint64(r.I)))}, true
			}
			if x.Op == token.QUO {
				return bpVal{I: bp.trunc(t, l.I/r.I)}, true
			}
			return bpVal{I: bp.trunc(t, l.I%r.I)}, true
		case token.ADD:
			return bpVal{I: bp.trunc(t, l.I+r.I)}, true
		case token.SUB:
			return bpVal{I: bp.trunc(t, l.I-r.I)}, true
		case token.MUL:
			return bpVal{I: bp.trunc(t, l.I*r.I)}, true
		case token.OR:
			return bpVal{I: bp.trunc(t, l.I|r.I)}, true
		case token.AND:
			return bpVal{I: bp.trunc(t, l.I&r.I)}, true
		case token.XOR:
			return bpVal{I: bp.trunc(t, l.I^r.I)}, true
		case token.AND_NOT:
			return bpVal{I: bp.trunc(t, l.I&^r.I)}, true
		case token.SHL:
			if r.I < 0 {
				return bpVal{}, false
			}
			if r.I >= 64 {
				return bpVal{I: 0}, true
			}
			return bpVal{I: bp.trunc(t, int64(uint64(l.I)<<uint(r.I)))}, true
		case token.SHR:
			if r.I < 0 {
				return bpVal{}, false
			}
			if isUnsigned64(t) || isUnsigned64(info.TypeOf(x.X)) {
				if r.I >= 64 {
					return bpVal{I: 0}, true
				}
				return bpVal{I: int64(uint64(l.I) >> uint(r.I))}, true
			}
			if r.I > 62 {
				return bpVal{}, false
			}
			return bpVal{I: bp.trunc(t, l.I>>uint(r.I))}, true
		}
		return bpVal{}, false
	case *ast.IndexExpr:
		// constant table
		obj := ObjOf(info, x.X)
		if obj == nil || obj.Pkg() == nil {
			return bpVal{}, false
		}
		iv, ok := bp.evalV(info, x.Index, env, depth+1)
		if !ok || iv.Is {
			return bpVal{}, false
		}
		if v, isLocal, ok := bp.loadLocal(obj, iv.I); isLocal {
			return bpVal{I: v}, ok
		}
		if tab, isPtr := bp.tabPtrs[obj]; isPtr {
			obj = tab
		}
		if bs, bound := bp.Strings[obj]; bound {
			if iv.I < 0 || iv.I >= int64(len(bs)) {
				// the analysed code indexes beyond the text it was given: a panic at run time
				bp.OutOfRange = fmt.Sprintf("%s[%d] with length %d", obj.Name(), iv.I, len(bs))
				return bpVal{}, false
			}
			return bpVal{I: int64(bs[iv.I])}, true
		}
		for _, pk := range bp.P.All {
			if pk.Types != obj.Pkg() {
				continue
			}
			if obj.Parent() != pk.Types.Scope() {
				return bpVal{}, false
			}
			if bp.tables == nil {
				bp.tables = map[types.Object]*Table{}
			}
			t, cached := bp.tables[obj]
			if !cached {
				t = EvalTable(pk, obj.Name())
				bp.tables[obj] = t
			}
			if t == nil || t.Opaque {
				// a table filled by a loop in an init function: the loop is folded once and its stores are read
				if bp.initFolded == nil {
					bp.initFolded = map[types.Object]bool{}
				}
				if !bp.initFolded[obj] {
					bp.initFolded[obj] = true
					for _, f := range pk.Syntax {
						for _, d := range f.Decls {
							fd, isFn := d.(*ast.FuncDecl)
							if !isFn || fd.Recv != nil || fd.Name.Name != "init" || fd.Body == nil {
								continue
							}
							fills := false
							ast.Inspect(fd.Body, func(m ast.Node) bool {
								if as, isAs := m.(*ast.AssignStmt); isAs {
									for _, l := range as.Lhs {
										if ix, isIx := Unparen(l).(*ast.IndexExpr); isIx && ObjOf(pk.TypesInfo, ix.X) == obj {
											fills = true
										}
									}
								}
								return true
							})
							if fills {
								steps, ctl := bp.Steps, bp.ctl
								bp.Steps = 0
								bp.exec(pk.TypesInfo, fd.Body.List, bpEnv{}, depth+1)
								bp.Steps, bp.ctl = steps, ctl
							}
						}
					}
				}
				if st, filled := bp.Stores[obj]; filled {
					if at, isArr := obj.Type().Underlying().(*types.Array); isArr && iv.I >= 0 && iv.I < at.Len() {
						return bpVal{I: st[iv.I]}, true
					}
				}
				return bpVal{}, false
			}
			if t.Len >= 0 && (iv.I < 0 || iv.I >= int64(t.Len)) {
				return bpVal{}, false
			}
			c := t.Elems[int(iv.I)]
			if c == nil {
				if b, ok := t.Elem.Underlying().(*types.Basic); ok && b.Info()&types.IsBoolean != 0 {
					return bpVal{Is: true}, true
				}
				return bpVal{}, true
			}
			switch c.Kind() {
			case constant.Bool:
				return bpVal{B: constant.BoolVal(c), Is: true}, true
			case constant.Int:
				if v, ok := constant.Int64Val(c); ok {
					return bpVal{I: v}, true
				}
				if v, ok := constant.Uint64Val(c); ok {
					return bpVal{I: int64(v)}, true // the bit pattern of a uint64 above MaxInt64
				}
				return bpVal{}, false
			case constant.Float:
				// an untyped float constant that denotes an integer (1e19 in an integer table)
				if iv := constant.ToInt(c); iv.Kind() == constant.Int {
					if v, ok := constant.Int64Val(iv); ok {
						return bpVal{I: v}, true
					}
					if v, ok := constant.Uint64Val(iv); ok {
						return bpVal{I: int64(v)}, true
					}
				}
				return bpVal{}, false
			}
			return bpVal{}, false
		}
		return bpVal{}, false
	case *ast.CallExpr:
		// conversion
		if tv, ok := info.Types[x.Fun]; ok && tv.IsType() && len(x.Args) == 1 {
			if b, isBasic := tv.Type.Underlying().(*types.Basic); isBasic && b.Kind() == types.String {
				if bs, bound := bp.Strings[ObjOf(info, x.Args[0])]; bound {
					return bpVal{S: string(bs), IsS: true}, true
				}
			}
			v, ok := bp.evalV(info, x.Args[0], env, depth+1)
			if !ok || v.Is {
				return v, ok
			}
			return bpVal{I: bp.trunc(tv.Type, v.I)}, true
		}
		if IsBuiltin(info, x, "len") && len(x.Args) == 1 {
			if bs, bound := bp.Strings[ObjOf(info, x.Args[0])]; bound {
				return bpVal{I: int64(len(bs))}, true
			}
		}
		callee := Callee(info, x)
		if callee == nil {
			return bpVal{}, false
		}
		if callee.Pkg() != nil && callee.Pkg().Path() == "unicode/utf16" {
			// pure functions of the standard library, folded natively
			var args []int64
			for _, a := range x.Args {
				v, ok := bp.evalV(info, a, env, depth+1)
				if !ok || v.Is {
					return bpVal{}, false
				}
				args = append(args, v.I)
			}
			switch {
			case callee.Name() == "IsSurrogate" && len(args) == 1:
				return bpVal{B: utf16.IsSurrogate(rune(args[0])), Is: true}, true
			case callee.Name() == "DecodeRune" && len(args) == 2:
				return bpVal{I: int64(utf16.DecodeRune(rune(args[0]), rune(args[1])))}, true
			}
			return bpVal{}, false
		}
		if callee.Pkg() != nil && callee.Pkg().Path() == "unicode" && len(x.Args) == 1 {
			v, ok := bp.evalV(info, x.Args[0], env, depth+1)
			if !ok || v.Is {
				return bpVal{}, false
			}
			switch callee.Name() {
			case "IsLetter":
				return bpVal{B: unicode.IsLetter(rune(v.I)), Is: true}, true
			case "IsDigit":
				return bpVal{B: unicode.IsDigit(rune(v.I)), Is: true}, true
			case "IsSpace":
				return bpVal{B: unicode.IsSpace(rune(v.I)), Is: true}, true
			case "IsUpper":
				return bpVal{B: unicode.IsUpper(rune(v.I)), Is: true}, true
			case "IsLower":
				return bpVal{B: unicode.IsLower(rune(v.I)), Is: true}, true
			case "IsTitle":
				return bpVal{B: unicode.IsTitle(rune(v.I)), Is: true}, true
			case "IsNumber":
				return bpVal{B: unicode.IsNumber(rune(v.I)), Is: true}, true
			case "IsPunct":
				return bpVal{B: unicode.IsPunct(rune(v.I)), Is: true}, true
			case "IsSymbol":
				return bpVal{B: unicode.IsSymbol(rune(v.I)), Is: true}, true
			case "IsMark":
				return bpVal{B: unicode.IsMark(rune(v.I)), Is: true}, true
			case "IsControl":
				return bpVal{B: unicode.IsControl(rune(v.I)), Is: true}, true
			case "IsGraphic":
				return bpVal{B: unicode.IsGraphic(rune(v.I)), Is: true}, true
			case "IsPrint":
				return bpVal{B: unicode.IsPrint(rune(v.I)), Is: true}, true
			case "ToLower":
				return bpVal{I: int64(unicode.ToLower(rune(v.I)))}, true
			case "ToUpper":
				return bpVal{I: int64(unicode.ToUpper(rune(v.I)))}, true
			case "SimpleFold":
				return bpVal{I: int64(unicode.SimpleFold(rune(v.I)))}, true
			}
			return bpVal{}, false
		}
		if callee.Pkg() != nil && callee.Pkg().Path() == "strings" && len(x.Args) == 2 {
			// membership of a rune or byte in a constant string
			tv, has := info.Types[x.Args[0]]
			if !has || tv.Value == nil || tv.Value.Kind() != constant.String {
				return bpVal{}, false
			}
			set := constant.StringVal(tv.Value)
			v, ok := bp.evalV(info, x.Args[1], env, depth+1)
			if !ok || v.Is {
				return bpVal{}, false
			}
			switch callee.Name() {
			case "ContainsRune":
				return bpVal{B: strings.ContainsRune(set, rune(v.I)), Is: true}, true
			case "IndexRune":
				return bpVal{I: int64(strings.IndexRune(set, rune(v.I)))}, true
			case "IndexByte":
				return bpVal{I: int64(strings.IndexByte(set, byte(v.I)))}, true
			}
			return bpVal{}, false
		}
		fd := bp.P.DeclOf(callee)
		if fd == nil || fd.Body == nil || fd.Recv != nil {
			return bpVal{}, false
		}
		cinfo := bp.P.Info(fd)
		cenv := bpEnv{}
		k := 0
		for _, f := range fd.Type.Params.List {
			for _, nm := range f.Names {
				if k >= len(x.Args) {
					return bpVal{}, false
				}
				// a bound text handed on as an argument stays bound under the parameter's name
				if id, isID := Unparen(x.Args[k]).(*ast.Ident); isID {
					if bs, bound := bp.Strings[ObjOf(info, id)]; bound {
						if bp.Strings != nil {
							bp.Strings[cinfo.Defs[nm]] = bs
						}
						k++
						continue
					}
				}
				v, ok := bp.evalV(info, x.Args[k], env, depth+1)
				if !ok {
					return v, false
				}
				cenv[cinfo.Defs[nm]] = v
				k++
			}
		}
		if k != len(x.Args) {
			return bpVal{}, false
		}
		v, done, ok := bp.exec(cinfo, fd.Body.List, cenv, depth+1)
		if !ok || !done {
			return bpVal{}, false
		}
		return v, true
	}
	return bpVal{}, false
}

// exec interprets a statement list: assignments to bound variables, if, return, simple switch.
func (bp *BytePred) exec(info *types.Info, list []ast.Stmt, env bpEnv, depth int) (ret bpVal, done, ok bool) {
	for _, st := range list {
		if bp.ctl != 0 {
			// an unlabelled break or continue is on its way to the enclosing loop (or switch)
			return bpVal{}, false, true
		}
		bp.Steps++
		if bp.Steps > bpMaxSteps {
			return bpVal{}, false, false
		}
		switch s := st.(type) {
		case *ast.BranchStmt:
			if s.Label != nil {
				return bpVal{}, false, false
			}
			switch s.Tok {
			case token.CONTINUE:
				bp.ctl = bpContinue
			case token.BREAK:
				bp.ctl = bpBreak
			default:
				return bpVal{}, false, false
			}
			return bpVal{}, false, true
		case *ast.ReturnStmt:
			if len(s.Results) == 0 {
				return bpVal{}, false, false
			}
			if len(s.Results) > 1 {
				bp.Results = bp.Results[:0]
				var first bpVal
				for i, r := range s.Results {
					var v bpVal
					ok := false
					if tv, has := info.Types[r]; has && tv.Type != nil && tv.Type.String() == "error" {
						// an error result: nil, or a value made by a call (fmt.Errorf, an error constructor)
						if IsNilIdent(info, r) {
							v, ok = bpVal{I: 0}, true
						} else if _, isCall := Unparen(r).(*ast.CallExpr); isCall {
							v, ok = bpVal{I: 1}, true
						}
					} else if IsNilIdent(info, r) {
						v, ok = bpVal{I: 0}, true
					} else {
						v, ok = bp.eval(info, r, env, depth+1)
					}
					if !ok {
						return bpVal{}, false, false
					}
					if i == 0 {
						first = v
					}
					x := v.I
					if v.Is {
						x = 0
						if v.B {
							x = 1
						}
					}
					bp.Results = append(bp.Results, x)
				}
				return first, true, true
			}
			if out, isBytes := bp.appendedBytes(info, s.Results[0], env, depth); isBytes {
				bp.ResultBytes = out
				return bpVal{}, true, true
			}
			v, ok := bp.eval(info, s.Results[0], env, depth+1)
			if ok && !v.IsS {
				// the single result is recorded like a result list of one
				x := v.I
				if v.Is {
					x = 0
					if v.B {
						x = 1
					}
				}
				bp.Results = append(bp.Results[:0], x)
			}
			return v, true, ok
		case *ast.IncDecStmt:
			obj := ObjOf(info, s.X)
			l, have := env[obj]
			if obj == nil || !have || l.Is {
				return bpVal{}, false, false
			}
			if s.Tok == token.INC {
				l.I++
			} else {
				l.I--
			}
			env[obj] = bpVal{I: bp.trunc(obj.Type(), l.I)}
		case *ast.ForStmt:
			if s.Init != nil {
				if _, _, ok := bp.exec(info, []ast.Stmt{s.Init}, env, depth+1); !ok {
					return bpVal{}, false, false
				}
			}
			for iter := 0; ; iter++ {
				if iter > 100000 {
					return bpVal{}, false, false
				}
				if s.Cond != nil {
					c, ok := bp.eval(info, s.Cond, env, depth+1)
					if !ok || !c.Is {
						return bpVal{}, false, false
					}
					if !c.B {
						break
					}
				}
				if v, done, ok := bp.exec(info, s.Body.List, env, depth+1); !ok || done {
					return v, done, ok
				}
				if bp.ctl == bpBreak {
					bp.ctl = 0
					break
				}
				bp.ctl = 0
				if s.Post != nil {
					if _, _, ok := bp.exec(info, []ast.Stmt{s.Post}, env, depth+1); !ok {
						return bpVal{}, false, false
					}
				}
			}
		case *ast.RangeStmt:
			// for i := range <array>: the index runs over the array's length
			tv := info.Types[s.X]
			// for i, c := range <bound byte string or a re-slice of one>: index and byte value
			if bs, isBound := bp.boundBytes(info, s.X, env, depth); isBound {
				var kobj, vobj types.Object
				if s.Key != nil {
					if id, isID := s.Key.(*ast.Ident); !isID || id.Name != "_" {
						kobj = ObjOf(info, s.Key)
					}
				}
				if s.Value != nil {
					if id, isID := s.Value.(*ast.Ident); !isID || id.Name != "_" {
						vobj = ObjOf(info, s.Value)
					}
				}
				if _, isStr := tv.Type.Underlying().(*types.Basic); isStr {
					return bpVal{}, false, false // ranging over a string yields runes: not modelled
				}
				for i := range bs {
					if kobj != nil {
						env[kobj] = bpVal{I: int64(i)}
					}
					if vobj != nil {
						env[vobj] = bpVal{I: int64(bs[i])}
					}
					if v, done, ok := bp.exec(info, s.Body.List, env, depth+1); !ok || done {
						return v, done, ok
					}
					if bp.ctl == bpBreak {
						bp.ctl = 0
						break
					}
					bp.ctl = 0
				}
				continue
			}
			arr, isArr := tv.Type.Underlying().(*types.Array)
			if !isArr || s.Value != nil || s.Key == nil {
				return bpVal{}, false, false
			}
			kobj := ObjOf(info, s.Key)
			if kobj == nil {
				return bpVal{}, false, false
			}
			for i := int64(0); i < arr.Len(); i++ {
				env[kobj] = bpVal{I: i}
				if v, done, ok := bp.exec(info, s.Body.List, env, depth+1); !ok || done {
					return v, done, ok
				}
				if bp.ctl == bpBreak {
					bp.ctl = 0
					break
				}
				bp.ctl = 0
			}
		case *ast.AssignStmt:
			if len(s.Lhs) > 1 && len(s.Lhs) == len(s.Rhs) && (s.Tok == token.DEFINE || s.Tok == token.ASSIGN) {
				// a, b := x, y: the right-hand sides are evaluated first, then assigned
				vals := make([]bpVal, len(s.Rhs))
				for i, r := range s.Rhs {
					v, ok := bp.eval(info, r, env, depth+1)
					if !ok {
						return bpVal{}, false, false
					}
					vals[i] = v
				}
				for i, l := range s.Lhs {
					if id, isID := l.(*ast.Ident); isID && id.Name == "_" {
						continue
					}
					obj := ObjOf(info, l)
					if obj == nil {
						return bpVal{}, false, false
					}
					v := vals[i]
					if !v.Is && !v.IsS && !v.U {
						v.I = bp.trunc(obj.Type(), v.I)
					}
					env[obj] = v
				}
				continue
			}
			if len(s.Lhs) != 1 || len(s.Rhs) != 1 {
				return bpVal{}, false, false
			}
			if id, isID := Unparen(s.Rhs[0]).(*ast.Ident); isID && (s.Tok == token.DEFINE || s.Tok == token.ASSIGN) {
				// an alias of a bound byte string
				if bs, bound := bp.Strings[ObjOf(info, id)]; bound {
					if lobj := ObjOf(info, s.Lhs[0]); lobj != nil {
						bp.Strings[lobj] = bs
						continue
					}
				}
			}
			if ix, isIx := Unparen(s.Lhs[0]).(*ast.IndexExpr); isIx && s.Tok == token.ASSIGN {
				tobj := ObjOf(info, ix.X)
				iv, ok1 := bp.eval(info, ix.Index, env, depth+1)
				rv, ok2 := bp.eval(info, s.Rhs[0], env, depth+1)
				if ok1 && ok2 && !iv.Is && !rv.Is {
					if isLocal, ok := bp.storeLocal(tobj, iv.I, rv.I); isLocal {
						if !ok {
							return bpVal{}, false, false
						}
						continue
					}
				}
				if tobj == nil || tobj.Pkg() == nil || tobj.Parent() != tobj.Pkg().Scope() || !ok1 || !ok2 || iv.Is || rv.Is {
					return bpVal{}, false, false
				}
				if bp.Stores == nil {
					bp.Stores = map[types.Object]map[int64]int64{}
				}
				if bp.Stores[tobj] == nil {
					bp.Stores[tobj] = map[int64]int64{}
				}
				if at, ok := tobj.Type().Underlying().(*types.Array); ok {
					rv.I = bp.trunc(at.Elem(), rv.I)
				}
				bp.Stores[tobj][iv.I] = rv.I
				continue
			}
			obj := ObjOf(info, s.Lhs[0])
			if obj == nil {
				return bpVal{}, false, false
			}
			if s.Tok == token.DEFINE || s.Tok == token.ASSIGN {
				// u := (*[N]T)(unsafe.Pointer(&b)): a view of a local array with another element width
				if base, width, isView := bp.viewOf(info, s.Rhs[0]); isView {
					if bp.views == nil {
						bp.views = map[types.Object]bpView{}
					}
					bp.views[obj] = bpView{base, width}
					continue
				}
				// lookup := tables[k] where tables is a package-level array of pointers to tables
				if tab, isTab := bp.tablePointer(info, s.Rhs[0], env, depth); isTab {
					if bp.tabPtrs == nil {
						bp.tabPtrs = map[types.Object]types.Object{}
					}
					bp.tabPtrs[obj] = tab
					continue
				}
			}
			if se, isSlice := Unparen(s.Rhs[0]).(*ast.SliceExpr); isSlice && (s.Tok == token.ASSIGN || s.Tok == token.DEFINE) {
				if bs, bound := bp.Strings[ObjOf(info, se.X)]; bound && se.Max == nil {
					lo, hi := int64(0), int64(len(bs))
					if se.Low != nil {
						v, ok := bp.eval(info, se.Low, env, depth+1)
						if !ok || v.Is || v.IsS {
							return bpVal{}, false, false
						}
						lo = v.I
					}
					if se.High != nil {
						v, ok := bp.eval(info, se.High, env, depth+1)
						if !ok || v.Is || v.IsS {
							return bpVal{}, false, false
						}
						hi = v.I
					}
					if lo < 0 || hi > int64(len(bs)) || lo > hi {
						return bpVal{}, false, false
					}
					bp.Strings[obj] = bs[lo:hi]
					continue
				}
			}
			r, ok := bp.eval(info, s.Rhs[0], env, depth+1)
			if !ok {
				return bpVal{}, false, false
			}
			if s.Tok == token.ASSIGN || s.Tok == token.DEFINE {
				if !r.Is && !r.IsS {
					r.I = bp.trunc(obj.Type(), r.I)
				}
				env[obj] = r
				continue
			}
			l, have := env[obj]
			if !have || l.Is || r.Is {
				return bpVal{}, false, false
			}
			var v int64
			switch s.Tok {
			case token.OR_ASSIGN:
				v = l.I | r.I
			case token.AND_ASSIGN:
				v = l.I & r.I
			case token.XOR_ASSIGN:
				v = l.I ^ r.I
			case token.ADD_ASSIGN:
				v = l.I + r.I
			case token.SUB_ASSIGN:
				v = l.I - r.I
			case token.AND_NOT_ASSIGN:
				v = l.I &^ r.I
			case token.MUL_ASSIGN:
				v = l.I * r.I
			case token.QUO_ASSIGN, token.REM_ASSIGN:
				if r.I == 0 {
					return bpVal{}, false, false
				}
				if bt, isBasic := obj.Type().Underlying().(*types.Basic); isBasic && bt.Info()&types.IsUnsigned != 0 {
					if s.Tok == token.QUO_ASSIGN {
						v = int64(uint64(l.I) / uint64(r.I))
					} else {
						v = int64(uint64(l.I) % uint64(r.I))
					}
				} else if s.Tok == token.QUO_ASSIGN {
					v = l.I / r.I
				} else {
					v = l.I % r.I
				}
			case token.SHL_ASSIGN:
				if r.I < 0 || r.I >= 64 {
					return bpVal{}, false, false
				}
				v = int64(uint64(l.I) << uint(r.I))
			case token.SHR_ASSIGN:
				if r.I < 0 || r.I >= 64 {
					return bpVal{}, false, false
				}
				if isUnsigned64(obj.Type()) {
					v = int64(uint64(l.I) >> uint(r.I))
				} else {
					v = l.I >> uint(r.I)
				}
			default:
				return bpVal{}, false, false
			}
			env[obj] = bpVal{I: bp.trunc(obj.Type(), v)}
		case *ast.IfStmt:
			if s.Init != nil {
				if _, _, ok := bp.exec(info, []ast.Stmt{s.Init}, env, depth+1); !ok {
					return bpVal{}, false, false
				}
			}
			c, ok := bp.eval(info, s.Cond, env, depth+1)
			if !ok || !c.Is {
				return bpVal{}, false, false
			}
			var body []ast.Stmt
			if c.B {
				body = s.Body.List
			} else if s.Else != nil {
				switch e := s.Else.(type) {
				case *ast.BlockStmt:
					body = e.List
				default:
					body = []ast.Stmt{e}
				}
			}
			if v, done, ok := bp.exec(info, body, env, depth+1); !ok || done {
				return v, done, ok
			}
		case *ast.SwitchStmt:
			if s.Init == nil && s.Tag == nil {
				// tagless switch: the first clause with a true condition
				var chosen *ast.CaseClause
				for _, c := range s.Body.List {
					cc := c.(*ast.CaseClause)
					if cc.List == nil {
						continue
					}
					for _, l := range cc.List {
						v, ok := bp.eval(info, l, env, depth+1)
						if !ok || !v.Is {
							return bpVal{}, false, false
						}
						if v.B && chosen == nil {
							chosen = cc
						}
					}
					if chosen != nil {
						break
					}
				}
				if chosen == nil {
					for _, c := range s.Body.List {
						if cc := c.(*ast.CaseClause); cc.List == nil {
							chosen = cc
						}
					}
				}
				if chosen != nil {
					for _, b := range chosen.Body {
						if br, ok := b.(*ast.BranchStmt); ok && br.Tok == token.FALLTHROUGH {
							return bpVal{}, false, false
						}
					}
					if v, done, ok := bp.exec(info, chosen.Body, env, depth+1); !ok || done {
						return v, done, ok
					}
					if bp.ctl == bpBreak {
						bp.ctl = 0
					}
				}
				continue
			}
			if s.Init != nil || s.Tag == nil {
				return bpVal{}, false, false
			}
			tag, ok := bp.eval(info, s.Tag, env, depth+1)
			if !ok || tag.Is {
				return bpVal{}, false, false
			}
			var chosen, def *ast.CaseClause
			for _, c := range s.Body.List {
				cc := c.(*ast.CaseClause)
				if cc.List == nil {
					def = cc
				}
				for _, l := range cc.List {
					v, ok := bp.eval(info, l, env, depth+1)
					if !ok || v.Is {
						return bpVal{}, false, false
					}
					if v.I == tag.I && chosen == nil {
						chosen = cc
					}
				}
			}
			if chosen == nil {
				chosen = def
			}
			if chosen != nil {
				for _, b := range chosen.Body {
					if br, ok := b.(*ast.BranchStmt); ok && br.Tok == token.FALLTHROUGH {
						return bpVal{}, false, false
					}
				}
				if v, done, ok := bp.exec(info, chosen.Body, env, depth+1); !ok || done {
					return v, done, ok
				}
				if bp.ctl == bpBreak {
					bp.ctl = 0
				}
			}
		case *ast.BlockStmt:
			if v, done, ok := bp.exec(info, s.List, env, depth+1); !ok || done {
				return v, done, ok
			}
		case *ast.DeclStmt:
			// `var x T` without a value: an integer or boolean variable starts at its zero value
			if gd, ok := s.Decl.(*ast.GenDecl); ok && gd.Tok == token.VAR {
				for _, sp := range gd.Specs {
					vs, ok := sp.(*ast.ValueSpec)
					if !ok || len(vs.Values) != 0 {
						continue
					}
					for _, nm := range vs.Names {
						if o := info.Defs[nm]; o != nil {
							if at, isArr := o.Type().Underlying().(*types.Array); isArr {
								if w := basicWidth(at.Elem()); w > 0 {
									if bp.arrays == nil {
										bp.arrays = map[types.Object]*bpArray{}
									}
									bp.arrays[o] = &bpArray{mem: make([]byte, int(at.Len())*w)}
								}
							}
							if b, isBasic := o.Type().Underlying().(*types.Basic); isBasic {
								if b.Info()&types.IsInteger != 0 {
									env[o] = bpVal{I: 0}
								} else if b.Info()&types.IsBoolean != 0 {
									env[o] = bpVal{Is: true, B: false}
								}
							}
						}
					}
				}
			}
		case *ast.EmptyStmt:
		default:
			return bpVal{}, false, false
		}
	}
	return bpVal{}, false, true
}

// boundBytes resolves an expression that denotes a bound byte string or a re-slice of one with evaluable bounds.
func (bp *BytePred) boundBytes(info *types.Info, e ast.Expr, env map[types.Object]bpVal, depth int) ([]byte, bool) {
	switch x := Unparen(e).(type) {
	case *ast.Ident:
		bs, ok := bp.Strings[ObjOf(info, x)]
		return bs, ok
	case *ast.SliceExpr:
		bs, ok := bp.boundBytes(info, x.X, env, depth)
		if !ok || x.Max != nil {
			return nil, false
		}
		lo, hi := int64(0), int64(len(bs))
		if x.Low != nil {
			v, ok := bp.eval(info, x.Low, env, depth+1)
			if !ok || v.Is || v.IsS {
				return nil, false
			}
			lo = v.I
		}
		if x.High != nil {
			v, ok := bp.eval(info, x.High, env, depth+1)
			if !ok || v.Is || v.IsS {
				return nil, false
			}
			hi = v.I
		}
		if lo < 0 || hi > int64(len(bs)) || lo > hi {
			return nil, false
		}
		return bs[lo:hi], true
	}
	return nil, false
}

// ExecList interprets a statement list under env. done reports that a return was reached (ret is its value); ok is
// false when a statement is outside the modelled subset.
func (bp *BytePred) ExecList(info *types.Info, list []ast.Stmt, env Env) (retBool bool, retIsBool, done, ok bool) {
	v, done, ok := bp.exec(info, list, env, 0)
	return v.B, v.Is, done, ok
}

// ExecBody interprets a function body (no parameters) and returns false if a statement is outside
// the modelled subset. Table stores are collected in bp.Stores.
func (bp *BytePred) ExecBody(info *types.Info, body *ast.BlockStmt) bool {
	_, _, ok := bp.exec(info, body.List, bpEnv{}, 0)
	return ok
}

// Env is an environment for EvalBool/EvalInt.
type Env = bpEnv

// BindAll returns an environment binding each object to its integer value.
func BindAll(m map[types.Object]int64) Env {
	e := bpEnv{}
	for o, v := range m {
		e[o] = bpVal{I: v}
	}
	return e
}

// EvalInt evaluates an integer expression under env.
func (bp *BytePred) EvalInt(info *types.Info, e ast.Expr, env Env) (int64, bool) {
	v, ok := bp.eval(info, e, env, 0)
	if !ok || v.Is {
		return 0, false
	}
	return v.I, true
}

func basicWidth(t types.Type) int {
	b, ok := t.Underlying().(*types.Basic)
	if !ok {
		return 0
	}
	switch b.Kind() {
	case types.Uint8, types.Int8:
		return 1
	case types.Uint16, types.Int16:
		return 2
	case types.Uint32, types.Int32:
		return 4
	case types.Uint64, types.Int64:
		return 8
	}
	return 0
}

// loadLocal reads element i of a local array or of a view of one.
func (bp *BytePred) loadLocal(obj types.Object, i int64) (v int64, isLocal, ok bool) {
	mem, width := bp.localMem(obj)
	if mem == nil {
		return 0, false, false
	}
	off := int(i) * width
	if i < 0 || off+width > len(mem.mem) {
		return 0, true, false
	}
	var u uint64
	for k := width - 1; k >= 0; k-- {
		u = u<<8 | uint64(mem.mem[off+k])
	}
	return int64(u), true, true
}

// storeLocal writes element i of a local array or of a view of one.
func (bp *BytePred) storeLocal(obj types.Object, i, v int64) (isLocal, ok bool) {
	mem, width := bp.localMem(obj)
	if mem == nil {
		return false, false
	}
	off := int(i) * width
	if i < 0 || off+width > len(mem.mem) {
		return true, false
	}
	for k := 0; k < width; k++ {
		mem.mem[off+k] = byte(uint64(v) >> (8 * uint(k)))
	}
	return true, true
}

func (bp *BytePred) localMem(obj types.Object) (*bpArray, int) {
	if obj == nil {
		return nil, 0
	}
	if a, ok := bp.arrays[obj]; ok {
		if at, isArr := obj.Type().Underlying().(*types.Array); isArr {
			return a, basicWidth(at.Elem())
		}
	}
	if v, ok := bp.views[obj]; ok {
		return bp.arrays[v.base], v.width
	}
	return nil, 0
}

// viewOf matches (*[N]T)(unsafe.Pointer(&b)) with b a local array.
func (bp *BytePred) viewOf(info *types.Info, e ast.Expr) (types.Object, int, bool) {
	conv, ok := Unparen(e).(*ast.CallExpr)
	if !ok || len(conv.Args) != 1 {
		return nil, 0, false
	}
	tv, isType := info.Types[conv.Fun]
	if !isType || !tv.IsType() {
		return nil, 0, false
	}
	pt, isPtr := tv.Type.Underlying().(*types.Pointer)
	if !isPtr {
		return nil, 0, false
	}
	at, isArr := pt.Elem().Underlying().(*types.Array)
	if !isArr || basicWidth(at.Elem()) == 0 {
		return nil, 0, false
	}
	inner, ok := Unparen(conv.Args[0]).(*ast.CallExpr)
	if !ok || len(inner.Args) != 1 {
		return nil, 0, false
	}
	if t := info.TypeOf(inner); t == nil || t.String() != "unsafe.Pointer" {
		return nil, 0, false
	}
	addr, ok := Unparen(inner.Args[0]).(*ast.UnaryExpr)
	if !ok || addr.Op != token.AND {
		return nil, 0, false
	}
	base := ObjOf(info, addr.X)
	if _, isLocalArr := bp.arrays[base]; !isLocalArr {
		return nil, 0, false
	}
	return base, basicWidth(at.Elem()), true
}

// tablePointer matches tables[k] where tables is a package-level array whose elements are written &tableName.
func (bp *BytePred) tablePointer(info *types.Info, e ast.Expr, env bpEnv, depth int) (types.Object, bool) {
	ix, ok := Unparen(e).(*ast.IndexExpr)
	if !ok {
		return nil, false
	}
	obj := ObjOf(info, ix.X)
	if obj == nil || obj.Pkg() == nil || obj.Parent() != obj.Pkg().Scope() {
		return nil, false
	}
	at, isArr := obj.Type().Underlying().(*types.Array)
	if !isArr {
		return nil, false
	}
	if _, isPtr := at.Elem().Underlying().(*types.Pointer); !isPtr {
		return nil, false
	}
	iv, ok := bp.eval(info, ix.Index, env, depth+1)
	if !ok || iv.Is || iv.I < 0 || iv.I >= at.Len() {
		return nil, false
	}
	// the declaration's composite literal
	for _, pk := range bp.P.All {
		if pk.Types != obj.Pkg() {
			continue
		}
		for _, f := range pk.Syntax {
			for _, d := range f.Decls {
				gd, isGen := d.(*ast.GenDecl)
				if !isGen {
					continue
				}
				for _, sp := range gd.Specs {
					vs, isVS := sp.(*ast.ValueSpec)
					if !isVS {
						continue
					}
					for k, nm := range vs.Names {
						if pk.TypesInfo.Defs[nm] != obj || k >= len(vs.Values) {
							continue
						}
						cl, isLit := Unparen(vs.Values[k]).(*ast.CompositeLit)
						if !isLit || int(iv.I) >= len(cl.Elts) {
							return nil, false
						}
						u, isAddr := Unparen(cl.Elts[iv.I]).(*ast.UnaryExpr)
						if !isAddr || u.Op != token.AND {
							return nil, false
						}
						tab := ObjOf(pk.TypesInfo, u.X)
						return tab, tab != nil
					}
				}
			}
		}
	}
	return nil, false
}

// appendedBytes folds append(dst, …) where dst is a bound byte string: the arguments are single bytes, or one
// spread operand that is a bound string or a re-slice of a local byte array.
func (bp *BytePred) appendedBytes(info *types.Info, e ast.Expr, env bpEnv, depth int) ([]byte, bool) {
	call, ok := Unparen(e).(*ast.CallExpr)
	if !ok || !IsBuiltin(info, call, "append") || len(call.Args) < 1 {
		return nil, false
	}
	dst, bound := bp.boundBytes(info, call.Args[0], env, depth)
	if !bound {
		if inner, ok2 := bp.appendedBytes(info, call.Args[0], env, depth); ok2 {
			dst, bound = inner, true
		}
	}
	if !bound {
		return nil, false
	}
	out := append([]byte{}, dst...)
	if call.Ellipsis.IsValid() && len(call.Args) == 2 {
		if bs, isBound := bp.boundBytes(info, call.Args[1], env, depth); isBound {
			return append(out, bs...), true
		}
		if tv, has := info.Types[call.Args[1]]; has && tv.Value != nil && tv.Value.Kind() == constant.String {
			return append(out, constant.StringVal(tv.Value)...), true
		}
		if se, isSlice := Unparen(call.Args[1]).(*ast.SliceExpr); isSlice && se.Max == nil {
			arr, isLocal := bp.arrays[ObjOf(info, se.X)]
			if !isLocal {
				return nil, false
			}
			lo, hi := int64(0), int64(len(arr.mem))
			if se.Low != nil {
				v, ok := bp.eval(info, se.Low, env, depth+1)
				if !ok || v.Is {
					return nil, false
				}
				lo = v.I
			}
			if se.High != nil {
				v, ok := bp.eval(info, se.High, env, depth+1)
				if !ok || v.Is {
					return nil, false
				}
				hi = v.I
			}
			if lo < 0 || hi > int64(len(arr.mem)) || lo > hi {
				return nil, false
			}
			return append(out, arr.mem[lo:hi]...), true
		}
		return nil, false
	}
	for _, a := range call.Args[1:] {
		v, ok := bp.eval(info, a, env, depth+1)
		if !ok || v.Is || v.IsS {
			return nil, false
		}
		out = append(out, byte(v.I))
	}
	return out, true
}
