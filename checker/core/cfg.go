package core

import (
	"go/ast"
	"go/token"
	"go/types"

	"golang.org/x/tools/go/cfg"
)

// FuncCFG is go/cfg plus dominators and a node->block index (A4).
type FuncCFG struct {
	G     *cfg.CFG
	Info  *types.Info
	idom  []int32 // immediate dominator by block index, -1 for entry/unreachable
	reach []bool
	order []int32 // reverse postorder numbering
	// boolFail: the function reports failure through a trailing bool result
	// (`return` / `return x, false`) rather than through an error.
	boolFail bool
}

// BuildCFGFor is BuildCFG for a declaration; it also determines how the
// function signals failure (trailing error, or trailing bool that is only
// ever set by `return …, true`).
func BuildCFGFor(fd *ast.FuncDecl, info *types.Info) *FuncCFG {
	c := BuildCFG(fd.Body, info)
	if fd.Type.Results != nil && len(fd.Type.Results.List) > 0 {
		last := fd.Type.Results.List[len(fd.Type.Results.List)-1]
		if tv := info.Types[last.Type]; tv.Type != nil {
			if b, ok := tv.Type.Underlying().(*types.Basic); ok && b.Kind() == types.Bool {
				assigned := false
				if len(last.Names) > 0 {
					obj := info.Defs[last.Names[len(last.Names)-1]]
					ast.Inspect(fd.Body, func(n ast.Node) bool {
						if as, ok := n.(*ast.AssignStmt); ok {
							for _, l := range as.Lhs {
								if ObjOf(info, l) == obj {
									assigned = true
								}
							}
						}
						return true
					})
				}
				c.boolFail = !assigned
			}
		}
	}
	return c
}

// IsFailure reports whether ret definitely reports failure to the caller.
func (c *FuncCFG) IsFailure(ret *ast.ReturnStmt) bool {
	if c.boolFail {
		if len(ret.Results) == 0 {
			return true
		}
		last := ret.Results[len(ret.Results)-1]
		if tv, ok := c.Info.Types[last]; ok && tv.Value != nil && tv.Value.String() == "false" {
			return true
		}
		return false
	}
	return ReturnIsError(c.Info, ret)
}

// BuildCFG builds the control-flow graph of a function body. Calls of the
// builtin panic and of os.Exit do not return.
func BuildCFG(body *ast.BlockStmt, info *types.Info) *FuncCFG {
	mayReturn := func(call *ast.CallExpr) bool {
		if IsBuiltin(info, call, "panic") {
			return false
		}
		if f := Callee(info, call); f != nil && f.Pkg() != nil && f.Pkg().Path() == "os" && f.Name() == "Exit" {
			return false
		}
		return true
	}
	g := cfg.New(body, mayReturn)
	c := &FuncCFG{G: g, Info: info}
	c.computeDom()
	return c
}

func (c *FuncCFG) computeDom() {
	n := len(c.G.Blocks)
	c.idom = make([]int32, n)
	c.reach = make([]bool, n)
	c.order = make([]int32, n)
	for i := range c.idom {
		c.idom[i] = -1
	}
	if n == 0 {
		return
	}
	// postorder DFS from entry (block 0)
	var post []int32
	seen := make([]bool, n)
	type frame struct {
		b *cfg.Block
		i int
	}
	stack := []frame{{c.G.Blocks[0], 0}}
	seen[0] = true
	for len(stack) > 0 {
		f := &stack[len(stack)-1]
		if f.i < len(f.b.Succs) {
			s := f.b.Succs[f.i]
			f.i++
			if !seen[s.Index] {
				seen[s.Index] = true
				stack = append(stack, frame{s, 0})
			}
			continue
		}
		post = append(post, f.b.Index)
		stack = stack[:len(stack)-1]
	}
	for i, b := range post {
		c.order[b] = int32(len(post) - 1 - i)
		c.reach[b] = true
	}
	preds := make([][]int32, n)
	for _, b := range c.G.Blocks {
		if !c.reach[b.Index] {
			continue
		}
		for _, s := range b.Succs {
			preds[s.Index] = append(preds[s.Index], b.Index)
		}
	}
	c.idom[0] = 0
	intersect := func(a, b int32) int32 {
		for a != b {
			for c.order[a] > c.order[b] {
				a = c.idom[a]
			}
			for c.order[b] > c.order[a] {
				b = c.idom[b]
			}
		}
		return a
	}
	changed := true
	for changed {
		changed = false
		for i := len(post) - 1; i >= 0; i-- {
			b := post[i]
			if b == 0 {
				continue
			}
			var nd int32 = -1
			for _, p := range preds[b] {
				if c.idom[p] == -1 {
					continue
				}
				if nd == -1 {
					nd = p
				} else {
					nd = intersect(p, nd)
				}
			}
			if nd != -1 && c.idom[b] != nd {
				c.idom[b] = nd
				changed = true
			}
		}
	}
}

// Reachable reports whether b is reachable from the entry.
func (c *FuncCFG) Reachable(b *cfg.Block) bool { return b != nil && c.reach[b.Index] }

// Dominates reports whether every path from entry to b passes through a.
func (c *FuncCFG) Dominates(a, b *cfg.Block) bool {
	if a == nil || b == nil || !c.reach[a.Index] || !c.reach[b.Index] {
		return false
	}
	x := b.Index
	for {
		if x == a.Index {
			return true
		}
		if x == 0 {
			return false
		}
		nx := c.idom[x]
		if nx == x || nx < 0 {
			return false
		}
		x = nx
	}
}

// BlockOf returns the block holding the CFG node that encloses n, and the
// index of that node inside the block (-1, nil if n is not in the CFG, e.g.
// inside a function literal).
func (c *FuncCFG) BlockOf(n ast.Node) (*cfg.Block, int) {
	var best *cfg.Block
	bi := -1
	var bestLen token.Pos = 1 << 40
	for _, b := range c.G.Blocks {
		for i, x := range b.Nodes {
			if x.Pos() <= n.Pos() && n.End() <= x.End() {
				if l := x.End() - x.Pos(); l < bestLen {
					best, bi, bestLen = b, i, l
				}
			}
		}
	}
	return best, bi
}

// NodeBefore reports whether node a executes before node b whenever b
// executes: a's block strictly dominates b's, or same block and earlier index.
func (c *FuncCFG) NodeBefore(a, b ast.Node) bool {
	ba, ia := c.BlockOf(a)
	bb, ib := c.BlockOf(b)
	if ba == nil || bb == nil {
		return false
	}
	if ba == bb {
		return ia < ib || (ia == ib && a.Pos() < b.Pos())
	}
	return c.Dominates(ba, bb)
}

// IfEdges returns, for a block whose last node is the condition of an if
// statement (or for-loop condition), the true and false successors.
func IfEdges(b *cfg.Block) (t, f *cfg.Block) {
	if len(b.Succs) == 2 {
		return b.Succs[0], b.Succs[1]
	}
	return nil, nil
}

// ReachableFrom collects the blocks reachable from start (inclusive) without
// entering any block in stop.
func (c *FuncCFG) ReachableFrom(start *cfg.Block, stop map[*cfg.Block]bool) map[*cfg.Block]bool {
	seen := map[*cfg.Block]bool{}
	var st []*cfg.Block
	if start != nil && !stop[start] {
		st = append(st, start)
		seen[start] = true
	}
	for len(st) > 0 {
		b := st[len(st)-1]
		st = st[:len(st)-1]
		for _, s := range b.Succs {
			if !seen[s] && !stop[s] {
				seen[s] = true
				st = append(st, s)
			}
		}
	}
	return seen
}

// BlockReturn returns the return statement ending b, if any.
func BlockReturn(b *cfg.Block) *ast.ReturnStmt {
	if len(b.Nodes) == 0 {
		return nil
	}
	r, _ := b.Nodes[len(b.Nodes)-1].(*ast.ReturnStmt)
	return r
}

// AllPathsReturnError reports whether every path from b ends in a return whose
// last result is not the nil identifier, without passing through any block in
// avoid (if a path reaches an avoid block the answer is false). Blocks that
// never return (panic) count as error exits. Loops count as failure.
func (c *FuncCFG) AllPathsReturnError(b *cfg.Block, avoid map[*cfg.Block]bool) bool {
	state := map[*cfg.Block]int{} // 1 = in progress, 2 = ok
	var visit func(x *cfg.Block) bool
	visit = func(x *cfg.Block) bool {
		if avoid[x] {
			return false
		}
		switch state[x] {
		case 1:
			return false
		case 2:
			return true
		}
		state[x] = 1
		if r := BlockReturn(x); r != nil {
			ok := c.IsFailure(r)
			if ok {
				state[x] = 2
			}
			return ok
		}
		if len(x.Succs) == 0 {
			// no successor and no return: panic or end of func without results
			if len(x.Nodes) > 0 {
				if es, ok := x.Nodes[len(x.Nodes)-1].(*ast.ExprStmt); ok {
					if call, ok := es.X.(*ast.CallExpr); ok && IsBuiltin(c.Info, call, "panic") {
						state[x] = 2
						return true
					}
				}
			}
			return false
		}
		for _, s := range x.Succs {
			if !visit(s) {
				return false
			}
		}
		state[x] = 2
		return true
	}
	return visit(b)
}

// SuccessReturns lists return statements of the function whose last result is
// the nil identifier (or that have no results when the function returns none).
func (c *FuncCFG) Returns() []*ast.ReturnStmt {
	var out []*ast.ReturnStmt
	for _, b := range c.G.Blocks {
		if !c.reach[b.Index] {
			continue
		}
		if r := BlockReturn(b); r != nil {
			out = append(out, r)
		}
	}
	return out
}

// CaseBodyBlock returns the entry block of a case clause's body.
func (c *FuncCFG) CaseBodyBlock(cc *ast.CaseClause) *cfg.Block {
	for _, b := range c.G.Blocks {
		if b.Kind == cfg.KindSwitchCaseBody && b.Stmt == ast.Stmt(cc) {
			return b
		}
	}
	return nil
}

// SwitchDoneBlock returns the block reached when a switch statement completes.
func (c *FuncCFG) SwitchDoneBlock(sw ast.Stmt) *cfg.Block {
	for _, b := range c.G.Blocks {
		if b.Kind == cfg.KindSwitchDone && b.Stmt == sw {
			return b
		}
	}
	return nil
}

// AnyPathHits explores from start without entering stop blocks and reports
// whether some visited block contains a node satisfying pred.
func (c *FuncCFG) AnyPathHits(start *cfg.Block, stop map[*cfg.Block]bool, pred func(ast.Node) bool) bool {
	for b := range c.ReachableFrom(start, stop) {
		for _, n := range b.Nodes {
			hit := false
			ast.Inspect(n, func(x ast.Node) bool {
				if x != nil && pred(x) {
					hit = true
				}
				return !hit
			})
			if hit {
				return true
			}
		}
	}
	return false
}
