package core

import (
	"bytes"
	"go/ast"
	"go/constant"
	"go/printer"
	"go/token"
	"go/types"
	"os"
	"sort"
	"strconv"
	"strings"
	"sync"

	"golang.org/x/tools/go/packages"
	"golang.org/x/tools/go/types/typeutil"
)

// ---- small AST helpers ----

func Unparen(e ast.Expr) ast.Expr {
	for {
		p, ok := e.(*ast.ParenExpr)
		if !ok {
			return e
		}
		e = p.X
	}
}

// Src renders a node as source text (for messages only, never matched).
func Src(fset *token.FileSet, n ast.Node) string {
	var b bytes.Buffer
	printer.Fprint(&b, fset, n)
	s := b.String()
	s = strings.Join(strings.Fields(s), " ")
	if len(s) > 160 {
		s = s[:160] + "…"
	}
	return s
}

// Callee resolves the static callee of a call through go/types.
func Callee(info *types.Info, call *ast.CallExpr) *types.Func {
	f, _ := typeutil.Callee(info, call).(*types.Func)
	return f
}

// CalleeIs reports whether call statically calls pkgpath.name (function) or a
// method named name declared in pkgpath (recv may be "" for any).
func CalleeIs(info *types.Info, call *ast.CallExpr, pkgpath, name string) bool {
	f := Callee(info, call)
	if f == nil || f.Pkg() == nil {
		return false
	}
	return f.Pkg().Path() == pkgpath && f.Name() == name
}

// CalleeName returns "pkgname.Func" or "pkgname.T.Method" for messages and tables.
func CalleeName(info *types.Info, call *ast.CallExpr) string {
	f := Callee(info, call)
	if f == nil {
		if id, ok := Unparen(call.Fun).(*ast.Ident); ok {
			if _, isB := info.Uses[id].(*types.Builtin); isB {
				return id.Name
			}
		}
		return ""
	}
	return FuncObjName(f)
}

func FuncObjName(f *types.Func) string {
	pk := ""
	if f.Pkg() != nil {
		pk = f.Pkg().Name() + "."
	}
	sig, _ := f.Type().(*types.Signature)
	if sig != nil && sig.Recv() != nil {
		t := sig.Recv().Type()
		if p, ok := t.(*types.Pointer); ok {
			t = p.Elem()
		}
		if n, ok := t.(*types.Named); ok {
			return pk + n.Obj().Name() + "." + f.Name()
		}
	}
	return pk + f.Name()
}

// IsBuiltin reports whether call is the named builtin.
func IsBuiltin(info *types.Info, call *ast.CallExpr, name string) bool {
	id, ok := Unparen(call.Fun).(*ast.Ident)
	if !ok {
		return false
	}
	b, ok := info.Uses[id].(*types.Builtin)
	return ok && b.Name() == name
}

// ObjOf returns the object an identifier expression denotes (nil otherwise).
func ObjOf(info *types.Info, e ast.Expr) types.Object {
	if id, ok := Unparen(e).(*ast.Ident); ok {
		if o := info.Uses[id]; o != nil {
			return o
		}
		return info.Defs[id]
	}
	return nil
}

// FieldOf resolves a selector expression x.f to the field object (nil if not a field).
func FieldOf(info *types.Info, e ast.Expr) *types.Var {
	sel, ok := Unparen(e).(*ast.SelectorExpr)
	if !ok {
		return nil
	}
	if s := info.Selections[sel]; s != nil && s.Kind() == types.FieldVal {
		v, _ := s.Obj().(*types.Var)
		return v
	}
	return nil
}

// FieldPath renders a.b.c for selector chains of fields, rooted at an identifier.
func FieldPath(info *types.Info, e ast.Expr) (root types.Object, path string) {
	e = Unparen(e)
	switch x := e.(type) {
	case *ast.Ident:
		return ObjOf(info, x), ""
	case *ast.SelectorExpr:
		if FieldOf(info, x) == nil {
			// package-qualified identifier
			return info.Uses[x.Sel], ""
		}
		r, p := FieldPath(info, x.X)
		if p == "" {
			return r, x.Sel.Name
		}
		return r, p + "." + x.Sel.Name
	case *ast.StarExpr:
		return FieldPath(info, x.X)
	}
	return nil, ""
}

// ConstInt evaluates e to an integer constant through go/types.
func ConstInt(info *types.Info, e ast.Expr) (int64, bool) {
	tv, ok := info.Types[e]
	if !ok || tv.Value == nil {
		// a package-level variable with a constant initialiser that is never assigned (encoder's `nul`)
		if id, isId := Unparen(e).(*ast.Ident); isId {
			if v, ok := LooseConsts[info.Uses[id]]; ok {
				return v, true
			}
		}
		return 0, false
	}
	v := constant.ToInt(tv.Value)
	if v.Kind() != constant.Int {
		return 0, false
	}
	i, exact := constant.Int64Val(v)
	if !exact {
		if u, ok := constant.Uint64Val(v); ok {
			return int64(u), true
		}
	}
	return i, exact
}

func ConstValue(info *types.Info, e ast.Expr) constant.Value {
	if tv, ok := info.Types[e]; ok {
		return tv.Value
	}
	return nil
}

// IsNilIdent reports whether e is the predeclared nil.
func IsNilIdent(info *types.Info, e ast.Expr) bool {
	id, ok := Unparen(e).(*ast.Ident)
	if !ok {
		return false
	}
	_, isNil := info.Uses[id].(*types.Nil)
	return isNil
}

// ---- constant tables (A2) ----

// Table is an evaluated package-level array/slice literal.
type Table struct {
	Name   string
	Len    int
	Elems  map[int]constant.Value // absent index = zero value
	Pos    token.Pos
	Opaque bool // has a non-constant element or a non-constant init() store
	Elem   types.Type
}

func (t *Table) Bool(i int) bool {
	v := t.Elems[i]
	return v != nil && v.Kind() == constant.Bool && constant.BoolVal(v)
}

func (t *Table) Int(i int) (int64, bool) {
	v := t.Elems[i]
	if v == nil {
		return 0, true
	}
	v = constant.ToInt(v)
	if v.Kind() != constant.Int {
		return 0, false
	}
	x, ok := constant.Int64Val(v)
	if !ok {
		u, ok2 := constant.Uint64Val(v)
		return int64(u), ok2
	}
	return x, ok
}

func (t *Table) Uint(i int) (uint64, bool) {
	v := t.Elems[i]
	if v == nil {
		return 0, true
	}
	v = constant.ToInt(v)
	if v.Kind() != constant.Int {
		return 0, false
	}
	return constant.Uint64Val(v)
}

// EvalTable evaluates the package-level variable `name` of pkg: a composite
// literal with constant keys and elements, plus statements `name[c] = c` in
// init functions. Returns nil if the variable does not exist.
func EvalTable(pk *packages.Package, name string) *Table {
	obj, _ := pk.Types.Scope().Lookup(name).(*types.Var)
	if obj == nil {
		return nil
	}
	info := pk.TypesInfo
	t := &Table{Name: name, Elems: map[int]constant.Value{}, Pos: obj.Pos(), Len: -1}
	switch u := obj.Type().Underlying().(type) {
	case *types.Array:
		t.Len = int(u.Len())
		t.Elem = u.Elem()
	case *types.Slice:
		t.Elem = u.Elem()
	default:
		return nil
	}
	found := false
	for _, f := range pk.Syntax {
		for _, d := range f.Decls {
			switch d := d.(type) {
			case *ast.GenDecl:
				for _, sp := range d.Specs {
					vs, ok := sp.(*ast.ValueSpec)
					if !ok {
						continue
					}
					for i, id := range vs.Names {
						if info.Defs[id] != obj {
							continue
						}
						found = true
						if i < len(vs.Values) {
							if cl, ok := Unparen(vs.Values[i]).(*ast.CompositeLit); ok {
								evalLit(info, cl, t)
							} else {
								t.Opaque = true
							}
						}
					}
				}
			case *ast.FuncDecl:
				if d.Name.Name != "init" || d.Recv != nil || d.Body == nil {
					continue
				}
				ast.Inspect(d.Body, func(n ast.Node) bool {
					as, ok := n.(*ast.AssignStmt)
					if !ok {
						return true
					}
					for i, lhs := range as.Lhs {
						ix, ok := Unparen(lhs).(*ast.IndexExpr)
						if !ok || ObjOf(info, ix.X) != obj {
							continue
						}
						k, kok := ConstInt(info, ix.Index)
						var v constant.Value
						if len(as.Rhs) == len(as.Lhs) {
							v = ConstValue(info, as.Rhs[i])
						}
						if !kok || v == nil || as.Tok != token.ASSIGN {
							t.Opaque = true
							continue
						}
						t.Elems[int(k)] = v
					}
					return true
				})
			}
		}
	}
	if !found {
		return nil
	}
	if t.Len < 0 {
		max := -1
		for k := range t.Elems {
			if k > max {
				max = k
			}
		}
		t.Len = max + 1
	}
	return t
}

func evalLit(info *types.Info, cl *ast.CompositeLit, t *Table) {
	idx := 0
	for _, el := range cl.Elts {
		val := el
		if kv, ok := el.(*ast.KeyValueExpr); ok {
			k, ok := ConstInt(info, kv.Key)
			if !ok {
				t.Opaque = true
				continue
			}
			idx = int(k)
			val = kv.Value
		}
		v := ConstValue(info, val)
		if v == nil {
			t.Opaque = true
		} else {
			t.Elems[idx] = v
		}
		idx++
	}
	if t.Len < 0 && idx > 0 {
		// slice literal: length is max index+1, computed by caller
	}
}

// ---- byte switches (A3) ----

// ByteSwitch is the partition of the 256 byte values by a switch statement.
type ByteSwitch struct {
	Stmt     *ast.SwitchStmt
	Clauses  []*ast.CaseClause
	Of       [256]int // clause index for each byte; -1 = no clause (falls out of the switch)
	Default  int      // index of default clause or -1
	Labels   [][]int  // per clause: the byte values of its labels (nil for default)
	NonConst bool     // some case label was not a constant byte
}

// EvalByteSwitch evaluates the case labels of sw (a tag switch) as byte
// constants. ok=false if sw has no tag or labels are not integer constants
// in 0..255.
func EvalByteSwitch(info *types.Info, sw *ast.SwitchStmt) (*ByteSwitch, bool) {
	if sw.Tag == nil {
		return nil, false
	}
	bs := &ByteSwitch{Stmt: sw, Default: -1}
	for i := range bs.Of {
		bs.Of[i] = -1
	}
	any := false
	for _, st := range sw.Body.List {
		cc := st.(*ast.CaseClause)
		ci := len(bs.Clauses)
		bs.Clauses = append(bs.Clauses, cc)
		var labels []int
		if cc.List == nil {
			bs.Default = ci
		}
		for _, e := range cc.List {
			v, ok := ConstInt(info, e)
			if !ok || v < 0 || v > 255 {
				bs.NonConst = true
				continue
			}
			any = true
			labels = append(labels, int(v))
			if bs.Of[v] == -1 {
				bs.Of[v] = ci
			}
		}
		bs.Labels = append(bs.Labels, labels)
	}
	if !any {
		return nil, false
	}
	if bs.Default >= 0 {
		for i := range bs.Of {
			if bs.Of[i] == -1 {
				bs.Of[i] = bs.Default
			}
		}
	}
	return bs, !bs.NonConst
}

// HasSingleton reports whether some clause has exactly the one label b.
func (bs *ByteSwitch) HasSingleton(b byte) bool {
	for _, l := range bs.Labels {
		if len(l) == 1 && l[0] == int(b) {
			return true
		}
	}
	return false
}

// HasLabel reports whether b is an explicit label of some clause.
func (bs *ByteSwitch) HasLabel(b byte) bool {
	for _, l := range bs.Labels {
		for _, x := range l {
			if x == int(b) {
				return true
			}
		}
	}
	return false
}

// ClauseOf returns the clause explicitly or by default handling b (nil if none).
func (bs *ByteSwitch) ClauseOf(b byte) *ast.CaseClause {
	if i := bs.Of[b]; i >= 0 {
		return bs.Clauses[i]
	}
	return nil
}

// ByteSet formatting for messages.
func FmtBytes(bs []int) string {
	sort.Ints(bs)
	var parts []string
	for i := 0; i < len(bs); {
		j := i
		for j+1 < len(bs) && bs[j+1] == bs[j]+1 {
			j++
		}
		if j > i+1 {
			parts = append(parts, fmtByte(bs[i])+"-"+fmtByte(bs[j]))
		} else {
			for k := i; k <= j; k++ {
				parts = append(parts, fmtByte(bs[k]))
			}
		}
		i = j + 1
	}
	return strings.Join(parts, " ")
}

func fmtByte(b int) string {
	if b > 0x20 && b < 0x7f {
		return "'" + string(rune(b)) + "'"
	}
	const hex = "0123456789abcdef"
	return "0x" + string(hex[b>>4]) + string(hex[b&15])
}

// ---- statement classification ----

// ReturnsNonNilError reports whether ret's last result is syntactically not nil
// (an error constructor call or a variable known non-nil by the caller).
func LastResultIsNil(info *types.Info, ret *ast.ReturnStmt) bool {
	if len(ret.Results) == 0 {
		return false
	}
	return IsNilIdent(info, ret.Results[len(ret.Results)-1])
}

// IsErrorType reports whether t is the predeclared error interface.
func IsErrorType(t types.Type) bool {
	return t != nil && types.Identical(t, types.Universe.Lookup("error").Type())
}

// FuncReturnsError reports whether the function's last result is error.
func FuncReturnsError(sig *types.Signature) bool {
	n := sig.Results().Len()
	return n > 0 && IsErrorType(sig.Results().At(n-1).Type())
}

// EnclosingFunc finds the FuncDecl containing pos in pkg.
func EnclosingFunc(pk *packages.Package, pos token.Pos) *ast.FuncDecl {
	for _, f := range pk.Syntax {
		if pos < f.Pos() || pos > f.End() {
			continue
		}
		for _, d := range f.Decls {
			if fd, ok := d.(*ast.FuncDecl); ok && fd.Pos() <= pos && pos <= fd.End() {
				return fd
			}
		}
	}
	return nil
}

// PathTo returns the chain of nodes from root down to the innermost node
// enclosing [pos,end).
func PathTo(root ast.Node, target ast.Node) []ast.Node {
	var path []ast.Node
	var found bool
	var walk func(n ast.Node) bool
	walk = func(n ast.Node) bool {
		if n == nil || found {
			return false
		}
		if n.Pos() > target.Pos() || n.End() < target.End() {
			return false
		}
		path = append(path, n)
		if n == target {
			found = true
			return false
		}
		l := len(path)
		ast.Inspect(n, func(c ast.Node) bool {
			if c == n {
				return true
			}
			if c == nil || found {
				return false
			}
			walk(c)
			return false
		})
		if !found {
			path = path[:l-1]
		}
		return false
	}
	walk(root)
	if !found {
		return nil
	}
	return path
}

// LooseConsts maps package-level variables of the module that have a constant
// initialiser and are never assigned or address-taken to that constant.
var LooseConsts = map[types.Object]int64{}

// RegisterLooseConsts scans one package.
func RegisterLooseConsts(pk *packages.Package) {
	info := pk.TypesInfo
	cand := map[types.Object]int64{}
	for _, f := range pk.Syntax {
		for _, d := range f.Decls {
			gd, ok := d.(*ast.GenDecl)
			if !ok || gd.Tok != token.VAR {
				continue
			}
			for _, sp := range gd.Specs {
				vs := sp.(*ast.ValueSpec)
				for i, id := range vs.Names {
					if i < len(vs.Values) {
						if tv, ok := info.Types[vs.Values[i]]; ok && tv.Value != nil {
							v := constant.ToInt(tv.Value)
							if v.Kind() == constant.Int {
								if x, ok := constant.Int64Val(v); ok {
									cand[info.Defs[id]] = x
								}
							}
						}
					}
				}
			}
		}
	}
	if len(cand) == 0 {
		return
	}
	for _, f := range pk.Syntax {
		ast.Inspect(f, func(n ast.Node) bool {
			switch x := n.(type) {
			case *ast.AssignStmt:
				for _, l := range x.Lhs {
					delete(cand, ObjOf(info, l))
				}
			case *ast.IncDecStmt:
				delete(cand, ObjOf(info, x.X))
			case *ast.UnaryExpr:
				if x.Op == token.AND {
					delete(cand, ObjOf(info, x.X))
				}
			}
			return true
		})
	}
	for o, v := range cand {
		LooseConsts[o] = v
	}
}

// ReturnIsError reports whether ret definitely returns a non-nil error: its
// last result is an error-typed call (constructor), composite literal, or an
// error variable; a bare tail call `return f(x)` and a nil last result are not.
func ReturnIsError(info *types.Info, ret *ast.ReturnStmt) bool {
	if len(ret.Results) == 0 {
		return false
	}
	last := Unparen(ret.Results[len(ret.Results)-1])
	if IsNilIdent(info, last) {
		return false
	}
	tv := info.Types[last]
	if tv.Type == nil {
		return false
	}
	if _, isTuple := tv.Type.(*types.Tuple); isTuple {
		return false
	}
	errIface := types.Universe.Lookup("error").Type().Underlying().(*types.Interface)
	if !types.Implements(tv.Type, errIface) {
		return false
	}
	// a call whose static result type is the interface `error` is a delegation
	// (`return d.dec.DecodeStream(…)`), not a definite error, unless it is a
	// well-known constructor
	if call, ok := last.(*ast.CallExpr); ok && IsErrorType(tv.Type) {
		switch CalleeName(info, call) {
		case "fmt.Errorf", "errors.New":
			return true
		}
		// a module function every return of which is a definite error (errInvalidNumber and the like)
		if f := Callee(info, call); f != nil && alwaysErrors(f.Origin(), 0) {
			return true
		}
		return false
	}
	return true
}

type errCtor struct {
	fd   *ast.FuncDecl
	info *types.Info
}

var (
	errCtorMu   sync.Mutex
	errCtors    = map[*types.Func]errCtor{}
	errCtorBusy = map[*types.Func]bool{}
)

// registerErrorCtor remembers the declaration of module functions with the single result `error`.
func registerErrorCtor(obj types.Object, fd *ast.FuncDecl, info *types.Info) {
	f, ok := obj.(*types.Func)
	if !ok || fd.Body == nil || fd.Recv != nil {
		return
	}
	res := f.Type().(*types.Signature).Results()
	if res.Len() != 1 || !IsErrorType(res.At(0).Type()) {
		return
	}
	errCtorMu.Lock()
	errCtors[f] = errCtor{fd, info}
	errCtorMu.Unlock()
}

func alwaysErrors(f *types.Func, depth int) bool {
	if depth > 3 {
		return false
	}
	errCtorMu.Lock()
	c, ok := errCtors[f]
	busy := errCtorBusy[f]
	if ok && !busy {
		errCtorBusy[f] = true
	}
	errCtorMu.Unlock()
	if !ok || busy {
		return false
	}
	defer func() { errCtorMu.Lock(); delete(errCtorBusy, f); errCtorMu.Unlock() }()
	n, all := 0, true
	ast.Inspect(c.fd.Body, func(m ast.Node) bool {
		switch x := m.(type) {
		case *ast.FuncLit:
			return false
		case *ast.ReturnStmt:
			n++
			if !ReturnIsError(c.info, x) {
				all = false
			}
		}
		return true
	})
	return n > 0 && all
}

// ContainsAssign reports whether the node contains an assignment or an increment/decrement whose
// target is not a plain local identifier (a store into memory), or a composite literal.
func ContainsAssign(n ast.Node) bool {
	found := false
	ast.Inspect(n, func(m ast.Node) bool {
		switch s := m.(type) {
		case *ast.AssignStmt:
			for _, l := range s.Lhs {
				if _, isIdent := Unparen(l).(*ast.Ident); !isIdent {
					found = true
				}
			}
		case *ast.CompositeLit:
			found = true
		}
		return !found
	})
	return found
}

// Shape renders an expression with the names of the enclosing function's parameters replaced by their position
// (#0 is the receiver if there is one, then the parameters in order) and every other local variable by `_`: a key
// built from it names the construct and survives a renaming of locals.
func Shape(fset *token.FileSet, info *types.Info, fd *ast.FuncDecl, e ast.Expr) string {
	pos := map[types.Object]int{}
	k := 0
	add := func(fl *ast.FieldList) {
		if fl == nil {
			return
		}
		for _, f := range fl.List {
			if len(f.Names) == 0 {
				k++
			}
			for _, nm := range f.Names {
				if o := info.Defs[nm]; o != nil {
					pos[o] = k
				}
				k++
			}
		}
	}
	add(fd.Recv)
	add(fd.Type.Params)
	// substitute in the source text of the expression (the syntax tree is shared and is not touched)
	tf := fset.File(e.Pos())
	if tf == nil {
		return Src(fset, e)
	}
	srcFilesMu.Lock()
	text, ok := srcFiles[tf.Name()]
	if !ok {
		text, _ = os.ReadFile(tf.Name())
		srcFiles[tf.Name()] = text
	}
	srcFilesMu.Unlock()
	lo, hi := tf.Offset(e.Pos()), tf.Offset(e.End())
	if lo < 0 || hi > len(text) || lo >= hi {
		return Src(fset, e)
	}
	type repl struct {
		lo, hi int
		name   string
	}
	var repls []repl
	ast.Inspect(e, func(n ast.Node) bool {
		id, ok := n.(*ast.Ident)
		if !ok {
			return true
		}
		o := info.Uses[id]
		if o == nil {
			o = info.Defs[id]
		}
		v, isVar := o.(*types.Var)
		if !isVar || v.IsField() {
			return true
		}
		if i, isParam := pos[o]; isParam {
			repls = append(repls, repl{tf.Offset(id.Pos()), tf.Offset(id.End()), "#" + strconv.Itoa(i)})
		} else if v.Parent() != nil && v.Pkg() != nil && v.Parent() != v.Pkg().Scope() {
			repls = append(repls, repl{tf.Offset(id.Pos()), tf.Offset(id.End()), "_"})
		}
		return true
	})
	sort.Slice(repls, func(i, j int) bool { return repls[i].lo < repls[j].lo })
	var b strings.Builder
	at := lo
	for _, r := range repls {
		if r.lo < at || r.hi > hi {
			continue
		}
		b.Write(text[at:r.lo])
		b.WriteString(r.name)
		at = r.hi
	}
	b.Write(text[at:hi])
	out := strings.Join(strings.Fields(b.String()), " ")
	if len(out) > 160 {
		out = out[:160] + "…"
	}
	return out
}

var (
	srcFilesMu sync.Mutex
	srcFiles   = map[string][]byte{}
)
