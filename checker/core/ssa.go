package core

import (
	"fmt"
	"go/token"
	"go/types"

	"golang.org/x/tools/go/ssa"
)

// addrKey canonicalises an address-valued SSA value so that two FieldAddr of
// the same base and field, or two IndexAddr of the same base, are one cell.
func addrKey(v ssa.Value) string {
	switch a := v.(type) {
	case *ssa.FieldAddr:
		return fmt.Sprintf("%s.f%d", addrKey(a.X), a.Field)
	case *ssa.IndexAddr:
		return addrKey(a.X) + "[]"
	case *ssa.UnOp:
		if a.Op == token.MUL {
			return "*" + addrKey(a.X)
		}
	case *ssa.Global:
		return "g:" + a.Name()
	case *ssa.Parameter:
		return "p:" + a.Name()
	case *ssa.ChangeType:
		return addrKey(a.X)
	case *ssa.Convert:
		return addrKey(a.X)
	}
	return fmt.Sprintf("v:%p", v)
}

// TaintOpts configures ForwardTaint.
type TaintOpts struct {
	// Sanitizer: results of these calls are clean whatever their arguments.
	Sanitizer func(c *ssa.CallCommon) bool
	// CallTaints: whether a tainted argument taints the call's result (default true).
	NoCallPropagation bool
}

// ForwardTaint computes, flow-insensitively inside one function, the set of
// SSA values that may derive from the seeds: through slicing, conversion, phi,
// extract, append/copy, interface boxing, stores to and loads from the same
// cell, and (unless disabled) call results.
func ForwardTaint(fn *ssa.Function, seeds []ssa.Value, opt TaintOpts) map[ssa.Value]bool {
	t := map[ssa.Value]bool{}
	cells := map[string]bool{}
	for _, s := range seeds {
		t[s] = true
	}
	isBuiltin := func(c *ssa.CallCommon, name string) bool {
		b, ok := c.Value.(*ssa.Builtin)
		return ok && b.Name() == name
	}
	changed := true
	mark := func(v ssa.Value) {
		if v != nil && !t[v] {
			t[v] = true
			changed = true
		}
	}
	for changed {
		changed = false
		for _, b := range fn.Blocks {
			for _, ins := range b.Instrs {
				switch x := ins.(type) {
				case *ssa.Store:
					if t[x.Val] {
						k := addrKey(x.Addr)
						if !cells[k] {
							cells[k] = true
							changed = true
						}
					}
				case *ssa.UnOp:
					if x.Op == token.MUL {
						if cells[addrKey(x.X)] || t[x.X] {
							mark(x)
						}
					} else if t[x.X] {
						mark(x)
					}
				case *ssa.Call:
					c := x.Common()
					if opt.Sanitizer != nil && opt.Sanitizer(c) {
						continue
					}
					if isBuiltin(c, "copy") && len(c.Args) == 2 && t[c.Args[1]] {
						mark(c.Args[0])
						continue
					}
					if isBuiltin(c, "len") || isBuiltin(c, "cap") {
						continue
					}
					any := false
					for _, a := range c.Args {
						if t[a] {
							any = true
						}
					}
					if c.IsInvoke() && t[c.Value] {
						any = true
					}
					if any && (!opt.NoCallPropagation || isBuiltin(c, "append")) {
						mark(x)
					}
				case ssa.Value:
					if _, isAlloc := x.(*ssa.Alloc); isAlloc {
						continue
					}
					for _, op := range ins.Operands(nil) {
						if *op != nil && t[*op] {
							// index operands of IndexAddr/Index/Slice bounds do not carry data
							if ia, ok := x.(*ssa.IndexAddr); ok && *op == ia.Index {
								continue
							}
							if sl, ok := x.(*ssa.Slice); ok && *op != sl.X {
								continue
							}
							mark(x)
						}
					}
				}
			}
		}
	}
	return t
}

// InvokeMethodName returns the method name of an interface-method call.
func InvokeMethodName(c *ssa.CallCommon) string {
	if c.IsInvoke() {
		return c.Method.Name()
	}
	return ""
}

// StaticCalleeName returns "pkgname.Func" for a static call, "" otherwise.
func StaticCalleeName(c *ssa.CallCommon) string {
	if f := c.StaticCallee(); f != nil {
		if f.Object() != nil {
			if fo, ok := f.Object().(*types.Func); ok {
				return FuncObjName(fo)
			}
		}
		return f.Name()
	}
	return ""
}

// SSAPos returns a usable position for an instruction (falls back to the
// enclosing function's position: go/ssa leaves some instructions at NoPos).
func SSAPos(ins ssa.Instruction) token.Pos {
	if p := ins.Pos(); p.IsValid() {
		return p
	}
	if v, ok := ins.(ssa.Value); ok {
		for _, r := range *v.Referrers() {
			if p := r.Pos(); p.IsValid() {
				return p
			}
		}
	}
	return ins.Parent().Pos()
}

// AddrKey is the exported form of the cell key used by the taint analyses.
func AddrKey(v ssa.Value) string { return addrKey(v) }

// AliasClosure computes, flow-insensitively inside one function, the values that may share backing
// memory with one of the seeds: slices of them, phis and type changes, values stored to and loaded
// from the same cell, and the result of append when an aliased value is its first argument. A copy
// (append(dst, seed...), copy(dst, seed), string conversion) does not alias.
func AliasClosure(fn *ssa.Function, seeds []ssa.Value) map[ssa.Value]bool {
	a := map[ssa.Value]bool{}
	cells := map[string]bool{}
	for _, s := range seeds {
		a[s] = true
	}
	changed := true
	mark := func(v ssa.Value) {
		if v != nil && !a[v] {
			a[v] = true
			changed = true
		}
	}
	for changed {
		changed = false
		for _, b := range fn.Blocks {
			for _, ins := range b.Instrs {
				switch x := ins.(type) {
				case *ssa.Slice:
					if a[x.X] {
						mark(x)
					}
				case *ssa.Phi:
					for _, e := range x.Edges {
						if a[e] {
							mark(x)
						}
					}
				case *ssa.ChangeType:
					if a[x.X] {
						mark(x)
					}
				case *ssa.Store:
					if a[x.Val] {
						k := addrKey(x.Addr)
						if !cells[k] {
							cells[k] = true
							changed = true
						}
					}
				case *ssa.UnOp:
					if x.Op == token.MUL && cells[addrKey(x.X)] {
						mark(x)
					}
				case *ssa.Call:
					if bi, ok := x.Common().Value.(*ssa.Builtin); ok && bi.Name() == "append" && len(x.Common().Args) > 0 && a[x.Common().Args[0]] {
						mark(x)
					}
				}
			}
		}
	}
	return a
}
