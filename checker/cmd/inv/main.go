package main

import (
	"fmt"
	"go/ast"
	"go/types"
	"sort"

	"verif/checker/core"
)

func main() {
	p, err := core.Load("default", "/repo")
	if err != nil {
		panic(err)
	}
	for _, short := range []string{"decoder", "encoder"} {
		for _, fd := range p.Funcs(short) {
			if fd.Body == nil {
				continue
			}
			info := p.Info(fd)
			ast.Inspect(fd.Body, func(n ast.Node) bool {
				sw, ok := n.(*ast.SwitchStmt)
				if !ok || sw.Tag == nil {
					return true
				}
				tv := info.Types[sw.Tag]
				b, ok := tv.Type.Underlying().(*types.Basic)
				if !ok || b.Kind() != types.Uint8 {
					return true
				}
				bs, _ := core.EvalByteSwitch(info, sw)
				if bs == nil {
					return true
				}
				var labs []int
				for _, l := range bs.Labels {
					labs = append(labs, l...)
				}
				sort.Ints(labs)
				fmt.Printf("%-55s %-28s def=%v tag=%-22s %s\n", p.FuncName(fd), p.Pos(sw.Pos()), bs.Default >= 0, core.Src(p.Fset, sw.Tag), core.FmtBytes(labs))
				return true
			})
		}
	}
}
