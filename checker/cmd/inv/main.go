package main

import (
	"fmt"
	"os"
	"strings"

	"golang.org/x/tools/go/ssa"
	"verif/checker/core"
)

func main() {
	p, err := core.Load("default", "/repo")
	if err != nil {
		panic(err)
	}
	g := p.VTA()
	target := os.Args[1]
	var roots []*ssa.Function
	for _, n := range os.Args[2:] {
		roots = append(roots, p.SSAFunc("json", n))
	}
	prev := map[*ssa.Function]*ssa.Function{}
	var q []*ssa.Function
	for _, r := range roots {
		prev[r] = r
		q = append(q, r)
	}
	for len(q) > 0 {
		f := q[0]
		q = q[1:]
		if strings.Contains(f.String(), target) {
			for x := f; ; x = prev[x] {
				fmt.Println(x.String())
				if prev[x] == x {
					break
				}
			}
			return
		}
		if n := g.Nodes[f]; n != nil {
			for _, e := range n.Out {
				if _, ok := prev[e.Callee.Func]; !ok {
					prev[e.Callee.Func] = f
					q = append(q, e.Callee.Func)
				}
			}
		}
	}
	fmt.Println("unreachable")
}
