package main

import (
	"fmt"
	"go/ast"
	"go/types"
	"sort"
	"strings"

	"verif/checker/core"
)

func main() {
	p, err := core.Load("default", "/repo")
	if err != nil {
		panic(err)
	}
	targets := map[string]bool{"encoder.Option": true, "encoder.RuntimeContext": true, "decoder.Option": true, "decoder.RuntimeContext": true}
	type acc struct{ r, w map[string]bool }
	inv := map[string]*acc{}
	for _, short := range append([]string{"json", "encoder", "decoder"}, core.VMPkgs...) {
		for _, fd := range p.Funcs(short) {
			if fd.Body == nil {
				continue
			}
			info := p.Info(fd)
			lhs := map[ast.Expr]bool{}
			ast.Inspect(fd.Body, func(n ast.Node) bool {
				switch x := n.(type) {
				case *ast.AssignStmt:
					for _, l := range x.Lhs {
						lhs[core.Unparen(l)] = true
					}
				case *ast.KeyValueExpr:
				}
				return true
			})
			ast.Inspect(fd.Body, func(n ast.Node) bool {
				sel, ok := n.(*ast.SelectorExpr)
				if !ok {
					return true
				}
				s := info.Selections[sel]
				if s == nil || s.Kind() != types.FieldVal {
					return true
				}
				owner := strings.TrimPrefix(s.Recv().String(), "*")
				owner = strings.TrimPrefix(owner, core.ModPath+"/internal/")
				if !targets[owner] {
					return true
				}
				k := owner + "." + sel.Sel.Name
				if inv[k] == nil {
					inv[k] = &acc{map[string]bool{}, map[string]bool{}}
				}
				if lhs[sel] {
					inv[k].w[p.FuncName(fd)] = true
				} else {
					inv[k].r[p.FuncName(fd)] = true
				}
				return true
			})
		}
	}
	var ks []string
	for k := range inv {
		ks = append(ks, k)
	}
	sort.Strings(ks)
	for _, k := range ks {
		var w, r []string
		for f := range inv[k].w {
			w = append(w, f)
		}
		for f := range inv[k].r {
			r = append(r, f)
		}
		sort.Strings(w)
		sort.Strings(r)
		if len(r) > 8 {
			r = append(r[:8], fmt.Sprintf("…%d more", len(r)-8))
		}
		fmt.Printf("%s\n   W: %s\n   R: %s\n", k, strings.Join(w, ", "), strings.Join(r, ", "))
	}
}
