// Command refactor is a developer tool (never run by a check): it applies one mechanical, behaviour-preserving
// transformation to one Go file of a copy of /repo and writes the file back. The benign-edit sweep
// (tools/benign_sweep.py) uses it to try every rule on code that looks different and does the same.
//
//	refactor -dir <copy of repo> -file <relative path> -t reverse-cases|swap-if-else|inc-to-add|rename-locals|commute-compare|unnest-else|nest-else
package main

import (
	"bytes"
	"flag"
	"fmt"
	"go/ast"
	"go/format"
	"go/token"
	"go/types"
	"os"
	"path/filepath"
	"strings"

	"golang.org/x/tools/go/packages"
)

func main() {
	dir := flag.String("dir", "", "root of the copy")
	file := flag.String("file", "", "file to transform, relative to dir")
	tr := flag.String("t", "", "transformation")
	flag.Parse()
	abs := filepath.Join(*dir, *file)
	cfg := &packages.Config{Mode: packages.NeedSyntax | packages.NeedTypes | packages.NeedTypesInfo | packages.NeedFiles | packages.NeedName | packages.NeedImports | packages.NeedDeps, Dir: *dir}
	pkgs, err := packages.Load(cfg, "./"+filepath.Dir(*file))
	if err != nil || len(pkgs) == 0 {
		fmt.Fprintln(os.Stderr, "load:", err)
		os.Exit(2)
	}
	var af *ast.File
	var pk *packages.Package
	for _, p := range pkgs {
		for _, f := range p.Syntax {
			name := p.Fset.Position(f.Pos()).Filename
			if name == abs || (filepath.Base(name) == filepath.Base(abs) && strings.HasSuffix(filepath.Dir(name), filepath.Dir(*file))) {
				af, pk = f, p
				abs = name
			}
		}
	}
	if af == nil {
		fmt.Fprintln(os.Stderr, "file not in package:", abs)
		os.Exit(2)
	}
	n := 0
	switch *tr {
	case "reverse-cases":
		ast.Inspect(af, func(m ast.Node) bool {
			sw, ok := m.(*ast.SwitchStmt)
			if !ok || sw.Tag == nil || len(sw.Body.List) < 2 {
				return true
			}
			// constant, pairwise distinct labels and no fallthrough
			seen := map[string]bool{}
			for _, st := range sw.Body.List {
				cc := st.(*ast.CaseClause)
				for _, l := range cc.List {
					tv, has := pk.TypesInfo.Types[l]
					if !has || tv.Value == nil || seen[tv.Value.ExactString()] {
						return true
					}
					seen[tv.Value.ExactString()] = true
				}
				for _, b := range cc.Body {
					if br, isBr := b.(*ast.BranchStmt); isBr && br.Tok == token.FALLTHROUGH {
						return true
					}
				}
			}
			l := sw.Body.List
			for i, j := 0, len(l)-1; i < j; i, j = i+1, j-1 {
				l[i], l[j] = l[j], l[i]
			}
			n++
			return true
		})
	case "swap-if-else":
		ast.Inspect(af, func(m ast.Node) bool {
			ifs, ok := m.(*ast.IfStmt)
			if !ok || ifs.Else == nil {
				return true
			}
			eb, isBlock := ifs.Else.(*ast.BlockStmt)
			if !isBlock {
				return true
			}
			ifs.Cond = &ast.UnaryExpr{Op: token.NOT, X: &ast.ParenExpr{X: ifs.Cond}}
			ifs.Body, ifs.Else = eb, ifs.Body
			n++
			return true
		})
	case "inc-to-add":
		ast.Inspect(af, func(m ast.Node) bool {
			var list *[]ast.Stmt
			switch x := m.(type) {
			case *ast.BlockStmt:
				list = &x.List
			case *ast.CaseClause:
				list = &x.Body
			}
			if list == nil {
				return true
			}
			for i, st := range *list {
				if ids, ok := st.(*ast.IncDecStmt); ok {
					op := token.ADD_ASSIGN
					if ids.Tok == token.DEC {
						op = token.SUB_ASSIGN
					}
					(*list)[i] = &ast.AssignStmt{Lhs: []ast.Expr{ids.X}, Tok: op, Rhs: []ast.Expr{&ast.BasicLit{Kind: token.INT, Value: "1"}}}
					n++
				}
			}
			return true
		})
	case "commute-compare":
		// a == b -> b == a, a < b -> b > a ... where neither operand calls anything (len, cap and conversions aside)
		pure := func(e ast.Expr) bool {
			ok := true
			ast.Inspect(e, func(m ast.Node) bool {
				switch x := m.(type) {
				case *ast.CallExpr:
					if tv, has := pk.TypesInfo.Types[x.Fun]; has && tv.IsType() {
						return true
					}
					if id, isID := x.Fun.(*ast.Ident); isID && (id.Name == "len" || id.Name == "cap") {
						if _, isB := pk.TypesInfo.Uses[id].(*types.Builtin); isB {
							return true
						}
					}
					ok = false
				case *ast.FuncLit:
					ok = false
				case *ast.UnaryExpr:
					if x.Op == token.ARROW {
						ok = false
					}
				}
				return ok
			})
			return ok
		}
		flip := map[token.Token]token.Token{token.EQL: token.EQL, token.NEQ: token.NEQ, token.LSS: token.GTR, token.GTR: token.LSS, token.LEQ: token.GEQ, token.GEQ: token.LEQ}
		ast.Inspect(af, func(m ast.Node) bool {
			be, ok := m.(*ast.BinaryExpr)
			if !ok {
				return true
			}
			op, has := flip[be.Op]
			if !has || !pure(be.X) || !pure(be.Y) {
				return true
			}
			// an untyped nil or constant on the left of == compiles as well; operands of mixed precedence get parentheses
			paren := func(e ast.Expr) ast.Expr {
				if _, isBin := e.(*ast.BinaryExpr); isBin {
					return &ast.ParenExpr{X: e}
				}
				return e
			}
			be.X, be.Y = paren(be.Y), paren(be.X)
			be.Op = op
			n++
			return true
		})
	case "unnest-else":
		// if c { …; return } else { B }  ->  if c { …; return }; B   (the else block declares nothing and is the last
		// statement form golint asks for); applied innermost first, one level per list
		terminates := func(b *ast.BlockStmt) bool {
			if len(b.List) == 0 {
				return false
			}
			switch x := b.List[len(b.List)-1].(type) {
			case *ast.ReturnStmt:
				return true
			case *ast.BranchStmt:
				return x.Tok == token.CONTINUE || x.Tok == token.BREAK || x.Tok == token.GOTO
			}
			return false
		}
		declares := func(b *ast.BlockStmt) bool {
			for _, st := range b.List {
				switch x := st.(type) {
				case *ast.AssignStmt:
					if x.Tok == token.DEFINE {
						return true
					}
				case *ast.DeclStmt, *ast.LabeledStmt:
					return true
				}
			}
			return false
		}
		var fix func(list []ast.Stmt) []ast.Stmt
		fix = func(list []ast.Stmt) []ast.Stmt {
			out := make([]ast.Stmt, 0, len(list))
			for _, st := range list {
				ifs, ok := st.(*ast.IfStmt)
				if ok && ifs.Init == nil && ifs.Else != nil && terminates(ifs.Body) {
					if eb, isBlk := ifs.Else.(*ast.BlockStmt); isBlk && !declares(eb) {
						ifs.Else = nil
						out = append(out, ifs)
						out = append(out, eb.List...)
						n++
						continue
					}
				}
				out = append(out, st)
			}
			return out
		}
		ast.Inspect(af, func(m ast.Node) bool {
			switch x := m.(type) {
			case *ast.BlockStmt:
				x.List = fix(x.List)
			case *ast.CaseClause:
				x.Body = fix(x.Body)
			}
			return true
		})
	case "nest-else":
		// if c { …; return }; B…  ->  if c { …; return } else { B… }   (the first such if of every statement list that
		// holds no label behind it; a function's last statement is kept outside when the function has results)
		terminates := func(b *ast.BlockStmt) bool {
			if len(b.List) == 0 {
				return false
			}
			_, isRet := b.List[len(b.List)-1].(*ast.ReturnStmt)
			return isRet
		}
		hasLabel := func(list []ast.Stmt) bool {
			found := false
			for _, st := range list {
				ast.Inspect(st, func(q ast.Node) bool {
					if _, isL := q.(*ast.LabeledStmt); isL {
						found = true
					}
					return true
				})
			}
			return found
		}
		endsInReturn := func(list []ast.Stmt) bool {
			if len(list) == 0 {
				return false
			}
			_, isRet := list[len(list)-1].(*ast.ReturnStmt)
			return isRet
		}
		fix := func(list []ast.Stmt, needsTerminator bool) []ast.Stmt {
			for i, st := range list {
				ifs, ok := st.(*ast.IfStmt)
				if !ok || ifs.Else != nil || !terminates(ifs.Body) || i == len(list)-1 {
					continue
				}
				rest := list[i+1:]
				if hasLabel(rest) || hasLabel([]ast.Stmt{ifs}) {
					return list
				}
				if needsTerminator && !endsInReturn(rest) {
					return list
				}
				moved := make([]ast.Stmt, len(rest))
				copy(moved, rest)
				ifs.Else = &ast.BlockStmt{List: moved}
				n++
				return list[:i+1]
			}
			return list
		}
		ast.Inspect(af, func(m ast.Node) bool {
			switch x := m.(type) {
			case *ast.FuncDecl:
				if x.Body != nil {
					x.Body.List = fix(x.Body.List, x.Type.Results != nil)
				}
			case *ast.CaseClause:
				x.Body = fix(x.Body, false)
			case *ast.ForStmt:
				x.Body.List = fix(x.Body.List, false)
			case *ast.RangeStmt:
				x.Body.List = fix(x.Body.List, false)
			}
			return true
		})
	case "rename-locals":
		// every local variable and parameter gets the suffix "0" (fields, package-level objects and labels are left alone)
		rename := map[types.Object]string{}
		for id, obj := range pk.TypesInfo.Defs {
			v, ok := obj.(*types.Var)
			if !ok || v.IsField() || id.Name == "_" || v.Parent() == nil || v.Parent() == pk.Types.Scope() {
				continue
			}
			if pos := pk.Fset.Position(id.Pos()); pos.Filename != abs {
				continue
			}
			rename[obj] = id.Name + "0"
		}
		// do not capture an existing name
		ast.Inspect(af, func(m ast.Node) bool {
			id, ok := m.(*ast.Ident)
			if !ok {
				return true
			}
			obj := pk.TypesInfo.Defs[id]
			if obj == nil {
				obj = pk.TypesInfo.Uses[id]
			}
			if nn, has := rename[obj]; has {
				id.Name = nn
				n++
			}
			return true
		})
	default:
		fmt.Fprintln(os.Stderr, "unknown transformation")
		os.Exit(2)
	}
	if n == 0 {
		os.Exit(3) // nothing to do
	}
	var buf bytes.Buffer
	if err := format.Node(&buf, pk.Fset, af); err != nil {
		fmt.Fprintln(os.Stderr, "format:", err)
		os.Exit(2)
	}
	out := buf.Bytes()
	if !strings.HasSuffix(string(out), "\n") {
		out = append(out, '\n')
	}
	if err := os.WriteFile(abs, out, 0o644); err != nil {
		fmt.Fprintln(os.Stderr, err)
		os.Exit(2)
	}
	fmt.Println(n, "sites")
}
