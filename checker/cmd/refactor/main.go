// Command refactor is a developer tool (never run by a check): it applies one mechanical, behaviour-preserving
// transformation to one Go file of a copy of /repo and writes the file back. The benign-edit sweep
// (tools/benign_sweep.py) uses it to try every rule on code that looks different and does the same.
//
//	refactor -dir <copy of repo> -file <relative path> -t reverse-cases|swap-if-else|inc-to-add|rename-locals|commute-compare
package main

import (
	"bytes"
	"flag"
	"fmt"
	"go/ast"
	"go/format"
	"go/token"
	"go/types"
	"os"
	"path/filepath"
	"strings"

	"golang.org/x/tools/go/packages"
)

func main() {
	dir := flag.String("dir", "", "root of the copy")
	file := flag.String("file", "", "file to transform, relative to dir")
	tr := flag.String("t", "", "transformation")
	flag.Parse()
	abs := filepath.Join(*dir, *file)
	cfg := &packages.Config{Mode: packages.NeedSyntax | packages.NeedTypes | packages.NeedTypesInfo | packages.NeedFiles | packages.NeedName | packages.NeedImports | packages.NeedDeps, Dir: *dir}
	pkgs, err := packages.Load(cfg, "./"+filepath.Dir(*file))
	if err != nil || len(pkgs) == 0 {
		fmt.Fprintln(os.Stderr, "load:", err)
		os.Exit(2)
	}
	var af *ast.File
	var pk *packages.Package
	for _, p := range pkgs {
		for _, f := range p.Syntax {
			name := p.Fset.Position(f.Pos()).Filename
			if name == abs || (filepath.Base(name) == filepath.Base(abs) && strings.HasSuffix(filepath.Dir(name), filepath.Dir(*file))) {
				af, pk = f, p
				abs = name
			}
		}
	}
	if af == nil {
		fmt.Fprintln(os.Stderr, "file not in package:", abs)
		os.Exit(2)
	}
	n := 0
	switch *tr {
	case "reverse-cases":
		ast.Inspect(af, func(m ast.Node) bool {
			sw, ok := m.(*ast.SwitchStmt)
			if !ok || sw.Tag == nil || len(sw.Body.List) < 2 {
				return true
			}
			// constant, pairwise distinct labels and no fallthrough
			seen := map[string]bool{}
			for _, st := range sw.Body.List {
				cc := st.(*ast.CaseClause)
				for _, l := range cc.List {
					tv, has := pk.TypesInfo.Types[l]
					if !has || tv.Value == nil || seen[tv.Value.ExactString()] {
						return true
					}
					seen[tv.Value.ExactString()] = true
				}
				for _, b := range cc.Body {
					if br, isBr := b.(*ast.BranchStmt); isBr && br.Tok == token.FALLTHROUGH {
						return true
					}
				}
			}
			l := sw.Body.List
			for i, j := 0, len(l)-1; i < j; i, j = i+1, j-1 {
				l[i], l[j] = l[j], l[i]
			}
			n++
			return true
		})
	case "swap-if-else":
		ast.Inspect(af, func(m ast.Node) bool {
			ifs, ok := m.(*ast.IfStmt)
			if !ok || ifs.Else == nil {
				return true
			}
			eb, isBlock := ifs.Else.(*ast.BlockStmt)
			if !isBlock {
				return true
			}
			ifs.Cond = &ast.UnaryExpr{Op: token.NOT, X: &ast.ParenExpr{X: ifs.Cond}}
			ifs.Body, ifs.Else = eb, ifs.Body
			n++
			return true
		})
	case "inc-to-add":
		ast.Inspect(af, func(m ast.Node) bool {
			var list *[]ast.Stmt
			switch x := m.(type) {
			case *ast.BlockStmt:
				list = &x.List
			case *ast.CaseClause:
				list = &x.Body
			}
			if list == nil {
				return true
			}
			for i, st := range *list {
				if ids, ok := st.(*ast.IncDecStmt); ok {
					op := token.ADD_ASSIGN
					if ids.Tok == token.DEC {
						op = token.SUB_ASSIGN
					}
					(*list)[i] = &ast.AssignStmt{Lhs: []ast.Expr{ids.X}, Tok: op, Rhs: []ast.Expr{&ast.BasicLit{Kind: token.INT, Value: "1"}}}
					n++
				}
			}
			return true
		})
	case "commute-compare":
		// a == b -> b == a, a < b -> b > a ... where neither operand calls anything (len, cap and conversions aside)
		pure := func(e ast.Expr) bool {
			ok := true
			ast.Inspect(e, func(m ast.Node) bool {
				switch x := m.(type) {
				case *ast.CallExpr:
					if tv, has := pk.TypesInfo.Types[x.Fun]; has && tv.IsType() {
						return true
					}
					if id, isID := x.Fun.(*ast.Ident); isID && (id.Name == "len" || id.Name == "cap") {
						if _, isB := pk.TypesInfo.Uses[id].(*types.Builtin); isB {
							return true
						}
					}
					ok = false
				case *ast.FuncLit:
					ok = false
				case *ast.UnaryExpr:
					if x.Op == token.ARROW {
						ok = false
					}
				}
				return ok
			})
			return ok
		}
		flip := map[token.Token]token.Token{token.EQL: token.EQL, token.NEQ: token.NEQ, token.LSS: token.GTR, token.GTR: token.LSS, token.LEQ: token.GEQ, token.GEQ: token.LEQ}
		ast.Inspect(af, func(m ast.Node) bool {
			be, ok := m.(*ast.BinaryExpr)
			if !ok {
				return true
			}
			op, has := flip[be.Op]
			if !has || !pure(be.X) || !pure(be.Y) {
				return true
			}
			// an untyped nil or constant on the left of == compiles as well; operands of mixed precedence get parentheses
			paren := func(e ast.Expr) ast.Expr {
				if _, isBin := e.(*ast.BinaryExpr); isBin {
					return &ast.ParenExpr{X: e}
				}
				return e
			}
			be.X, be.Y = paren(be.Y), paren(be.X)
			be.Op = op
			n++
			return true
		})
	case "rename-locals":
		// every local variable and parameter gets the suffix "0" (fields, package-level objects and labels are left alone)
		rename := map[types.Object]string{}
		for id, obj := range pk.TypesInfo.Defs {
			v, ok := obj.(*types.Var)
			if !ok || v.IsField() || id.Name == "_" || v.Parent() == nil || v.Parent() == pk.Types.Scope() {
				continue
			}
			if pos := pk.Fset.Position(id.Pos()); pos.Filename != abs {
				continue
			}
			rename[obj] = id.Name + "0"
		}
		// do not capture an existing name
		ast.Inspect(af, func(m ast.Node) bool {
			id, ok := m.(*ast.Ident)
			if !ok {
				return true
			}
			obj := pk.TypesInfo.Defs[id]
			if obj == nil {
				obj = pk.TypesInfo.Uses[id]
			}
			if nn, has := rename[obj]; has {
				id.Name = nn
				n++
			}
			return true
		})
	default:
		fmt.Fprintln(os.Stderr, "unknown transformation")
		os.Exit(2)
	}
	if n == 0 {
		os.Exit(3) // nothing to do
	}
	var buf bytes.Buffer
	if err := format.Node(&buf, pk.Fset, af); err != nil {
		fmt.Fprintln(os.Stderr, "format:", err)
		os.Exit(2)
	}
	out := buf.Bytes()
	if !strings.HasSuffix(string(out), "\n") {
		out = append(out, '\n')
	}
	if err := os.WriteFile(abs, out, 0o644); err != nil {
		fmt.Fprintln(os.Stderr, err)
		os.Exit(2)
	}
	fmt.Println(n, "sites")
}
