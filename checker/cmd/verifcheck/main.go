// verifcheck decides the structural rules of one property on /repo's current
// working tree. See /verif/DESIGN.md.
package main

import (
	"encoding/json"
	"flag"
	"fmt"
	"os"
	"sort"
	"strconv"
	"strings"

	"verif/checker/core"
	_ "verif/checker/rules"
	"verif/checker/selftest"
)

func main() {
	prop := flag.String("property", "", "property id (C01..C20)")
	tier := flag.String("tier", "", "quick|thorough (default: $VERIF_TIER or quick)")
	rule := flag.String("rule", "", "run only this rule id")
	explain := flag.String("explain", "", "replay file: re-derive the named obligation and print it")
	list := flag.Bool("list", false, "list properties and rules")
	dump := flag.Bool("dump", false, "print every obligation")
	noself := flag.Bool("noselftest", false, "skip the mutant self-test in the thorough tier")
	oblig := flag.Bool("obligations", false, "print every obligation as a JSON line (used by the self-test, which runs this binary on patched scratch copies)")
	manifest := flag.Bool("manifest", false, "print MANIFEST.json generated from the rule registry")
	flag.Parse()
	if *manifest {
		printManifest()
		return
	}

	if *list {
		var ids []string
		for id := range core.Registry {
			ids = append(ids, id)
		}
		sort.Strings(ids)
		for _, id := range ids {
			p := core.Registry[id]
			fmt.Printf("%s: %s\n", id, p.Decided)
			fmt.Printf("  NOT-COVERED %s\n", p.NotCovered)
			for _, r := range p.Rules {
				cfgs := strings.Join(r.Configs, ",")
				if cfgs == "" {
					cfgs = "default"
				}
				if len(r.Deep) > 0 {
					cfgs += " (+" + strings.Join(r.Deep, ",") + " thorough)"
				}
				fmt.Printf("  %-8s min=%-3d [%s] %s || %s\n", r.ID, r.Min, cfgs, r.Title, r.Covers)
			}
		}
		return
	}
	if *tier == "" {
		*tier = os.Getenv("VERIF_TIER")
	}
	if *tier != "thorough" {
		*tier = "quick"
	}
	seed, _ := strconv.Atoi(os.Getenv("VERIF_SEED"))
	p := core.Registry[*prop]
	if *prop == "ALL" {
		// developer mode: every distinct rule once (first registration wins), for cross-property sweeps
		p = &core.Property{ID: "ALL"}
		seen := map[string]bool{}
		var ids []string
		for id := range core.Registry {
			ids = append(ids, id)
		}
		sort.Strings(ids)
		for _, id := range ids {
			for _, r := range core.Registry[id].Rules {
				if !seen[r.ID] {
					seen[r.ID] = true
					p.Rules = append(p.Rules, r)
				}
			}
		}
	}
	if p == nil {
		fmt.Fprintf(os.Stderr, "unknown property %q\n", *prop)
		os.Exit(2)
	}
	if os.Getenv("VERIF_REPO") != "" {
		core.NoReplay = true // a scratch copy is analysed: its reports are not replay artefacts of /repo
	}
	res := core.RunProperty(p, *tier, seed, *rule)
	if *oblig {
		enc := json.NewEncoder(os.Stdout)
		for _, o := range res.Obligations {
			enc.Encode(map[string]string{"verdict": o.Verdict, "rule": o.Rule, "config": o.Config, "key": o.Key})
		}
		os.Exit(0)
	}
	if *tier == "thorough" && !*noself && *rule == "" && os.Getenv("VERIF_REPO") == "" {
		res.SelfTest = selftest.Run(p, seed)
		if res.SelfTest != nil && res.SelfTest.Missed > 0 {
			// a self-test miss is a defect of the checker, not of /repo: reported loudly on stderr,
			// recorded in the evidence, but it is not a verdict on the analysed tree.
			fmt.Fprintf(os.Stderr, "SELF-TEST: %d mutant(s) not detected: see evidence\n", res.SelfTest.Missed)
		}
		if res.SelfTest != nil && res.SelfTest.Skipped > 0 {
			// a stored change that no longer applies or type-checks tests nothing: it has to be re-made
			fmt.Fprintf(os.Stderr, "SELF-TEST: %d stored change(s) skipped (they no longer apply or type-check on this tree): see evidence\n", res.SelfTest.Skipped)
		}
		if res.SelfTest != nil && len(res.SelfTest.BenignAlarms) > 0 {
			fmt.Fprintf(os.Stderr, "SELF-TEST: %d behaviour-preserving edit(s) raised an alarm: see evidence\n", len(res.SelfTest.BenignAlarms))
		}
	}
	if *rule == "" && os.Getenv("VERIF_REPO") == "" {
		if err := res.WriteEvidence(); err != nil {
			fmt.Fprintf(os.Stderr, "evidence: %v\n", err)
			os.Exit(2)
		}
	}
	if *dump || *explain != "" {
		for _, o := range res.Obligations {
			fmt.Printf("%-13s %-8s %-7s %s @ %s  %s\n", o.Verdict, o.Rule, o.Config, o.Key, o.Pos, o.Detail)
		}
	}
	fmt.Printf("property=%s tier=%s tree=%s configs=%v\n", p.ID, *tier, core.RepoDir(), res.Configs)
	for _, r := range res.Reports {
		fmt.Printf("  %-8s instances=%-4d discharged=%-4d known=%-3d violations=%-3d undecided=%-3d (min %d)  %s\n",
			r.ID, r.Instances, r.Discharged, r.Findings, r.Violations, r.Undecided, r.MinExpected, r.Title)
	}
	for _, l := range res.Lines {
		fmt.Println(l)
	}
	if res.SelfTest != nil {
		fmt.Printf("self-test: mutants run=%d detected=%d missed=%d skipped=%d; benign edits run=%d silent=%d\n", res.SelfTest.Run, res.SelfTest.Detected, res.SelfTest.Missed, res.SelfTest.Skipped, res.SelfTest.BenignRun, res.SelfTest.BenignSilent)
	}
	os.Exit(res.Exit)
}

var allProps = []string{"C01", "C02", "C03", "C04", "C05", "C06", "C07", "C08", "C09", "C10", "C11", "C12", "C13", "C14", "C15", "C16", "C17", "C18", "C19", "C20"}

func printManifest() {
	type obj = map[string]interface{}
	var checks []obj
	na := []obj{}
	var served []string
	for _, id := range allProps {
		p := core.Registry[id]
		if p == nil || len(p.Rules) == 0 {
			na = append(na, obj{"property_id": id, "reason": "no structural rule for this property is built yet in this round (DESIGN.md §2 lists the planned rules); nothing is claimed until a rule exists in the binary"})
			continue
		}
		served = append(served, id)
		var rs []string
		for _, r := range p.Rules {
			rs = append(rs, r.ID+" ("+r.Title+")")
		}
		checks = append(checks, obj{
			"property_id":         id,
			"quick_cmd":           "./check.sh " + id + " quick",
			"thorough_cmd":        "./check.sh " + id + " thorough",
			"evidence_file":       "/verif/evidence/" + id + ".json",
			"replay_cmd_template": "./bin/verifcheck -property " + id + " -explain {path}",
			"engine":              "verifcheck",
			"technique":           "static analysis: repository-specific rules over go/types-resolved AST, constant-table evaluation, go/cfg dominators and go/ssa value flow; no execution",
			"level_claimed": obj{
				"category":   "other",
				"text":       "Structural necessary conditions only. " + p.Decided + " The property quantifies over run-time values, so static analysis decides these named conditions, each of which must hold for the behaviour to hold, and nothing more. Rules: " + strings.Join(rs, "; ") + ".",
				"design_ref": "DESIGN.md §2 " + id,
			},
			"level_note": "Trusted base: go/packages, go/types, go/cfg, go/ssa (x/tools v0.29.0) and the installed Go toolchain; the per-rule idiom tables (an unrecognised form is reported as undecided and fails). NOT covered: " + p.NotCovered,
		})
	}
	m := obj{
		"version":   1,
		"setup_cmd": "cd /verif/checker && GOFLAGS=-mod=mod GOPROXY=off GOSUMDB=off GOTOOLCHAIN=local GOWORK=off go build -o /verif/bin/verifcheck ./cmd/verifcheck",
		"hooks": obj{
			"guard":            "verif",
			"enable":           "none needed: static analysis instruments nothing; checks load /repo's working tree with go/packages",
			"baseline_off_cmd": "cd /repo && GOFLAGS=-mod=mod go test -json -vet=off -count=1 -timeout 25m ./...",
			"source_commits":   []string{},
			"add_only":         true,
		},
		"engines":        []obj{{"name": "verifcheck", "path": "/verif/checker", "serves_properties": served, "kind_free_text": "custom static analyser (Go, golang.org/x/tools v0.29.0): go/packages loader over three build configurations, constant-table evaluator, byte-dispatch partitioner, CFG dominance, SSA value flow, sibling normal forms; self-test on patched scratch copies in the thorough tier"}},
		"checks":         checks,
		"not_applicable": na,
		"notes":          "Every claim is level `other`: named structural necessary conditions decided from source on every run (see DESIGN.md §0). Genuine defects that are not repaired are listed in /verif/known_findings.json and printed as KNOWN-FINDING lines; fixed ones are recorded there as `fixed:` lines.",
	}
	b, _ := json.MarshalIndent(m, "", " ")
	fmt.Println(string(b))
}
