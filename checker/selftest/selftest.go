// Package selftest re-runs a property's rules on patched scratch copies of the
// analysed tree (mutants) and reports which patches the rules detect. It is
// evidence that the rules are not vacuous; it is never part of the verdict.
package selftest

import (
	"encoding/json"
	"fmt"
	"os"
	"os/exec"
	"path/filepath"
	"sort"
	"strings"

	"verif/checker/core"
)

type Meta struct {
	Property   string   `json:"property"`
	Properties []string `json:"properties"`
	ExpectRule string   `json:"expect_rule"`
	ExpectKey  string   `json:"expect_key_contains"`
	Clears     string   `json:"clears_key_contains"` // mutant that must make a finding disappear
	Needs      string   `json:"needs"`
	Tier       string   `json:"tier"` // "thorough" if the mutant only shows in a configuration of the thorough tier
	Retired    string   `json:"retired"` // why a stored change no longer breaks the property (it is skipped)
}

type mutant struct {
	name  string
	patch string
	meta  Meta
}

func collect(prop string) []mutant {
	var out []mutant
	add := func(name, patch, metaPath string) {
		b, err := os.ReadFile(metaPath)
		if err != nil {
			return
		}
		var m Meta
		if json.Unmarshal(b, &m) != nil {
			return
		}
		ok := m.Property == prop
		for _, p := range m.Properties {
			if p == prop {
				ok = true
			}
		}
		if !ok || m.Retired != "" {
			return
		}
		out = append(out, mutant{name: name, patch: patch, meta: m})
	}
	v := core.VerifDir()
	ms, _ := filepath.Glob(filepath.Join(v, "mutants", "*", "*.diff"))
	for _, d := range ms {
		add("mutants/"+filepath.Base(filepath.Dir(d))+"/"+filepath.Base(d), d, strings.TrimSuffix(d, ".diff")+".json")
	}
	ss, _ := filepath.Glob(filepath.Join(v, "seeded", "*", "patch.diff"))
	for _, d := range ss {
		add("seeded/"+filepath.Base(filepath.Dir(d)), d, filepath.Join(filepath.Dir(d), "meta.json"))
	}
	sort.Slice(out, func(i, j int) bool { return out[i].name < out[j].name })
	return out
}

// benign patches: behaviour-preserving edits of /repo (refactorings, equivalent rewrites). Meta: {"properties": [...]}
// (empty: every property), {"what": "..."}.
type benignMeta struct {
	Properties []string `json:"properties"`
	What       string   `json:"what"`
}

func runBenign(prop *core.Property, seed int, baseSet map[string]bool, rep *core.SelfTestReport) {
	files, _ := filepath.Glob(filepath.Join(core.VerifDir(), "benign", "*.diff"))
	sort.Strings(files)
	for _, f := range files {
		var m benignMeta
		if b, err := os.ReadFile(strings.TrimSuffix(f, ".diff") + ".json"); err == nil {
			_ = json.Unmarshal(b, &m)
		}
		applies := len(m.Properties) == 0
		for _, p := range m.Properties {
			if p == prop.ID {
				applies = true
			}
		}
		if !applies {
			continue
		}
		name := "benign/" + filepath.Base(f)
		dir, err := os.MkdirTemp("", "verif-benign-")
		if err != nil {
			continue
		}
		func() {
			defer os.RemoveAll(dir)
			if out, err := exec.Command("rsync", "-a", "--exclude=.git", "--exclude=benchmarks", "/repo/", dir+"/").CombinedOutput(); err != nil {
				rep.Names = append(rep.Names, fmt.Sprintf("%s: skipped (copy failed: %v %s)", name, err, out))
				return
			}
			ap := exec.Command("patch", "-p1", "-s", "--no-backup-if-mismatch", "-i", f)
			ap.Dir = dir
			if out, err := ap.CombinedOutput(); err != nil {
				rep.Names = append(rep.Names, fmt.Sprintf("%s: skipped (patch does not apply to the current tree: %s)", name, strings.TrimSpace(string(out))))
				return
			}
			os.Setenv("VERIF_REPO", dir)
			res := core.RunProperty(prop, "quick", seed, "")
			os.Unsetenv("VERIF_REPO")
			core.DropProgramsFor(dir)
			rep.BenignRun++
			var alarms []string
			for _, o := range res.Obligations {
				if (o.Verdict == core.Violation || o.Verdict == core.Undecided) && !baseSet[key(o)] {
					alarms = append(alarms, o.Rule+" "+o.Key+" ("+o.Verdict+")")
				}
			}
			if len(alarms) == 0 {
				rep.BenignSilent++
				rep.Names = append(rep.Names, name+": silent, as it must be ("+m.What+")")
				return
			}
			if len(alarms) > 4 {
				alarms = append(alarms[:4], fmt.Sprintf("… %d more", len(alarms)-4))
			}
			rep.BenignAlarms = append(rep.BenignAlarms, name+": "+strings.Join(alarms, "; "))
			rep.Names = append(rep.Names, name+": FALSE ALARM "+strings.Join(alarms, "; "))
		}()
	}
}

func key(o core.Obligation) string { return o.Rule + "\x00" + o.Key + "\x00" + o.Verdict }

// Run applies each mutant of the property to a scratch copy of /repo's working
// tree, analyses the copy, and compares with the analysis of /repo itself.
func Run(prop *core.Property, seed int) *core.SelfTestReport {
	muts := collect(prop.ID)
	rep := &core.SelfTestReport{}
	if seed != 0 && len(muts) > 0 {
		k := seed % len(muts)
		if k < 0 {
			k = -k
		}
		muts = append(muts[k:], muts[:k]...)
	}
	core.NoReplay = true
	defer func() { core.NoReplay = false; os.Unsetenv("VERIF_REPO") }()
	os.Unsetenv("VERIF_REPO")
	base := core.RunProperty(prop, "thorough", seed, "")
	baseSet := map[string]bool{}
	for _, o := range base.Obligations {
		baseSet[key(o)] = true
	}
	runBenign(prop, seed, baseSet, rep)
	for _, m := range muts {
		dir, err := os.MkdirTemp("", "verif-mut-")
		if err != nil {
			rep.Skipped++
			rep.Names = append(rep.Names, m.name+": skipped (tmp dir)")
			continue
		}
		func() {
			defer os.RemoveAll(dir)
			cp := exec.Command("rsync", "-a", "--exclude=.git", "--exclude=benchmarks", "/repo/", dir+"/")
			if out, err := cp.CombinedOutput(); err != nil {
				rep.Skipped++
				rep.Names = append(rep.Names, fmt.Sprintf("%s: skipped (copy failed: %v %s)", m.name, err, out))
				return
			}
			ap := exec.Command("patch", "-p1", "-s", "--no-backup-if-mismatch", "-i", m.patch)
			ap.Dir = dir
			if out, err := ap.CombinedOutput(); err != nil {
				rep.Skipped++
				rep.Names = append(rep.Names, fmt.Sprintf("%s: skipped (patch does not apply to the current tree: %s)", m.name, strings.TrimSpace(string(out))))
				return
			}
			os.Setenv("VERIF_REPO", dir)
			tier := "quick"
			if m.meta.Tier == "thorough" {
				tier = "thorough"
			}
			res := core.RunProperty(prop, tier, seed, m.meta.ExpectRule)
			os.Unsetenv("VERIF_REPO")
			core.DropProgramsFor(dir)
			rep.Run++
			var hit []string
			loaderFail := false
			for _, o := range res.Obligations {
				if o.Key == "loader" {
					loaderFail = true
				}
				if (o.Verdict == core.Violation || o.Verdict == core.Undecided) && !baseSet[key(o)] {
					if m.meta.ExpectKey == "" || strings.Contains(o.Key, m.meta.ExpectKey) {
						hit = append(hit, o.Rule+" "+o.Key+" ("+o.Verdict+")")
					}
				}
			}
			if loaderFail {
				rep.Run--
				rep.Skipped++
				rep.Names = append(rep.Names, m.name+": skipped (mutant does not type-check)")
				return
			}
			if m.meta.Clears != "" {
				cleared := true
				for _, o := range res.Obligations {
					if strings.Contains(o.Key, m.meta.Clears) && o.Verdict != core.Discharged && o.Verdict != core.Observed {
						cleared = false
					}
				}
				if cleared {
					rep.Detected++
					rep.Names = append(rep.Names, m.name+": detected (finding cleared: "+m.meta.Clears+")")
				} else {
					rep.Missed++
					rep.Names = append(rep.Names, m.name+": MISSED (finding not cleared)")
				}
				return
			}
			if len(hit) > 0 {
				rep.Detected++
				if len(hit) > 3 {
					hit = append(hit[:3], fmt.Sprintf("… %d more", len(hit)-3))
				}
				rep.Names = append(rep.Names, m.name+": detected by "+strings.Join(hit, "; "))
			} else {
				rep.Missed++
				rep.Names = append(rep.Names, m.name+": MISSED (expected "+m.meta.ExpectRule+" "+m.meta.ExpectKey+")")
			}
		}()
	}
	return rep
}
