// Package selftest re-runs a property's rules on patched scratch copies of the
// analysed tree (mutants) and reports which patches the rules detect. It is
// evidence that the rules are not vacuous; it is never part of the verdict.
package selftest

import (
	"encoding/json"
	"fmt"
	"os"
	"os/exec"
	"path/filepath"
	"sort"
	"strconv"
	"strings"
	"sync"

	"verif/checker/core"
)

type Meta struct {
	Property   string   `json:"property"`
	Properties []string `json:"properties"`
	ExpectRule string   `json:"expect_rule"`
	ExpectKey  string   `json:"expect_key_contains"`
	Clears     string   `json:"clears_key_contains"` // mutant that must make a finding disappear
	Needs      string   `json:"needs"`
	Tier       string   `json:"tier"`    // "thorough" if the mutant only shows in a configuration of the thorough tier
	Retired    string   `json:"retired"` // why a stored change no longer breaks the property (it is skipped)
}

type mutant struct {
	name  string
	patch string
	meta  Meta
}

func collect(prop string) []mutant {
	var out []mutant
	add := func(name, patch, metaPath string) {
		b, err := os.ReadFile(metaPath)
		if err != nil {
			return
		}
		var m Meta
		if json.Unmarshal(b, &m) != nil {
			return
		}
		ok := m.Property == prop
		for _, p := range m.Properties {
			if p == prop {
				ok = true
			}
		}
		if !ok || m.Retired != "" {
			return
		}
		out = append(out, mutant{name: name, patch: patch, meta: m})
	}
	v := core.VerifDir()
	ms, _ := filepath.Glob(filepath.Join(v, "mutants", "*", "*.diff"))
	for _, d := range ms {
		add("mutants/"+filepath.Base(filepath.Dir(d))+"/"+filepath.Base(d), d, strings.TrimSuffix(d, ".diff")+".json")
	}
	ss, _ := filepath.Glob(filepath.Join(v, "seeded", "*", "patch.diff"))
	for _, d := range ss {
		add("seeded/"+filepath.Base(filepath.Dir(d)), d, filepath.Join(filepath.Dir(d), "meta.json"))
	}
	sort.Slice(out, func(i, j int) bool { return out[i].name < out[j].name })
	return out
}

// benign patches: behaviour-preserving edits of /repo (refactorings, equivalent rewrites). Meta: {"properties": [...]}
// (empty: every property), {"what": "..."}.
type benignMeta struct {
	Properties []string `json:"properties"`
	What       string   `json:"what"`
}

type oblig struct {
	Verdict string `json:"verdict"`
	Rule    string `json:"rule"`
	Config  string `json:"config"`
	Key     string `json:"key"`
}

func okey(o oblig) string { return o.Rule + "\x00" + o.Key + "\x00" + o.Verdict }

// analyse applies patch to a scratch copy of /repo and runs this binary on the copy (a process of its own, so that
// several copies can be analysed at the same time). applied is false when the patch does not apply.
func analyse(prop, tier, rule, patch string) (obs []oblig, applied bool, note string) {
	dir, err := os.MkdirTemp("", "verif-scratch-")
	if err != nil {
		return nil, false, "tmp dir: " + err.Error()
	}
	defer os.RemoveAll(dir)
	if out, err := exec.Command("rsync", "-a", "--exclude=.git", "--exclude=benchmarks", "/repo/", dir+"/").CombinedOutput(); err != nil {
		return nil, false, fmt.Sprintf("copy failed: %v %s", err, out)
	}
	ap := exec.Command("patch", "-p1", "-s", "--no-backup-if-mismatch", "-i", patch)
	ap.Dir = dir
	if out, err := ap.CombinedOutput(); err != nil {
		return nil, false, "patch does not apply to the current tree: " + strings.TrimSpace(string(out))
	}
	args := []string{"-property", prop, "-tier", tier, "-obligations"}
	if rule != "" {
		args = append(args, "-rule", rule)
	}
	cmd := exec.Command(os.Args[0], args...)
	cmd.Env = append(os.Environ(), "VERIF_REPO="+dir)
	out, err := cmd.Output()
	if err != nil {
		return nil, true, "analyser failed on the patched copy: " + err.Error()
	}
	for _, l := range strings.Split(string(out), "\n") {
		if l == "" {
			continue
		}
		var o oblig
		if json.Unmarshal([]byte(l), &o) == nil {
			obs = append(obs, o)
		}
	}
	return obs, true, ""
}

func jobs() int {
	if n, err := strconv.Atoi(os.Getenv("VERIF_JOBS")); err == nil && n > 0 {
		return n
	}
	return 8
}

// Run applies each mutant and each benign edit to a scratch copy of /repo's working tree, analyses the copy, and
// compares with the analysis of /repo itself.
func Run(prop *core.Property, seed int) *core.SelfTestReport {
	muts := collect(prop.ID)
	rep := &core.SelfTestReport{}
	if seed != 0 && len(muts) > 0 {
		k := seed % len(muts)
		if k < 0 {
			k = -k
		}
		muts = append(muts[k:], muts[:k]...)
	}
	core.NoReplay = true
	base := core.RunProperty(prop, "thorough", seed, "")
	core.NoReplay = false
	baseSet := map[string]bool{}
	for _, o := range base.Obligations {
		baseSet[o.Rule+"\x00"+o.Key+"\x00"+o.Verdict] = true
	}
	type job struct {
		benign bool
		name   string
		patch  string
		meta   Meta
		what   string
	}
	var work []job
	files, _ := filepath.Glob(filepath.Join(core.VerifDir(), "benign", "*.diff"))
	sort.Strings(files)
	for _, f := range files {
		var m benignMeta
		if b, err := os.ReadFile(strings.TrimSuffix(f, ".diff") + ".json"); err == nil {
			_ = json.Unmarshal(b, &m)
		}
		applies := len(m.Properties) == 0
		for _, p := range m.Properties {
			if p == prop.ID {
				applies = true
			}
		}
		if applies {
			work = append(work, job{benign: true, name: "benign/" + filepath.Base(f), patch: f, what: m.What})
		}
	}
	for _, m := range muts {
		work = append(work, job{name: m.name, patch: m.patch, meta: m.meta})
	}
	type outcome struct {
		obs     []oblig
		applied bool
		note    string
	}
	results := make([]outcome, len(work))
	sem := make(chan struct{}, jobs())
	var wg sync.WaitGroup
	for i, j := range work {
		wg.Add(1)
		sem <- struct{}{}
		go func(i int, j job) {
			defer wg.Done()
			defer func() { <-sem }()
			tier, rule := "quick", ""
			if !j.benign {
				rule = j.meta.ExpectRule
				if j.meta.Tier == "thorough" {
					tier = "thorough"
				}
			}
			obs, applied, note := analyse(prop.ID, tier, rule, j.patch)
			results[i] = outcome{obs, applied, note}
		}(i, j)
	}
	wg.Wait()
	for i, j := range work {
		r := results[i]
		if !r.applied || r.note != "" {
			if !j.benign {
				rep.Skipped++
			}
			rep.Names = append(rep.Names, j.name+": skipped ("+r.note+")")
			continue
		}
		loaderFail := false
		var fresh []oblig
		for _, o := range r.obs {
			if o.Key == "loader" {
				loaderFail = true
			}
			if (o.Verdict == core.Violation || o.Verdict == core.Undecided) && !baseSet[okey(o)] {
				fresh = append(fresh, o)
			}
		}
		if j.benign {
			rep.BenignRun++
			if len(fresh) == 0 {
				rep.BenignSilent++
				rep.Names = append(rep.Names, j.name+": silent, as it must be ("+j.what+")")
				continue
			}
			var alarms []string
			for _, o := range fresh {
				alarms = append(alarms, o.Rule+" "+o.Key+" ("+o.Verdict+")")
			}
			if len(alarms) > 4 {
				alarms = append(alarms[:4], fmt.Sprintf("… %d more", len(alarms)-4))
			}
			rep.BenignAlarms = append(rep.BenignAlarms, j.name+": "+strings.Join(alarms, "; "))
			rep.Names = append(rep.Names, j.name+": FALSE ALARM "+strings.Join(alarms, "; "))
			continue
		}
		if loaderFail {
			rep.Skipped++
			rep.Names = append(rep.Names, j.name+": skipped (mutant does not type-check)")
			continue
		}
		rep.Run++
		if j.meta.Clears != "" {
			cleared := true
			for _, o := range r.obs {
				if strings.Contains(o.Key, j.meta.Clears) && o.Verdict != core.Discharged && o.Verdict != core.Observed {
					cleared = false
				}
			}
			if cleared {
				rep.Detected++
				rep.Names = append(rep.Names, j.name+": detected (finding cleared: "+j.meta.Clears+")")
			} else {
				rep.Missed++
				rep.Names = append(rep.Names, j.name+": MISSED (finding not cleared)")
			}
			continue
		}
		var hit []string
		for _, o := range fresh {
			if j.meta.ExpectKey == "" || strings.Contains(o.Key, j.meta.ExpectKey) {
				hit = append(hit, o.Rule+" "+o.Key+" ("+o.Verdict+")")
			}
		}
		if len(hit) > 0 {
			rep.Detected++
			if len(hit) > 3 {
				hit = append(hit[:3], fmt.Sprintf("… %d more", len(hit)-3))
			}
			rep.Names = append(rep.Names, j.name+": detected by "+strings.Join(hit, "; "))
		} else {
			rep.Missed++
			rep.Names = append(rep.Names, j.name+": MISSED (expected "+j.meta.ExpectRule+" "+j.meta.ExpectKey+")")
		}
	}
	return rep
}
