package rules

import (
	"fmt"
	"go/ast"
	"go/constant"
	"go/token"
	"go/types"
	"math/big"
	"sort"
	"strconv"
	"strings"

	"verif/checker/core"
)

// ---- C16.R1 accumulation cannot overflow silently ----

func c16r1(rc *core.RC) {
	p := rc.P
	for _, spec := range []struct {
		fn, table string
		max       *big.Int
		signed    bool
	}{
		{"intDecoder.parseInt", "pow10i64", new(big.Int).SetUint64(1<<63 - 1), true},
		{"uintDecoder.parseUint", "pow10u64", new(big.Int).SetUint64(^uint64(0)), false},
	} {
		fd := p.Func("decoder", spec.fn)
		key := "decoder." + spec.fn + "/overflow-guard"
		if fd == nil {
			rc.Unknown(key, token.NoPos, "parser not found")
			continue
		}
		rc.Touch("decoder." + spec.fn)
		info := p.Info(fd)
		t := core.EvalTable(p.Pkg("decoder"), spec.table)
		if t == nil {
			rc.Unknown(key, fd.Pos(), "digit weight table %s not found", spec.table)
			continue
		}
		// the accumulator: a statement inside a loop that multiplies by an element of the weight table
		hasAcc := false
		tblObj := p.Pkg("decoder").Types.Scope().Lookup(spec.table)
		ast.Inspect(fd.Body, func(n ast.Node) bool {
			loop, ok := n.(*ast.ForStmt)
			if !ok {
				return true
			}
			ast.Inspect(loop.Body, func(m ast.Node) bool {
				if ix, ok := m.(*ast.IndexExpr); ok && core.ObjOf(info, ix.X) == tblObj {
					hasAcc = true
				}
				return true
			})
			return true
		})
		if !hasAcc {
			// delegation to strconv is fine
			deleg := false
			ast.Inspect(fd.Body, func(n ast.Node) bool {
				if c, ok := n.(*ast.CallExpr); ok {
					if cn := core.CalleeName(info, c); cn == "strconv.ParseInt" || cn == "strconv.ParseUint" {
						deleg = true
					}
				}
				return true
			})
			if deleg {
				rc.OK(key, fd.Pos(), "delegates to strconv")
			} else {
				rc.Unknown(key, fd.Pos(), "neither a digit accumulation loop over %s nor a strconv call recognised", spec.table)
			}
			continue
		}
		// reachable maximum with L digits
		reach := new(big.Int).Exp(big.NewInt(10), big.NewInt(int64(t.Len)), nil)
		reach.Sub(reach, big.NewInt(1))
		if reach.Cmp(spec.max) <= 0 {
			rc.OK(key, fd.Pos(), "%d digits cannot exceed the accumulator", t.Len)
			continue
		}
		// a guard must mention the bound: the extreme value (integer or decimal string), max/10 (+1), or 1<<63, in an erroring comparison, or call strconv
		bounds := map[string]bool{}
		add := func(b *big.Int) { bounds[b.String()] = true }
		add(spec.max)
		add(new(big.Int).Add(spec.max, big.NewInt(1)))
		q := new(big.Int).Div(spec.max, big.NewInt(10))
		add(q)
		add(new(big.Int).Add(q, big.NewInt(1)))
		guard := ""
		ast.Inspect(fd.Body, func(n ast.Node) bool {
			ifs, ok := n.(*ast.IfStmt)
			if !ok {
				return true
			}
			mentions := false
			scan := func(m ast.Node) bool {
				e, ok := m.(ast.Expr)
				if !ok {
					return true
				}
				if cv := core.ConstValue(info, e); cv != nil {
					switch cv.Kind() {
					case constant.String:
						if bounds[constant.StringVal(cv)] {
							mentions = true
						}
					case constant.Int:
						if bounds[cv.ExactString()] {
							mentions = true
						}
					}
				}
				return true
			}
			ast.Inspect(ifs.Cond, scan)
			if !mentions {
				// a variable compared in the condition may hold the bound (limit := "922…")
				ast.Inspect(ifs.Cond, func(m ast.Node) bool {
					if id, ok := m.(*ast.Ident); ok {
						if v, ok := info.Uses[id].(*types.Var); ok {
							ast.Inspect(fd.Body, func(k ast.Node) bool {
								if as, ok := k.(*ast.AssignStmt); ok {
									for i, l := range as.Lhs {
										if core.ObjOf(info, l) == v && i < len(as.Rhs) {
											scan(as.Rhs[i])
										}
									}
								}
								return true
							})
						}
					}
					return true
				})
			}
			if !mentions {
				return true
			}
			errExit := false
			ast.Inspect(ifs.Body, func(m ast.Node) bool {
				if r, ok := m.(*ast.ReturnStmt); ok && core.ReturnIsError(info, r) {
					errExit = true
				}
				return true
			})
			if errExit {
				guard = core.Src(p.Fset, ifs.Cond)
			}
			return true
		})
		// can a single product digit*weight already wrap?
		maxW := new(big.Int)
		for i := 0; i < t.Len; i++ {
			if u, ok := t.Uint(i); ok {
				if w := new(big.Int).SetUint64(u); w.Cmp(maxW) > 0 {
					maxW = w
				}
			}
		}
		productWraps := new(big.Int).Mul(maxW, big.NewInt(9)).Cmp(spec.max) > 0
		// a carry test: an erroring comparison between two variables of the accumulator type (next < sum)
		carry := ""
		ast.Inspect(fd.Body, func(n ast.Node) bool {
			ifs, ok := n.(*ast.IfStmt)
			if !ok {
				return true
			}
			be, ok := core.Unparen(ifs.Cond).(*ast.BinaryExpr)
			if !ok || (be.Op != token.LSS && be.Op != token.GTR) {
				return true
			}
			xo, xv := core.ObjOf(info, be.X).(*types.Var)
			yo, yv := core.ObjOf(info, be.Y).(*types.Var)
			if !xv || !yv {
				return true
			}
			// both sides are locals of the accumulator's type (the function's first result)
			local := func(v *types.Var) bool { return v.Pkg() != nil && v.Parent() != v.Pkg().Scope() && !v.IsField() }
			fobj, _ := info.Defs[fd.Name].(*types.Func)
			if fobj == nil || !local(xo) || !local(yo) {
				return true
			}
			acc := fobj.Type().(*types.Signature).Results().At(0).Type()
			if !types.Identical(xo.Type(), acc) || !types.Identical(yo.Type(), acc) {
				return true
			}
			ast.Inspect(ifs.Body, func(m ast.Node) bool {
				if r, ok := m.(*ast.ReturnStmt); ok && core.ReturnIsError(info, r) {
					carry = core.Src(p.Fset, ifs.Cond)
				}
				return true
			})
			return true
		})
		if guard != "" {
			rc.OK(key, fd.Pos(), "an erroring comparison against the type's bound exists: %s", guard)
		} else if carry != "" && !productWraps {
			rc.OK(key, fd.Pos(), "carry test %s suffices: 9 × the largest weight (%s) fits the accumulator, so only the addition can wrap", carry, maxW)
		} else if carry != "" {
			rc.Bad(key, fd.Pos(), "the only overflow test is the carry test %s, but the product digit × weight can itself exceed the accumulator (9 × %s > %s): a %d-digit literal with a large leading digit wraps in the multiplication and is stored silently", carry, maxW, spec.max, t.Len)
		} else {
			rc.Bad(key, fd.Pos(), "up to %d digits are accumulated (max 10^%d-1) into a %s, which overflows, and no erroring comparison mentions the bound %s: an out-of-range literal wraps around silently", t.Len, t.Len, map[bool]string{true: "int64", false: "uint64"}[spec.signed], spec.max)
		}
	}
}

// ---- C16.R2 range checks cover every narrower kind ----

// evalRange evaluates a condition over the single variable v with constant
// comparisons at the point x. ok=false if the shape is not understood.
func evalRange(info *types.Info, e ast.Expr, v types.Object, x *big.Int) (bool, bool) {
	e = core.Unparen(e)
	be, ok := e.(*ast.BinaryExpr)
	if !ok {
		return false, false
	}
	switch be.Op {
	case token.LOR, token.LAND:
		l, ok1 := evalRange(info, be.X, v, x)
		r, ok2 := evalRange(info, be.Y, v, x)
		if !ok1 || !ok2 {
			return false, false
		}
		if be.Op == token.LOR {
			return l || r, true
		}
		return l && r, true
	case token.LSS, token.LEQ, token.GTR, token.GEQ, token.EQL, token.NEQ:
		val := func(s ast.Expr) (*big.Int, bool) {
			if core.ObjOf(info, s) == v {
				return x, true
			}
			if cv := core.ConstValue(info, s); cv != nil {
				if iv := constant.ToInt(cv); iv.Kind() == constant.Int {
					b, ok := new(big.Int).SetString(iv.ExactString(), 10)
					return b, ok
				}
			}
			return nil, false
		}
		l, ok1 := val(be.X)
		r, ok2 := val(be.Y)
		if !ok1 || !ok2 {
			return false, false
		}
		c := l.Cmp(r)
		switch be.Op {
		case token.LSS:
			return c < 0, true
		case token.LEQ:
			return c <= 0, true
		case token.GTR:
			return c > 0, true
		case token.GEQ:
			return c >= 0, true
		case token.EQL:
			return c == 0, true
		default:
			return c != 0, true
		}
	}
	return false, false
}

func c16r2(rc *core.RC) {
	p := rc.P
	sizes := p.Pkg("decoder").TypesSizes
	wordBits := int(sizes.Sizeof(types.Typ[types.Int])) * 8
	bitsOf := map[string]int{"Int8": 8, "Int16": 16, "Int32": 32, "Int64": 64, "Int": wordBits, "Uint8": 8, "Uint16": 16, "Uint32": 32, "Uint64": 64, "Uint": wordBits, "Uintptr": wordBits}
	for _, spec := range []struct {
		typ    string
		signed bool
		kinds  []string
	}{
		{"intDecoder", true, []string{"Int8", "Int16", "Int32", "Int", "Int64"}},
		{"uintDecoder", false, []string{"Uint8", "Uint16", "Uint32", "Uint", "Uintptr", "Uint64"}},
	} {
		for _, m := range []string{"Decode", "DecodeStream"} {
			fd := p.Func("decoder", spec.typ+"."+m)
			fn := "decoder." + spec.typ + "." + m
			if fd == nil {
				rc.Unknown(fn, token.NoPos, "decoder method not found")
				continue
			}
			rc.Touch(fn)
			info := p.Info(fd)
			kss := kindSwitches(info, fd)
			if len(kss) != 1 {
				rc.Unknown(fn+"/range-switch", fd.Pos(), "expected one switch over the destination kind, found %d", len(kss))
				continue
			}
			ks := kss[0]
			for _, k := range spec.kinds {
				bits := bitsOf[k]
				key := fmt.Sprintf("%s/range %s", fn, k)
				if bits >= 64 {
					rc.OK(key, ks.sw.Pos(), "%d-bit destination holds every parsed value", bits)
					continue
				}
				cc := ks.clause[k]
				if cc == nil {
					rc.Bad(key, ks.sw.Pos(), "destination kind %s is %d bits wide in this configuration but the range switch has no clause for it: an out-of-range literal is truncated by the store", k, bits)
					continue
				}
				// the clause must start with an erroring if over the parsed value
				var ifs *ast.IfStmt
				if len(cc.Body) > 0 {
					ifs, _ = cc.Body[0].(*ast.IfStmt)
				}
				if ifs == nil {
					rc.Bad(key, cc.Pos(), "clause for %s has no range test", k)
					continue
				}
				var v types.Object
				ast.Inspect(ifs.Cond, func(n ast.Node) bool {
					if id, ok := n.(*ast.Ident); ok {
						if o, ok := info.Uses[id].(*types.Var); ok && v == nil {
							v = o
						}
					}
					return true
				})
				errExit := len(ifs.Body.List) > 0
				if errExit {
					r, ok := ifs.Body.List[len(ifs.Body.List)-1].(*ast.ReturnStmt)
					errExit = ok && core.ReturnIsError(info, r)
				}
				var lo, hi *big.Int
				if spec.signed {
					hi = new(big.Int).Lsh(big.NewInt(1), uint(bits-1))
					lo = new(big.Int).Neg(hi)
					hi.Sub(hi, big.NewInt(1))
				} else {
					lo = big.NewInt(0)
					hi = new(big.Int).Lsh(big.NewInt(1), uint(bits))
					hi.Sub(hi, big.NewInt(1))
				}
				pts := []struct {
					x    *big.Int
					want bool
				}{
					{new(big.Int).Sub(lo, big.NewInt(1)), true}, {lo, false}, {hi, false}, {new(big.Int).Add(hi, big.NewInt(1)), true},
				}
				if !spec.signed {
					pts = pts[1:]
				}
				good, understood := errExit, true
				for _, pt := range pts {
					got, ok := evalRange(info, ifs.Cond, v, pt.x)
					if !ok {
						understood = false
						break
					}
					if got != pt.want {
						good = false
					}
				}
				if !understood {
					rc.Unknown(key, ifs.Pos(), "range condition not understood: %s", core.Src(p.Fset, ifs.Cond))
					continue
				}
				rc.Check(good, key, ifs.Pos(), "range test `%s` rejects exactly the values outside [%s, %s] and exits with an error", core.Src(p.Fset, ifs.Cond), lo, hi)
			}
		}
	}
}

// ---- C16.R3 a sign needs a digit ----

func c16r3(rc *core.RC) {
	p := rc.P
	for _, m := range []string{"decodeByte", "decodeStreamByte"} {
		fd := p.Func("decoder", "intDecoder."+m)
		fn := "decoder.intDecoder." + m
		if fd == nil {
			rc.Unknown(fn, token.NoPos, "scanner not found")
			continue
		}
		rc.Touch(fn)
		info := p.Info(fd)
		var bs *core.ByteSwitch
		ast.Inspect(fd.Body, func(n ast.Node) bool {
			if sw, ok := n.(*ast.SwitchStmt); ok && bs == nil {
				if b, _ := core.EvalByteSwitch(info, sw); b != nil && b.HasLabel('-') {
					bs = b
				}
			}
			return true
		})
		if bs == nil {
			rc.Unknown(fn+"/minus-clause", fd.Pos(), "no dispatch clause for '-'")
			continue
		}
		cc := bs.ClauseOf('-')
		// a test on the token length (len(x) < 2 / <= 1 / == 1) with an error exit (return or goto to an erroring label)
		cf := core.BuildCFGFor(fd, info)
		found := false
		ast.Inspect(cc, func(n ast.Node) bool {
			ifs, ok := n.(*ast.IfStmt)
			if !ok {
				return true
			}
			hasLen := false
			ast.Inspect(ifs.Cond, func(m ast.Node) bool {
				if c, ok := m.(*ast.CallExpr); ok && core.IsBuiltin(info, c, "len") {
					hasLen = true
				}
				return true
			})
			if !hasLen {
				return true
			}
			gb, _ := cf.BlockOf(ifs.Cond)
			tb, _ := core.IfEdges(gb)
			if tb != nil && cf.AllPathsReturnError(tb, nil) {
				found = true
			}
			return true
		})
		// "-0" must not be followed by a digit: a test of the token's second byte against '0' with an error exit
		lead := false
		ast.Inspect(cc, func(n ast.Node) bool {
			ifs, ok := n.(*ast.IfStmt)
			if !ok {
				return true
			}
			tests := false
			ast.Inspect(ifs.Cond, func(m ast.Node) bool {
				be, ok := m.(*ast.BinaryExpr)
				if !ok || be.Op != token.EQL {
					return true
				}
				ix, ok := core.Unparen(be.X).(*ast.IndexExpr)
				if !ok {
					return true
				}
				i, ok1 := core.ConstInt(info, ix.Index)
				v, ok2 := core.ConstInt(info, be.Y)
				if ok1 && ok2 && i == 1 && v == '0' {
					tests = true
				}
				return true
			})
			if !tests {
				return true
			}
			gb, _ := cf.BlockOf(ifs.Cond)
			tb, _ := core.IfEdges(gb)
			if tb != nil && cf.AllPathsReturnError(tb, nil) {
				lead = true
			}
			return true
		})
		rc.Check(lead, fn+"/minus-zero-then-digit", cc.Pos(), "the '-' clause rejects a token whose first digit is 0 and that has more digits (-01 is not a JSON number; the positive case leaves at the first 0)")
		shared := len(bs.Labels[bs.Of['-']]) > 1
		if found && !shared {
			rc.OK(fn+"/minus-needs-digit", cc.Pos(), "the '-' clause rejects a token without digits")
		} else if found && shared {
			rc.OK(fn+"/minus-needs-digit", cc.Pos(), "the clause shared with digits tests the token length")
		} else {
			rc.Bad(fn+"/minus-needs-digit", cc.Pos(), "the clause that accepts '-' never tests that a digit followed: a bare minus sign is returned as a number token (and parsed as 0)")
		}
	}
}

// ---- C16.R4 width tables ----

var kindGoType = map[string]types.BasicKind{
	"Int": types.Int, "Int8": types.Int8, "Int16": types.Int16, "Int32": types.Int32, "Int64": types.Int64,
	"Uint": types.Uint, "Uint8": types.Uint8, "Uint16": types.Uint16, "Uint32": types.Uint32, "Uint64": types.Uint64, "Uintptr": types.Uintptr,
	"Float32": types.Float32, "Float64": types.Float64,
}

// storeTypeOf finds, in the function literal passed by a compileXxx function,
// the Go type of the store `*(*T)(p) = T(v)`.
func storeTypesIn(info *types.Info, fd *ast.FuncDecl) []types.Type {
	var out []types.Type
	ast.Inspect(fd.Body, func(n ast.Node) bool {
		fl, ok := n.(*ast.FuncLit)
		if !ok {
			return true
		}
		ast.Inspect(fl.Body, func(m ast.Node) bool {
			as, ok := m.(*ast.AssignStmt)
			if !ok || len(as.Lhs) != 1 {
				return true
			}
			if st, ok := core.Unparen(as.Lhs[0]).(*ast.StarExpr); ok {
				if tv := info.Types[st]; tv.Type != nil {
					out = append(out, tv.Type)
				}
			}
			return true
		})
		return false
	})
	return out
}

func c16r4(rc *core.RC) {
	p := rc.P
	// (a) decoder: kind K -> compileK -> closure store of Go type K
	dsizes := p.Pkg("decoder").TypesSizes
	for _, fname := range []string{"compile"} {
		fd := p.Func("decoder", fname)
		if fd == nil {
			rc.Unknown("decoder."+fname, token.NoPos, "compiler not found")
			continue
		}
		rc.Touch("decoder." + fname)
		info := p.Info(fd)
		kss := kindSwitches(info, fd)
		if len(kss) == 0 {
			rc.Unknown("decoder."+fname+"/kind-switch", fd.Pos(), "no kind switch")
			continue
		}
		for _, ks := range kss {
			for k, cc := range ks.clause {
				want, numeric := kindGoType[k]
				if !numeric {
					continue
				}
				key := fmt.Sprintf("decoder.%s/kind %s/store-width", fname, k)
				// last return in clause calling a module function
				var callee *types.Func
				ast.Inspect(cc, func(n ast.Node) bool {
					if r, ok := n.(*ast.ReturnStmt); ok && len(r.Results) > 0 {
						if c, ok := core.Unparen(r.Results[0]).(*ast.CallExpr); ok {
							if f := core.Callee(info, c); f != nil {
								callee = f
							}
						}
					}
					return true
				})
				if callee == nil {
					rc.Unknown(key, cc.Pos(), "no constructor call in the clause")
					continue
				}
				cd := p.DeclOf(callee)
				if cd == nil {
					rc.Unknown(key, cc.Pos(), "constructor %s has no body", callee.Name())
					continue
				}
				sts := storeTypesIn(p.Info(cd), cd)
				if len(sts) == 0 {
					rc.Unknown(key, cd.Pos(), "no `*(*T)(p) = …` store found in the closure of %s", callee.Name())
					continue
				}
				for _, st := range sts {
					b, ok := st.Underlying().(*types.Basic)
					wt := types.Typ[want]
					// same width, same signedness, same number class (uint for uintptr is the same store)
					same := ok && dsizes.Sizeof(b) == dsizes.Sizeof(wt) && (b.Info()&(types.IsUnsigned|types.IsFloat|types.IsInteger)) == (wt.Info()&(types.IsUnsigned|types.IsFloat|types.IsInteger))
					rc.Check(same, key, cd.Pos(), "reflect.%s is decoded by %s, whose closure stores a %s", k, callee.Name(), st)
				}
			}
		}
	}
	// (b) encoder: bit sizes the compiler can put in NumBitSize ⊆ cases of AppendInt / AppendUint / ptrToUint64
	enc := p.Pkg("encoder")
	emitted := map[int64]token.Pos{}
	for _, fd := range p.Funcs("encoder") {
		if fd.Body == nil || p.FileBase(fd.Pos()) != "compiler.go" {
			continue
		}
		info := p.Info(fd)
		ast.Inspect(fd.Body, func(n ast.Node) bool {
			kv, ok := n.(*ast.KeyValueExpr)
			if !ok {
				return true
			}
			if id, ok := kv.Key.(*ast.Ident); ok && id.Name == "bitSize" {
				if v, ok := core.ConstInt(info, kv.Value); ok {
					emitted[v] = kv.Pos()
				}
			}
			return true
		})
	}
	if len(emitted) < 4 {
		rc.Unknown("encoder/bitSize-constants", token.NoPos, "only %d bitSize constants found in the encoder compiler", len(emitted))
	}
	consumers := []struct{ pkg, fn string }{{"encoder", "AppendInt"}, {"encoder", "AppendUint"}}
	for _, vm := range core.VMPkgs {
		consumers = append(consumers, struct{ pkg, fn string }{vm, "ptrToUint64"})
	}
	for _, c := range consumers {
		fd := p.Func(c.pkg, c.fn)
		if fd == nil {
			rc.Unknown(c.pkg+"."+c.fn, token.NoPos, "consumer not found")
			continue
		}
		rc.Touch(c.pkg + "." + c.fn)
		info := p.Info(fd)
		cases := map[int64]bool{}
		ast.Inspect(fd.Body, func(n ast.Node) bool {
			if cc, ok := n.(*ast.CaseClause); ok {
				for _, e := range cc.List {
					if v, ok := core.ConstInt(info, e); ok {
						cases[v] = true
					}
				}
			}
			return true
		})
		for bsz, pos := range emitted {
			if bsz == 0 {
				continue
			}
			rc.Check(cases[bsz], fmt.Sprintf("%s.%s/bitSize %d", c.pkg, c.fn, bsz), pos, "the compiler emits NumBitSize=%d; %s.%s has a case for it", bsz, c.pkg, c.fn)
		}
	}
	// (c) encoder kind -> constructor -> bitSize equals the kind's width
	sizes := enc.TypesSizes
	for _, fname := range []string{"Compiler.typeToCode", "Compiler.typeToCodeWithPtr", "Compiler.mapKeyCode"} {
		fd := p.Func("encoder", fname)
		if fd == nil {
			continue
		}
		info := p.Info(fd)
		for _, ks := range kindSwitches(info, fd) {
			for k, cc := range ks.clause {
				bk, numeric := kindGoType[k]
				if !numeric {
					continue
				}
				want := sizes.Sizeof(types.Typ[bk]) * 8
				var callee *types.Func
				ast.Inspect(cc, func(n ast.Node) bool {
					if r, ok := n.(*ast.ReturnStmt); ok && len(r.Results) > 0 {
						if c, ok := core.Unparen(r.Results[0]).(*ast.CallExpr); ok {
							callee = core.Callee(info, c)
						}
					}
					return true
				})
				if callee == nil {
					continue
				}
				cd := p.DeclOf(callee)
				if cd == nil || cd.Body == nil {
					continue
				}
				cinfo := p.Info(cd)
				key := fmt.Sprintf("encoder.%s/kind %s/bitSize", strings.TrimPrefix(fname, "Compiler."), k)
				found := false
				ast.Inspect(cd.Body, func(n ast.Node) bool {
					kv, ok := n.(*ast.KeyValueExpr)
					if !ok {
						return true
					}
					if id, ok := kv.Key.(*ast.Ident); ok && id.Name == "bitSize" {
						if v, ok := core.ConstInt(cinfo, kv.Value); ok {
							found = true
							rc.Check(v == want, key, kv.Pos(), "reflect.%s (%d bits here) is compiled by %s with bitSize %d", k, want, callee.Name(), v)
						}
					}
					return true
				})
				if !found {
					rc.Note(key, cd.Pos(), "constructor %s sets no bitSize", callee.Name())
				}
			}
		}
	}
}

// ---- C16.R5 an integer decoder is built for a type of the kind it stores ----

// newIntDecoder/newUintDecoder take the range test from typ.Kind() and the store from the closure
// (`*(*uint8)(p) = uint8(v)`). The two agree only if the type handed in has the kind the closure
// stores. For every function that passes a type and such a closure to a constructor, the kind of the
// type argument at each of its call sites is derived from the guards around the call (the clause of
// a `switch t.Kind()`, a conjunct `t.Kind() == reflect.K`), through parameters to all callers.
type kindFlow struct {
	p     *core.Program
	calls map[*types.Func][]kindCallSite
}

type kindCallSite struct {
	fd   *ast.FuncDecl
	call *ast.CallExpr
}

func newKindFlow(p *core.Program, pkg string) *kindFlow {
	kf := &kindFlow{p: p, calls: map[*types.Func][]kindCallSite{}}
	for _, fd := range p.Funcs(pkg) {
		if fd.Body == nil {
			continue
		}
		info := p.Info(fd)
		fd := fd
		ast.Inspect(fd.Body, func(m ast.Node) bool {
			if c, ok := m.(*ast.CallExpr); ok {
				if f := core.Callee(info, c); f != nil {
					kf.calls[f] = append(kf.calls[f], kindCallSite{fd, c})
				}
			}
			return true
		})
	}
	return kf
}

// kindsAt returns the set of reflect kinds e can have at node `at` inside fd; ok=false if unknown.
func (kf *kindFlow) kindsAt(fd *ast.FuncDecl, e ast.Expr, at ast.Node, depth int) (map[string]bool, bool) {
	info := kf.p.Info(fd)
	obj := core.ObjOf(info, e)
	if obj == nil || depth > 5 {
		return nil, false
	}
	isKindOf := func(x ast.Expr) bool {
		c, ok := core.Unparen(x).(*ast.CallExpr)
		if !ok {
			return false
		}
		sel, ok := core.Unparen(c.Fun).(*ast.SelectorExpr)
		return ok && sel.Sel.Name == "Kind" && core.ObjOf(info, sel.X) == obj
	}
	kindConst := func(x ast.Expr) (string, bool) {
		if v, ok := core.ConstInt(info, x); ok {
			if tv, has := info.Types[x]; has && strings.HasSuffix(tv.Type.String(), "reflect.Kind") {
				return reflectKinds[int(v)], true
			}
		}
		return "", false
	}
	var conj func(x ast.Expr) []ast.Expr
	conj = func(x ast.Expr) []ast.Expr {
		if be, ok := core.Unparen(x).(*ast.BinaryExpr); ok && be.Op == token.LAND {
			return append(conj(be.X), conj(be.Y)...)
		}
		return []ast.Expr{x}
	}
	path := core.PathTo(fd.Body, at)
	for i := len(path) - 1; i >= 0; i-- {
		switch x := path[i].(type) {
		case *ast.CaseClause:
			if i >= 2 {
				if sw, ok := path[i-2].(*ast.SwitchStmt); ok && sw.Tag != nil && isKindOf(sw.Tag) && len(x.List) > 0 {
					out := map[string]bool{}
					for _, l := range x.List {
						if k, ok := kindConst(l); ok {
							out[k] = true
						}
					}
					if len(out) > 0 {
						return out, true
					}
				}
			}
		case *ast.IfStmt:
			if i+1 < len(path) && path[i+1] == ast.Node(x.Body) {
				for _, cj := range conj(x.Cond) {
					if be, ok := core.Unparen(cj).(*ast.BinaryExpr); ok && be.Op == token.EQL && isKindOf(be.X) {
						if k, ok := kindConst(be.Y); ok {
							return map[string]bool{k: true}, true
						}
					}
				}
			}
		}
	}
	// a parameter: the union over all call sites
	if v, isVar := obj.(*types.Var); isVar {
		fo, _ := info.Defs[fd.Name].(*types.Func)
		if fo != nil {
			sig := fo.Type().(*types.Signature)
			for pi := 0; pi < sig.Params().Len(); pi++ {
				if sig.Params().At(pi) != v {
					continue
				}
				sites := kf.calls[fo]
				if len(sites) == 0 {
					return nil, false
				}
				out := map[string]bool{}
				for _, s := range sites {
					if pi >= len(s.call.Args) {
						return nil, false
					}
					ks, ok := kf.kindsAt(s.fd, s.call.Args[pi], s.call, depth+1)
					if !ok {
						return nil, false
					}
					for k := range ks {
						out[k] = true
					}
				}
				return out, true
			}
		}
	}
	return nil, false
}

func c16r5(rc *core.RC) {
	p := rc.P
	kf := newKindFlow(p, "decoder")
	n := 0
	for _, fd := range p.Funcs("decoder") {
		if fd.Body == nil || fd.Recv != nil {
			continue
		}
		info := p.Info(fd)
		// fd hands its own type parameter and a storing closure to newIntDecoder/newUintDecoder
		var stored types.Type
		var typArg ast.Expr
		ast.Inspect(fd.Body, func(m ast.Node) bool {
			c, ok := m.(*ast.CallExpr)
			if !ok {
				return true
			}
			if name := core.CalleeName(info, c); name != "decoder.newIntDecoder" && name != "decoder.newUintDecoder" {
				return true
			}
			if len(c.Args) < 4 {
				return true
			}
			lit, ok := core.Unparen(c.Args[3]).(*ast.FuncLit)
			if !ok {
				return true
			}
			typArg = c.Args[0]
			ast.Inspect(lit.Body, func(x ast.Node) bool {
				if as, ok := x.(*ast.AssignStmt); ok && len(as.Lhs) == 1 {
					if st, isStar := core.Unparen(as.Lhs[0]).(*ast.StarExpr); isStar {
						if tv, has := info.Types[st]; has {
							stored = tv.Type
						}
					}
				}
				return true
			})
			return true
		})
		if stored == nil || typArg == nil {
			continue
		}
		sb, isBasic := stored.Underlying().(*types.Basic)
		if !isBasic {
			continue
		}
		fo, _ := info.Defs[fd.Name].(*types.Func)
		pobj := core.ObjOf(info, typArg)
		if fo == nil || pobj == nil {
			continue
		}
		fn := p.FuncName(fd)
		rc.Touch(fn)
		sizes := p.Pkg("decoder").TypesSizes
		for k, site := range kf.calls[fo] {
			n++
			rc.CallSites++
			key := fmt.Sprintf("%s/call#%d in %s kind-of-type-argument", fn, k+1, p.FuncName(site.fd))
			// which argument carries the type
			sig := fo.Type().(*types.Signature)
			ai := -1
			for i := 0; i < sig.Params().Len(); i++ {
				if sig.Params().At(i) == pobj {
					ai = i
				}
			}
			if ai < 0 || ai >= len(site.call.Args) {
				rc.Unknown(key, site.call.Pos(), "the type handed to the constructor is not a parameter of %s", fn)
				continue
			}
			ks, ok := kf.kindsAt(site.fd, site.call.Args[ai], site.call, 0)
			if !ok {
				rc.Unknown(key, site.call.Pos(), "the kind of the type argument %s could not be derived from the guards around the call and its callers", core.Src(p.Fset, site.call.Args[ai]))
				continue
			}
			good := len(ks) > 0
			var names []string
			for kname := range ks {
				names = append(names, kname)
				kb := basicOfKind(kname)
				if kb == nil || sizes.Sizeof(kb) != sizes.Sizeof(sb) || (kb.Info()&types.IsUnsigned != 0) != (sb.Info()&types.IsUnsigned != 0) {
					good = false
				}
			}
			sort.Strings(names)
			rc.Check(good, key, site.call.Pos(), "%s stores a %s; the type it is called with has kind %s (the range test is chosen by that kind)", fn, sb.Name(), strings.Join(names, "/"))
		}
	}
	if n < 11 {
		rc.Unknown("decoder/integer-decoder-constructions", token.NoPos, "found %d call sites of integer decoder constructors (12 confirmed)", n)
	}
}

func basicOfKind(k string) *types.Basic {
	m := map[string]types.BasicKind{"Int": types.Int, "Int8": types.Int8, "Int16": types.Int16, "Int32": types.Int32, "Int64": types.Int64,
		"Uint": types.Uint, "Uint8": types.Uint8, "Uint16": types.Uint16, "Uint32": types.Uint32, "Uint64": types.Uint64, "Uintptr": types.Uintptr}
	if bk, ok := m[k]; ok {
		return types.Typ[bk]
	}
	return nil
}

// ---- C16.R6 the integer parsers, folded ----

// intDecoder.parseInt and uintDecoder.parseUint turn the bytes of an integer token into a number: a length test, a
// comparison with the largest literal, a loop over a power-of-ten table. They are folded for a family of integer
// tokens (every token of up to three digits, with and without sign; every token obtained from the boundary
// literals of the 8-, 16-, 32- and 64-bit ranges by changing one digit; the same one digit longer and shorter) and
// compared with strconv.ParseInt / ParseUint of the analyser's standard library: the same value when strconv
// accepts, an error exactly when strconv reports a range error.
func c16r6(rc *core.RC) {
	p := rc.P
	var tokens []string
	for n := 0; n < 1000; n++ {
		tokens = append(tokens, strconv.Itoa(n))
	}
	for _, b := range []string{"127", "128", "255", "256", "32767", "32768", "65535", "65536", "2147483647", "2147483648", "4294967295", "4294967296",
		"999999999999999999", "1000000000000000000", "9223372036854775807", "9223372036854775808", "9223372036854775809", "9999999999999999999",
		"18446744073709551615", "18446744073709551616", "18446744073709551609", "19999999999999999999", "99999999999999999999", "10000000000000000000",
		"100000000000000000000", "184467440737095516150", "92233720368547758070"} {
		tokens = append(tokens, b)
		for i := 0; i < len(b); i++ {
			for d := byte('0'); d <= '9'; d++ {
				if i == 0 && d == '0' {
					continue
				}
				v := []byte(b)
				v[i] = d
				tokens = append(tokens, string(v))
			}
		}
	}
	type target struct {
		name   string
		signed bool
	}
	n := 0
	for _, tg := range []target{{"intDecoder.parseInt", true}, {"uintDecoder.parseUint", false}} {
		fd := p.Func("decoder", tg.name)
		key := "decoder." + tg.name + "/agrees-with-strconv"
		if fd == nil || fd.Body == nil || fd.Type.Params.NumFields() != 1 {
			rc.Unknown(key, token.NoPos, "not found")
			continue
		}
		n++
		rc.Touch(p.FuncName(fd))
		info := p.Info(fd)
		arg := info.Defs[fd.Type.Params.List[0].Names[0]]
		bp := &core.BytePred{P: p, Strings: map[types.Object][]byte{}}
		var bad []string
		count := 0
		undecided := ""
		for _, tk := range tokens {
			variants := []string{tk}
			if tg.signed {
				variants = append(variants, "-"+tk)
			}
			for _, s := range variants {
				bp.Steps = 0
				bp.Strings[arg] = []byte(s)
				_, _, done, ok := bp.ExecList(info, fd.Body.List, core.BindAll(nil))
				if !ok || !done || len(bp.Results) != 2 {
					undecided = s
					break
				}
				count++
				gotVal, gotErr := bp.Results[0], bp.Results[1] != 0
				var wantVal int64
				var wantErr bool
				if tg.signed {
					v, err := strconv.ParseInt(s, 10, 64)
					wantVal, wantErr = v, err != nil
				} else {
					v, err := strconv.ParseUint(s, 10, 64)
					wantVal, wantErr = int64(v), err != nil
				}
				if gotErr != wantErr || (!wantErr && gotVal != wantVal) {
					if len(bad) < 6 {
						if tg.signed {
							bad = append(bad, fmt.Sprintf("%s -> %d, error=%v (strconv: %d, error=%v)", s, gotVal, gotErr, wantVal, wantErr))
						} else {
							bad = append(bad, fmt.Sprintf("%s -> %d, error=%v (strconv: %d, error=%v)", s, uint64(gotVal), gotErr, uint64(wantVal), wantErr))
						}
					}
				}
			}
			if undecided != "" {
				break
			}
		}
		if undecided != "" {
			rc.Unknown(key, fd.Pos(), "%s could not be folded for the token %s", tg.name, undecided)
			continue
		}
		rc.Check(len(bad) == 0, key, fd.Pos(), "%s, folded for %d integer tokens (all of up to three digits, and the one-digit neighbourhoods of the range boundaries up to 21 digits), yields the value strconv yields and an error exactly for the tokens outside the 64-bit range%s", tg.name, count, func() string {
			if len(bad) == 0 {
				return ""
			}
			return "; differs: " + strings.Join(bad, "; ")
		}())
	}
	if n < 2 {
		rc.Unknown("decoder/integer-parsers", token.NoPos, "found %d of parseInt and parseUint", n)
	}
}

// ---- C16.R7 inner digit groups are written at full width ----

// AppendInt and AppendUint write the decimal digits two at a time from the end (u[i] = lookup[n%100]; n /= 100).
// Positional notation allows only the leading group to be shorter than its width: a loop that writes the pairs of an
// inner group (a chunk cut off a larger value by an enclosing loop) has to write a fixed number of pairs, zeros
// included. A pair loop nested in a chunking loop that stops when the chunk is used up (`for ; c > 0; c /= 100`)
// drops the chunk's leading zero pairs, and 5000000000 comes out as 50.
func c16r7(rc *core.RC) {
	p := rc.P
	n := 0
	for _, name := range []string{"AppendInt", "AppendUint"} {
		fd := p.Func("encoder", name)
		if fd == nil || fd.Body == nil {
			rc.Unknown("encoder."+name, token.NoPos, "digit writer not found")
			continue
		}
		info := p.Info(fd)
		fn := p.FuncName(fd)
		rc.Touch(fn)
		writesPair := func(body *ast.BlockStmt) bool {
			found := false
			ast.Inspect(body, func(m ast.Node) bool {
				if _, isLoop := m.(*ast.ForStmt); isLoop && m != ast.Node(body) {
					return true
				}
				as, ok := m.(*ast.AssignStmt)
				if !ok || len(as.Lhs) != 1 || len(as.Rhs) != 1 {
					return true
				}
				if _, isIx := core.Unparen(as.Lhs[0]).(*ast.IndexExpr); !isIx {
					return true
				}
				if rix, isIx := core.Unparen(as.Rhs[0]).(*ast.IndexExpr); isIx {
					if t := info.TypeOf(rix); t != nil && t.String() == "uint16" {
						found = true
					}
				}
				return true
			})
			return found
		}
		k := 0
		var visit func(node ast.Node, outer *ast.ForStmt)
		visit = func(node ast.Node, outer *ast.ForStmt) {
			ast.Inspect(node, func(m ast.Node) bool {
				loop, ok := m.(*ast.ForStmt)
				if !ok || m == node {
					return true
				}
				if directlyWrites(loop, writesPair) {
					k++
					n++
					key := fmt.Sprintf("%s/pair-loop#%d inner-groups-at-full-width", fn, k)
					if outer == nil {
						rc.OK(key, loop.Pos(), "the loop writes the pairs of the whole remaining value (it is not nested in a chunking loop): only the leading pair can be short")
					} else {
						// nested: the trip count has to be fixed (condition `k < const` over a counter that the body only increments)
						fixed := false
						if be, isBin := core.Unparen(loop.Cond).(*ast.BinaryExpr); isBin && (be.Op == token.LSS || be.Op == token.LEQ || be.Op == token.GTR || be.Op == token.GEQ || be.Op == token.NEQ) {
							_, lc := core.ConstInt(info, be.Y)
							_, isDiv := loop.Post.(*ast.AssignStmt)
							if lc && !isDiv {
								if inc, isInc := loop.Post.(*ast.IncDecStmt); isInc && core.ObjOf(info, inc.X) == core.ObjOf(info, be.X) {
									fixed = true
								}
							}
						}
						rc.Check(fixed, key, loop.Pos(), "a pair loop nested in a chunking loop writes a fixed number of pairs per chunk (a counted loop): one that ends when the chunk is used up (%s) drops the leading zero pairs of an inner group, and the value loses digits", core.Src(p.Fset, loop.Cond))
					}
				}
				visit(loop.Body, loop)
				return false
			})
		}
		visit(fd.Body, nil)
	}
	if n < 2 {
		rc.Unknown("encoder/pair-loops", token.NoPos, "found %d loops that write digit pairs in AppendInt/AppendUint (confirmed: 2)", n)
	}
}

// directlyWrites: the loop's own body (nested loops excluded) satisfies the predicate.
func directlyWrites(loop *ast.ForStmt, pred func(*ast.BlockStmt) bool) bool {
	shallow := &ast.BlockStmt{}
	for _, st := range loop.Body.List {
		if _, isLoop := st.(*ast.ForStmt); isLoop {
			continue
		}
		shallow.List = append(shallow.List, st)
	}
	return pred(shallow)
}

// ---- C16.R8 the digit writers, folded ----

// AppendInt and AppendUint are, behind the load of the value, pure functions of (value, bit size): they mask, negate,
// take a fast path for one and two digits, and write pairs of digits from the end of a local buffer through a
// 16-bit view of it. The part behind the load is folded as a whole (the value bound where the loads leave it, the
// bit size bound as the opcode's field, little-endian pair tables as selected on such a host) for a systematic
// family of values of each width and compared with strconv: every power of ten and its neighbours, values whose
// inner digit groups are zero, the limits of each width, every 8-bit value, and a spread of others.
func c16r8(rc *core.RC) {
	p := rc.P
	var family []uint64
	add := func(v uint64) { family = append(family, v) }
	for v := uint64(0); v < 300; v++ {
		add(v)
	}
	pow := uint64(1)
	for k := 0; k < 20; k++ {
		for _, d := range []uint64{1, 2, 5, 9} {
			add(pow*d - 1)
			add(pow * d)
			add(pow*d + 1)
		}
		if k < 19 {
			pow *= 10
		}
	}
	for _, v := range []uint64{5000000000, 1700000000123, 10000000000000000000, 100000000, 100000001, 1000000000000, 100000000000000000, 4294967295, 4294967296, 4294967297,
		65535, 65536, 32767, 32768, 2147483647, 2147483648, 9223372036854775807, 9223372036854775808, 18446744073709551615, 18446744073709551614, 1000000100000001, 99999999, 100000099, 10000000000000099} {
		add(v)
	}
	x := uint64(88172645463325252)
	for i := 0; i < 1500; i++ { // xorshift: a spread over all magnitudes
		x ^= x << 13
		x ^= x >> 7
		x ^= x << 17
		add(x >> (uint(i) % 60))
	}
	n := 0
	for _, tg := range []struct {
		name   string
		signed bool
	}{{"AppendInt", true}, {"AppendUint", false}} {
		fd := p.Func("encoder", tg.name)
		key := "encoder." + tg.name + "/agrees-with-strconv"
		if fd == nil || fd.Body == nil {
			rc.Unknown(key, token.NoPos, "digit writer not found")
			continue
		}
		n++
		rc.Touch(p.FuncName(fd))
		info := p.Info(fd)
		// the loads: a switch on the opcode's bit size that assigns the value variable
		start := -1
		var valueVar, bitField types.Object
		for i, st := range fd.Body.List {
			sw, ok := st.(*ast.SwitchStmt)
			if !ok || sw.Tag == nil {
				continue
			}
			sel, isSel := core.Unparen(sw.Tag).(*ast.SelectorExpr)
			if !isSel {
				continue
			}
			bitField = info.Uses[sel.Sel]
			ast.Inspect(sw.Body, func(m ast.Node) bool {
				if as, isAs := m.(*ast.AssignStmt); isAs && len(as.Lhs) == 1 {
					valueVar = core.ObjOf(info, as.Lhs[0])
				}
				return true
			})
			start = i + 1
			break
		}
		var outParam types.Object
		for _, f := range fd.Type.Params.List {
			for _, nm := range f.Names {
				if o := info.Defs[nm]; o != nil && o.Type().String() == "[]byte" {
					outParam = o
				}
			}
		}
		endian := p.Pkg("encoder").Types.Scope().Lookup("endianness")
		if start < 0 || valueVar == nil || bitField == nil || outParam == nil || endian == nil {
			rc.Unknown(key, fd.Pos(), "the shape load-switch / value variable / output parameter was not recognised")
			continue
		}
		bp := &core.BytePred{P: p, Strings: map[types.Object][]byte{outParam: {}}, Fields: map[types.Object]int64{}, Globals: map[types.Object]int64{endian: 0}}
		var bad []string
		count := 0
		undecided := ""
		for _, bits := range []uint{8, 16, 32, 64} {
			mask := ^uint64(0)
			if bits < 64 {
				mask = 1<<bits - 1
			}
			seen := map[uint64]bool{}
			for _, raw := range family {
				for _, v := range []uint64{raw & mask, (-raw) & mask} {
					if seen[v] {
						continue
					}
					seen[v] = true
					bp.Steps = 0
					bp.ResultBytes = nil
					bp.Fields[bitField] = int64(bits)
					_, _, done, ok := bp.ExecList(info, fd.Body.List[start:], core.BindAll(map[types.Object]int64{valueVar: int64(v)}))
					if !ok || !done || bp.ResultBytes == nil {
						undecided = fmt.Sprintf("%d (%d bits)", v, bits)
						break
					}
					count++
					want := strconv.FormatUint(v, 10)
					if tg.signed {
						sv := int64(v<<(64-bits)) >> (64 - bits)
						want = strconv.FormatInt(sv, 10)
					}
					if got := string(bp.ResultBytes); got != want && len(bad) < 6 {
						bad = append(bad, fmt.Sprintf("%s written as %s (%d bits)", want, got, bits))
					}
				}
				if undecided != "" {
					break
				}
			}
			if undecided != "" {
				break
			}
		}
		if undecided != "" {
			rc.Unknown(key, fd.Pos(), "the digit writer could not be folded for %s", undecided)
			continue
		}
		rc.Check(len(bad) == 0, key, fd.Pos(), "%s, folded behind the load for %d values of 8, 16, 32 and 64 bits, writes what strconv writes%s", tg.name, count, map[bool]string{true: "", false: ": " + strings.Join(bad, "; ")}[len(bad) == 0])
	}
	if n < 2 {
		rc.Unknown("encoder/digit-writers", token.NoPos, "found %d of AppendInt/AppendUint", n)
	}
}

// ---- C16.R9 each code node emits the operations of its own family ----

// The compiler's tree has one node type per kind of value (IntCode, UintCode, FloatCode, StringCode, …) and the
// operation set has one family per kind (OpInt, OpIntPtr, OpIntString; OpUint, OpUintPtr, …). A node's ToOpcode picks
// among the members of its family (plain, behind a pointer, as a string). An operation of the neighbouring family
// compiles and runs: OpIntPtr for an unsigned number prints the value with its top bit as a sign (uint8(200) as -56).
// Obligation: every operation constant named in (*XCode).ToOpcode begins with OpX followed by an upper-case letter, a
// digit or nothing.
func c16r9(rc *core.RC) {
	p := rc.P
	pk := p.Pkg("encoder")
	if pk == nil {
		rc.Unknown("encoder", token.NoPos, "package not found")
		return
	}
	info := pk.TypesInfo
	n := 0
	for _, fd := range p.Funcs("encoder") {
		if fd.Body == nil || fd.Recv == nil || fd.Name.Name != "ToOpcode" {
			continue
		}
		fn, _ := info.Defs[fd.Name].(*types.Func)
		if fn == nil {
			continue
		}
		rt := fn.Type().(*types.Signature).Recv().Type()
		if pt, ok := rt.(*types.Pointer); ok {
			rt = pt.Elem()
		}
		named, ok := rt.(*types.Named)
		if !ok || !strings.HasSuffix(named.Obj().Name(), "Code") {
			continue
		}
		family := "Op" + strings.TrimSuffix(named.Obj().Name(), "Code")
		switch family {
		case "OpInt", "OpUint", "OpFloat", "OpString", "OpBool", "OpBytes", "OpSlice", "OpArray", "OpMap", "OpInterface", "OpMarshalJSON", "OpMarshalText":
		default:
			continue // struct, field and pointer nodes combine the operations of their children
		}
		name := p.FuncName(fd)
		rc.Touch(name)
		k := 0
		ast.Inspect(fd.Body, func(m ast.Node) bool {
			id, ok := m.(*ast.Ident)
			if !ok || !strings.HasPrefix(id.Name, "Op") {
				return true
			}
			c, isConst := core.ObjOf(info, id).(*types.Const)
			if !isConst || !strings.HasSuffix(c.Type().String(), "encoder.OpType") {
				return true
			}
			k++
			n++
			own := false
			fams := []string{family}
			if family == "OpString" {
				fams = append(fams, "OpNumber") // json.Number is a string kind: StringCode emits its operations too
			}
			for _, fam := range fams {
				rest := strings.TrimPrefix(id.Name, fam)
				if strings.HasPrefix(id.Name, fam) && (rest == "" || (rest[0] >= 'A' && rest[0] <= 'Z') || (rest[0] >= '0' && rest[0] <= '9')) {
					own = true
				}
			}
			rc.Check(own, fmt.Sprintf("%s/operation#%d %s of-the-node's-family", name, k, id.Name), id.Pos(), "%s names the operation %s: a node emits operations of its own family (%s…); the operation of another family reads the value as another kind (an unsigned number through OpIntPtr is printed with its top bit as a sign)", name, id.Name, family)
			return true
		})
	}
	if n < 20 {
		rc.Unknown("encoder/node-operations", token.NoPos, "found %d operation constants in the ToOpcode methods of the scalar and container nodes (confirmed: 24)", n)
	}
}

// ---- C16.R10 an unsigned value is range-tested as an unsigned value ----

// The unsigned decoder parses the digits into a uint64 and compares it with the bounds of the destination kind
// before it stores. The comparison has to be made on the unsigned value. Converted to int64 first, every value from
// 2^63 up is negative and passes a signed range test from below: 18446744073709551615 is stored into a uint8 as 255
// without an error. Obligation: no method of uintDecoder converts a uint64 to a signed integer type.
func c16r10(rc *core.RC) {
	p := rc.P
	pk := p.Pkg("decoder")
	if pk == nil {
		rc.Unknown("decoder", token.NoPos, "package not found")
		return
	}
	info := pk.TypesInfo
	n := 0
	for _, fd := range p.Funcs("decoder") {
		if fd.Body == nil || fd.Recv == nil {
			continue
		}
		fn, _ := info.Defs[fd.Name].(*types.Func)
		if fn == nil || !strings.HasSuffix(fn.Type().(*types.Signature).Recv().Type().String(), "decoder.uintDecoder") {
			continue
		}
		n++
		name := p.FuncName(fd)
		rc.Touch(name)
		var bad ast.Node
		ast.Inspect(fd.Body, func(m ast.Node) bool {
			c, ok := m.(*ast.CallExpr)
			if !ok || len(c.Args) != 1 || bad != nil {
				return true
			}
			tv, isConv := info.Types[c.Fun]
			if !isConv || !tv.IsType() {
				return true
			}
			to, ok := tv.Type.Underlying().(*types.Basic)
			if !ok || to.Info()&types.IsInteger == 0 || to.Info()&types.IsUnsigned != 0 {
				return true
			}
			from, ok := info.TypeOf(c.Args[0]).Underlying().(*types.Basic)
			if ok && from.Kind() == types.Uint64 {
				bad = c
			}
			return true
		})
		if bad == nil {
			rc.OK(name+"/value-stays-unsigned", fd.Pos(), "no uint64 is converted to a signed integer type")
		} else {
			rc.Bad(name+"/value-stays-unsigned", bad.Pos(), "%s converts the parsed uint64 to a signed type: values from 2^63 up become negative and pass a signed range test (18446744073709551615 into a uint8 is stored as 255 where encoding/json reports an error)", core.Src(p.Fset, bad))
		}
	}
	if n < 4 {
		rc.Unknown("decoder/uintDecoder-methods", token.NoPos, "found %d methods of uintDecoder (confirmed: 7)", n)
	}
}

// ---- C16.R11 the number that is written is the number that was tested ----

// The omitempty variants of the integer member operations read the member to decide whether it is empty
// (ptrToUint64(addr, …)) and, when it is not, hand an address to appendInt / appendUint, which read the number again
// from there. Both have to be the member's address: written from p where it was tested at p+uintptr(code.Offset),
// the text is whatever lies at the start of the struct (a member that is not the first in memory, behind an unexported
// or ignored field, comes out as another field's bytes). Obligation, in every clause of the four interpreters that
// holds both: the address handed to appendInt / appendUint is spelled as one of the addresses ptrToUint64 read in
// that clause.
func c16r11(rc *core.RC) {
	p := rc.P
	t := loadOpTable(rc)
	if t == nil {
		return
	}
	n := 0
	for _, vm := range core.VMPkgs {
		cl, _ := opClauses(rc, vm, t)
		if cl == nil {
			continue
		}
		info := p.Pkg(vm).TypesInfo
		var labels []string
		for k := range cl {
			labels = append(labels, k)
		}
		sort.Strings(labels)
		for _, label := range labels {
			cc := cl[label]
			tested := map[string]bool{}
			type wr struct {
				call *ast.CallExpr
				addr string
			}
			var writes []wr
			ast.Inspect(cc, func(m ast.Node) bool {
				call, ok := m.(*ast.CallExpr)
				if !ok {
					return true
				}
				cn := core.CalleeName(info, call)
				switch {
				case strings.HasSuffix(cn, ".ptrToUint64") && len(call.Args) >= 1:
					tested[types.ExprString(core.Unparen(call.Args[0]))] = true
				case (strings.HasSuffix(cn, ".appendInt") || strings.HasSuffix(cn, ".appendUint")) && len(call.Args) == 4:
					writes = append(writes, wr{call, types.ExprString(core.Unparen(call.Args[2]))})
				}
				return true
			})
			if len(tested) == 0 || len(writes) == 0 {
				continue
			}
			for i, w := range writes {
				n++
				key := fmt.Sprintf("%s.Run/case %s/number-write#%d from-the-address-that-was-tested", vm, label, i+1)
				if tested[w.addr] {
					rc.OK(key, w.call.Pos(), "written from %s, where it was tested", w.addr)
				} else {
					var ts []string
					for k := range tested {
						ts = append(ts, k)
					}
					sort.Strings(ts)
					rc.Bad(key, w.call.Pos(), "the member is tested for emptiness at %s and written from %s: for a member that does not lie at the start of its struct the number that comes out is another field's bytes", strings.Join(ts, ", "), w.addr)
				}
			}
		}
	}
	if n < 20 {
		rc.Unknown("encoder-vms/tested-and-written-numbers", token.NoPos, "found %d number writes in clauses that also test the number, fewer than the 20 confirmed by hand", n)
	}
}
