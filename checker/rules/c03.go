package rules

import (
	"fmt"
	"go/ast"
	"go/constant"
	"go/token"
	"go/types"
	"sort"
	"strings"

	"golang.org/x/tools/go/ssa"

	"verif/checker/core"
)

// vmAlias resolves a package-level identifier of a VM package: either a
// function declared there, or a variable initialised with a function of
// package encoder (`appendInt = encoder.AppendInt`).
func vmAlias(rc *core.RC, vm, name string) (decl *ast.FuncDecl, target *types.Func) {
	pk := rc.P.Pkg(vm)
	if pk == nil {
		return nil, nil
	}
	obj := pk.Types.Scope().Lookup(name)
	switch o := obj.(type) {
	case *types.Func:
		return rc.P.DeclOf(o), o
	case *types.Var:
		for _, f := range pk.Syntax {
			for _, d := range f.Decls {
				gd, ok := d.(*ast.GenDecl)
				if !ok {
					continue
				}
				for _, sp := range gd.Specs {
					vs, ok := sp.(*ast.ValueSpec)
					if !ok {
						continue
					}
					for i, id := range vs.Names {
						if pk.TypesInfo.Defs[id] == o && i < len(vs.Values) {
							if f, ok := core.ObjOf(pk.TypesInfo, vs.Values[i]).(*types.Func); ok {
								return rc.P.DeclOf(f), f
							}
							if sel, ok := vs.Values[i].(*ast.SelectorExpr); ok {
								if f, ok := pk.TypesInfo.Uses[sel.Sel].(*types.Func); ok {
									return rc.P.DeclOf(f), f
								}
							}
						}
					}
				}
			}
		}
	}
	return nil, nil
}

// calledIdent returns the identifier object a call's Fun denotes (function or variable).
func calledIdent(info *types.Info, call *ast.CallExpr) types.Object {
	switch f := core.Unparen(call.Fun).(type) {
	case *ast.Ident:
		return info.Uses[f]
	case *ast.SelectorExpr:
		return info.Uses[f.Sel]
	}
	return nil
}

// opCaseOf returns the name of the first label of the opcode case clause of sw enclosing n.
func opCaseOf(sw *ast.SwitchStmt, n ast.Node) string {
	for _, st := range sw.Body.List {
		cc := st.(*ast.CaseClause)
		if cc.Pos() <= n.Pos() && n.End() <= cc.End() {
			if len(cc.List) == 0 {
				return "default"
			}
			switch e := cc.List[0].(type) {
			case *ast.SelectorExpr:
				return e.Sel.Name
			case *ast.Ident:
				return e.Name
			}
		}
	}
	return "?"
}

func disjuncts(e ast.Expr) []ast.Expr {
	e = core.Unparen(e)
	if be, ok := e.(*ast.BinaryExpr); ok && be.Op == token.LOR {
		return append(disjuncts(be.X), disjuncts(be.Y)...)
	}
	return []ast.Expr{e}
}

func conjuncts(e ast.Expr) []ast.Expr {
	e = core.Unparen(e)
	if be, ok := e.(*ast.BinaryExpr); ok && be.Op == token.LAND {
		return append(conjuncts(be.X), conjuncts(be.Y)...)
	}
	return []ast.Expr{e}
}

// ---- C03.R1 non-finite guard ----

func c03r1(rc *core.RC) {
	p := rc.P
	t := loadOpTable(rc)
	if t == nil {
		return
	}
	for _, vm := range core.VMPkgs {
		fd := p.Func(vm, "Run")
		if fd == nil {
			rc.Unknown(vm+".Run", token.NoPos, "interpreter not found")
			continue
		}
		info := p.Info(fd)
		_, sw := vmCases(rc, vm, t)
		if sw == nil {
			continue
		}
		floatFns := map[types.Object]string{}
		for _, n := range []string{"appendFloat32", "appendFloat64"} {
			_, target := vmAlias(rc, vm, n)
			if target == nil {
				rc.Unknown(vm+"."+n, token.NoPos, "float appender not found")
				continue
			}
			floatFns[p.Pkg(vm).Types.Scope().Lookup(n)] = n
		}
		var cf *core.FuncCFG
		ast.Inspect(fd.Body, func(n ast.Node) bool {
			call, ok := n.(*ast.CallExpr)
			if !ok {
				return true
			}
			fname, ok := floatFns[calledIdent(info, call)]
			if !ok || len(call.Args) < 3 {
				return true
			}
			rc.CallSites++
			key := fmt.Sprintf("%s.Run/case %s/%s", vm, opCaseOf(sw, call), fname)
			vobj, _ := core.ObjOf(info, call.Args[2]).(*types.Var)
			if vobj == nil {
				rc.Bad(key, call.Pos(), "float value %s is appended without being tested for NaN/±Inf: a non-finite value is written as a bare word (NaN, +Inf), which is not JSON", core.Src(p.Fset, call.Args[2]))
				return true
			}
			if cf == nil {
				cf = core.BuildCFG(fd.Body, info)
			}
			cb, _ := cf.BlockOf(call)
			guarded := false
			// search if statements in the same case clause testing IsNaN(v) and IsInf(v)
			var cc *ast.CaseClause
			for _, st := range sw.Body.List {
				c := st.(*ast.CaseClause)
				if c.Pos() <= call.Pos() && call.End() <= c.End() {
					cc = c
				}
			}
			if cc != nil {
				ast.Inspect(cc, func(m ast.Node) bool {
					ifs, ok := m.(*ast.IfStmt)
					if !ok || guarded {
						return true
					}
					nan, inf := false, false
					for _, d := range disjuncts(ifs.Cond) {
						c, ok := d.(*ast.CallExpr)
						if !ok || len(c.Args) == 0 {
							continue
						}
						arg := core.Unparen(c.Args[0])
						// float32 must be widened: float64(v)
						if conv, ok := arg.(*ast.CallExpr); ok && len(conv.Args) == 1 {
							if tv, ok := info.Types[conv.Fun]; ok && tv.IsType() {
								arg = core.Unparen(conv.Args[0])
							}
						}
						if core.ObjOf(info, arg) != vobj {
							continue
						}
						if core.CalleeIs(info, c, "math", "IsNaN") {
							nan = true
						}
						if core.CalleeIs(info, c, "math", "IsInf") {
							if len(c.Args) == 2 {
								if s, ok := core.ConstInt(info, c.Args[1]); ok && s == 0 {
									inf = true
								}
							}
						}
					}
					if !nan || !inf {
						return true
					}
					gb, _ := cf.BlockOf(ifs.Cond)
					if gb == nil || cb == nil || !cf.Dominates(gb, cb) {
						return true
					}
					tb, _ := core.IfEdges(gb)
					if tb != nil && cf.AllPathsReturnError(tb, nil) {
						guarded = true
					}
					return true
				})
			}
			if guarded {
				// v must not be reassigned inside the clause
				n := 0
				ast.Inspect(cc, func(m ast.Node) bool {
					if as, ok := m.(*ast.AssignStmt); ok {
						for _, l := range as.Lhs {
							if core.ObjOf(info, l) == vobj {
								n++
							}
						}
					}
					return true
				})
				if n > 1 {
					rc.Unknown(key, call.Pos(), "guarded value %s is assigned %d times in the clause", vobj.Name(), n)
				} else {
					rc.OK(key, call.Pos(), "dominated by IsInf(%s,0)||IsNaN(%s) with an error exit", vobj.Name(), vobj.Name())
				}
			} else {
				rc.Bad(key, call.Pos(), "no dominating test `math.IsInf(%s,0) || math.IsNaN(%s)` with an error exit: a non-finite value is written as a bare word, which is not JSON", vobj.Name(), vobj.Name())
			}
			return true
		})
	}
}

// ---- C03.R2 marshaler output is validated ----

func c03r2(rc *core.RC) {
	for _, name := range []string{"AppendMarshalJSON", "AppendMarshalJSONIndent", "AppendMarshalText", "AppendMarshalTextIndent"} {
		fn := rc.P.SSAFunc("encoder", name)
		if fn == nil {
			rc.Unknown("encoder."+name, token.NoPos, "anchor not found")
			continue
		}
		rc.Touch("encoder." + name)
		var seeds []ssa.Value
		for _, b := range fn.Blocks {
			for _, ins := range b.Instrs {
				if c, ok := ins.(*ssa.Call); ok {
					if m := core.InvokeMethodName(c.Common()); m == "MarshalJSON" || m == "MarshalText" {
						seeds = append(seeds, c)
						rc.CallSites++
					}
				}
			}
		}
		if len(seeds) == 0 {
			rc.Unknown("encoder."+name+"/marshaler-call", fn.Pos(), "no call of a user MarshalJSON/MarshalText found")
			continue
		}
		validators := map[string]bool{"encoder.compact": true, "encoder.doIndent": true, "encoder.AppendString": true}
		taint := core.ForwardTaint(fn, seeds, core.TaintOpts{Sanitizer: func(c *ssa.CallCommon) bool {
			return validators[core.StaticCalleeName(c)]
		}})
		// the validators must actually receive the marshaler's bytes
		fed := false
		for _, b := range fn.Blocks {
			for _, ins := range b.Instrs {
				if c, ok := ins.(*ssa.Call); ok && validators[core.StaticCalleeName(c.Common())] {
					for _, a := range c.Common().Args {
						if taint[a] {
							fed = true
						}
					}
				}
				if r, ok := ins.(*ssa.Return); ok && len(r.Results) > 0 {
					key := fmt.Sprintf("encoder.%s/return", name)
					if taint[r.Results[0]] {
						rc.Bad(key, core.SSAPos(r), "bytes returned by the user's marshaler reach the output buffer without passing compact/doIndent/AppendString: ill-formed marshaler output would be emitted verbatim")
					} else {
						rc.OK(key, core.SSAPos(r), "returned buffer does not carry unvalidated marshaler bytes")
					}
				}
			}
		}
		rc.Check(fed, "encoder."+name+"/validator-fed", fn.Pos(), "the marshaler's bytes are handed to compact/doIndent/AppendString")
	}
}

// ---- C03.R3 separator width ----

// bufEffect abstractly interprets a helper of the form func(..., b []byte, ...) []byte.
type bufEffect struct {
	consumed int    // max bytes of the incoming tail removed/overwritten (over all paths), per segment
	tail     string // constant bytes appended after the last opaque append on the longest path
	opaque   bool   // something non-constant was appended
	unknown  string // non-empty: a statement was not understood
}

type bufState struct {
	delta    int // length relative to segment start (entry, or the end of the last opaque append)
	consumed int
	tail     []byte
	opaque   bool
	segCons  []int // consumption per segment
}

func (s bufState) clone() bufState {
	s.tail = append([]byte{}, s.tail...)
	s.segCons = append([]int{}, s.segCons...)
	return s
}

type bufInterp struct {
	info    *types.Info
	rc      *core.RC
	bvar    types.Object
	lastVar map[types.Object]int // `last := len(b) - k` -> k
	results []bufState
	unknown string
	depth   int
}

// lenMinus matches len(b)-k, last, last-k  -> (k, true)
func (bi *bufInterp) lenMinus(e ast.Expr) (int, bool) {
	e = core.Unparen(e)
	switch x := e.(type) {
	case *ast.CallExpr:
		if core.IsBuiltin(bi.info, x, "len") && len(x.Args) == 1 && core.ObjOf(bi.info, x.Args[0]) == bi.bvar {
			return 0, true
		}
	case *ast.Ident:
		if k, ok := bi.lastVar[core.ObjOf(bi.info, x)]; ok {
			return k, true
		}
	case *ast.BinaryExpr:
		if x.Op == token.SUB {
			if base, ok := bi.lenMinus(x.X); ok {
				if k, ok := core.ConstInt(bi.info, x.Y); ok {
					return base + int(k), true
				}
			}
		}
	}
	return 0, false
}

func (bi *bufInterp) touch(s *bufState, depthFromEnd int) {
	// depthFromEnd counted from the *current* end; translate to the segment start
	d := depthFromEnd - s.delta
	if d > s.consumed {
		s.consumed = d
	}
	// touching inside the constant tail shortens nothing we track
}

func (bi *bufInterp) appendConst(s *bufState, bs []byte) {
	s.delta += len(bs)
	s.tail = append(s.tail, bs...)
}

func (bi *bufInterp) appendOpaque(s *bufState) {
	s.segCons = append(s.segCons, s.consumed)
	s.consumed, s.delta = 0, 0
	s.tail = nil
	s.opaque = true
}

// evalBuf evaluates an expression of type []byte that derives from b; returns false if not understood.
func (bi *bufInterp) evalBuf(s *bufState, e ast.Expr) bool {
	e = core.Unparen(e)
	switch x := e.(type) {
	case *ast.Ident:
		return core.ObjOf(bi.info, x) == bi.bvar
	case *ast.SliceExpr:
		if !bi.evalBuf(s, x.X) || x.Low != nil || x.High == nil {
			return false
		}
		k, ok := bi.lenMinus(x.High)
		if !ok {
			return false
		}
		bi.touch(s, k)
		s.delta -= k
		if k <= len(s.tail) {
			s.tail = s.tail[:len(s.tail)-k]
		} else {
			s.tail = nil
		}
		return true
	case *ast.CallExpr:
		if core.IsBuiltin(bi.info, x, "append") {
			if !bi.evalBuf(s, x.Args[0]) {
				return false
			}
			if x.Ellipsis.IsValid() && len(x.Args) == 2 {
				if cv := core.ConstValue(bi.info, x.Args[1]); cv != nil && cv.Kind() == constant.String {
					bi.appendConst(s, []byte(constant.StringVal(cv)))
				} else {
					bi.appendOpaque(s)
					// append(b, key[:len(key)-k]...): the tail of the appended operand is dropped
					if se, ok := core.Unparen(x.Args[1]).(*ast.SliceExpr); ok && se.High != nil && se.Low == nil {
						if be, ok := core.Unparen(se.High).(*ast.BinaryExpr); ok && be.Op == token.SUB {
							if lc, ok := core.Unparen(be.X).(*ast.CallExpr); ok && core.IsBuiltin(bi.info, lc, "len") && len(lc.Args) == 1 &&
								types.ExprString(lc.Args[0]) == types.ExprString(se.X) {
								if k, ok := core.ConstInt(bi.info, be.Y); ok {
									s.consumed = int(k)
								}
							}
						}
					}
				}
				return true
			}
			var bs []byte
			for _, a := range x.Args[1:] {
				v, ok := core.ConstInt(bi.info, a)
				if !ok {
					bi.appendOpaque(s)
					bs = nil
					continue
				}
				bs = append(bs, byte(v))
			}
			bi.appendConst(s, bs)
			return true
		}
		// helper call taking the buffer: appendIndent(ctx, b, n), appendComma(ctx, b), encoder.AppendX(ctx, b, ...)
		for _, a := range x.Args {
			if tv := bi.info.Types[a]; tv.Type != nil && tv.Type.String() == "[]byte" {
				if bi.evalBuf(s, a) {
					cn := core.CalleeName(bi.info, x)
					if eff, ok := bi.calleeEffect(x); ok && !eff.opaque {
						if eff.consumed > 0 {
							bi.touch(s, eff.consumed)
						}
						bi.appendConst(s, []byte(eff.tail))
					} else {
						_ = cn
						bi.appendOpaque(s)
						if ok {
							s.tail = []byte(eff.tail)
						}
					}
					return true
				}
				return false
			}
		}
	}
	return false
}

func (bi *bufInterp) calleeEffect(call *ast.CallExpr) (bufEffect, bool) {
	if bi.depth > 3 {
		return bufEffect{}, false
	}
	obj := calledIdent(bi.info, call)
	if obj == nil || obj.Pkg() == nil {
		return bufEffect{}, false
	}
	var fd *ast.FuncDecl
	switch o := obj.(type) {
	case *types.Func:
		fd = bi.rc.P.DeclOf(o)
	case *types.Var:
		for short, path := range core.PkgPaths {
			if path == o.Pkg().Path() {
				fd, _ = vmAlias(bi.rc, short, o.Name())
			}
		}
	}
	if fd == nil || fd.Body == nil {
		return bufEffect{}, false
	}
	eff := helperEffect(bi.rc, fd, bi.depth+1)
	return eff, eff.unknown == ""
}

func (bi *bufInterp) block(s bufState, list []ast.Stmt, cont ...[]ast.Stmt) (bufState, bool) {
	for i, st := range list {
		switch x := st.(type) {
		case *ast.AssignStmt:
			if len(x.Lhs) == 1 && len(x.Rhs) == 1 {
				lobj := core.ObjOf(bi.info, x.Lhs[0])
				if lobj == bi.bvar {
					if !bi.evalBuf(&s, x.Rhs[0]) {
						bi.unknown = "assignment to buffer not understood: " + core.Src(bi.rc.P.Fset, x)
					}
					continue
				}
				if k, ok := bi.lenMinus(x.Rhs[0]); ok && lobj != nil {
					bi.lastVar[lobj] = k
					continue
				}
				// b[len(b)-k] = c
				if ix, ok := core.Unparen(x.Lhs[0]).(*ast.IndexExpr); ok && core.ObjOf(bi.info, ix.X) == bi.bvar {
					if k, ok := bi.lenMinus(ix.Index); ok {
						bi.touch(&s, k)
						if v, isC := core.ConstInt(bi.info, x.Rhs[0]); isC && k >= 1 && k <= len(s.tail) {
							s.tail[len(s.tail)-k] = byte(v)
						} else if isC && k == 1 && len(s.tail) == 0 {
							// overwriting the last incoming byte with a constant: remember it as the tail
							s.tail = []byte{byte(v)}
							s.delta0fix()
						}
						continue
					}
					bi.unknown = "index store not understood: " + core.Src(bi.rc.P.Fset, x)
					continue
				}
			}
			// other locals (format := ..., indentNum := ...) are irrelevant
		case *ast.ReturnStmt:
			if len(x.Results) >= 1 {
				if !bi.evalBuf(&s, x.Results[0]) {
					bi.unknown = "returned buffer not understood: " + core.Src(bi.rc.P.Fset, x)
				}
			}
			s.segCons = append(s.segCons, s.consumed)
			bi.results = append(bi.results, s)
			return s, true
		case *ast.IfStmt:
			k := append([][]ast.Stmt{list[i+1:]}, cont...)
			if _, r := bi.block(s.clone(), x.Body.List, k...); !r {
				bi.unknown = "path without return"
			}
			switch e := x.Else.(type) {
			case *ast.BlockStmt:
				if _, r := bi.block(s.clone(), e.List, k...); !r {
					bi.unknown = "path without return"
				}
			case *ast.IfStmt:
				if _, r := bi.block(s.clone(), []ast.Stmt{e}, k...); !r {
					bi.unknown = "path without return"
				}
			default:
				if _, r := bi.block(s.clone(), nil, k...); !r {
					bi.unknown = "path without return"
				}
			}
			return s, true
		case *ast.ForStmt, *ast.RangeStmt:
			// loops that append (indent strings) are opaque
			bi.appendOpaque(&s)
		case *ast.DeclStmt, *ast.ExprStmt, *ast.IncDecStmt:
		default:
			bi.unknown = fmt.Sprintf("statement %T not understood", st)
		}
	}
	if len(cont) > 0 {
		return bi.block(s, cont[0], cont[1:]...)
	}
	return s, false
}

func (s *bufState) delta0fix() {}

var effCache = map[*ast.FuncDecl]bufEffect{}

// helperEffect summarises a buffer helper.
func helperEffect(rc *core.RC, fd *ast.FuncDecl, depth int) bufEffect {
	if e, ok := effCache[fd]; ok {
		return e
	}
	info := rc.P.Info(fd)
	bi := &bufInterp{info: info, rc: rc, lastVar: map[types.Object]int{}, depth: depth}
	// the buffer parameter: the first parameter of type []byte
	for _, f := range fd.Type.Params.List {
		if tv := info.Types[f.Type]; tv.Type != nil && tv.Type.String() == "[]byte" && bi.bvar == nil && len(f.Names) > 0 {
			bi.bvar = info.Defs[f.Names[0]]
		}
	}
	eff := bufEffect{}
	if bi.bvar == nil {
		eff.unknown = "no []byte parameter"
		return eff
	}
	_, ret := bi.block(bufState{}, fd.Body.List)
	if !ret && len(bi.results) == 0 {
		bi.unknown = "no return"
	}
	eff.unknown = bi.unknown
	first := true
	for _, r := range bi.results {
		if len(r.segCons) > 0 && r.segCons[0] > eff.consumed {
			eff.consumed = r.segCons[0]
		}
		if r.opaque {
			eff.opaque = true
		}
		// common constant suffix over all return paths
		if first {
			eff.tail = string(r.tail)
			first = false
		} else {
			eff.tail = commonSuffix(eff.tail, string(r.tail))
		}
	}
	effCache[fd] = eff
	return eff
}

func commonSuffix(a, b string) string {
	i := 0
	for i < len(a) && i < len(b) && a[len(a)-1-i] == b[len(b)-1-i] {
		i++
	}
	return a[len(a)-i:]
}

// keySegmentConsumed: for appendMapKeyValue, the consumption of the tail of the appended key.
func keySegmentConsumed(rc *core.RC, fd *ast.FuncDecl) (int, bool) {
	info := rc.P.Info(fd)
	bi := &bufInterp{info: info, rc: rc, lastVar: map[types.Object]int{}}
	for _, f := range fd.Type.Params.List {
		if tv := info.Types[f.Type]; tv.Type != nil && tv.Type.String() == "[]byte" && bi.bvar == nil && len(f.Names) > 0 {
			bi.bvar = info.Defs[f.Names[0]]
		}
	}
	if bi.bvar == nil {
		return 0, false
	}
	bi.block(bufState{}, fd.Body.List)
	if bi.unknown != "" || len(bi.results) == 0 {
		return 0, false
	}
	max := 0
	for _, r := range bi.results {
		for _, c := range r.segCons[1:] {
			if c > max {
				max = c
			}
		}
	}
	return max, true
}

func c03r3(rc *core.RC) {
	p := rc.P
	effCache = map[*ast.FuncDecl]bufEffect{}
	W := map[string]int{}
	sep := map[string]string{}
	for _, vm := range core.VMPkgs {
		fd, _ := vmAlias(rc, vm, "appendComma")
		if fd == nil {
			rc.Unknown(vm+".appendComma", token.NoPos, "separator helper not found")
			continue
		}
		eff := helperEffect(rc, fd, 0)
		if eff.unknown != "" || eff.opaque || eff.tail == "" {
			rc.Unknown(vm+".appendComma", fd.Pos(), "separator helper not understood: %s", eff.unknown)
			continue
		}
		W[vm], sep[vm] = len(eff.tail), eff.tail
		rc.Touch(vm + ".appendComma")
		rc.OK(vm+".appendComma/width", fd.Pos(), "separator is %q (W=%d)", eff.tail, len(eff.tail))
		// emitters whose output must end with the separator
		for _, h := range []string{"appendNullComma", "appendEmptyArray", "appendEmptyObject", "appendArrayEnd", "appendObjectEnd", "appendMapEnd", "appendStructEnd", "appendStructEndSkipLast"} {
			hd, _ := vmAlias(rc, vm, h)
			if hd == nil {
				rc.Unknown(vm+"."+h, token.NoPos, "helper not found")
				continue
			}
			rc.Touch(vm + "." + h)
			e := helperEffect(rc, hd, 0)
			key := fmt.Sprintf("%s.%s/ends-with-separator", vm, h)
			if e.unknown != "" {
				rc.Unknown(key, hd.Pos(), "helper not understood: %s", e.unknown)
				continue
			}
			rc.Check(strings.HasSuffix(e.tail, eff.tail), key, hd.Pos(), "constant tail appended on every path is %q; the trailing-separator convention of this package requires it to end with %q", e.tail, eff.tail)
		}
		// closers that consume the previous separator
		for _, h := range []string{"appendArrayEnd", "appendObjectEnd", "appendMapEnd", "appendColon", "appendStructEndSkipLast"} {
			hd, _ := vmAlias(rc, vm, h)
			if hd == nil {
				continue
			}
			e := helperEffect(rc, hd, 0)
			key := fmt.Sprintf("%s.%s/consumes-separator", vm, h)
			if e.unknown != "" {
				rc.Unknown(key, hd.Pos(), "helper not understood: %s", e.unknown)
				continue
			}
			rc.Check(e.consumed == W[vm], key, hd.Pos(), "removes/overwrites %d byte(s) of the incoming tail; the separator of this package is %d byte(s) wide", e.consumed, W[vm])
		}
		if hd, _ := vmAlias(rc, vm, "appendMapKeyValue"); hd != nil {
			c, ok := keySegmentConsumed(rc, hd)
			key := vm + ".appendMapKeyValue/consumes-separator"
			if !ok {
				rc.Unknown(key, hd.Pos(), "helper not understood")
			} else {
				rc.Check(c == W[vm], key, hd.Pos(), "overwrites %d byte(s) at the end of the appended key; separator width is %d", c, W[vm])
			}
		}
	}
	// encoder.AppendComma / AppendCommaIndent used on the nil fast path
	encW := map[string]int{}
	for _, n := range []string{"AppendComma", "AppendCommaIndent"} {
		fd := p.Func("encoder", n)
		if fd == nil {
			rc.Unknown("encoder."+n, token.NoPos, "helper not found")
			continue
		}
		e := helperEffect(rc, fd, 0)
		encW[n] = len(e.tail)
	}
	// final trims in package json
	family := func(callee string) string {
		switch callee {
		case "encodeIndent":
			return "vm_indent"
		case "encode", "encodeNoEscape":
			return "vm"
		}
		return ""
	}
	// which run function / nil-path separator each encode* uses
	for _, en := range []string{"encode", "encodeNoEscape", "encodeIndent"} {
		fd := p.Func("json", en)
		if fd == nil {
			rc.Unknown("json."+en, token.NoPos, "entry not found")
			continue
		}
		rc.Touch("json." + en)
		info := p.Info(fd)
		fam := family(en)
		ast.Inspect(fd.Body, func(n ast.Node) bool {
			call, ok := n.(*ast.CallExpr)
			if !ok {
				return true
			}
			cn := core.CalleeName(info, call)
			switch cn {
			case "encoder.AppendComma", "encoder.AppendCommaIndent":
				w := encW[strings.TrimPrefix(cn, "encoder.")]
				rc.Check(w == W[fam], fmt.Sprintf("json.%s/nil-path/%s", en, cn), call.Pos(), "nil fast path appends a %d-byte separator; callers trim %d", w, W[fam])
			case "json.encodeRunCode":
				rc.Check(fam == "vm", "json."+en+"/run", call.Pos(), "runs the compact interpreters")
			case "json.encodeRunIndentCode":
				rc.Check(fam == "vm_indent", "json."+en+"/run", call.Pos(), "runs the indent interpreters")
			}
			return true
		})
	}
	for _, fd := range p.Funcs("json") {
		if fd.Body == nil {
			continue
		}
		info := p.Info(fd)
		type site struct {
			node ast.Node
			fam  string
			k    int
		}
		var calls, trims []site
		ast.Inspect(fd.Body, func(n ast.Node) bool {
			switch x := n.(type) {
			case *ast.CallExpr:
				if f := core.Callee(info, x); f != nil && f.Pkg() != nil && f.Pkg().Path() == core.ModPath {
					if fam := family(f.Name()); fam != "" {
						calls = append(calls, site{x, fam, 0})
					}
				}
			case *ast.SliceExpr:
				if x.High != nil && x.Low == nil {
					if be, ok := core.Unparen(x.High).(*ast.BinaryExpr); ok && be.Op == token.SUB {
						if lc, ok := core.Unparen(be.X).(*ast.CallExpr); ok && core.IsBuiltin(info, lc, "len") {
							if k, ok := core.ConstInt(info, be.Y); ok && core.ObjOf(info, lc.Args[0]) == core.ObjOf(info, x.X) {
								trims = append(trims, site{x, "", int(k)})
							}
						}
					}
				}
			}
			return true
		})
		if len(calls) == 0 {
			continue
		}
		rc.Touch(p.FuncName(fd))
		if len(trims) == 0 {
			rc.Unknown(p.FuncName(fd)+"/trim", fd.Pos(), "calls an encode function but no trailing-separator trim `x[:len(x)-k]` was found")
			continue
		}
		for _, tr := range trims {
			tc := condChain(p, info, fd, tr.node)
			matched := 0
			for _, c := range calls {
				if !compatible(tc, condChain(p, info, fd, c.node)) {
					continue
				}
				matched++
				key := fmt.Sprintf("%s/trim-after-%s", p.FuncName(fd), core.CalleeName(info, c.node.(*ast.CallExpr)))
				rc.Check(tr.k == W[c.fam], key, tr.node.Pos(), "trims %d byte(s); the %s family leaves a %d-byte trailing separator", tr.k, c.fam, W[c.fam])
			}
			if matched == 0 {
				rc.Unknown(p.FuncName(fd)+"/trim", tr.node.Pos(), "trim is not on a path compatible with any encode call")
			}
		}
	}
}

type condLit struct {
	text string
	pos  bool
}

// condChain lists the if-conditions (rendered through go/types-resolved source) under which n executes.
func condChain(p *core.Program, info *types.Info, fd *ast.FuncDecl, n ast.Node) []condLit {
	var out []condLit
	path := core.PathTo(fd.Body, n)
	for i, pn := range path {
		ifs, ok := pn.(*ast.IfStmt)
		if !ok || i+1 >= len(path) {
			continue
		}
		next := path[i+1]
		// `!c` holding is `c` not holding: the chain names the condition without its negations
		cond, flip := stripNot(ifs.Cond)
		if next == ast.Node(ifs.Body) {
			out = append(out, condLit{core.Src(p.Fset, cond), !flip})
		} else if ifs.Else != nil && next == ifs.Else {
			out = append(out, condLit{core.Src(p.Fset, cond), flip})
		}
	}
	return out
}

func compatible(a, b []condLit) bool {
	for _, x := range a {
		for _, y := range b {
			if x.text == y.text && x.pos != y.pos {
				return false
			}
		}
	}
	return true
}

// ---- C03.R4 a member key is always followed by a value ----

// An opcode handler that writes a member key with appendStructKey must, on every path to the end of
// the handler, either append the value itself or hand over to code.Next (the opcode that encodes the
// value). Leaving for code.NextField / code.End with the key written and no value is `"a":,`.
type keyWalk struct {
	info *types.Info
	bad  token.Pos
	why  string
}

type keyState struct {
	pending token.Pos // position of the key still waiting for its value; NoPos if none
	target  string    // last assignment to code: "Next", "NextField", "End", …; "" if none after the key
}

var valuelessAppends = map[string]bool{
	"appendStructKey": true, "appendComma": true, "appendCommaIndent": true, "appendIndent": true,
	"appendStructEnd": true, "appendStructEndSkipLast": true, "appendObjectEnd": true, "appendArrayEnd": true,
	"appendMapEnd": true, "appendColon": true,
}

func (w *keyWalk) callsIn(n ast.Node, f func(name string, c *ast.CallExpr)) {
	ast.Inspect(n, func(m ast.Node) bool {
		if _, isLit := m.(*ast.FuncLit); isLit {
			return false
		}
		if c, ok := m.(*ast.CallExpr); ok {
			if id := calleeIdent(c.Fun); id != nil {
				f(id.Name, c)
			}
		}
		return true
	})
}

// simple applies a non-branching statement to the state.
func (w *keyWalk) simple(st ast.Stmt, s keyState) keyState {
	w.callsIn(st, func(name string, c *ast.CallExpr) {
		switch {
		case name == "appendStructKey":
			if s.pending != token.NoPos && w.bad == token.NoPos {
				w.bad, w.why = c.Pos(), "a second key is written while the first still has no value"
			}
			s.pending, s.target = c.Pos(), ""
		case name == "append" || (strings.HasPrefix(name, "append") && !valuelessAppends[name]):
			s.pending = token.NoPos
		}
	})
	if as, ok := st.(*ast.AssignStmt); ok && len(as.Lhs) == 1 && len(as.Rhs) == 1 {
		// the program counter, whatever it is called: a local of type *encoder.Opcode
		if id, isIdent := as.Lhs[0].(*ast.Ident); isIdent && isOpcodePtr(w.info.TypeOf(id)) {
			if sel, isSel := core.Unparen(as.Rhs[0]).(*ast.SelectorExpr); isSel {
				s.target = sel.Sel.Name
			} else {
				s.target = "?"
			}
		}
	}
	return s
}

// end is called where control leaves the handler.
func (w *keyWalk) end(pos token.Pos, s keyState) {
	if s.pending == token.NoPos || w.bad != token.NoPos {
		return
	}
	if s.target == "Next" {
		return
	}
	w.bad = pos
	if s.target == "" {
		w.why = "the handler ends with the key written, no value appended and no hand-over to code.Next"
	} else {
		w.why = fmt.Sprintf("the handler leaves for code.%s with the key written and no value appended", s.target)
	}
}

// walk returns the states with which control falls out of the end of list.
func (w *keyWalk) walk(list []ast.Stmt, in []keyState) []keyState {
	cur := in
	for _, st := range list {
		if len(cur) == 0 {
			return nil
		}
		var next []keyState
		for _, s := range cur {
			next = append(next, w.stmt(st, s)...)
		}
		cur = dedupKeyStates(next)
	}
	return cur
}

func dedupKeyStates(in []keyState) []keyState {
	seen := map[keyState]bool{}
	var out []keyState
	for _, s := range in {
		if !seen[s] {
			seen[s] = true
			out = append(out, s)
		}
	}
	return out
}

func (w *keyWalk) stmt(st ast.Stmt, s keyState) []keyState {
	switch x := st.(type) {
	case *ast.BlockStmt:
		return w.walk(x.List, []keyState{s})
	case *ast.IfStmt:
		if x.Init != nil {
			s = w.simple(x.Init, s)
		}
		s = w.simple(&ast.ExprStmt{X: x.Cond}, s)
		out := w.walk(x.Body.List, []keyState{s})
		switch e := x.Else.(type) {
		case nil:
			out = append(out, s)
		case *ast.BlockStmt:
			out = append(out, w.walk(e.List, []keyState{s})...)
		case *ast.IfStmt:
			out = append(out, w.stmt(e, s)...)
		}
		return out
	case *ast.ForStmt:
		out := []keyState{s}
		out = append(out, w.walk(x.Body.List, []keyState{s})...)
		return out
	case *ast.RangeStmt:
		out := []keyState{s}
		out = append(out, w.walk(x.Body.List, []keyState{s})...)
		return out
	case *ast.SwitchStmt:
		var out []keyState
		hasDefault := false
		for _, c := range x.Body.List {
			cc := c.(*ast.CaseClause)
			if len(cc.List) == 0 {
				hasDefault = true
			}
			// a break inside a nested switch leaves only that switch
			inner := &keyWalk{info: w.info}
			res := inner.walkNested(cc.Body, s)
			if inner.bad != token.NoPos && w.bad == token.NoPos {
				w.bad, w.why = inner.bad, inner.why
			}
			out = append(out, res...)
		}
		if !hasDefault {
			out = append(out, s)
		}
		return out
	case *ast.ReturnStmt:
		return nil // error exit: the output is discarded
	case *ast.BranchStmt:
		if x.Tok == token.BREAK || x.Tok == token.GOTO || x.Tok == token.CONTINUE {
			w.end(x.Pos(), s)
			return nil
		}
		return []keyState{s}
	default:
		return []keyState{w.simple(st, s)}
	}
}

// walkNested walks the body of a clause of a nested switch: `break` there falls out of the nested
// switch with the current state instead of ending the handler.
func (w *keyWalk) walkNested(list []ast.Stmt, s keyState) []keyState {
	cur := []keyState{s}
	var fell []keyState
	for _, st := range list {
		var next []keyState
		for _, c := range cur {
			if br, ok := st.(*ast.BranchStmt); ok && br.Tok == token.BREAK && br.Label == nil {
				fell = append(fell, c)
				continue
			}
			next = append(next, w.stmt(st, c)...)
		}
		cur = dedupKeyStates(next)
	}
	return append(fell, cur...)
}

func c03r4(rc *core.RC) {
	p := rc.P
	t := loadOpTable(rc)
	if t == nil {
		return
	}
	for _, vm := range []string{"vm", "vm_indent", "vm_color", "vm_color_indent"} {
		cl, _ := opClauses(rc, vm, t)
		if cl == nil {
			rc.Unknown(vm+"/Run", token.NoPos, "opcode switch not found")
			continue
		}
		info := p.Pkg(vm).TypesInfo
		var labels []string
		for l := range cl {
			labels = append(labels, l)
		}
		sort.Strings(labels)
		n := 0
		for _, l := range labels {
			cc := cl[l]
			writesKey := false
			w := &keyWalk{info: info}
			w.callsIn(cc, func(name string, _ *ast.CallExpr) {
				if name == "appendStructKey" {
					writesKey = true
				}
			})
			if !writesKey {
				continue
			}
			n++
			key := fmt.Sprintf("%s.Run/%s key-has-value", vm, core.Clip(l, 60))
			for _, s := range w.walk(cc.Body, []keyState{{}}) {
				w.end(cc.End(), s)
			}
			if w.bad != token.NoPos {
				rc.Bad(key, w.bad, "%s: the output is an object member without a value", w.why)
			} else {
				rc.OK(key, cc.Pos(), "on every path the key is followed by an appended value or by the hand-over to code.Next")
			}
		}
		rc.Touch(vm + ".Run")
		if n < 100 {
			rc.Unknown(vm+".Run/key-writers", token.NoPos, "only %d opcode handlers write a member key", n)
		}
	}
}

func isOpcodePtr(t types.Type) bool {
	if t == nil {
		return false
	}
	pt, ok := t.(*types.Pointer)
	if !ok {
		return false
	}
	n, ok := pt.Elem().(*types.Named)
	return ok && n.Obj().Name() == "Opcode" && n.Obj().Pkg() != nil && n.Obj().Pkg().Name() == "encoder"
}

// stripNot removes leading negations (and the parentheses around them) and reports whether their number is odd.
func stripNot(e ast.Expr) (ast.Expr, bool) {
	flip := false
	for {
		e = core.Unparen(e)
		u, ok := e.(*ast.UnaryExpr)
		if !ok || u.Op != token.NOT {
			return e, flip
		}
		e = u.X
		flip = !flip
	}
}

// ---- C03.R6 a nil exit that proceeds to the next opcode writes a value ----

// In the interpreters a handler that finds a zero address and goes on with code.Next has finished its value: what
// stands before it (a member key, a comma) is already written, so the handler has to write the value, null. A nil
// exit that only moves on leaves `"key":` followed by nothing (OpRecursivePtr did, for a pointer-shaped struct
// holding a nil pointer chain to its own type). Exits to code.End / code.NextField belong to omitted members and
// closing brackets and are other rules' business (C03.R4).
func c03r6(rc *core.RC) {
	p := rc.P
	total := 0
	for _, vm := range []string{"vm", "vm_indent", "vm_color", "vm_color_indent"} {
		fd := p.Func(vm, "Run")
		if fd == nil || fd.Body == nil {
			rc.Unknown(vm+".Run", token.NoPos, "interpreter not found")
			continue
		}
		info := p.Info(fd)
		rc.Touch(vm + ".Run")
		isZeroTest := func(e ast.Expr) bool {
			found := false
			ast.Inspect(e, func(m ast.Node) bool {
				be, ok := m.(*ast.BinaryExpr)
				if !ok || be.Op != token.EQL {
					return true
				}
				if v, isC := core.ConstInt(info, be.Y); isC && v == 0 {
					if t := info.TypeOf(be.X); t != nil && t.String() == "uintptr" {
						found = true
					}
				}
				return true
			})
			return found
		}
		ast.Inspect(fd.Body, func(m ast.Node) bool {
			cc, ok := m.(*ast.CaseClause)
			if !ok || len(cc.List) == 0 {
				return true
			}
			label := core.Src(p.Fset, cc.List[0])
			if !strings.Contains(label, "Op") {
				return true
			}
			k := 0
			ast.Inspect(cc, func(x ast.Node) bool {
				if inner, isCC := x.(*ast.CaseClause); isCC && inner != cc {
					return false
				}
				ifs, ok := x.(*ast.IfStmt)
				if !ok || !isZeroTest(ifs.Cond) {
					return true
				}
				toNext, writes := false, false
				for _, st := range ifs.Body.List {
					as, isAs := st.(*ast.AssignStmt)
					if !isAs || len(as.Lhs) != 1 || len(as.Rhs) != 1 {
						continue
					}
					if id, isID := as.Lhs[0].(*ast.Ident); isID {
						t := info.TypeOf(id)
						if isOpcodePtr(t) {
							if sel, isSel := core.Unparen(as.Rhs[0]).(*ast.SelectorExpr); isSel && sel.Sel.Name == "Next" {
								if x, isX := core.Unparen(sel.X).(*ast.Ident); isX && core.ObjOf(info, x) == core.ObjOf(info, id) {
									toNext = true
								}
							}
						}
						if t != nil && t.String() == "[]byte" {
							writes = true
						}
					}
				}
				if !toNext {
					return true
				}
				k++
				total++
				key := fmt.Sprintf("%s.Run/case %s/nil-exit#%d writes-a-value", vm, strings.TrimPrefix(label, "encoder."), k)
				rc.Check(writes, key, ifs.Pos(), "the branch taken on a zero address (%s) goes on with code.Next only after writing a value (null): what precedes the value, a member key or a comma, is already in the output", core.Src(p.Fset, ifs.Cond))
				return true
			})
			return true
		})
	}
	if total < 40 {
		rc.Unknown("vm/nil-exits", token.NoPos, "found %d nil exits to code.Next in the four interpreters", total)
	}
}

// ---- C03.R7 the End link of a head opcode points at the last opcode of what it closes ----

// A head opcode that finds nothing to write (nil pointer, nil map, empty struct) jumps to its End link, behind
// everything that belongs to its value. Where the compiler (code.go) sets the link, the target is therefore the last
// opcode of a list (Opcodes.Last()) or an end opcode made on the spot. A link to the first opcode of the last member
// (fieldCodes.First()) makes the nil exit of an embedded pointer jump into the middle of that member: its value is
// written without its key, from a slot nothing wrote in this run.
func c03r7(rc *core.RC) {
	p := rc.P
	pk := p.Pkg("encoder")
	if pk == nil {
		rc.Unknown("encoder", token.NoPos, "package not found")
		return
	}
	info := pk.TypesInfo
	n := 0
	for _, fd := range p.Funcs("encoder") {
		if fd.Body == nil {
			continue
		}
		name := p.FuncName(fd)
		k := 0
		ast.Inspect(fd.Body, func(m ast.Node) bool {
			as, ok := m.(*ast.AssignStmt)
			if !ok || len(as.Lhs) != len(as.Rhs) {
				return true
			}
			for i, l := range as.Lhs {
				f := core.FieldOf(info, l)
				if f == nil || f.Name() != "End" || !strings.HasSuffix(f.Type().String(), "encoder.Opcode") {
					continue
				}
				k++
				n++
				rc.Touch(name)
				key := fmt.Sprintf("%s/End-link#%d last-or-fresh", name, k)
				src := core.Unparen(core.ResolveSingleDef(info, fd.Body, as.Rhs[i]))
				switch x := src.(type) {
				case *ast.UnaryExpr:
					if _, isLit := core.Unparen(x.X).(*ast.CompositeLit); isLit && x.Op == token.AND {
						rc.OK(key, as.Pos(), "an end opcode made on the spot")
						continue
					}
				case *ast.CallExpr:
					callee := core.Callee(info, x)
					cn := core.CalleeName(info, x)
					switch {
					case cn == "encoder.Opcodes.Last":
						rc.OK(key, as.Pos(), "the last opcode of %s", core.Src(p.Fset, x.Fun.(*ast.SelectorExpr).X))
						continue
					case cn == "encoder.Opcodes.First":
						rc.Bad(key, as.Pos(), "%s = %s: the End link is the first opcode of a list; the nil exit of the head jumps into the middle of the value it should skip (for an embedded nil pointer the last member's value is written without its key)", core.Src(p.Fset, l), core.Src(p.Fset, src))
						continue
					case callee != nil && callee.Type().(*types.Signature).Recv() == nil && callee.Pkg() == pk.Types:
						rc.OK(key, as.Pos(), "the opcode %s returns", cn)
						continue
					}
				}
				rc.Unknown(key, as.Pos(), "%s = %s: the target is neither Opcodes.Last(), an opcode literal nor the result of an opcode constructor", core.Src(p.Fset, l), core.Src(p.Fset, src))
			}
			return true
		})
	}
	if n < 10 {
		rc.Unknown("encoder/End-links", token.NoPos, "found %d assignments to Opcode.End in the encoder package (confirmed: 13)", n)
	}
}

// ---- C03.R8 what the encode helpers return ends with the separator their callers cut off ----

// encode, encodeNoEscape and encodeIndent return the text with the separator the interpreter writes behind every
// value, and every caller cuts one byte off (buf[:len(buf)-1]). The branch for an untyped nil runs no program and
// writes the text itself: it has to write the separator as well, or the caller cuts the last letter of the literal
// (MarshalNoEscape(nil) returned `nul` with a nil error). Obligation, in every function of package json that returns
// ([]byte, error) and has a branch `if v == nil` for its interface parameter: the buffer that branch returns was
// last extended by one of the separator writers (encoder.AppendComma…).
func c03r8(rc *core.RC) {
	p := rc.P
	jp := p.Pkg("json")
	if jp == nil {
		rc.Unknown("json", token.NoPos, "package not found")
		return
	}
	info := jp.TypesInfo
	n := 0
	for _, fd := range p.Funcs("json") {
		if fd.Body == nil {
			continue
		}
		fn, _ := info.Defs[fd.Name].(*types.Func)
		if fn == nil {
			continue
		}
		sig := fn.Type().(*types.Signature)
		if sig.Results().Len() != 2 || sig.Results().At(0).Type().String() != "[]byte" || sig.Results().At(1).Type().String() != "error" {
			continue
		}
		name := p.FuncName(fd)
		for _, st := range fd.Body.List {
			ifs, ok := st.(*ast.IfStmt)
			if !ok {
				continue
			}
			be, ok := core.Unparen(ifs.Cond).(*ast.BinaryExpr)
			if !ok || be.Op != token.EQL || !core.IsNilIdent(info, be.Y) {
				continue
			}
			v, ok := core.ObjOf(info, be.X).(*types.Var)
			if !ok {
				continue
			}
			if it, isI := v.Type().Underlying().(*types.Interface); !isI || it.NumMethods() != 0 {
				continue
			}
			// the branch writes the literal itself
			writesNull := false
			ast.Inspect(ifs.Body, func(m ast.Node) bool {
				if c, ok := m.(*ast.CallExpr); ok && core.CalleeName(info, c) == "encoder.AppendNull" {
					writesNull = true
				}
				return true
			})
			if !writesNull {
				continue
			}
			n++
			rc.Touch(name)
			key := name + "/nil-branch ends-with-the-separator"
			// the last extension of the returned buffer
			var last *ast.CallExpr
			var ret *ast.ReturnStmt
			for _, s2 := range ifs.Body.List {
				switch x := s2.(type) {
				case *ast.AssignStmt:
					if len(x.Rhs) == 1 {
						if c, ok := core.Unparen(x.Rhs[0]).(*ast.CallExpr); ok {
							last = c
						}
					}
				case *ast.ReturnStmt:
					ret = x
				}
			}
			if ret != nil && len(ret.Results) == 2 {
				if c, ok := core.Unparen(ret.Results[0]).(*ast.CallExpr); ok {
					last = c
				}
			}
			sep := last != nil && strings.HasPrefix(core.CalleeName(info, last), "encoder.AppendComma")
			rc.Check(sep, key, ifs.Pos(), "the branch for an untyped nil returns the literal without the separator behind it (the last writer is %s): every caller cuts one byte off what this function returns, so the text loses its last letter (`nul`)", func() string {
				if last == nil {
					return "none"
				}
				return core.CalleeName(info, last)
			}())
		}
	}
	if n < 3 {
		rc.Unknown("json/nil-branches", token.NoPos, "found %d encode helpers with a branch for an untyped nil (confirmed: 3)", n)
	}
}

// ---- C03.R9 the indenting entry path ends its value as its caller expects ----

// marshal cuts one byte from what encode returns (the plain interpreters end a value with `,`), marshalIndent cuts
// two from what encodeIndent returns (the indenting interpreters end it with `,\n`). encodeIndent therefore has to
// get its bytes from the indenting side only: a shortcut through encode (for an empty prefix and indent, say) hands
// marshalIndent a value that ends in one byte, and the last byte of the value is cut off with it. Obligation:
// encodeIndent calls neither encode nor encodeRunCode.
func c03r9(rc *core.RC) {
	p := rc.P
	fd := p.Func("json", "encodeIndent")
	key := "json.encodeIndent/bytes-from-the-indenting-side-only"
	if fd == nil || fd.Body == nil {
		rc.Unknown(key, token.NoPos, "encodeIndent not found")
		return
	}
	rc.Touch(p.FuncName(fd))
	info := p.Info(fd)
	var bad *ast.CallExpr
	indenting := false
	ast.Inspect(fd.Body, func(m ast.Node) bool {
		call, ok := m.(*ast.CallExpr)
		if !ok {
			return true
		}
		switch core.CalleeName(info, call) {
		case "json.encode", "json.encodeRunCode", "json.encodeNoEscape":
			if bad == nil {
				bad = call
			}
		case "json.encodeRunIndentCode":
			indenting = true
		}
		return true
	})
	switch {
	case bad != nil:
		rc.Bad(key, bad.Pos(), "encodeIndent returns what %s made: a value that ends in `,` where its caller marshalIndent cuts the two bytes `,\\n` of the indenting interpreters, so MarshalIndent(v, \"\", \"\") loses the last byte of the value ({\"a\":1 for {\"a\":1})", core.Src(p.Fset, bad.Fun))
	case !indenting:
		rc.Unknown(key, fd.Pos(), "encodeIndent does not call encodeRunIndentCode")
	default:
		rc.OK(key, fd.Pos(), "the bytes come from encodeRunIndentCode (and AppendCommaIndent for nil)")
	}
}
