package rules

import (
	"fmt"
	"go/ast"
	"go/token"
	"go/types"
	"sort"
	"strings"

	"golang.org/x/tools/go/cfg"
	"golang.org/x/tools/go/ssa"

	"verif/checker/core"
)

// restoreLeak explores the CFG from (b, from): a path that reaches a return without passing one of the
// restoring statements leaks; the position of that return is reported.
func restoreLeak(cf *core.FuncCFG, b *cfg.Block, from int, restores []ast.Node, seen map[*cfg.Block]bool) token.Pos {
	if b == nil {
		return token.NoPos
	}
	for j := from; j < len(b.Nodes); j++ {
		for _, r := range restores {
			if b.Nodes[j] == r {
				return token.NoPos
			}
		}
	}
	if r := core.BlockReturn(b); r != nil {
		return r.Pos()
	}
	for _, s := range b.Succs {
		if seen[s] {
			continue
		}
		seen[s] = true
		if p := restoreLeak(cf, s, 0, restores, seen); p.IsValid() {
			return p
		}
	}
	return token.NoPos
}

// pooled structs: a value of these types comes from a sync.Pool and carries whatever the previous call left.
var pooledTypes = map[string]bool{"encoder.Option": true, "encoder.RuntimeContext": true, "decoder.Option": true, "decoder.RuntimeContext": true}

func pooledOwner(info *types.Info, sel *ast.SelectorExpr) string {
	s := info.Selections[sel]
	if s == nil || s.Kind() != types.FieldVal {
		return ""
	}
	t := types.Unalias(s.Recv())
	if p, ok := t.(*types.Pointer); ok {
		t = types.Unalias(p.Elem())
	}
	owner := strings.TrimPrefix(t.String(), core.ModPath+"/internal/")
	if pooledTypes[owner] {
		return owner
	}
	return ""
}

type fieldAccess struct {
	fn    string
	pos   token.Pos
	write bool
	reuse bool // x[:0], len(x), cap(x): capacity reuse, not a read of stale content
}

// pooledInventory lists every access of a pooled field in the module.
func pooledInventory(rc *core.RC) map[string][]fieldAccess {
	p := rc.P
	inv := map[string][]fieldAccess{}
	for _, short := range append([]string{"json", "encoder", "decoder"}, core.VMPkgs...) {
		for _, fd := range p.Funcs(short) {
			if fd.Body == nil {
				continue
			}
			info := p.Info(fd)
			lhs := map[ast.Expr]bool{}
			reuse := map[ast.Expr]bool{}
			ast.Inspect(fd.Body, func(n ast.Node) bool {
				switch x := n.(type) {
				case *ast.AssignStmt:
					if x.Tok == token.ASSIGN || x.Tok == token.DEFINE {
						for _, l := range x.Lhs {
							lhs[core.Unparen(l)] = true
						}
					}
				case *ast.SliceExpr:
					if x.High != nil && x.Low == nil {
						if v, ok := core.ConstInt(info, x.High); ok && v == 0 {
							reuse[core.Unparen(x.X)] = true
						}
					}
				case *ast.CallExpr:
					if (core.IsBuiltin(info, x, "len") || core.IsBuiltin(info, x, "cap")) && len(x.Args) == 1 {
						reuse[core.Unparen(x.Args[0])] = true
					}
				}
				return true
			})
			ast.Inspect(fd.Body, func(n ast.Node) bool {
				sel, ok := n.(*ast.SelectorExpr)
				if !ok {
					return true
				}
				owner := pooledOwner(info, sel)
				if owner == "" {
					return true
				}
				k := owner + "." + sel.Sel.Name
				inv[k] = append(inv[k], fieldAccess{fn: p.FuncName(fd), pos: sel.Pos(), write: lhs[sel], reuse: reuse[sel]})
				return true
			})
		}
	}
	return inv
}

// ---- C11.R1 pooled state is written before it is read ----

func c11r1(rc *core.RC) {
	p := rc.P
	inv := pooledInventory(rc)
	g := p.VTA()
	// entry points: module functions that take a context from a pool
	type entry struct {
		fn   *ssa.Function
		side string // encoder | decoder
	}
	var entries []entry
	for _, f := range p.ModuleFuncs() {
		for _, b := range f.Blocks {
			for _, ins := range b.Instrs {
				if c, ok := ins.(*ssa.Call); ok {
					switch core.StaticCalleeName(c.Common()) {
					case "encoder.TakeRuntimeContext":
						entries = append(entries, entry{f, "encoder"})
					case "decoder.TakeRuntimeContext":
						entries = append(entries, entry{f, "decoder"})
					}
				}
			}
		}
	}
	seenE := map[*ssa.Function]bool{}
	for _, e := range entries {
		if seenE[e.fn] {
			continue
		}
		seenE[e.fn] = true
		fd, _ := e.fn.Syntax().(*ast.FuncDecl)
		if fd == nil {
			continue
		}
		ename := core.SSAName(e.fn)
		rc.Touch(ename)
		// functions of the prologue: the entry and its static module callees (two levels), except interpreters and append helpers
		prologue := map[string]bool{p.FuncName(fd): true}
		var addCallees func(f *ssa.Function, depth int)
		addCallees = func(f *ssa.Function, depth int) {
			if depth > 2 {
				return
			}
			for _, b := range f.Blocks {
				for _, ins := range b.Instrs {
					c, ok := ins.(ssa.CallInstruction)
					if !ok {
						continue
					}
					callee := c.Common().StaticCallee()
					if callee == nil || callee.Pkg == nil || !strings.HasPrefix(callee.Pkg.Pkg.Path(), core.ModPath) {
						continue
					}
					n := callee.Name()
					if n == "Run" || n == "DebugRun" || strings.HasPrefix(n, "Append") {
						continue
					}
					if cfd, ok := callee.Syntax().(*ast.FuncDecl); ok {
						if !prologue[p.FuncName(cfd)] {
							prologue[p.FuncName(cfd)] = true
							addCallees(callee, depth+1)
						}
					}
				}
			}
		}
		addCallees(e.fn, 0)
		// whole-struct reset in the prologue:  *ctx.Option = pkg.Option{}
		resetAll := map[string]bool{}
		info := p.Info(fd)
		ast.Inspect(fd.Body, func(n ast.Node) bool {
			as, ok := n.(*ast.AssignStmt)
			if !ok || len(as.Lhs) != 1 || len(as.Rhs) != 1 {
				return true
			}
			st, ok := core.Unparen(as.Lhs[0]).(*ast.StarExpr)
			if !ok {
				return true
			}
			cl, ok := core.Unparen(as.Rhs[0]).(*ast.CompositeLit)
			if !ok || len(cl.Elts) != 0 {
				return true
			}
			t := types.Unalias(info.Types[st].Type)
			owner := strings.TrimPrefix(t.String(), core.ModPath+"/internal/")
			if pooledTypes[owner] {
				resetAll[owner] = true
			}
			return true
		})
		reach := core.ReachableFrom(g, []*ssa.Function{e.fn})
		reachNames := map[string]bool{}
		for f := range reach {
			if fd2, ok := f.Syntax().(*ast.FuncDecl); ok && f.Pkg != nil && strings.HasPrefix(f.Pkg.Pkg.Path(), core.ModPath) {
				reachNames[p.FuncName(fd2)] = true
			}
		}
		var fields []string
		for k := range inv {
			if strings.HasPrefix(k, e.side+".") {
				fields = append(fields, k)
			}
		}
		sort.Strings(fields)
		for _, k := range fields {
			owner := k[:strings.LastIndex(k, ".")]
			name := k[strings.LastIndex(k, ".")+1:]
			if name == "Option" {
				continue // the pointer to the Option allocated together with the context
			}
			var firstRead *fieldAccess
			written := resetAll[owner]
			onlyReuse := true
			for i := range inv[k] {
				a := &inv[k][i]
				if !reachNames[a.fn] {
					continue
				}
				if a.write {
					if prologue[a.fn] {
						written = true
					}
					continue
				}
				if !a.reuse {
					onlyReuse = false
				}
				if firstRead == nil && !a.reuse {
					firstRead = a
				}
			}
			if firstRead == nil {
				continue // not read on this entry's paths
			}
			key := fmt.Sprintf("%s/pooled %s", ename, k)
			switch {
			case written:
				rc.OK(key, firstRead.pos, "written (or reset with the whole struct) by the entry point before it can be read")
			case onlyReuse:
				rc.OK(key, firstRead.pos, "only re-sliced to length 0 / measured: capacity reuse")
			default:
				rc.Bad(key, firstRead.pos, "%s is read by %s on a path from %s, which never writes it: the value left in the pooled object by an earlier call decides this call's result", k, firstRead.fn, ename)
			}
		}
	}
	if len(seenE) < 8 {
		rc.Unknown("module/pool-entry-points", token.NoPos, "found %d functions that take a pooled context (confirmed: 12)", len(seenE))
	}
}

// ---- C11.R2 save/restore pairing ----

func c11r2(rc *core.RC) {
	p := rc.P
	n := 0
	for _, short := range []string{"decoder", "encoder", "json"} {
		for _, fd := range p.Funcs(short) {
			if fd.Body == nil {
				continue
			}
			info := p.Info(fd)
			// old := X.f ; X.f = new ; … ; X.f = old
			type saved struct {
				old  types.Object
				path string
				pos  token.Pos
			}
			var saves []saved
			ast.Inspect(fd.Body, func(m ast.Node) bool {
				as, ok := m.(*ast.AssignStmt)
				if !ok || as.Tok != token.DEFINE || len(as.Lhs) != 1 || len(as.Rhs) != 1 {
					return true
				}
				sel, ok := core.Unparen(as.Rhs[0]).(*ast.SelectorExpr)
				if !ok || core.FieldOf(info, sel) == nil {
					return true
				}
				saves = append(saves, saved{core.ObjOf(info, as.Lhs[0]), types.ExprString(sel), as.Pos()})
				return true
			})
			for _, sv := range saves {
				// overwrite and restore statements of the same path
				var overwrite, restores []ast.Node
				ast.Inspect(fd.Body, func(m ast.Node) bool {
					as, ok := m.(*ast.AssignStmt)
					if !ok || as.Tok != token.ASSIGN || len(as.Lhs) != 1 || len(as.Rhs) != 1 {
						return true
					}
					if types.ExprString(core.Unparen(as.Lhs[0])) != sv.path {
						return true
					}
					if core.ObjOf(info, as.Rhs[0]) == sv.old {
						restores = append(restores, as)
					} else if as.Pos() > sv.pos {
						overwrite = append(overwrite, as)
					}
					return true
				})
				if len(overwrite) == 0 {
					continue
				}
				if len(restores) == 0 {
					if ow0, ok := overwrite[0].(*ast.AssignStmt); ok {
						// only when the saved copy serves no other purpose (it is never read except by a blank assignment)
						used := false
						ast.Inspect(fd.Body, func(k ast.Node) bool {
							if as2, ok := k.(*ast.AssignStmt); ok && len(as2.Lhs) == 1 {
								if id, ok := as2.Lhs[0].(*ast.Ident); ok && id.Name == "_" {
									return false
								}
							}
							if id, ok := k.(*ast.Ident); ok && info.Uses[id] == sv.old {
								used = true
							}
							return true
						})
						if sel, ok := core.Unparen(ow0.Lhs[0]).(*ast.SelectorExpr); ok && pooledOwner(info, sel) == "" && !used {
							n++
							rc.Bad(fmt.Sprintf("%s/save-restore %s", p.FuncName(fd), sv.path), ow0.Pos(), "%s is saved in %s and then overwritten, but never assigned back: the shared object stays modified after the call", sv.path, sv.old.Name())
						}
					}
					continue
				}
				// per-call state of the pooled context is rewritten by every entry point (C11.R1): not shared across calls
				if ow0, ok := overwrite[0].(*ast.AssignStmt); ok {
					if sel, ok := core.Unparen(ow0.Lhs[0]).(*ast.SelectorExpr); ok && pooledOwner(info, sel) != "" {
						rc.Note(fmt.Sprintf("%s/save-restore %s", p.FuncName(fd), sv.path), ow0.Pos(), "field of the pooled per-call context: every entry point rewrites it (see C11.R1)")
						continue
					}
				}
				n++
				rc.Touch(p.FuncName(fd))
				cf := core.BuildCFG(fd.Body, info)
				for _, ow := range overwrite {
					key := fmt.Sprintf("%s/save-restore %s", p.FuncName(fd), sv.path)
					blk, idx := cf.BlockOf(ow)
					leak := restoreLeak(cf, blk, idx+1, restores, map[*cfg.Block]bool{})
					if leak.IsValid() {
						rc.Bad(key, leak, "%s is overwritten after being saved in %s, but this exit is reached without the restoring assignment: the shared object stays modified after the call (for example after an error)", sv.path, sv.old.Name())
					} else {
						rc.OK(key, ow.Pos(), "every exit after the overwrite passes the restoring assignment")
					}
				}
			}
		}
	}
	if n < 2 {
		rc.Unknown("module/save-restore-sites", token.NoPos, "found %d save/overwrite/restore sequences (confirmed: Path.node in map and slice DecodePath, BaseIndent in the interpreters is saved in a frame slot instead)", n)
	}
}

// ---- C11.R4 compiled artefacts are immutable: ToOpcode / Filter do not write their receiver ----

func c11r4(rc *core.RC) {
	p := rc.P
	n := 0
	for _, fd := range p.Funcs("encoder") {
		if fd.Recv == nil || fd.Body == nil {
			continue
		}
		switch fd.Name.Name {
		case "ToOpcode", "ToAnonymousOpcode", "Filter", "Kind":
		default:
			continue
		}
		info := p.Info(fd)
		if len(fd.Recv.List) == 0 || len(fd.Recv.List[0].Names) == 0 {
			continue
		}
		recv := info.Defs[fd.Recv.List[0].Names[0]]
		n++
		rc.Touch(p.FuncName(fd))
		var w ast.Node
		ast.Inspect(fd.Body, func(m ast.Node) bool {
			var targets []ast.Expr
			switch x := m.(type) {
			case *ast.AssignStmt:
				targets = x.Lhs
			case *ast.IncDecStmt:
				targets = []ast.Expr{x.X}
			}
			for _, tg := range targets {
				if sel, ok := core.Unparen(tg).(*ast.SelectorExpr); ok && core.FieldOf(info, sel) != nil {
					if root, _ := core.FieldPath(info, sel); root == recv {
						w = tg
					}
				}
			}
			return true
		})
		key := p.FuncName(fd) + "/receiver-unchanged"
		if w == nil {
			rc.OK(key, fd.Pos(), "does not assign to a field of its receiver")
		} else {
			rc.Bad(key, w.Pos(), "the Code tree is kept in the cached OpcodeSet and reused for every query; %s writes %s, so building one program changes what the next one is built from", fd.Name.Name, core.Src(p.Fset, w))
		}
	}
	if n < 20 {
		rc.Unknown("encoder/code-methods", token.NoPos, "found %d ToOpcode/Filter/Kind methods", n)
	}
	// value flow: no store through a pointer that was loaded out of the receiver's tree
	// (for example an element of c.fields taken in a range loop and then modified)
	for _, fn := range p.ModuleFuncs() {
		if fn.Pkg == nil || fn.Pkg.Pkg.Path() != core.PkgPaths["encoder"] || fn.Signature.Recv() == nil || len(fn.Params) == 0 {
			continue
		}
		switch fn.Name() {
		case "ToOpcode", "ToAnonymousOpcode", "Filter", "Kind":
		default:
			continue
		}
		recv := fn.Params[0]
		var fromRecv func(v ssa.Value, depth int, seen map[ssa.Value]bool) bool
		fromRecv = func(v ssa.Value, depth int, seen map[ssa.Value]bool) bool {
			if v == nil || depth > 12 || seen[v] {
				return false
			}
			seen[v] = true
			switch x := v.(type) {
			case *ssa.Parameter:
				return x == recv
			case *ssa.FieldAddr:
				return fromRecv(x.X, depth+1, seen)
			case *ssa.Field:
				return fromRecv(x.X, depth+1, seen)
			case *ssa.IndexAddr:
				return fromRecv(x.X, depth+1, seen)
			case *ssa.Index:
				return fromRecv(x.X, depth+1, seen)
			case *ssa.Lookup:
				return fromRecv(x.X, depth+1, seen)
			case *ssa.Slice:
				return fromRecv(x.X, depth+1, seen)
			case *ssa.ChangeType:
				return fromRecv(x.X, depth+1, seen)
			case *ssa.Convert:
				return fromRecv(x.X, depth+1, seen)
			case *ssa.TypeAssert:
				return fromRecv(x.X, depth+1, seen)
			case *ssa.MakeInterface:
				return fromRecv(x.X, depth+1, seen)
			case *ssa.Extract:
				return fromRecv(x.Tuple, depth+1, seen)
			case *ssa.Next:
				return fromRecv(x.Iter, depth+1, seen)
			case *ssa.Range:
				return fromRecv(x.X, depth+1, seen)
			case *ssa.Phi:
				for _, e := range x.Edges {
					if fromRecv(e, depth+1, seen) {
						return true
					}
				}
			case *ssa.UnOp:
				if x.Op != token.MUL {
					return false
				}
				if al, ok := x.X.(*ssa.Alloc); ok {
					// a local kept in memory: what was stored into it
					for _, ref := range *al.Referrers() {
						if st, ok := ref.(*ssa.Store); ok && st.Addr == al && fromRecv(st.Val, depth+1, seen) {
							return true
						}
					}
					return false
				}
				return fromRecv(x.X, depth+1, seen)
			}
			return false
		}
		k := 0
		for _, b := range fn.Blocks {
			for _, ins := range b.Instrs {
				st, ok := ins.(*ssa.Store)
				if !ok {
					continue
				}
				var base ssa.Value
				what := ""
				switch a := st.Addr.(type) {
				case *ssa.FieldAddr:
					base = a.X
					if stt, ok := a.X.Type().Underlying().(*types.Pointer); ok {
						if sv, ok := stt.Elem().Underlying().(*types.Struct); ok {
							what = "field " + sv.Field(a.Field).Name()
						}
					}
				case *ssa.IndexAddr:
					base, what = a.X, "element"
				default:
					continue
				}
				if !fromRecv(base, 0, map[ssa.Value]bool{}) {
					continue
				}
				k++
				rc.Bad(fmt.Sprintf("%s/tree-store#%d %s", core.SSAName(fn), k, what), st.Pos(), "%s stores into %s of an object it reached through its receiver: the receiver's tree is the cached, unfiltered program every later query is built from, so one call changes the next one's result", fn.Name(), what)
			}
		}
		if k == 0 {
			rc.OK(core.SSAName(fn)+"/tree-stores", fn.Pos(), "no store through a pointer loaded out of the receiver's tree")
		}
	}
}

// ---- C11.R5 results never alias package-level slices ----

func c11r5(rc *core.RC) {
	p := rc.P
	of := core.NewOriginFinder(p)
	of.MaxUp = 0
	n := 0
	for _, fn := range p.ModuleFuncs() {
		if fn.Pkg == nil || fn.Pkg.Pkg.Path() != core.PkgPaths["decoder"] || fn.Name() != "DecodePath" {
			continue
		}
		rc.Touch(core.SSAName(fn))
		for _, b := range fn.Blocks {
			for _, ins := range b.Instrs {
				r, ok := ins.(*ssa.Return)
				if !ok || len(r.Results) == 0 {
					continue
				}
				n++
				// elements stored into the returned [][]byte literal
				var bad []string
				var scan func(v ssa.Value, depth int)
				seen := map[ssa.Value]bool{}
				scan = func(v ssa.Value, depth int) {
					if v == nil || seen[v] || depth > 6 {
						return
					}
					seen[v] = true
					switch x := v.(type) {
					case *ssa.Slice:
						scan(x.X, depth+1)
					case *ssa.Alloc:
						for _, ref := range *x.Referrers() {
							if ia, ok := ref.(*ssa.IndexAddr); ok {
								for _, rr := range *ia.Referrers() {
									if st, ok := rr.(*ssa.Store); ok {
										for _, o := range of.Origins(st.Val) {
											if o.Kind == "global" {
												bad = append(bad, o.Name)
											}
										}
									}
								}
							}
						}
					case *ssa.Phi:
						for _, e := range x.Edges {
							scan(e, depth+1)
						}
					}
				}
				scan(r.Results[0], 0)
				key := core.SSAName(fn) + "/returned-slices"
				if len(bad) == 0 {
					rc.OK(key, core.SSAPos(r), "no element of the returned [][]byte is a package-level slice")
				} else {
					rc.Bad(key, core.SSAPos(r), "the result contains the package-level slice %s: a caller that modifies its own result changes what every later call returns", strings.Join(bad, ", "))
				}
			}
		}
	}
	if n < 10 {
		rc.Unknown("decoder/DecodePath-returns", token.NoPos, "found %d return sites of DecodePath methods", n)
	}
}

// ---- C11.R6 memory a cached decoder owns is never a destination ----

// A compiled decoder is cached per type and shared by every later call. The memory it points to through its own
// fields (arrayDecoder.zeroValue: the template zero element copied into the slots a short document leaves out) must
// stay what it was made as. It may be the *source* of typedmemmove; it is never the destination of a nested
// Decode / DecodeStream, of typedmemmove, or of a store: one surplus element decoded "into a spare element" would
// make every later short array start from that element's value.
func c11r6(rc *core.RC) {
	p := rc.P
	of := core.NewOriginFinder(p)
	n := 0
	ownedBy := func(os []core.Origin) string {
		for _, o := range os {
			if o.Kind == "field" {
				if i := strings.Index(o.Name, "."); i > 0 && strings.HasSuffix(o.Name[:i], "Decoder") {
					return o.Name
				}
			}
		}
		return ""
	}
	for _, fn := range p.ModuleFuncs() {
		if fn.Pkg == nil || fn.Pkg.Pkg.Path() != core.PkgPaths["decoder"] {
			continue
		}
		k := 0
		for _, b := range fn.Blocks {
			for _, ins := range b.Instrs {
				var dst ssa.Value
				what := ""
				switch x := ins.(type) {
				case *ssa.Call:
					cc := x.Common()
					if cc.IsInvoke() && (cc.Method.Name() == "Decode" || cc.Method.Name() == "DecodeStream") && len(cc.Args) >= 3 {
						dst, what = cc.Args[len(cc.Args)-1], "the destination of a nested "+cc.Method.Name()
					} else if callee := cc.StaticCallee(); callee != nil && callee.Name() == "typedmemmove" && len(cc.Args) == 3 {
						dst, what = cc.Args[1], "the destination of typedmemmove"
					}
				case *ssa.Store:
					if _, isAlloc := x.Addr.(*ssa.Alloc); !isAlloc {
						if _, isField := x.Addr.(*ssa.FieldAddr); !isField {
							dst, what = x.Addr, "the address of a store"
						}
					}
				}
				if dst == nil {
					continue
				}
				if t := dst.Type(); t.String() != "unsafe.Pointer" {
					if _, isPtr := t.Underlying().(*types.Pointer); !isPtr {
						continue
					}
				}
				k++
				n++
				owner := ownedBy(of.Origins(dst))
				if owner == "" {
					continue // obligations are recorded for the sites that involve decoder-owned memory only, the count is the floor
				}
				rc.Touch(core.SSAName(fn))
				key := fmt.Sprintf("%s/%s never-a-destination", core.SSAName(fn), owner)
				rc.Bad(key, core.SSAPos(ins), "%s can be the memory the cached decoder keeps in %s: the decoder is shared by every later call of the type, so what is written there shows up in later results (a short array is filled from it)", what, owner)
			}
		}
	}
	rc.OK("decoder/decoder-owned-memory never-a-destination", token.NoPos, "%d destinations (nested decodes, typedmemmove, stores through pointers) examined: none derives from a field of a cached decoder", n)
	if n < 100 {
		rc.Unknown("decoder/destinations", token.NoPos, "found only %d destination sites in the decoder package", n)
	}
}

// ---- C11.R7 Init resets the per-run state of a pooled encoder context unconditionally ----

// A pooled RuntimeContext comes back from whatever the last call left in it. KeepRefs, SeenPtr and BaseIndent are
// per-run state; a run that ends with an error inside a recursive or interface frame leaves its entries on the
// SeenPtr stack. Init therefore empties each of them on every call, as a plain statement of its body: a reset that
// is skipped "because the stack is empty anyway when a program has run" lets the cycle check of a later deep value
// find the addresses of an earlier, failed one.
func c11r7(rc *core.RC) {
	p := rc.P
	fd := p.Func("encoder", "RuntimeContext.Init")
	if fd == nil || fd.Body == nil {
		rc.Unknown("encoder.RuntimeContext.Init", token.NoPos, "function not found")
		return
	}
	info := p.Info(fd)
	fn := p.FuncName(fd)
	rc.Touch(fn)
	for _, field := range []string{"KeepRefs", "SeenPtr", "BaseIndent"} {
		key := fn + "/" + field + " reset-unconditionally"
		found := false
		for _, st := range fd.Body.List {
			as, ok := st.(*ast.AssignStmt)
			if !ok || len(as.Lhs) != 1 || len(as.Rhs) != 1 || as.Tok != token.ASSIGN {
				continue
			}
			f := core.FieldOf(info, as.Lhs[0])
			if f == nil || f.Name() != field {
				continue
			}
			r := core.Unparen(as.Rhs[0])
			switch v := r.(type) {
			case *ast.SliceExpr:
				if hv, isC := core.ConstInt(info, v.High); isC && hv == 0 && v.Low == nil {
					found = true
				}
			case *ast.Ident:
				if v.Name == "nil" {
					found = true
				}
			case *ast.BasicLit:
				if c, isC := core.ConstInt(info, v); isC && c == 0 {
					found = true
				}
			}
		}
		rc.Check(found, key, fd.Pos(), "Init empties %s with a statement of its own body (x[:0], nil or 0), whatever the context brings along from its last run", field)
	}
}

// ---- C11.R8 the map scratch buffer and the output buffer never trade arrays ----

// A sorted map is written twice: its members go to the output buffer b in iteration order, and at OpMapEnd they are
// copied in key order into the scratch buffer of the pooled MapContext and from there back over the unsorted text.
// The two buffers belong to two pooled objects: b ends up in RuntimeContext.Buf, the scratch buffer goes back to the
// map-context pool. The copy back (b = append(b[:first], buf...)) keeps them apart. Handing the arrays over instead
// (mapCtx.Buf, b = b[:0], buf) is the same text with one copy less, and it holds as long as the call succeeds; a call
// that fails after the map leaves RuntimeContext.Buf pointing at the array that now also sits in the map-context pool,
// and the next sorted map sorts into the text it is still reading. Obligations in every interpreter: no value
// assigned to MapContext.Buf derives from the output buffer (Run's []byte parameter), and no value assigned to the
// output buffer derives from MapContext.Buf, other than as the copied operand of an append.
func c11r8(rc *core.RC) {
	p := rc.P
	n := 0
	for _, vm := range core.VMPkgs {
		fd := p.Func(vm, "Run")
		if fd == nil || fd.Body == nil {
			rc.Unknown(vm+".Run", token.NoPos, "interpreter not found")
			continue
		}
		info := p.Info(fd)
		rc.Touch(vm + ".Run")
		var out types.Object
		for _, f := range fd.Type.Params.List {
			if t := info.TypeOf(f.Type); t != nil && t.String() == "[]byte" && len(f.Names) > 0 {
				out = info.Defs[f.Names[0]]
			}
		}
		if out == nil {
			rc.Unknown(vm+".Run/output-buffer", fd.Pos(), "no []byte parameter found")
			continue
		}
		isMapBuf := func(e ast.Expr) bool {
			f := core.FieldOf(info, e)
			if f == nil || f.Name() != "Buf" {
				return false
			}
			sel, ok := core.Unparen(e).(*ast.SelectorExpr)
			return ok && strings.HasSuffix(strings.TrimPrefix(info.TypeOf(sel.X).String(), "*"), "encoder.MapContext")
		}
		// every assignment to a local, by object
		defs := map[types.Object][]ast.Expr{}
		ast.Inspect(fd.Body, func(m ast.Node) bool {
			as, ok := m.(*ast.AssignStmt)
			if !ok || len(as.Lhs) != len(as.Rhs) {
				return true
			}
			for i, l := range as.Lhs {
				if id, ok := core.Unparen(l).(*ast.Ident); ok {
					if o := core.ObjOf(info, id); o != nil {
						defs[o] = append(defs[o], as.Rhs[i])
					}
				}
			}
			return true
		})
		// the arrays a []byte expression may share: the output buffer, the map scratch buffer
		var roots func(e ast.Expr, seen map[types.Object]bool) (fromOut, fromMap bool)
		roots = func(e ast.Expr, seen map[types.Object]bool) (bool, bool) {
			e = core.Unparen(e)
			switch x := e.(type) {
			case *ast.Ident:
				o := core.ObjOf(info, x)
				if o == out {
					return true, false
				}
				if o == nil || seen[o] {
					return false, false
				}
				seen[o] = true
				a, b := false, false
				for _, d := range defs[o] {
					a2, b2 := roots(d, seen)
					a, b = a || a2, b || b2
				}
				return a, b
			case *ast.SelectorExpr:
				return false, isMapBuf(x)
			case *ast.SliceExpr:
				return roots(x.X, seen)
			case *ast.CallExpr:
				if core.IsBuiltin(info, x, "append") && len(x.Args) > 0 {
					return roots(x.Args[0], seen)
				}
				if tv, ok := info.Types[x.Fun]; ok && tv.IsType() && len(x.Args) == 1 {
					return roots(x.Args[0], seen)
				}
				a, b := false, false
				if t := info.TypeOf(x); t != nil && t.String() == "[]byte" {
					for _, arg := range x.Args {
						if at := info.TypeOf(arg); at != nil && at.String() == "[]byte" {
							a2, b2 := roots(arg, seen)
							a, b = a || a2, b || b2
						}
					}
				}
				return a, b
			}
			return false, false
		}
		k := 0
		ast.Inspect(fd.Body, func(m ast.Node) bool {
			as, ok := m.(*ast.AssignStmt)
			if !ok || len(as.Lhs) != len(as.Rhs) {
				return true
			}
			for i, l := range as.Lhs {
				switch {
				case isMapBuf(l):
					k++
					n++
					fromOut, _ := roots(as.Rhs[i], map[types.Object]bool{})
					rc.Check(!fromOut, fmt.Sprintf("%s.Run/map-scratch-assign#%d not-the-output-array", vm, k), as.Pos(), "%s = %s: the scratch buffer of the pooled MapContext must not be (a part of) the output buffer's array; a call that fails afterwards leaves RuntimeContext.Buf on the same array, and two pooled objects share it from then on", core.Src(p.Fset, l), core.Src(p.Fset, as.Rhs[i]))
				case core.ObjOf(info, l) == out:
					_, fromMap := roots(as.Rhs[i], map[types.Object]bool{out: true})
					if fromMap {
						k++
						n++
						rc.Bad(fmt.Sprintf("%s.Run/output-assign#%d not-the-map-scratch-array", vm, k), as.Pos(), "%s = %s: the output buffer takes over the array of the pooled MapContext's scratch buffer (only a copy, append(b, buf...), keeps the two pooled objects apart)", core.Src(p.Fset, l), core.Src(p.Fset, as.Rhs[i]))
					}
				}
			}
			return true
		})
	}
	if n < 4 {
		rc.Unknown("vm/map-scratch-assignments", token.NoPos, "found %d assignments to MapContext.Buf in the interpreters (confirmed: 4)", n)
	}
}

// ---- C11.R9 option functions are applied to a fresh option word, and are applied at all ----

// The decode entry points take option functions (DecodeFieldPriorityFirstWin, …) and apply them to an Option that
// lives longer than the call: the one of a pooled RuntimeContext, or the one of a Decoder's Stream. Two obligations.
// Every loop that applies the caller's option functions to such an Option is preceded, in the same function, by the
// assignment of the zero Option to it (`*X = decoder.Option{}`): otherwise an option given to one call is in force
// for every later call on the same Decoder (DecodeWithOption(FirstWin), then a plain Decode that keeps the first of
// two members). And every function of package json with a variadic parameter of option functions uses it, in such a
// loop or by handing it on (f(…, optFuncs...)): UnmarshalContext took options and dropped them.
func c11r9(rc *core.RC) {
	p := rc.P
	jp := p.Pkg("json")
	if jp == nil {
		rc.Unknown("json", token.NoPos, "package not found")
		return
	}
	info := jp.TypesInfo
	nLoops, nParams := 0, 0
	for _, fd := range p.Funcs("json") {
		if fd.Body == nil {
			continue
		}
		name := p.FuncName(fd)
		// the variadic parameter of decode option functions
		var opts types.Object
		if fd.Type.Params != nil {
			for _, f := range fd.Type.Params.List {
				if _, isVar := f.Type.(*ast.Ellipsis); !isVar || len(f.Names) != 1 {
					continue
				}
				o := info.Defs[f.Names[0]]
				if o == nil {
					continue
				}
				if sl, ok := o.Type().Underlying().(*types.Slice); ok && strings.HasSuffix(sl.Elem().String(), "DecodeOptionFunc") {
					opts = o
				}
			}
		}
		if opts == nil {
			continue
		}
		nParams++
		rc.Touch(name)
		used := false
		ast.Inspect(fd.Body, func(m ast.Node) bool {
			if id, ok := m.(*ast.Ident); ok && core.ObjOf(info, id) == opts {
				used = true
			}
			return true
		})
		rc.Check(used, name+"/option-functions-used", fd.Pos(), "%s takes option functions and neither applies them nor hands them on: the options of the caller have no effect (UnmarshalContext with DecodeFieldPriorityFirstWin decoded like a call without it)", name)
		// loops that apply them
		k := 0
		ast.Inspect(fd.Body, func(m ast.Node) bool {
			rs, ok := m.(*ast.RangeStmt)
			if !ok || core.ObjOf(info, rs.X) != opts || rs.Value == nil {
				return true
			}
			fobj := core.ObjOf(info, rs.Value)
			var target ast.Expr
			ast.Inspect(rs.Body, func(x ast.Node) bool {
				if c, ok := x.(*ast.CallExpr); ok && len(c.Args) == 1 && core.ObjOf(info, c.Fun) == fobj {
					target = c.Args[0]
				}
				return true
			})
			if target == nil {
				return true
			}
			k++
			nLoops++
			tgt := types.ExprString(core.Unparen(target))
			reset := false
			ast.Inspect(fd.Body, func(x ast.Node) bool {
				as, ok := x.(*ast.AssignStmt)
				if !ok || as.Pos() > rs.Pos() || len(as.Lhs) != 1 || len(as.Rhs) != 1 {
					return true
				}
				st, ok := core.Unparen(as.Lhs[0]).(*ast.StarExpr)
				if !ok || types.ExprString(core.Unparen(st.X)) != tgt {
					return true
				}
				if cl, ok := core.Unparen(as.Rhs[0]).(*ast.CompositeLit); ok && len(cl.Elts) == 0 {
					reset = true
				}
				return true
			})
			rc.Check(reset, fmt.Sprintf("%s/option-loop#%d on-a-fresh-option-word", name, k), rs.Pos(), "the caller's option functions are applied to %s, which outlives the call, without `*%s = decoder.Option{}` in front: an option given to an earlier call (on the same Decoder, or left in a pooled context) stays in force", tgt, tgt)
			return true
		})
	}
	if nLoops < 4 || nParams < 6 {
		rc.Unknown("json/option-functions", token.NoPos, "found %d loops that apply option functions and %d functions that take them (confirmed: 5 and 8)", nLoops, nParams)
	}
}

// ---- C11.R10 the caller's option list is read, never written ----

// A variadic parameter `optFuncs ...EncodeOptionFunc` (or DecodeOptionFunc) is the caller's own slice when the call is
// written f(v, opts[:n]...): an append to it with spare capacity stores into the caller's array behind the part that
// was passed, and an element assignment changes the caller's list. What is stored there stays for the caller's next
// call with the longer list (a closure over this call's context, for instance). Obligation, for every function of
// the top-level package with a parameter that is a slice of option functions: the parameter is never the first
// argument of append and no element of it is assigned.
func c11r10(rc *core.RC) {
	p := rc.P
	pk := p.Pkg("json")
	if pk == nil {
		rc.Unknown("json/package", token.NoPos, "package json not loaded")
		return
	}
	isOptSlice := func(t types.Type) bool {
		sl, ok := t.Underlying().(*types.Slice)
		if !ok {
			return false
		}
		s := sl.Elem().String()
		return strings.HasSuffix(s, "EncodeOptionFunc") || strings.HasSuffix(s, "DecodeOptionFunc") || strings.HasSuffix(s, "encoder.Option)") || strings.HasSuffix(s, "decoder.Option)")
	}
	n := 0
	for _, fd := range p.Funcs("json") {
		if fd.Body == nil || fd.Type.Params == nil {
			continue
		}
		info := p.Info(fd)
		var params []types.Object
		for _, fl := range fd.Type.Params.List {
			for _, nm := range fl.Names {
				if o := info.Defs[nm]; o != nil && isOptSlice(o.Type()) {
					params = append(params, o)
				}
			}
		}
		for _, prm := range params {
			n++
			rc.Touch(p.FuncName(fd))
			key := fmt.Sprintf("%s/%s caller's-option-list-not-written", p.FuncName(fd), prm.Name())
			var bad ast.Node
			what := ""
			ast.Inspect(fd.Body, func(m ast.Node) bool {
				switch x := m.(type) {
				case *ast.CallExpr:
					if core.IsBuiltin(info, x, "append") && len(x.Args) > 0 {
						a := core.Unparen(x.Args[0])
						if se, isSl := a.(*ast.SliceExpr); isSl {
							// append(p[:k], …) with a full slice expression p[:k:k] copies; without, it writes as well
							if se.Max == nil {
								a = core.Unparen(se.X)
							}
						}
						if core.ObjOf(info, a) == prm && bad == nil {
							bad, what = x, "append("+prm.Name()+", …) stores into the caller's array when the caller passed a shorter view of a longer list"
						}
					}
				case *ast.AssignStmt:
					for _, l := range x.Lhs {
						if ix, isIx := core.Unparen(l).(*ast.IndexExpr); isIx && core.ObjOf(info, ix.X) == prm && bad == nil {
							bad, what = x, "an element of "+prm.Name()+" is assigned: the list is the caller's"
						}
					}
				}
				return true
			})
			if bad != nil {
				rc.Bad(key, bad.Pos(), "%s: the caller's next call with that list runs what this call left there (its context, its options)", what)
			} else {
				rc.OK(key, fd.Pos(), "%s is only ranged over, indexed for reading or handed on", prm.Name())
			}
		}
	}
	if n < 10 {
		rc.Unknown("json/option-list-parameters", token.NoPos, "found %d parameters that are lists of option functions, fewer than the 10 confirmed by hand", n)
	}
}

// ---- C11.R11 the process-wide decoder cache is consulted for whole values only ----

// A decoder carries the position it was compiled for: the names of the struct and the member it decodes go into the
// errors it returns (UnmarshalTypeError.Struct / .Field). CompileToGetDecoder caches the decoder of a type as a
// whole value, compiled with empty names. If the compilation of a member took that cached decoder, the error a call
// returns for the member would depend on whether the member's type had been decoded on its own before. Obligation:
// the cache (the slice cachedDecoder and the map behind loadDecoderMap) is read only in CompileToGetDecoder,
// compileToGetDecoderSlowPath, storeDecoder and init; no function that compile() can reach reads it.
func c11r11(rc *core.RC) {
	p := rc.P
	pk := p.Pkg("decoder")
	if pk == nil {
		return
	}
	allowed := map[string]bool{"CompileToGetDecoder": true, "compileToGetDecoderSlowPath": true, "storeDecoder": true, "loadDecoderMap": true, "init": true, "initDecoder": true}
	cache := pk.Types.Scope().Lookup("cachedDecoder")
	n := 0
	for _, fd := range p.Funcs("decoder") {
		if fd.Body == nil {
			continue
		}
		info := p.Info(fd)
		k := 0
		ast.Inspect(fd.Body, func(m ast.Node) bool {
			what := ""
			switch x := m.(type) {
			case *ast.Ident:
				if cache != nil && info.Uses[x] == cache {
					what = "cachedDecoder"
				}
			case *ast.CallExpr:
				if core.CalleeName(info, x) == "decoder.loadDecoderMap" {
					what = "loadDecoderMap()"
				}
			}
			if what == "" {
				return true
			}
			n++
			k++
			rc.Touch(p.FuncName(fd))
			key := fmt.Sprintf("%s/%s#%d whole-values-only", p.FuncName(fd), what, k)
			if allowed[fd.Name.Name] && fd.Recv == nil {
				rc.OK(key, m.Pos(), "read where the decoder of a whole value is looked up or published")
			} else {
				rc.Bad(key, m.Pos(), "%s reads the process-wide decoder cache (%s): a decoder found there was compiled for a whole value, with empty struct and member names; used for a member it makes the error of a call depend on which types were decoded on their own before", p.FuncName(fd), what)
			}
			return true
		})
	}
	if n < 4 {
		rc.Unknown("decoder/cache-reads", token.NoPos, "found %d accesses of the decoder cache, fewer than the 4 confirmed by hand", n)
	}
}
