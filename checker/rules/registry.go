// Package rules holds one rule set per property; see /verif/DESIGN.md §2.
package rules

import "verif/checker/core"

func init() {
	core.Register(&core.Property{
		ID:         "C04",
		Decided:    "Decides that the writer's and the reader's constant tables agree (escape letters, digit pairs, powers of ten, hex digits, base64 codec); it does not decide that Unmarshal(Marshal(v)) equals v.",
		NotCovered: "float shortest-representation/parse inversion, nil-versus-empty, every value-level part of the round trip.",
		Rules: []*core.Rule{
			{ID: "C04.R1", Title: "every escape the four string appenders can emit is accepted, and decoded to the originating byte, by every escape-letter dispatch of the decoder and by unescapeMap", Covers: "strings survive Marshal→Unmarshal", Min: 30, Run: c04r1},
			{ID: "C04.R2", Title: "intLELookup/intBELookup hold the two digits of their index, pow10i64/pow10u64 hold 10^i, hexToInt inverts hex", Covers: "integers and \\u escapes survive the round trip", Min: 250, Run: c04r2},
			{ID: "C04.R3", Title: "every base64 call in encoder and decoder uses the same Encoding object", Covers: "[]byte survives the round trip", Min: 2, Run: c04r3},
		},
	})
	core.Register(&core.Property{
		ID:         "C17",
		Decided:    "Decides that the encoder's escape table, 8-byte scan mask and slow-path switch agree with each other per variant, that the UTF-8 lead-byte table matches the definition, and that all decoder escape readers accept the same letters and test \\u digits; it does not decide the emitted or decoded string for any input.",
		NotCovered: "position-dependent behaviour of the 8-byte scan, surrogate-pair arithmetic, equality with encoding/json's decoded string.",
		Rules: []*core.Rule{
			{ID: "C17.R1", Title: "per appender: needEscape* table marks exactly the bytes its variant must escape, the SWAR mask has one term per marked ASCII class plus the high-bit term, every marked ASCII byte has an escaping case", Covers: "no raw control/quote/backslash (and <,>,& under HTML escaping) in output", Min: 1100, Run: c17r1},
			{ID: "C17.R3", Title: "decode_rune.go `first` equals the UTF-8 lead-byte classification", Covers: "invalid UTF-8 is recognised (replaced by U+FFFD)", Min: 256, Run: c17r3},
		},
	})
}
