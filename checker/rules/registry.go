// Package rules holds one rule set per property; see /verif/DESIGN.md §2.
package rules

import "verif/checker/core"

func init() {
	core.Register(&core.Property{
		ID:         "C01",
		Decided:    "Decides that the opcode machinery the encoder compiler relies on is closed and complete: the opcode table layout matches the index arithmetic of the conversion functions, every opcode the compiler can derive has a handler in all four interpreters, every JSON-encodable reflect.Kind is routed to a code constructor, and program copies carry every field; it does not decide the bytes Marshal produces.",
		NotCovered: "member order, number formatting, tag semantics, embedded-field conflict resolution, the meaning of any opcode handler, equality with encoding/json's output.",
		Rules: []*core.Rule{
			{ID: "C01.R1", Title: "opTypeStrings lists, for every stem, Head/HeadOmitEmpty/PtrHead/PtrHeadOmitEmpty and Field/FieldOmitEmpty/End/EndOmitEmpty at exactly the offsets the OpType conversion functions add, and every Op constant indexes its own name", Covers: "omitempty / pointer-head / struct-end variants select the intended opcode", Min: 600, Run: c01r1},
			{ID: "C01.R2", Title: "closure of the opcodes the compiler emits under the conversion functions is contained in the case labels of Run in each of the four VMs (slice/array end markers exempt when never made current)", Covers: "Marshal succeeds whenever encoding/json does (no 'opcode not implemented')", Min: 1300, Run: c01r2},
			{ID: "C01.R3", Title: "typeToCode/typeToCodeWithPtr/mapKeyCode route every JSON-encodable reflect.Kind to a constructor and no unsupported kind", Covers: "set of supported types equals encoding/json's", Min: 50, Run: c01r3},
			{ID: "C01.R6", Title: "typeToCode (root) and typeToCodeWithPtr (nested positions) have statement-for-statement the same clause for every kind both route, the isPtr argument aside", Covers: "the same value encodes the same at the root, through a pointer and inside a struct, slice or map", Min: 15, Run: c01r6},
			{ID: "C01.R7", Title: "the key Mapslice.Less compares is not a slice of the encoded output (encoding/json orders map members by key string, not by encoded text)", Covers: "the same members in the same order", Min: 4, Run: c01r7},
			{ID: "C01.R8", Title: "both composite kinds that can be stored directly in an interface word (Struct, Array) have constructors that consult runtime.IfaceIndir", Covers: "values reached directly, through a pointer and through interface{} encode alike (no crash, same output)", Min: 2, Run: c01r8},
			{ID: "C01.R5", Title: "in each interpreter the handler of an opcode of family Int/Uint/Float32/Float64/Bool/String/Bytes/Number/MarshalJSON/MarshalText calls exactly that family's append primitive and ptrTo loader, and the plain packages' appendX variables alias encoder.AppendX", Covers: "every value is printed by the primitive of its own type (same number values, same string contents)", Min: 900, Run: c01r5},
			{ID: "C08.R10", Title: "marshaler head handlers take the null exit for a nil struct address (shared with C08)", Covers: "Marshal succeeds whenever encoding/json does (nil *struct{M T} is null, not a panic)", Min: 16, Run: c08r10},
			{ID: "C08.R11", Title: "marshaler pointer heads honour the pointer depth (shared with C08)", Covers: "values reached through pointers up to depth 3 encode like encoding/json", Min: 16, Run: c08r11},
			{ID: "C19.R6", Title: "first-field and other-field opcode merging agree (bit size, pointer depth, context flag, sub-query) (shared with C19)", Covers: "a field encodes the same whether it is the first of its struct or not", Min: 2, Run: c19r6},
			{ID: "C17.R6", Title: "encoder.decodeRuneInString accepts exactly the well-formed (lead byte, second byte) pairs of UTF-8: the lead-byte table `first` and the accept-range switch are folded for all 256 × 256 pairs and compared with Unicode Table 3-7", Covers: "the same string contents as encoding/json for strings that are not valid UTF-8", Min: 256, Run: c17r6},
			{ID: "C01.R9", Title: "mapKeyCode compiles a pointer key only under a TextMarshaler test, separates json.Number from the unquoted value path of strings, and uses the quoting constructors for every integer kind", Covers: "map keys are written as JSON strings for exactly the key types encoding/json supports", Min: 13, Run: c01r9},
			{ID: "C01.R4", Title: "copyOpcode and every Filter method that rebuilds its receiver carry over each field that is assigned anywhere else in the package, field-for-field", Covers: "cached/filtered programs behave like the freshly compiled one", Min: 20, Run: c01r4},
		},
	})
	core.Register(&core.Property{
		ID:         "C02",
		Decided:    "Decides that the decoder compiler routes every JSON-decodable kind (and no other), that decoders for pointer, map, slice, interface and func destinations store a nil value on null in both modes, that UseNumber and DisallowUnknownFields are consulted where numbers reach interface{} and where unknown keys are skipped, that integer range and width rules hold (C16), that raw stores match the destination's kind (C07.R1), and that the UnmarshalJSON dispatch follows the destination's type (C06.R6); it does not decide agreement with encoding/json for any document.",
		NotCovered: "merge semantics, duplicate keys, float parsing, error identity, nil-versus-empty, embedded-field resolution: every value-level agreement with encoding/json.",
		Rules: []*core.Rule{
			{ID: "C02.R1", Title: "decoder.compile has a clause returning a compile function for every kind encoding/json decodes, none for Complex/Chan/UnsafePointer, and falls through to newInvalidDecoder", Covers: "error exactly when encoding/json errors on the destination type", Min: 25, Run: c02r1},
			{ID: "C02.R2", Title: "for every decoder type constructed only for nilable kinds (derived from compile), the null path of Decode and DecodeStream (in the method or the helper that receives p) stores through the destination pointer", Covers: "null handling agrees with encoding/json for pointers, maps, slices, interfaces", Min: 8, Run: c02r2},
			{ID: "C04.R4", Title: "only the nil token (null) skips the store; an empty token is stored (shared with C04)", Covers: "nil versus empty agrees with encoding/json", Min: 6, Run: c04r4},
			{ID: "C02.R3", Title: "numDecoder and Token choose the number representation by s.UseNumber, the empty-interface stream decoder decodes numbers only through numDecoder, and the unknown-key branch of structDecoder.DecodeStream tests s.DisallowUnknownFields before skipValue", Covers: "UseNumber and DisallowUnknownFields keep the agreement", Min: 4, Run: c02r3},
			{ID: "C02.R4", Title: "in every decoder function that works in an array taken from a sync.Pool, each element slot handed to the element decoder is cleared under a guard equivalent to `callerLen <= idx` (so every slot the caller's elements do not cover is zero, whatever an earlier call left in the array)", Covers: "the result into a zero or shorter destination does not depend on earlier calls (reused pointers and slices)", Min: 2, Run: c02r4},
			{ID: "C05.R2", Title: "number tokens are checked against the JSON number grammar before they are converted (shared with C05)", Covers: "Unmarshal returns an error exactly when encoding/json does (01, 1., -.5 are syntax errors)", Min: 8, Run: c05r2},
			{ID: "C16.R2", Title: "integer range tests per destination kind (shared with C16)", Covers: "numeric range errors agree", Configs: []string{"default"}, Deep: []string{"386"}, Min: 20, Run: c16r2},
			{ID: "C16.R1", Title: "integer accumulation cannot overflow silently (shared with C16)", Covers: "numeric range errors agree", Min: 2, Run: c16r1},
			{ID: "C07.R1", Title: "raw stores match the destination's kind (shared with C07)", Covers: "null and scalars leave a well-formed destination", Min: 12, Run: c07r1},
			{ID: "C06.R6", Title: "UnmarshalJSON dispatch follows the destination's type (shared with C06)", Covers: "Unmarshal and UnmarshalContext succeed or fail together with encoding/json on unmarshaler types", Min: 2, Run: c06r6},
			{ID: "C15.R5", Title: "the bitmap key matchers fold case through largeToSmallTable, which maps exactly A-Z to a-z (all 256 entries evaluated) (shared with C15)", Covers: "object keys select the field encoding/json selects, case-insensitively", Min: 10, Run: c15r5},
			{ID: "C17.R5", Title: "every hand-written combination of a high and a low surrogate in the decoder (an expression over 0xd800, 0xdc00 and two rune variables) equals 0x10000 + (hi-0xD800)<<10 + (lo-0xDC00), folded for all 1024 high × 6 low and 8 high × 1024 low surrogates", Covers: "escaped strings decode to the value encoding/json yields", Min: 1, Run: c17r5},
			{ID: "C15.R2", Title: "an escaped key matches only a field of the same decoded length (shared with C15)", Covers: "object keys select the field encoding/json selects", Min: 4, Run: c15r2},
		},
	})
	core.Register(&core.Property{
		ID:         "C03",
		Decided:    "Decides that every float append in the four interpreters is dominated by a NaN/Inf test with an error exit, that user marshaler output reaches the buffer only through the validating formatters, and that the trailing-separator convention is consistent (every emitter ends with the package's separator, every closer consumes exactly that many bytes, the entry points trim exactly that many); it does not decide well-formedness of the output.",
		NotCovered: "number grammar of json.Number, full validity of marshaler output (compactString lets control bytes through), UTF-8 validity, the token order inside each opcode handler.",
		Rules: []*core.Rule{
			{ID: "C03.R1", Title: "every appendFloat32/appendFloat64 call in Run of each VM is dominated by `math.IsInf(v,0) || math.IsNaN(v)` on the same variable whose true branch returns an error", Covers: "NaN and infinities of either width produce an error, never output", Min: 190, Run: c03r1},
			{ID: "C03.R2", Title: "in AppendMarshalJSON[Indent]/AppendMarshalText[Indent] no value derived from the user's MarshalJSON/MarshalText result reaches the returned buffer except through compact/doIndent/AppendString", Covers: "ill-formed marshaler output gives an error, never output", Min: 8, Run: c03r2},
			{ID: "C03.R3", Title: "per VM package: emitters end with appendComma's bytes, closers consume exactly len(appendComma) bytes of the tail, and package json trims exactly that many after encode/encodeIndent", Covers: "no dangling comma / unbalanced bracket from the trailing-separator protocol", Min: 60, Run: c03r3},
			{ID: "C05.R6", Title: "json.Number values and numbers in marshaler output are checked against the JSON number grammar before they are written (shared with C05)", Covers: "no ill-formed number in the output; an ill-formed json.Number is an error", Min: 3, Run: c05r6},
			{ID: "C17.R6", Title: "encoder.decodeRuneInString accepts exactly the well-formed (lead byte, second byte) pairs of UTF-8: the lead-byte table `first` and the accept-range switch are folded for all 256 × 256 pairs and compared with Unicode Table 3-7", Covers: "the output is valid UTF-8 while normalisation is on", Min: 256, Run: c17r6},
			{ID: "C01.R9", Title: "mapKeyCode compiles a pointer key only under a TextMarshaler test, separates json.Number from the unquoted value path of strings, and uses the quoting constructors for every integer kind", Covers: "object member names are always JSON strings (no bare number as a key)", Min: 13, Run: c01r9},
			{ID: "C17.R1", Title: "string appenders escape every control byte, quote and backslash on the 8-byte fast path, the tail loop and the slow loop (shared with C17)", Covers: "no raw control character inside an emitted string", Min: 150, Run: c17r1},
		},
	})
	core.Register(&core.Property{
		ID:         "C04",
		Decided:    "Decides that the writer's and the reader's constant tables agree (escape letters, digit pairs, powers of ten, hex digits, base64 codec); it does not decide that Unmarshal(Marshal(v)) equals v.",
		NotCovered: "float shortest-representation/parse inversion, nil-versus-empty, every value-level part of the round trip.",
		Rules: []*core.Rule{
			{ID: "C04.R1", Title: "every escape the four string appenders can emit is accepted, and decoded to the originating byte, by every escape-letter dispatch of the decoder and by unescapeMap", Covers: "strings survive Marshal→Unmarshal", Min: 30, Run: c04r1},
			{ID: "C04.R2", Title: "intLELookup/intBELookup hold the two digits of their index, pow10i64/pow10u64 hold 10^i, hexToInt inverts hex", Covers: "integers and \\u escapes survive the round trip", Min: 250, Run: c04r2},
			{ID: "C17.R4", Title: "decodeRuneInString returns lineSepState/paragraphSepState only under s[0]==0xE2, s[1]==0x80 and s[2]==0xA8/0xA9", Covers: "only U+2028/U+2029 are rewritten as \\u2028/\\u2029; every other character keeps its bytes", Min: 2, Run: c17r4},
			{ID: "C04.R4", Title: "every Decode/DecodeStream method that leaves early without a store tests its scanned token against nil (the null token), never by length: the empty token of \"\" is stored", Covers: "empty versus nil containers survive the round trip ([]byte{} is written as \"\" and read back non-nil)", Min: 6, Run: c04r4},
			{ID: "C02.R4", Title: "slots of a pooled working array are cleared on every path before the element decoder sees them (shared with C02)", Covers: "Unmarshal(Marshal(v)) does not pick up fields from an earlier, unrelated call", Min: 2, Run: c02r4},
			{ID: "C04.R3", Title: "every base64 call in encoder and decoder uses the same Encoding object", Covers: "[]byte survives the round trip", Min: 2, Run: c04r3},
		},
	})
	core.Register(&core.Property{
		ID:         "C05",
		Decided:    "Decides, for every byte-dispatching scanner state of the decoders and of Compact/Indent, which of the 256 byte values reach an error (control bytes inside strings, bytes that cannot start or separate a value, illegal escape letters, unchecked \\u digits), that every scanned number token reaches a numeric parser, that every success return of the Unmarshal entry points passes validateEndBuf and that validateEndBuf checks the NUL is the sentinel, and that the class tables hold the RFC sets; it does not decide the accepted language.",
		NotCovered: "the language itself: number grammar (strconv.ParseFloat accepts 01, 1., -.5), ordering of tokens (a comma after a value, a colon after a key), Valid's use of the stream decoder, literals in stream mode (see C09.R2).",
		Rules: []*core.Rule{
			{ID: "C05.R1", Title: "byte classes of every scanner state: in-string dispatch sends 0x01-0x1f to an error; value-level dispatch lets only blank { } [ ] \" , : - 0-9 t f n NUL avoid an error; escape dispatch accepts exactly \" \\ / b f n r t u and tests four hex digits after u", Covers: "raw control characters, stray bytes in ignored parts, invalid escapes cause an error", Min: 100, Run: c05r1},
			{ID: "C05.R2", Title: "every function that consumes a run of floatTable/numTable bytes hands the token to validNumber/parseInt/parseUint (or returns it to callers that all do) before reporting success, strconv.ParseFloat not counting as a validator", Covers: "malformed numbers cause an error even in ignored parts", Min: 8, Run: c05r2},
			{ID: "C05.R6", Title: "the encoder's number scanner (compactNumber: Compact, Indent, Valid, marshaler output) and AppendNumber (json.Number) call validNumber before writing, and decoder.validNumber and encoder.validNumber are statement-for-statement the same function", Covers: "Valid/Compact/Indent accept exactly the RFC 8259 numbers; Unmarshal and Valid agree", Min: 3, Run: c05r6},
			{ID: "C05.R3", Title: "every success return of unmarshal/unmarshalContext/unmarshalNoEscape/extractFromPath after the decode call is the result of validateEndBuf, and validateEndBuf's NUL clause checks the cursor against len(src)", Covers: "anything following the value, including bytes after an embedded NUL, causes an error", Min: 6, Run: c05r3},
			{ID: "C05.R5", Title: "in every container separator dispatch (a byte switch with clauses for ',' and a closing bracket) each path from the ',' clause to a successful return passes a call that scans another element", Covers: "trailing commas cause an error", Min: 8, Run: c05r5},
			{ID: "C05.R7", Title: "every function named skipWhiteSpace (decoder buffer mode, decoder stream mode, encoder compact/indent) advances the cursor for exactly space, tab, line feed and carriage return, computed for all 256 byte values from the table test or case labels that guard the advance", Covers: "whitespace between tokens is accepted exactly as RFC 8259 allows", Min: 3, Run: c05r7},
			{ID: "C05.R4", Title: "floatTable (both copies), numTable, isWhiteSpace (both copies), validEndNumberChar, hexToInt hold exactly the RFC 8259 character sets", Covers: "no scanner consults a widened class", Min: 1250, Run: c05r4},
		},
	})
	core.Register(&core.Property{
		ID:         "C06",
		Decided:    "Decides that the nesting depth is threaded and bounded on every decoder edge, that every input-driven recursion cycle reachable from the decoding/utility entry points passes a depth bound or a memo, that no kind-restricted reflect method is called under a kind test that makes it panic, and that no explicit panic is reachable from those entry points; it does not decide termination or absence of every run-time panic.",
		NotCovered: "termination of every scanner loop, a reader that returns (0, nil) forever, index/nil panics guarded only by Go's own checks, sentinel look-ahead reads (planned C06.R5).",
		Rules: []*core.Rule{
			{ID: "C06.R1", Title: "every function with a depth parameter passes depth or depth+k (to a guarded callee) on every call that takes one; every depth++ is followed by `if depth > maxDecodeNestingDepth` with an error exit; container decoders increment; package json starts at 0", Covers: "million-deep nesting gives an error, not a stack overflow", Min: 90, Run: c06r1},
			{ID: "C06.R2", Title: "every cycle of the static-callee graph among functions carrying []byte/[]rune/*Stream/*runtime.Type, reachable (CHA) from the decoding and utility entry points, passes a function with a depth comparison or a memo lookup with early return", Covers: "no input-proportional recursion (fatal stack exhaustion)", Min: 4, Run: c06r2},
			{ID: "C06.R3", Title: "no kind-restricted reflect.Type/Value method is called on the switched value inside a `case reflect.K` clause all of whose kinds make it panic", Covers: "Path.Get / assignment helpers never panic on a supported kind", Min: 10, Run: c06r3},
			{ID: "C06.R3b", Title: "a reflect.Value that can be the zero Value for ordinary data (x.Elem(), reflect.ValueOf(<interface>), MapIndex) is never used, locally or in the module function it is passed to (all implementations for interface calls), as receiver of a method that panics on the zero Value unless an IsValid test protects the use", Covers: "Path.Get and the assignment helpers return an error, not a panic, for nil pointers / nil interfaces inside the source value", Min: 10, Run: c06r3b},
			{ID: "C15.R6", Title: "in the four bitmap key decoders every path from one bitmap row read to the next passes the `curBit == 0` test whose true branch exits", Covers: "a key longer than every field name (also through multi-byte \\u escapes) ends the match instead of indexing past the bitmap", Min: 8, Run: c15r6},
			{ID: "C06.R5", Title: "every read at <cursor>+k (index, slice bound, char(p, cursor+k)), k >= 1, in the decoders and in compact.go/indent.go is protected by a dominating `cursor+j >= len` exit or an enclosing/short-circuit `cursor+j < len` test with j >= k, by readAtLeast, or by the NUL-sentinel idiom (the preceding byte was matched against a non-NUL constant)", Covers: "truncated literals and escapes give an error instead of an out-of-range panic or a stray read", Min: 25, Run: c06r5},
			{ID: "C06.R7", Title: "every write at a moving index into a locally made []byte inside a loop is preceded, in that loop, by a comparison of the index with len/cap of the buffer whose branch grows the buffer or leaves", Covers: "never panics (no write past a scratch buffer when the output expands)", Min: 1, Run: c06r7},
			{ID: "C09.R1", Title: "stream-mode scanners never use a window pointer, slice or loaded byte after a call that may refill (and reallocate) the window without re-taking it (shared with C09)", Covers: "never panics: no index into a window slice that a refill has replaced", Min: 12, Run: c09r1},
			{ID: "C06.R6", Title: "no variable is type-asserted in the panicking single-value form to two different interface types within one decoder/encoder function", Covers: "UnmarshalContext/Unmarshal never panic on a destination that implements only one of the unmarshaler interfaces", Min: 2, Run: c06r6},
			{ID: "C06.R4", Title: "no ssa.Panic instruction of the module (outside init) is in a function CHA-reachable from the decoding/utility entry points", Covers: "no explicit panic on any input", Min: 5, Run: c06r4},
		},
	})
	core.Register(&core.Property{
		ID:         "C07",
		Decided:    "Decides that every fixed-width Go store through a decoder's destination pointer is no wider than the smallest kind that decoder is constructed for (or sits under a shape guard), that elements at a run-time stride are written size-aware, that moved values are allocated as the type they are moved as and strides come from the element type's size, that the integer/float store widths equal their kinds (C16.R4), and that the caller's input only feeds the private copy (C12.R1); it does not decide that every store lands inside the right object.",
		NotCovered: "that a correctly typed store lands inside the right object for every layout, GC visibility of intermediate uintptr values, reads beyond the private copy (see C06.R5 for look-ahead reads).",
		Rules: []*core.Rule{
			{ID: "C07.R1", Title: "for each decoder type D, the kinds D is constructed for are derived from compile's kind switch; every `*(*T)(…p…) = v` store in D's methods has sizeof(T) <= the smallest of those kinds, or is under an isPtrType/Kind() guard", Covers: "null and scalar stores never spill into neighbouring fields or leave a malformed header", Min: 12, Run: c07r1},
			{ID: "C07.R2", Title: "no fixed-width Go store at an address computed by multiplying with a run-time size field; such elements are written with typedmemmove", Covers: "bytes after a short array keep their contents", Min: 4, Run: c07r2},
			{ID: "C07.R3", Title: "typedmemmove(T, dst, src): src allocated with unsafe_New(T) of the same T; slice/array decoders take their stride from elemType.Size() of the element type they store", Covers: "moves copy exactly one value of the right type", Min: 8, Run: c07r3},
			{ID: "C07.R5", Title: "every array obtained from newArray(T, n) is wrapped in a slice header whose cap is n (composite literal, or `h.cap = n` beside `h.data = newArray(T, n)`), so the element loop's capacity test bounds the allocation", Covers: "elements are written only inside the working array", Min: 8, Run: c07r5},
			{ID: "C07.R6", Title: "in the decoder and the Unmarshal entry points no local uintptr computed from a pointer is converted back to a pointer in a later statement (pointer arithmetic stays inside one expression; the nosplit noescape idiom excepted)", Covers: "element stores reach the destination even when it lives on a goroutine stack that moves during decoding", Min: 1, Run: c07r6},
			{ID: "C16.R4", Title: "numeric store widths equal their kinds (shared with C16)", Covers: "integer and float destinations are written at their own width", Min: 60, Run: c16r4},
			{ID: "C12.R1", Title: "the caller's input only feeds the private copy (shared with C12)", Covers: "decoding reads only its private copy of the input", Min: 12, Run: c12r1},
			{ID: "C06.R5", Title: "look-ahead reads stay inside the buffer (shared with C06)", Covers: "no stray reads past the private copy", Min: 25, Run: c06r5},
		},
	})
	core.Register(&core.Property{
		ID:         "C08",
		Decided:    "Decides that every published opcode program was post-processed for interface frames, that the slot fields the interpreters address are the ones the frame size is computed from, that frame trailers and the +3 sizing constants agree, that the frame base is recomputed after the slot array may have moved, that cycle bookkeeping pushes and pops in pairs, that objects whose address is held only as uintptr are kept alive, that type-driven compile recursion is bounded, and that compiled programs are not written at run time; it does not decide memory safety of every execution.",
		NotCovered: "that TotalLength is sufficient for every program shape, correctness of ptrToPtr chains, the contents of recycled Ptrs slots, what user callbacks do.",
		Rules: []*core.Rule{
			{ID: "C08.R1", Title: "every value stored in OpcodeSet.*KeyCode or CompiledCode.Code was the argument of setTotalLengthToInterfaceOp (or copyToInterfaceOpcode of such a value) earlier in the same function", Covers: "interface{} values inside recursive or cached programs run with a correctly sized frame", Min: 5, Run: c08r1},
			{ID: "C08.R2", Title: "the Opcode fields used as slot offsets in load/store/loadNPtr of each VM are among the fields MaxIdx folds into the frame size", Covers: "no slot access beyond the frame", Min: 8, Run: c08r2},
			{ID: "C08.R3", Title: "copyToInterfaceOpcode and linkRecursiveCode give the end op the same number of trailer slots, and every frame-size computation in linkRecursiveCode and the four Run functions adds exactly that number", Covers: "saved offset / return code / indent slots stay inside the frame", Min: 12, Run: c08r3},
			{ID: "C08.R4", Title: "typestate over Run: after an assignment to ctx.Ptrs, ctxptr is stale until reassigned; no stale use", Covers: "frame growth during deep nesting does not leave loads/stores on the old array", Min: 4, Run: c08r4},
			{ID: "C08.R5", Title: "in OpInterface/OpRecursive the SeenPtr scan is under the level test and every path from the SeenPtr append reaches recursiveLevel++ or an error return; the End ops decrement and pop", Covers: "cycles are reported and acyclic values never are", Min: 24, Run: c08r5},
			{ID: "C08.R6", Title: "encode/encodeNoEscape/encodeIndent append the root pointer, and Run appends mapCtx and the interface word, to ctx.KeepRefs", Covers: "callbacks that allocate, collect or grow the stack do not invalidate the traversal", Min: 10, Run: c08r6},
			{ID: "C08.R7", Title: "recursion rule C06.R2 evaluated from the Marshal entry points on package encoder's compiler", Covers: "recursive types compile without unbounded recursion", Min: 1, Run: c08r7},
			{ID: "C08.R9", Title: "every function that appends to ctx.recursiveCodes (emits an OpRecursive reference to its struct type) also stores the type's program in ctx.structTypeToCodes", Covers: "recursive types compile in every position (also embedded)", Min: 2, Run: c08r9},
			{ID: "C08.R10", Title: "the four marshaler head handlers of each interpreter leave through the null exit when the struct address is nil under IndirectFlags or AddrForMarshalerFlags, before the field offset is added", Covers: "acyclic values (here: a nil pointer to a struct whose only field has a pointer-receiver marshaler) never panic", Min: 16, Run: c08r10},
			{ID: "C01.R8", Title: "pointer-shaped arrays are handled like pointer-shaped structs (shared with C01)", Covers: "no panic and no wild read for acyclic values", Min: 2, Run: c01r8},
			{ID: "C08.R11", Title: "the four marshaler pointer-head handlers of each interpreter follow code.PtrNum also when IndirectFlags is clear", Covers: "the marshaler of a field is called on the field, for any number of pointers in front of the struct (no read through a wrong address)", Min: 16, Run: c08r11},
			{ID: "C08.R8", Title: "no field of Opcode/OpcodeSet/CompiledCode is written outside code.go/compiler.go/opcode.go (QueryCache excepted)", Covers: "the cached program of a type is the same for every later and concurrent encoding", Min: 30, Run: c08r8},
		},
	})
	core.Register(&core.Property{
		ID:         "C09",
		Decided:    "Decides that stream-mode scanners never use a window pointer, slice or loaded byte after a call that may refill the window without re-taking it, that the literal readers compare a byte again after a refill, that the io.Reader's error is kept, and that buffer and stream scanners classify value-start bytes alike; it does not decide equality of results for any chunking.",
		NotCovered: "equality of decoded values per chunking, InputOffset/More/Token arithmetic, concatenated documents, strings handed out before a later refill.",
		Rules: []*core.Rule{
			{ID: "C09.R1", Title: "forward may-analysis over each stream-mode function's CFG: after a node that may reach (*Stream).read, every variable taken from the window (bufptr/stat pointer, buf slice, loaded byte) is stale until reassigned; no stale variable is read", Covers: "a refill in the middle of a token does not change the result", Min: 12, Run: c09r1},
			{ID: "C09.R2", Title: "in nullBytes/trueBytes/falseBytes each `s.char() != K` whose body refills is a loop condition or is followed by a second comparison with K before the cursor advances", Covers: "a literal split across chunks is still checked letter by letter", Min: 10, Run: c09r2},
			{ID: "C09.R3", Title: "the error result of r.Read in (*Stream).read flows to a Stream field or a return value, and every success return of Decoder.DecodeWithOption is dominated by a test of that kept error which returns it", Covers: "a reader error other than EOF is reported, never turned into a decoded value", Min: 2, Run: c09r3},
			{ID: "C09.R5", Title: "the operand of utf8.FullRune on the stream window ends at s.length", Covers: "a multi-byte character split across chunks decodes as in buffer mode", Min: 1, Run: c09r5},
			{ID: "C09.R9", Title: "decodeKeyCharByUnicodeRune and its stream sibling move the cursor by the same amounts on their success returns (+3 after one escape, +9 after a surrogate pair) and read their hex digits from 4-byte slices at the same offsets", Covers: "an escaped object key is consumed alike in both modes", Min: 3, Run: c09r9},
			{ID: "C06.R5", Title: "look-ahead reads are length-guarded (shared with C06; in stream mode a single refill is not a guard, a loop until enough bytes is)", Covers: "escapes split over several reads decode as in buffer mode", Min: 25, Run: c06r5},
			{ID: "C09.R6", Title: "wherever the stream window is spliced in place (s.buf = append(append(s.buf[:A], X...), s.buf[B:]...)) the update of s.length in the same statement list equals A + len(X) - B as a linear form", Covers: "after an escape or invalid byte was rewritten, the scanners still know how much data the window holds", Min: 3, Run: c09r6},
			{ID: "C09.R7", Title: "must-analysis per stream scanner with a local cursor: at every (*Stream).read call the local cursor has been written to s.cursor since it last moved", Covers: "a token cut by a chunk boundary resumes where it stopped", Min: 15, Run: c09r7},
			{ID: "C09.R8", Title: "in every in-string dispatch of a stream scanner, the backslash clause re-takes the window after its refill with stat(), never statForRetry()", Covers: "an escape cut right behind the backslash is still an escape", Min: 4, Run: c09r8},
			{ID: "C09.R4", Title: "for 13 buffer/stream scanner pairs the value-start dispatch sends the same non-NUL byte values to an error and names the same bytes in its case labels", Covers: "both modes give the same accept/reject verdict at value start", Min: 20, Run: c09r4},
		},
	})
	core.Register(&core.Property{
		ID:         "C10",
		Decided:    "Decides which stores to package-level state happen outside init/sync.Once without a lock or atomic operation (both build configurations), that the atomically published type maps are copy-on-write, that reusable handles are not written after construction, that a pooled runtime context (and buffers derived from it) is not used after its release, and that the per-type query cache is only touched under its mutex; it does not decide absence of data races for any schedule.",
		NotCovered: "actual interleavings, the Go memory model beyond 'is there synchronisation at this store', user callbacks, distinct Encoders/Decoders sharing a writer or reader.",
		Rules: []*core.Rule{
			{ID: "C10.R1", Title: "every ssa.Store whose address is rooted in a package-level variable of the module is in init, in a sync.Once body, or under a held sync lock (must-analysis over the CFG); in the race build every cache slot access is under the lock", Covers: "first use of a type from several goroutines", Configs: []string{"default", "race"}, Min: 5, Run: c10r1},
			{ID: "C10.R2", Title: "a map obtained from loadOpcodeMap/loadDecoderMap is never assigned into or deleted from, directly or by the callee it is passed to; the callee builds a fresh map and publishes it with atomic.StorePointer", Covers: "types outside the address-indexed cache are compiled and looked up concurrently", Min: 4, Run: c10r2},
			{ID: "C10.R3", Title: "fields of encoder.FieldQuery and decoder.Path are assigned only in their builders", Covers: "a FieldQuery or compiled Path may be shared by goroutines", Min: 3, Run: c10r3},
			{ID: "C10.R4", Title: "typestate: after ReleaseRuntimeContext(ctx), ctx and every []byte obtained from a call that took ctx are stale; no stale use", Covers: "results are copied out before the pooled context can be handed to another goroutine", Min: 10, Run: c10r4},
			{ID: "C10.R6", Title: "while a sync lock on a package-level mutex is held (must-analysis), no call is made whose callees (VTA call graph) lock the same mutex", Covers: "no self-deadlock in the race-enabled build", Configs: []string{"race"}, Min: 1, Run: c10r6},
			{ID: "C10.R5", Title: "every access of OpcodeSet.QueryCache is at a point where a sync lock is held on all paths", Covers: "concurrent MarshalContext calls with different queries on one type", Min: 2, Run: c10r5},
		},
	})
	core.Register(&core.Property{
		ID:         "C11",
		Decided:    "Decides that every field of the pooled contexts and options that can be read on an entry point's paths was written (or reset with the whole struct) by that entry point, that shared state overwritten after being saved is restored on every exit, that what the type caches store depends on the type only, that building programs does not modify the cached Code tree, and that results do not alias package-level slices; it does not decide equality of cold and warm results.",
		NotCovered: "cold-versus-warm equality itself, contents of recycled Ptrs slots, sticky options of a Decoder/Encoder object, user callbacks with their own state.",
		Rules: []*core.Rule{
			{ID: "C11.R1", Title: "for each function that takes a context from a sync.Pool and each field of the pooled structs read on a path reachable from it (VTA): the field is assigned in the entry's prologue (entry and its static callees, two levels, interpreters excluded), reset with the whole struct, or only re-sliced to length 0", Covers: "options, contexts and buffers of earlier calls never decide a later result", Min: 60, Run: c11r1},
			{ID: "C02.R4", Title: "slots of the slice decoder's pooled working array are cleared on every path before the element decoder sees them (shared with C02)", Covers: "the result does not depend on what an earlier call left in pooled memory", Min: 2, Run: c02r4},
			{ID: "C11.R2", Title: "for each `old := X.f; X.f = new; …; X.f = old` sequence: every path from the overwrite to a return passes a restoring assignment", Covers: "a compiled Path (and other shared handles) is unchanged after a failed call", Min: 2, Run: c11r2},
			{ID: "C14.R2", Title: "the value stored in a type cache slot is the result of a compile call on the type argument only (shared with C14)", Covers: "same result on a cold and on a warm type cache", Configs: []string{"default", "race"}, Min: 8, Run: c14r2},
			{ID: "C11.R4", Title: "ToOpcode/ToAnonymousOpcode/Filter/Kind methods of the Code tree never assign to a field of their receiver; compiled programs are not written at run time (C08.R8)", Covers: "building a filtered or escaped program does not change later programs", Min: 20, Run: c11r4},
			{ID: "C08.R8", Title: "compiled programs are not written at run time (shared with C08)", Covers: "a cached program is the same for every later call", Min: 30, Run: c08r8},
			{ID: "C11.R5", Title: "no element of the [][]byte returned by a DecodePath method originates from a package-level slice", Covers: "changing an earlier result never affects later results", Min: 10, Run: c11r5},
			{ID: "C13.R5", Title: "entry points reset the pooled flags/options first (shared with C13)", Covers: "Colorize/Debug/indent/context options of an earlier call do not leak", Min: 20, Run: c13r5},
		},
	})
	core.Register(&core.Property{
		ID:         "C19",
		Decided:    "Decides that every Code node with an element code passes the query on, that the compact and indent marshaler helpers hand context-aware marshalers the same (sub-)query, that filtered programs are cached under the key they are looked up with and built from the unfiltered Code tree, that the type cache never stores a filtered program, that building programs does not modify the Code tree, that program copies are complete, and that a call's options (including the context that carries the query) are reset per call; it does not decide the projected document.",
		NotCovered: "equality of the projection with Marshal restricted to the selected fields, QueryString round trip, interfaces holding structs (the query travels in the opcode).",
		Rules: []*core.Rule{
			{ID: "C19.R1", Title: "every Code implementation with a child `value` Code calls value.Filter in its Filter method", Covers: "sub-queries apply through pointers, slices, arrays and maps", Min: 4, Run: c19r1},
			{ID: "C13.R2", Title: "marshaler helper twins take the same decisions, including SetFieldQueryToContext (shared with C13)", Covers: "context-aware marshalers see the query of their own field in every variant", Min: 2, Run: c13r2},
			{ID: "C19.R4", Title: "every SetFieldQueryToContext in the encoder and the interpreters hands on the current opcode's FieldQuery, and each interpreter compiles the dynamic value of an interface under that sub-query (installed under the FieldQueryOption flag only, context restored right after)", Covers: "recursively through sub-queries ... interfaces and context-aware marshalers", Min: 10, Run: c19r4},
			{ID: "C19.R5", Title: "for each Code type whose Filter rebuilds part of the receiver (fields, value), every return of its ToOpcode/ToAnonymousOpcode is reached only after reading that part, so a filtered Code cannot compile to the unfiltered program", Covers: "recursively through sub-queries, pointers, slices, maps", Min: 8, Run: c19r5},
			{ID: "C19.R6", Title: "StructFieldCode.headerOpcodes and fieldOpcodes are the same up to the Head/Field naming, and both carry the value opcode's FieldQuery to the field opcode", Covers: "the sub-query reaches a context-aware marshaler whichever position its field has", Min: 2, Run: c19r6},
			{ID: "C19.R3", Title: "getFilteredCodeSetIfNeeded looks up and stores the filtered program under the same key expression, stores the program compiled from codeSet.Code.Filter(query), and returns early without ContextOption", Covers: "a query never affects encodings made with another query or with none", Min: 4, Run: c19r3},
			{ID: "C14.R2", Title: "the type cache slot only receives the program compiled for the type (shared with C14)", Covers: "a filtered program never replaces the unfiltered one", Configs: []string{"default", "race"}, Min: 8, Run: c14r2},
			{ID: "C11.R4", Title: "Filter/ToOpcode do not modify the cached Code tree (shared with C11)", Covers: "filtering for one query does not change the next", Min: 20, Run: c11r4},
			{ID: "C01.R4", Title: "Filter copies and copyOpcode carry every field (shared with C01)", Covers: "filtered programs behave like the unfiltered one for the kept fields", Min: 20, Run: c01r4},
			{ID: "C11.R1", Title: "pooled options (the context that carries the query, FieldQueryOption) are reset by every entry point (shared with C11)", Covers: "a query of an earlier call is never applied to a later one", Min: 60, Run: c11r1},
		},
	})
	core.Register(&core.Property{
		ID:         "C20",
		Decided:    "Decides that a compiled Path is not written while it is evaluated, that what evaluation overwrites is restored on every exit, that results do not alias package-level slices, that the path builder's look-ahead reads are length-guarded and its recursion bounded, that Path.Get's reflect calls respect their kind and validity preconditions, and that extraction validates what follows the document; it does not decide which sub-documents a path selects.",
		NotCovered: "selector semantics (child, index, wildcard, recursive descent, quoted names), document order, Path.Unmarshal's decoding of the extracted parts.",
		Rules: []*core.Rule{
			{ID: "C10.R3", Title: "fields of decoder.Path are assigned only in the builder (shared with C10)", Covers: "one Path may be used from several goroutines", Min: 3, Run: c10r3},
			{ID: "C11.R2", Title: "what evaluation overwrites in the Path is restored on every exit (shared with C11)", Covers: "a Path behaves like a fresh one after an error", Min: 2, Run: c11r2},
			{ID: "C11.R5", Title: "extracted values never alias package-level slices (shared with C11)", Covers: "the result depends only on path text and document", Min: 10, Run: c11r5},
			{ID: "C20.R2", Title: "in every DecodePath method the name passed to Path.Field is the result of a stringDecoder method (the unescaped key), not a slice of the input", Covers: "child and quoted-name selectors select the members whose name equals the selector, however the key is spelled", Min: 1, Run: c20r2},
			{ID: "C20.R1", Title: "every read at <index>+k in path.go is protected by a length test on the same index (no terminator idiom applies to the []rune path text)", Covers: "malformed path text is rejected with an error, never an index panic", Min: 12, Run: c20r1},
			{ID: "C06.R2", Title: "recursion rule (shared with C06; includes the path builder)", Covers: "a long path text cannot exhaust the stack", Min: 4, Run: c06r2},
			{ID: "C06.R3", Title: "reflect kind preconditions in Path.Get (shared with C06)", Covers: "Path.Get never panics on a supported kind", Min: 10, Run: c06r3},
			{ID: "C06.R3b", Title: "zero reflect.Value tolerance in Path.Get and the cast helpers (shared with C06)", Covers: "nil pointers / nil interfaces in the source give an error", Min: 10, Run: c06r3b},
			{ID: "C05.R3", Title: "extractFromPath returns only through validateEndBuf (shared with C05)", Covers: "anything following the document is an error", Min: 6, Run: c05r3},
		},
	})
	core.Register(&core.Property{
		ID:         "C12",
		Decided:    "Decides that the caller's input reaches only len() and the source side of a copy in the Unmarshal entry points, that every slice a Marshal entry point returns is freshly made and filled before the pooled context is released, that in stream mode UnmarshalJSON/UnmarshalText receive fresh copies, and that in-place unescaping only ever rewrites memory the library allocated; it does not decide absence of aliasing for every value.",
		NotCovered: "that the stream window never moves over strings already handed out, RawMessage/[]byte destinations in stream mode, what user callbacks do with the slices they get.",
		Rules: []*core.Rule{
			{ID: "C12.R1", Title: "in unmarshal/unmarshalContext/unmarshalNoEscape/extractFromPath the data parameter (and slices of it) is used only by len() and as the source of copy()", Covers: "Unmarshal never modifies or retains the caller's input bytes", Min: 12, Run: c12r1},
			{ID: "C12.R2", Title: "every non-nil []byte returned by marshal/marshalContext/marshalNoEscape/marshalIndent is a MakeSlice filled by copy, and the copy precedes ReleaseRuntimeContext", Covers: "returned encodings are exclusively the caller's", Min: 8, Run: c12r2},
			{ID: "C12.R3", Title: "every []byte passed to an UnmarshalJSON/UnmarshalText callback in a function with a *Stream parameter originates only from make/alloc in that call", Covers: "bytes handed to callbacks are not overwritten by later reads of the stream", Min: 8, Run: c12r3},
			{ID: "C12.R5", Title: "every value assigned to Stream.buf is a fresh make, a forward re-slice of the window itself, a fresh copy, or an in-place splice that keeps the window prefix before the token being decoded", Covers: "values decoded earlier from a Decoder are not altered by later Decode calls (zero-copy strings keep their bytes)", Min: 7, Run: c12r5},
			{ID: "C12.R6", Title: "in the sliceDecoder methods the destination header's data pointer (the header made from p, or newSlice's parameter) is only compared or overwritten, never used as a value that could become a pooled working header's array", Covers: "a slice handed back to the caller never shares memory with the decoder's pooled scratch array", Min: 4, Run: c12r6},
			{ID: "C12.R4", Title: "every operand of unescapeString, traced through callers, originates from RuntimeContext.Buf, Stream.buf or fresh memory; ctx.Buf is only set to a slice made in the same call", Covers: "in-place rewriting never touches caller memory", Min: 5, Run: c12r4},
		},
	})
	core.Register(&core.Property{
		ID:         "C13",
		Decided:    "Decides that the four generated interpreters (and their template) have the same handler for every opcode, that the compact and indent marshaler helpers take the same decisions apart from the formatter call, that the colour wrappers only bracket the plain helpers with one format's header and footer, that each option combination dispatches to the interpreter it names, that every entry point resets the pooled flags and sets the same defaults, and that the separator protocol is consistent per package (C03.R3); it does not decide byte equality of the outputs.",
		NotCovered: "byte equality of outputs across variants, the relation MarshalIndent(v) == Indent(Marshal(v)), UnorderedMap's effect, top-level vs pointer vs interface encodings.",
		Rules: []*core.Rule{
			{ID: "C13.R1", Title: "for every opcode case, Run of vm_indent, vm_color, vm_color_indent has the same normal form (comments, layout, local names ignored) as vm.Run; prologue/epilogue agree; the generator template equals vm.Run", Covers: "all interpreter variants execute the same program the same way", Min: 1000, Run: c13r1},
			{ID: "C13.R2", Title: "AppendMarshalJSON/AppendMarshalJSONIndent and AppendMarshalText/…Indent have equal statement normal forms once the formatter call (compact/doIndent) is dropped", Covers: "marshaler values encode identically with and without indentation", Min: 2, Run: c13r2},
			{ID: "C13.R3", Title: "each vm_color*/helper that replaces an encoder alias of the plain package takes one ColorScheme format, appends its Header once, calls the same encoder function, and appends that format's Footer", Covers: "Colorize output equals the plain output once markers are removed", Min: 12, Run: c13r3},
			{ID: "C13.R4", Title: "in encodeRunCode/encodeRunIndentCode the callee under each (Debug, Colorize) combination is Run/DebugRun of the package the combination names", Covers: "Debug and Colorize select the matching interpreter", Min: 8, Run: c13r4},
			{ID: "C13.R5", Title: "every function that takes an encoder RuntimeContext first assigns Flag = 0, then sets NormalizeUTF8Option and HTMLEscapeOption plus only the flag naming the entry", Covers: "Encoder.Encode, MarshalNoEscape, MarshalContext and Marshal start from the same option state", Min: 20, Run: c13r5},
			{ID: "C08.R3", Title: "frame trailer placement and +3 sizing (shared with C08)", Covers: "MarshalIndent of recursive and interface values keeps its saved indentation", Min: 12, Run: c08r3},
			{ID: "C13.R7", Title: "in both indenting helper packages appendMapKeyValue and appendMapKeyIndent pass the same depth to appendIndent, and so do appendMapEnd and appendObjectEnd", Covers: "UnorderedMap changes only the order of map members", Min: 4, Run: c13r7},
			{ID: "C18.R6", Title: "every function of compact.go/indent.go that receives the HTML-escape flag passes its own parameter to each callee that takes one (compactString for keys and values, the object/array/value walkers)", Covers: "Compact and Indent escape the same bytes; MarshalIndent equals Indent(Marshal)", Min: 12, Run: c18r6},
			{ID: "C13.R6", Title: "every read of Opcode.Indent outside the compiler is combined with ctx.BaseIndent: in one additive expression, assigned into BaseIndent, or passed (possibly through a local) to a parameter that is", Covers: "MarshalIndent indents values reached through interface{} or recursion like Indent(Marshal(v))", Min: 28, Run: c13r6},
			{ID: "C03.R3", Title: "separator width protocol per VM package (shared with C03)", Covers: "no variant leaves or eats a separator", Min: 60, Run: c03r3},
		},
	})
	core.Register(&core.Property{
		ID:         "C14",
		Decided:    "Decides that the per-type program caches are indexed only after both address bounds were tested, that lookup, compile and store use the same key, that the race and non-race variants differ only by lock statements, and that the caches are sized with the same shift they are indexed with; it does not decide that the index is injective for the linker's actual layout.",
		NotCovered: "injectivity of (addr-base)>>shift for the real type-descriptor layout (AnalyzeTypeAddr infers the alignment from a running minimum at run time).",
		Rules: []*core.Rule{
			{ID: "C14.R1", Title: "every index into cachedOpcodeSets/cachedDecoder is dominated by returning tests `addr > typeAddr.MaxTypeAddr` and `addr < typeAddr.BaseTypeAddr` on the address the index is computed from", Covers: "types outside the analysed address range (run-time created, PIE) never index the cache", Configs: []string{"default", "race"}, Min: 4, Run: c14r1},
			{ID: "C14.R2", Title: "lookup and store use one index variable assigned once; the stored value is the result of a compile call on the function's own type argument; the slow-path map is keyed by the full address", Covers: "the program applied to a value is the one compiled for its type", Configs: []string{"default", "race"}, Min: 8, Run: c14r2},
			{ID: "C14.R5", Title: "in linkRecursiveCode every program stored into a back-reference's Jmp (fresh copy or reused one) is looked up under a key derived from that back-reference's own Type", Covers: "a value is only ever handed to the program built for its own type (recursive references inside one program)", Min: 2, Run: c14r5},
			{ID: "C14.R3", Title: "CompileToGetCodeSet / CompileToGetDecoder: race and norace variants perform the same sequence of module calls, cache slot reads/writes and address-bound comparisons; encoder and decoder guards compare the same bounds", Covers: "both build configurations implement the same cache", Min: 3, Run: c14r3},
			{ID: "C14.R4", Title: "caches are allocated with AddrRange>>AddrShift+1 entries and indexed with >>AddrShift", Covers: "every in-range address maps to an allocated slot", Min: 4, Run: c14r4},
		},
	})
	core.Register(&core.Property{
		ID:         "C15",
		Decided:    "Decides that the field-name bitmaps are wide enough for the number of fields that can reach them, that a key matches a field only on the number of decoded characters, that the 8/16-field and buffer/stream key decoders differ only in width and refill handling, that encoder and decoder read struct tags through one parser, and that bitmap lookups fold case exactly as the bitmap was built; it does not decide which field a given key selects.",
		NotCovered: "embedded-field precedence, duplicate/last-wins, the AND-of-bitsets match for a given name set, exact-before-case-insensitive preference.",
		Rules: []*core.Rule{
			{ID: "C15.R1", Title: "where tryOptimize builds a [][256]uintN bitmap the number of field names is bounded by a guard with bound <= N, and the bitmap has maxKeyLen+1 rows", Covers: "distinct fields keep distinct bits; long keys cannot index past the bitmap", Min: 4, Run: c15r1},
			{ID: "C15.R2", Title: "in the four bitmap key decoders the value compared with field.keyLen derives from the bitmap row counter, not from raw cursor positions", Covers: "a key never selects a field because it is an escaped spelling of a prefix", Min: 4, Run: c15r2},
			{ID: "C15.R3", Title: "decodeKeyByBitmapUint8 ≡ …Uint16 and …Uint8Stream ≡ …Uint16Stream under {uint16→uint8, TrailingZeros16→8, keyBitmapUint16→8, MaxUint16→8}; buffer and stream versions dispatch on the same key bytes", Covers: "structs with ≤8 and ≤16 fields, in both modes, match keys alike", Min: 4, Run: c15r3},
			{ID: "C15.R4", Title: "encoder and decoder never read reflect.StructField.Tag themselves; both call runtime.StructTagFromField / IsIgnoredStructField", Covers: "names, omitempty/string options and '-' mean the same when encoding and decoding", Min: 2, Run: c15r4},
			{ID: "C15.R6", Title: "in the four bitmap key decoders every path from one bitmap row read to the next passes the `curBit == 0` test whose true branch exits", Covers: "a key longer than every field name (also through multi-byte \\u escapes) ends the match instead of indexing past the bitmap", Min: 8, Run: c15r6},
			{ID: "C09.R9", Title: "escaped surrogates in keys are consumed alike in both modes (shared with C09)", Covers: "an escaped key selects the field its decoded text names", Min: 3, Run: c09r9},
			{ID: "C15.R7", Title: "in tryOptimize, a lower-cased name that is already registered refuses the optimisation unless the registered and the new *structFieldSet are pointer-identical", Covers: "exact match first, then case-insensitive: fields whose names differ only in case stay distinguishable", Min: 1, Run: c15r7},
			{ID: "C15.R5", Title: "every bitmap column index passes through largeToSmallTable; tryOptimize lower-cases keys and refuses names whose Unicode lower-casing differs from ASCII folding; the table folds exactly A-Z", Covers: "case-insensitive matching agrees between the bitmap builder and the scanners", Min: 10, Run: c15r5},
		},
	})
	core.Register(&core.Property{
		ID:         "C16",
		Decided:    "Decides that the decimal accumulators of parseInt/parseUint cannot overflow silently, that the post-parse range switch rejects exactly the values outside every destination kind narrower than 64 bits (per build configuration), that a minus sign needs a digit in both decoding modes, and that kind, constructor, store width and bit-size tables agree in decoder and encoder (plus the digit tables of C04.R2); it does not decide the printed or parsed value.",
		NotCovered: "the printer's arithmetic for every value, leading zeros after a minus sign in stream mode, fraction/exponent rejection (decided by the byte after the token, see C05).",
		Rules: []*core.Rule{
			{ID: "C16.R1", Title: "if len(pow10 table) digits can exceed the accumulator type, parseInt/parseUint contain an erroring comparison that mentions the type's bound (or delegate to strconv)", Covers: "a literal that does not fit 64 bits is an error, never a wrapped number", Min: 2, Run: c16r1},
			{ID: "C16.R2", Title: "the switch over the destination kind in intDecoder/uintDecoder Decode and DecodeStream has, for every kind narrower than 64 bits in this configuration, a range test that is true exactly outside the kind's range and exits with an error", Covers: "a literal that does not fit the destination is an error, never truncated", Configs: []string{"default"}, Deep: []string{"386"}, Min: 20, Run: c16r2},
			{ID: "C16.R3", Title: "in intDecoder.decodeByte and decodeStreamByte the clause accepting '-' tests the token length with an error exit, and rejects a leading 0 followed by more digits", Covers: "a bare minus sign is an error", Min: 2, Run: c16r3},
			{ID: "C01.R5", Title: "each integer opcode's handler formats its value with its own family's primitive (appendInt for signed, appendUint for unsigned) and loader, in every interpreter (shared with C01)", Covers: "encoding prints exactly the decimal value, signed as its type says, also under omitempty/string tags and in fused end opcodes", Min: 900, Run: c01r5},
			{ID: "C16.R4", Title: "decoder: each numeric kind's constructor stores through a pointer of exactly that Go type; encoder: every bitSize the compiler emits has a case in AppendInt/AppendUint/ptrToUint64 and equals the width of the kind it is chosen for", Covers: "every integer width is read and written at its own width", Configs: []string{"default"}, Deep: []string{"386"}, Min: 60, Run: c16r4},
			{ID: "C04.R2", Title: "digit-pair, power-of-ten and hex tables (shared with C04)", Covers: "exact decimal printing and parsing", Min: 250, Run: c04r2},
		},
	})
	core.Register(&core.Property{
		ID:         "C18",
		Decided:    "Decides that Compact/Indent hand their transformer an empty output seed that does not overlap the destination's content, that the destination buffer is written only after the transformer reported success, that the Compact and Indent scanners classify and delegate all 256 byte values identically, that their recursion is bounded (C18.R3), and the lexical classes of their string scanner (C05.R1); it does not decide byte equality with encoding/json.",
		NotCovered: "byte equality with encoding/json's Compact/Indent for every prefix/indent, idempotence, HTMLEscape's output (it is decode+marshal), Valid's verdict.",
		Rules: []*core.Rule{
			{ID: "C18.R1", Title: "the dst slice handed to compact/doIndent by functions that then write it to the caller's *bytes.Buffer is provably empty (x[:0] of library memory, x[len(x):], make(_,0,n), AvailableBuffer) and never buf.Bytes() or buf.Bytes()[:0]", Covers: "exactly the new text is appended to the destination buffer", Min: 2, Run: c18r1},
			{ID: "C18.R2", Title: "every bytes.Buffer write in compact.go/indent.go is dominated by the `err != nil → return` test of the compact/doIndent call", Covers: "on an invalid text the destination buffer is left as it was", Min: 2, Run: c18r2},
			{ID: "C18.R3", Title: "recursion rule C06.R2 evaluated from Compact/Indent/Valid/HTMLEscape (and Marshal, whose MarshalJSON validation uses compact)", Covers: "deeply nested input gives an error, not a fatal stack overflow", Min: 2, Run: c18r3},
			{ID: "C06.R5", Title: "every read at <cursor>+k (index, slice bound, char(p, cursor+k)), k >= 1, in the decoders and in compact.go/indent.go is protected by a dominating `cursor+j >= len` exit or an enclosing/short-circuit `cursor+j < len` test with j >= k, by readAtLeast, or by the NUL-sentinel idiom (the preceding byte was matched against a non-NUL constant)", Covers: "truncated literals and escapes give an error instead of an out-of-range panic or a stray read", Min: 25, Run: c06r5},
			{ID: "C18.R5", Title: "compactValue/indentValue, compactObject/indentObject, compactArray/indentArray send each of the 256 byte values to an error, to the same delegate, or to inline handling alike", Covers: "Compact and Indent accept the same texts and share string/number/literal handling", Min: 3, Run: c18r5},
			{ID: "C05.R1", Title: "byte classes of every scanner state (shared with C05; includes compactString)", Covers: "raw control characters and invalid escapes are rejected by Compact/Indent/Valid", Min: 100, Run: c05r1},
			{ID: "C05.R7", Title: "every function named skipWhiteSpace (decoder buffer mode, decoder stream mode, encoder compact/indent) advances the cursor for exactly space, tab, line feed and carriage return, computed for all 256 byte values from the table test or case labels that guard the advance", Covers: "Compact/Indent/Valid accept the texts encoding/json accepts (CRLF documents)", Min: 3, Run: c05r7},
			{ID: "C18.R6", Title: "every function of compact.go/indent.go that receives the HTML-escape flag passes its own parameter to each callee that takes one (compactString for keys and values, the object/array/value walkers)", Covers: "Compact and Indent escape the same bytes; MarshalIndent equals Indent(Marshal)", Min: 12, Run: c18r6},
			{ID: "C05.R3", Title: "trailing-input check (shared with C05; includes encoder.validateEndBuf)", Covers: "anything after the value makes Compact/Indent fail", Min: 6, Run: c05r3},
			{ID: "C05.R6", Title: "the number scanner of Compact/Indent/Valid checks each token against the JSON number grammar (shared with C05)", Covers: "Compact/Indent/Valid fail exactly when encoding/json's do (01, 1., -.5)", Min: 3, Run: c05r6},
		},
	})
	core.Register(&core.Property{
		ID:         "C17",
		Decided:    "Decides that the encoder's escape table, 8-byte scan mask and slow-path switch agree with each other per variant, that the UTF-8 lead-byte table matches the definition, and that all decoder escape readers accept the same letters and test \\u digits; it does not decide the emitted or decoded string for any input.",
		NotCovered: "position-dependent behaviour of the 8-byte scan, surrogate-pair arithmetic, equality with encoding/json's decoded string.",
		Rules: []*core.Rule{
			{ID: "C17.R1", Title: "per appender: needEscape* table marks exactly the bytes its variant must escape, the SWAR mask has one term per marked ASCII class plus the high-bit term, every marked ASCII byte has an escaping case", Covers: "no raw control/quote/backslash (and <,>,& under HTML escaping) in output", Min: 1100, Run: c17r1},
			{ID: "C09.R1", Title: "stream-mode scanners (the \\u escape decoder among them) never use a window pointer, slice or loaded byte after a call that may refill the window without re-taking it (shared with C09)", Covers: "escapes decode to the same string in stream mode as in buffer mode, wherever the read boundary falls", Min: 12, Run: c09r1},
			{ID: "C17.R5", Title: "every hand-written combination of a high and a low surrogate in the decoder (an expression over 0xd800, 0xdc00 and two rune variables) equals 0x10000 + (hi-0xD800)<<10 + (lo-0xDC00), folded for all 1024 high × 6 low and 8 high × 1024 low surrogates", Covers: "surrogate pairs decode to the string encoding/json yields", Min: 1, Run: c17r5},
			{ID: "C17.R6", Title: "encoder.decodeRuneInString accepts exactly the well-formed (lead byte, second byte) pairs of UTF-8: the lead-byte table `first` and the accept-range switch are folded for all 256 × 256 pairs and compared with Unicode Table 3-7", Covers: "invalid UTF-8 (encoded surrogates, overlong forms, values above U+10FFFF) is replaced by U+FFFD", Min: 256, Run: c17r6},
			{ID: "C17.R4", Title: "decodeRuneInString returns lineSepState/paragraphSepState only under s[0]==0xE2, s[1]==0x80 and s[2]==0xA8/0xA9", Covers: "only U+2028/U+2029 are rewritten as \\u2028/\\u2029; every other character keeps its bytes", Min: 2, Run: c17r4},
			{ID: "C17.R3", Title: "decode_rune.go `first` equals the UTF-8 lead-byte classification", Covers: "invalid UTF-8 is recognised (replaced by U+FFFD)", Min: 256, Run: c17r3},
		},
	})
}
