package rules

import (
	"fmt"
	"go/ast"
	"go/token"
	"go/types"
	"strings"

	"verif/checker/core"
)

// ---- C02.R1 kind coverage of the decoder compiler ----

func c02r1(rc *core.RC) {
	p := rc.P
	fd := p.Func("decoder", "compile")
	if fd == nil {
		rc.Unknown("decoder.compile", token.NoPos, "not found")
		return
	}
	rc.Touch("decoder.compile")
	info := p.Info(fd)
	kss := kindSwitches(info, fd)
	if len(kss) == 0 {
		rc.Unknown("decoder.compile/kind-switch", fd.Pos(), "no kind switch")
		return
	}
	ks := kss[len(kss)-1]
	for _, k := range jsonKinds {
		key := "decoder.compile/kind " + k
		cc := ks.clause[k]
		if cc == nil {
			rc.Bad(key, ks.sw.Pos(), "reflect.%s has no clause: destinations of this kind get the invalid decoder where encoding/json decodes them", k)
			continue
		}
		cn, ok := clauseReturnsCall(info, cc)
		rc.Check(ok && !strings.Contains(cn, "Invalid"), key, cc.Pos(), "routed to %s", cn)
	}
	for _, k := range []string{"Complex64", "Complex128", "Chan", "UnsafePointer"} {
		rc.Check(ks.clause[k] == nil, "decoder.compile/kind "+k, ks.sw.Pos(), "reflect.%s reaches the invalid decoder (encoding/json reports an UnmarshalTypeError)", k)
	}
	// what follows the switch is the invalid decoder
	tail := false
	for _, st := range fd.Body.List {
		if r, ok := st.(*ast.ReturnStmt); ok && len(r.Results) > 0 {
			if c, ok := core.Unparen(r.Results[0]).(*ast.CallExpr); ok && strings.Contains(core.CalleeName(info, c), "newInvalidDecoder") {
				tail = true
			}
		}
	}
	rc.Check(tail, "decoder.compile/default", fd.Pos(), "kinds without a clause fall through to newInvalidDecoder")
}

// ---- C02.R2 null clears nilable destinations ----

func storesThrough(info *types.Info, n ast.Node, dst types.Object) bool {
	found := false
	ast.Inspect(n, func(m ast.Node) bool {
		switch x := m.(type) {
		case *ast.AssignStmt:
			for _, l := range x.Lhs {
				if st, ok := core.Unparen(l).(*ast.StarExpr); ok {
					ast.Inspect(st.X, func(k ast.Node) bool {
						if id, ok := k.(*ast.Ident); ok && info.Uses[id] == dst {
							found = true
						}
						return true
					})
				}
			}
		case *ast.CallExpr:
			if core.CalleeName(info, x) == "decoder.typedmemmove" && len(x.Args) == 3 && core.ObjOf(info, x.Args[1]) == dst {
				found = true
			}
		}
		return true
	})
	return found
}

// nullSites returns the statements that handle the JSON value null in fd: case clauses labelled 'n'
// and if statements testing `x == 'n'`.
func nullSites(info *types.Info, fd *ast.FuncDecl) []ast.Node {
	var out []ast.Node
	ast.Inspect(fd.Body, func(m ast.Node) bool {
		switch x := m.(type) {
		case *ast.CaseClause:
			for _, e := range x.List {
				if v, ok := core.ConstInt(info, e); ok && v == 'n' && len(x.List) == 1 {
					out = append(out, x)
				}
			}
		case *ast.IfStmt:
			if be, ok := core.Unparen(x.Cond).(*ast.BinaryExpr); ok && be.Op == token.EQL {
				if v, ok := core.ConstInt(info, be.Y); ok && v == 'n' {
					out = append(out, x.Body)
				}
			}
		}
		return true
	})
	return out
}

func c02r2(rc *core.RC) {
	p := rc.P
	kinds := decoderKinds(rc)
	nilable := map[string]bool{"Ptr": true, "Map": true, "Slice": true, "Interface": true, "Func": true}
	n := 0
	for dname, ks := range kinds {
		all := len(ks) > 0
		for k := range ks {
			if !nilable[k] {
				all = false
			}
		}
		if !all {
			continue
		}
		for _, m := range []string{"Decode", "DecodeStream"} {
			fd := p.Func("decoder", dname+"."+m)
			if fd == nil {
				continue
			}
			n++
			fn := "decoder.(*" + dname + ")." + m
			rc.Touch(fn)
			info := p.Info(fd)
			var dst types.Object
			for _, f := range fd.Type.Params.List {
				for _, nm := range f.Names {
					if o := info.Defs[nm]; o != nil && o.Type().String() == "unsafe.Pointer" {
						dst = o
					}
				}
			}
			key := fn + "/null-clears-destination"
			check := func(fd2 *ast.FuncDecl, dst2 types.Object) (found, stores bool) {
				i2 := p.Info(fd2)
				for _, ns := range nullSites(i2, fd2) {
					found = true
					if storesThrough(i2, ns, dst2) {
						stores = true
					}
				}
				return
			}
			found, stores := check(fd, dst)
			if !found {
				// the null handling may live in a helper method that receives p
				ast.Inspect(fd.Body, func(x ast.Node) bool {
					call, ok := x.(*ast.CallExpr)
					if !ok {
						return true
					}
					callee := core.Callee(info, call)
					if callee == nil || callee.Pkg() == nil || callee.Pkg().Path() != core.PkgPaths["decoder"] {
						return true
					}
					for ai, a := range call.Args {
						if core.ObjOf(info, a) != dst {
							continue
						}
						cd := p.DeclOf(callee)
						if cd == nil || cd.Body == nil {
							continue
						}
						cinfo := p.Info(cd)
						k := 0
						for _, f := range cd.Type.Params.List {
							for _, nm := range f.Names {
								if k == ai {
									f2, s2 := check(cd, cinfo.Defs[nm])
									found = found || f2
									stores = stores || s2
								}
								k++
							}
						}
					}
					return true
				})
			}
			delegates := false
			if !found {
				// a wrapper that reads no input byte and hands the value to an inner Decoder
				reads := false
				ast.Inspect(fd.Body, func(x ast.Node) bool {
					if c, ok := x.(*ast.CallExpr); ok {
						cn := core.CalleeName(info, c)
						if cn == "decoder.char" || strings.HasPrefix(cn, "decoder.Stream.") {
							reads = true
						}
						if sel, ok := c.Fun.(*ast.SelectorExpr); ok && sel.Sel.Name == m {
							if f := core.FieldOf(info, sel.X); f != nil && strings.HasSuffix(f.Type().String(), "decoder.Decoder") {
								delegates = true
							}
						}
					}
					if ix, ok := x.(*ast.IndexExpr); ok {
						if f := core.FieldOf(info, ix.X); f != nil && f.Name() == "buf" {
							reads = true
						}
					}
					return true
				})
				delegates = delegates && !reads
			}
			switch {
			case delegates:
				rc.OK(key, fd.Pos(), "reads no input byte; the value, null included, is decoded by the inner Decoder")
			case !found:
				rc.Unknown(key, fd.Pos(), "no handling of the value null recognised (neither `case 'n'` nor `== 'n'`)")
			case stores:
				rc.OK(key, fd.Pos(), "the null path stores a nil/zero value through the destination pointer")
			default:
				rc.Bad(key, fd.Pos(), "%s decodes into a %s destination, but its null path returns without storing through the destination: null leaves the previous value in place where encoding/json sets it to nil", dname, strings.Join(keysOf(ks), "/"))
			}
		}
	}
	if n < 8 {
		rc.Unknown("decoder/nilable-decoders", token.NoPos, "found %d Decode/DecodeStream methods of decoders for nilable kinds", n)
	}
}

// ---- C02.R3 option plumbing ----

func c02r3(rc *core.RC) {
	p := rc.P
	// UseNumber: every decoding of a number into an empty interface in stream mode goes through a UseNumber test
	for _, fn := range []string{"interfaceDecoder.numDecoder", "Stream.Token"} {
		fd := p.Func("decoder", fn)
		key := "decoder." + fn + "/UseNumber"
		if fd == nil {
			rc.Unknown(key, token.NoPos, "not found")
			continue
		}
		rc.Touch("decoder." + fn)
		info := p.Info(fd)
		tested := false
		ast.Inspect(fd.Body, func(m ast.Node) bool {
			if ifs, ok := m.(*ast.IfStmt); ok {
				if f := core.FieldOf(info, ifs.Cond); f != nil && f.Name() == "UseNumber" {
					tested = true
				}
			}
			return true
		})
		rc.Check(tested, key, fd.Pos(), "the kind of number stored is chosen by a test of s.UseNumber")
	}
	if fd := p.Func("decoder", "interfaceDecoder.decodeStreamEmptyInterface"); fd != nil {
		info := p.Info(fd)
		var bs *core.ByteSwitch
		ast.Inspect(fd.Body, func(m ast.Node) bool {
			if sw, ok := m.(*ast.SwitchStmt); ok && bs == nil {
				if b, _ := core.EvalByteSwitch(info, sw); b != nil && b.HasLabel('0') {
					bs = b
				}
			}
			return true
		})
		key := "decoder.interfaceDecoder.decodeStreamEmptyInterface/number-clause"
		if bs == nil {
			rc.Unknown(key, fd.Pos(), "number clause not found")
		} else {
			cc := bs.ClauseOf('0')
			viaNum := false
			direct := false
			ast.Inspect(cc, func(m ast.Node) bool {
				if c, ok := m.(*ast.CallExpr); ok {
					if cn := core.CalleeName(info, c); cn == "decoder.interfaceDecoder.numDecoder" {
						viaNum = true
					}
				}
				if sel, ok := m.(*ast.SelectorExpr); ok {
					if f := core.FieldOf(info, sel); f != nil && (f.Name() == "floatDecoder" || f.Name() == "numberDecoder") {
						direct = true
					}
				}
				return true
			})
			rc.Check(viaNum && !direct, key, cc.Pos(), "numbers into interface{} are decoded by the decoder numDecoder selects (not by floatDecoder/numberDecoder directly)")
		}
	}
	// DisallowUnknownFields: the unknown-key branch of structDecoder.DecodeStream tests it before skipping
	fd := p.Func("decoder", "structDecoder.DecodeStream")
	if fd == nil {
		rc.Unknown("decoder.structDecoder.DecodeStream", token.NoPos, "not found")
		return
	}
	rc.Touch("decoder.structDecoder.DecodeStream")
	info := p.Info(fd)
	cf := core.BuildCFG(fd.Body, info)
	// skipValue calls that are not under a `field != nil` branch
	n := 0
	ast.Inspect(fd.Body, func(m ast.Node) bool {
		call, ok := m.(*ast.CallExpr)
		if !ok || core.CalleeName(info, call) != "decoder.Stream.skipValue" {
			return true
		}
		// is it in the else-chain of the `field != nil` test?
		inUnknown := false
		for _, c := range condChainNodes(fd, call) {
			if !c.pos && strings.Contains(core.Src(p.Fset, c.cond), "field != nil") {
				inUnknown = true
			}
		}
		if !inUnknown {
			return true
		}
		n++
		cb, _ := cf.BlockOf(call)
		guarded := false
		ast.Inspect(fd.Body, func(k ast.Node) bool {
			ifs, ok := k.(*ast.IfStmt)
			if !ok {
				return true
			}
			if f := core.FieldOf(info, ifs.Cond); f == nil || f.Name() != "DisallowUnknownFields" {
				return true
			}
			gb, _ := cf.BlockOf(ifs.Cond)
			tb, _ := core.IfEdges(gb)
			if gb != nil && cb != nil && cf.Dominates(gb, cb) && tb != nil && cf.AllPathsReturnError(tb, nil) {
				guarded = true
			}
			return true
		})
		rc.Check(guarded, "decoder.structDecoder.DecodeStream/unknown-key/DisallowUnknownFields", call.Pos(), "the value of a key that matches no field is skipped only after `s.DisallowUnknownFields` was tested with an error exit")
		return true
	})
	if n == 0 {
		rc.Unknown("decoder.structDecoder.DecodeStream/unknown-key", fd.Pos(), "no skipValue call in the unknown-key branch found")
	}
	_ = fmt.Sprint
}
