package rules

import (
	"fmt"
	"go/ast"
	"go/constant"
	"go/token"
	"go/types"
	"strings"

	"golang.org/x/tools/go/ssa"

	"verif/checker/core"
)

// ---- C02.R1 kind coverage of the decoder compiler ----

func c02r1(rc *core.RC) {
	p := rc.P
	fd := p.Func("decoder", "compile")
	if fd == nil {
		rc.Unknown("decoder.compile", token.NoPos, "not found")
		return
	}
	rc.Touch("decoder.compile")
	info := p.Info(fd)
	kss := kindSwitches(info, fd)
	if len(kss) == 0 {
		rc.Unknown("decoder.compile/kind-switch", fd.Pos(), "no kind switch")
		return
	}
	ks := kss[len(kss)-1]
	for _, k := range jsonKinds {
		key := "decoder.compile/kind " + k
		cc := ks.clause[k]
		if cc == nil {
			rc.Bad(key, ks.sw.Pos(), "reflect.%s has no clause: destinations of this kind get the invalid decoder where encoding/json decodes them", k)
			continue
		}
		cn, ok := clauseReturnsCall(info, cc)
		rc.Check(ok && !strings.Contains(cn, "Invalid"), key, cc.Pos(), "routed to %s", cn)
	}
	for _, k := range []string{"Complex64", "Complex128", "Chan", "UnsafePointer"} {
		rc.Check(ks.clause[k] == nil, "decoder.compile/kind "+k, ks.sw.Pos(), "reflect.%s reaches the invalid decoder (encoding/json reports an UnmarshalTypeError)", k)
	}
	// what follows the switch is the invalid decoder
	tail := false
	for _, st := range fd.Body.List {
		if r, ok := st.(*ast.ReturnStmt); ok && len(r.Results) > 0 {
			if c, ok := core.Unparen(r.Results[0]).(*ast.CallExpr); ok && strings.Contains(core.CalleeName(info, c), "newInvalidDecoder") {
				tail = true
			}
		}
	}
	rc.Check(tail, "decoder.compile/default", fd.Pos(), "kinds without a clause fall through to newInvalidDecoder")
}

// ---- C02.R2 null clears nilable destinations ----

func storesThrough(info *types.Info, n ast.Node, dst types.Object) bool {
	found := false
	ast.Inspect(n, func(m ast.Node) bool {
		switch x := m.(type) {
		case *ast.AssignStmt:
			for _, l := range x.Lhs {
				if st, ok := core.Unparen(l).(*ast.StarExpr); ok {
					ast.Inspect(st.X, func(k ast.Node) bool {
						if id, ok := k.(*ast.Ident); ok && info.Uses[id] == dst {
							found = true
						}
						return true
					})
				}
			}
		case *ast.CallExpr:
			if core.CalleeName(info, x) == "decoder.typedmemmove" && len(x.Args) == 3 && core.ObjOf(info, x.Args[1]) == dst {
				found = true
			}
		}
		return true
	})
	return found
}

// nullSites returns the statements that handle the JSON value null in fd: case clauses labelled 'n'
// and if statements testing `x == 'n'`.
func nullSites(info *types.Info, fd *ast.FuncDecl) []ast.Node {
	var out []ast.Node
	ast.Inspect(fd.Body, func(m ast.Node) bool {
		switch x := m.(type) {
		case *ast.CaseClause:
			for _, e := range x.List {
				if v, ok := core.ConstInt(info, e); ok && v == 'n' && len(x.List) == 1 {
					out = append(out, x)
				}
			}
		case *ast.IfStmt:
			if be, ok := core.Unparen(x.Cond).(*ast.BinaryExpr); ok && be.Op == token.EQL {
				if v, ok := core.ConstInt(info, be.Y); ok && v == 'n' {
					out = append(out, x.Body)
				}
			}
		}
		return true
	})
	return out
}

func c02r2(rc *core.RC) {
	p := rc.P
	kinds := decoderKinds(rc)
	// encoding/json (literalStore): null sets an interface, pointer, map or slice to nil and leaves a destination of
	// every other kind as it is. A func can hold nil, but null does not make it nil.
	nilable := map[string]bool{"Ptr": true, "Map": true, "Slice": true, "Interface": true}
	n := 0
	for dname, ks := range kinds {
		all, keeps := len(ks) > 0, len(ks) > 0
		for k := range ks {
			if !nilable[k] {
				all = false
			}
			if k != "Func" {
				keeps = false
			}
		}
		if !all && !keeps {
			continue
		}
		for _, m := range []string{"Decode", "DecodeStream"} {
			fd := p.Func("decoder", dname+"."+m)
			if fd == nil {
				continue
			}
			n++
			fn := "decoder.(*" + dname + ")." + m
			rc.Touch(fn)
			info := p.Info(fd)
			var dst types.Object
			for _, f := range fd.Type.Params.List {
				for _, nm := range f.Names {
					if o := info.Defs[nm]; o != nil && o.Type().String() == "unsafe.Pointer" {
						dst = o
					}
				}
			}
			key := fn + "/null-clears-destination"
			check := func(fd2 *ast.FuncDecl, dst2 types.Object) (found, stores bool) {
				i2 := p.Info(fd2)
				for _, ns := range nullSites(i2, fd2) {
					found = true
					if storesThrough(i2, ns, dst2) {
						stores = true
					}
				}
				return
			}
			found, stores := check(fd, dst)
			if !found {
				// the null handling may live in a helper method that receives p
				ast.Inspect(fd.Body, func(x ast.Node) bool {
					call, ok := x.(*ast.CallExpr)
					if !ok {
						return true
					}
					callee := core.Callee(info, call)
					if callee == nil || callee.Pkg() == nil || callee.Pkg().Path() != core.PkgPaths["decoder"] {
						return true
					}
					for ai, a := range call.Args {
						if core.ObjOf(info, a) != dst {
							continue
						}
						cd := p.DeclOf(callee)
						if cd == nil || cd.Body == nil {
							continue
						}
						cinfo := p.Info(cd)
						k := 0
						for _, f := range cd.Type.Params.List {
							for _, nm := range f.Names {
								if k == ai {
									f2, s2 := check(cd, cinfo.Defs[nm])
									found = found || f2
									stores = stores || s2
								}
								k++
							}
						}
					}
					return true
				})
			}
			delegates := false
			if !found {
				// a wrapper that reads no input byte and hands the value to an inner Decoder
				reads := false
				ast.Inspect(fd.Body, func(x ast.Node) bool {
					if c, ok := x.(*ast.CallExpr); ok {
						cn := core.CalleeName(info, c)
						if cn == "decoder.char" || strings.HasPrefix(cn, "decoder.Stream.") {
							reads = true
						}
						if sel, ok := c.Fun.(*ast.SelectorExpr); ok && sel.Sel.Name == m {
							if f := core.FieldOf(info, sel.X); f != nil && strings.HasSuffix(f.Type().String(), "decoder.Decoder") {
								delegates = true
							}
						}
					}
					if ix, ok := x.(*ast.IndexExpr); ok {
						if f := core.FieldOf(info, ix.X); f != nil && f.Name() == "buf" {
							reads = true
						}
					}
					return true
				})
				delegates = delegates && !reads
			}
			if keeps {
				key = fn + "/null-leaves-destination"
				switch {
				case !found:
					rc.Unknown(key, fd.Pos(), "no handling of the value null recognised (neither `case 'n'` nor `== 'n'`)")
				case stores:
					rc.Bad(key, fd.Pos(), "%s decodes into a func destination and its null path stores through the destination: null makes a func nil where encoding/json leaves it as it is", dname)
				default:
					rc.OK(key, fd.Pos(), "the null path stores nothing: a func keeps its value")
				}
				continue
			}
			switch {
			case delegates:
				rc.OK(key, fd.Pos(), "reads no input byte; the value, null included, is decoded by the inner Decoder")
			case !found:
				rc.Unknown(key, fd.Pos(), "no handling of the value null recognised (neither `case 'n'` nor `== 'n'`)")
			case stores:
				rc.OK(key, fd.Pos(), "the null path stores a nil/zero value through the destination pointer")
			default:
				rc.Bad(key, fd.Pos(), "%s decodes into a %s destination, but its null path returns without storing through the destination: null leaves the previous value in place where encoding/json sets it to nil", dname, strings.Join(keysOf(ks), "/"))
			}
		}
	}
	if n < 8 {
		rc.Unknown("decoder/nilable-decoders", token.NoPos, "found %d Decode/DecodeStream methods of decoders for nilable kinds", n)
	}
}

// ---- C02.R3 option plumbing ----

func c02r3(rc *core.RC) {
	p := rc.P
	// UseNumber: every decoding of a number into an empty interface in stream mode goes through a UseNumber test
	for _, fn := range []string{"interfaceDecoder.numDecoder", "Stream.Token"} {
		fd := p.Func("decoder", fn)
		key := "decoder." + fn + "/UseNumber"
		if fd == nil {
			rc.Unknown(key, token.NoPos, "not found")
			continue
		}
		rc.Touch("decoder." + fn)
		info := p.Info(fd)
		tested := false
		var look func(fd *ast.FuncDecl, info *types.Info, depth int)
		look = func(fd *ast.FuncDecl, info *types.Info, depth int) {
			ast.Inspect(fd.Body, func(m ast.Node) bool {
				switch x := m.(type) {
				case *ast.IfStmt:
					if f := core.FieldOf(info, x.Cond); f != nil && f.Name() == "UseNumber" {
						tested = true
					}
				case *ast.CallExpr:
					// the work may be done by a method of the same receiver (Token hands on to token)
					if depth < 1 {
						if callee := core.Callee(info, x); callee != nil {
							if sig, _ := callee.Type().(*types.Signature); sig != nil && sig.Recv() != nil {
								if d := p.DeclOf(callee); d != nil && d.Body != nil && d.Recv != nil && p.PkgOfDecl(d) == p.PkgOfDecl(fd) {
									look(d, p.Info(d), depth+1)
								}
							}
						}
					}
				}
				return true
			})
		}
		look(fd, info, 0)
		rc.Check(tested, key, fd.Pos(), "the kind of number stored is chosen by a test of s.UseNumber (in the function or in the method of the same package it hands the work to)")
	}
	if fd := p.Func("decoder", "interfaceDecoder.decodeStreamEmptyInterface"); fd != nil {
		info := p.Info(fd)
		var bs *core.ByteSwitch
		ast.Inspect(fd.Body, func(m ast.Node) bool {
			if sw, ok := m.(*ast.SwitchStmt); ok && bs == nil {
				if b, _ := core.EvalByteSwitch(info, sw); b != nil && b.HasLabel('0') {
					bs = b
				}
			}
			return true
		})
		key := "decoder.interfaceDecoder.decodeStreamEmptyInterface/number-clause"
		if bs == nil {
			rc.Unknown(key, fd.Pos(), "number clause not found")
		} else {
			cc := bs.ClauseOf('0')
			viaNum := false
			direct := false
			ast.Inspect(cc, func(m ast.Node) bool {
				if c, ok := m.(*ast.CallExpr); ok {
					if cn := core.CalleeName(info, c); cn == "decoder.interfaceDecoder.numDecoder" {
						viaNum = true
					}
				}
				if sel, ok := m.(*ast.SelectorExpr); ok {
					if f := core.FieldOf(info, sel); f != nil && (f.Name() == "floatDecoder" || f.Name() == "numberDecoder") {
						direct = true
					}
				}
				return true
			})
			rc.Check(viaNum && !direct, key, cc.Pos(), "numbers into interface{} are decoded by the decoder numDecoder selects (not by floatDecoder/numberDecoder directly)")
		}
	}
	// DisallowUnknownFields: the unknown-key branch of structDecoder.DecodeStream tests it before skipping
	fd := p.Func("decoder", "structDecoder.DecodeStream")
	if fd == nil {
		rc.Unknown("decoder.structDecoder.DecodeStream", token.NoPos, "not found")
		return
	}
	rc.Touch("decoder.structDecoder.DecodeStream")
	info := p.Info(fd)
	cf := core.BuildCFG(fd.Body, info)
	// skipValue calls that are not under a `field != nil` branch
	n := 0
	ast.Inspect(fd.Body, func(m ast.Node) bool {
		call, ok := m.(*ast.CallExpr)
		if !ok || core.CalleeName(info, call) != "decoder.Stream.skipValue" {
			return true
		}
		// is it in the else-chain of the `field != nil` test?
		inUnknown := false
		for _, c := range condChainNodes(fd, call) {
			// the test of the looked-up field set against nil, whatever the variable is called
			be, isCmp := core.Unparen(c.cond).(*ast.BinaryExpr)
			if !isCmp || (be.Op != token.NEQ && be.Op != token.EQL) {
				continue
			}
			var other ast.Expr
			if id, ok := core.Unparen(be.Y).(*ast.Ident); ok && id.Name == "nil" {
				other = be.X
			} else if id, ok := core.Unparen(be.X).(*ast.Ident); ok && id.Name == "nil" {
				other = be.Y
			}
			if other == nil {
				continue
			}
			if t := info.TypeOf(other); t == nil || !strings.HasSuffix(t.String(), "decoder.structFieldSet") {
				continue
			}
			if (be.Op == token.NEQ && !c.pos) || (be.Op == token.EQL && c.pos) {
				inUnknown = true
			}
		}
		if !inUnknown {
			return true
		}
		n++
		cb, _ := cf.BlockOf(call)
		guarded := false
		ast.Inspect(fd.Body, func(k ast.Node) bool {
			ifs, ok := k.(*ast.IfStmt)
			if !ok {
				return true
			}
			gcond, flip := stripNot(ifs.Cond)
			if f := core.FieldOf(info, gcond); f == nil || f.Name() != "DisallowUnknownFields" {
				return true
			}
			gb, _ := cf.BlockOf(ifs.Cond)
			tb, fb := core.IfEdges(gb)
			if flip {
				tb = fb
			}
			if gb != nil && cb != nil && cf.Dominates(gb, cb) && tb != nil && cf.AllPathsReturnError(tb, nil) {
				guarded = true
			}
			return true
		})
		rc.Check(guarded, "decoder.structDecoder.DecodeStream/unknown-key/DisallowUnknownFields", call.Pos(), "the value of a key that matches no field is skipped only after `s.DisallowUnknownFields` was tested with an error exit")
		return true
	})
	if n == 0 {
		rc.Unknown("decoder.structDecoder.DecodeStream/unknown-key", fd.Pos(), "no skipValue call in the unknown-key branch found")
	}
	_ = fmt.Sprint
}

// ---- C02.R4 pooled element slots are initialised before the element decoder sees them ----

func callsPoolGet(p *core.Program, fd *ast.FuncDecl) bool {
	if fd == nil || fd.Body == nil {
		return false
	}
	info := p.Info(fd)
	found := false
	ast.Inspect(fd.Body, func(n ast.Node) bool {
		if c, ok := n.(*ast.CallExpr); ok && core.CalleeName(info, c) == "sync.Pool.Get" {
			found = true
		}
		return true
	})
	return found
}

// geZero normalises a comparison to a linear form E with the meaning E >= 0.
func geZero(le *core.LinearEval, e ast.Expr) core.Linear {
	e = core.Unparen(e)
	switch x := e.(type) {
	case *ast.UnaryExpr:
		if x.Op == token.NOT {
			in := geZero(le, x.X)
			if !in.OK {
				return in
			}
			return core.LinConst(-1).Sub(in)
		}
	case *ast.BinaryExpr:
		l, r := le.Eval(x.X), le.Eval(x.Y)
		switch x.Op {
		case token.LEQ:
			return r.Sub(l)
		case token.LSS:
			return r.Sub(l).Sub(core.LinConst(1))
		case token.GEQ:
			return l.Sub(r)
		case token.GTR:
			return l.Sub(r).Sub(core.LinConst(1))
		}
	}
	return core.Linear{}
}

func c02r4(rc *core.RC) {
	p := rc.P
	n := 0
	for _, fd := range p.Funcs("decoder") {
		if fd.Body == nil {
			continue
		}
		info := p.Info(fd)
		// slice := <call whose callee takes memory from a sync.Pool>
		pooled := map[types.Object]bool{}
		ast.Inspect(fd.Body, func(m ast.Node) bool {
			as, ok := m.(*ast.AssignStmt)
			if !ok || len(as.Lhs) != 1 || len(as.Rhs) != 1 {
				return true
			}
			c, ok := core.Unparen(as.Rhs[0]).(*ast.CallExpr)
			if !ok {
				return true
			}
			if callee := core.Callee(info, c); callee != nil && callsPoolGet(p, p.DeclOf(callee)) {
				if o := core.ObjOf(info, as.Lhs[0]); o != nil {
					pooled[o] = true
				}
			}
			return true
		})
		if len(pooled) == 0 || callsPoolGet(p, fd) {
			continue
		}
		fn := p.FuncName(fd)
		rc.Touch(fn)
		// variables read from the pooled header
		fromField := func(field string) map[types.Object]bool {
			out := map[types.Object]bool{}
			ast.Inspect(fd.Body, func(m ast.Node) bool {
				as, ok := m.(*ast.AssignStmt)
				if !ok || len(as.Lhs) != len(as.Rhs) {
					return true
				}
				for i, r := range as.Rhs {
					if sel, ok := core.Unparen(r).(*ast.SelectorExpr); ok && sel.Sel.Name == field && pooled[core.ObjOf(info, sel.X)] {
						if o := core.ObjOf(info, as.Lhs[i]); o != nil {
							out[o] = true
						}
					}
				}
				return true
			})
			return out
		}
		lens, datas := fromField("len"), fromField("data")
		if len(lens) != 1 || len(datas) == 0 {
			rc.Unknown(fn+"/pooled-slots", fd.Pos(), "the copies of the pooled header's len (%d) and data (%d) fields were not recognised", len(lens), len(datas))
			continue
		}
		var srcLen types.Object
		for o := range lens {
			srcLen = o
		}
		// element pointers: ep := unsafe.Pointer(uintptr(data) + uintptr(idx)*size)
		type slot struct {
			ep, idx types.Object
			def     *ast.AssignStmt
		}
		var slots []slot
		ast.Inspect(fd.Body, func(m ast.Node) bool {
			as, ok := m.(*ast.AssignStmt)
			if !ok || len(as.Lhs) != 1 || len(as.Rhs) != 1 {
				return true
			}
			usesData := false
			var idx types.Object
			ast.Inspect(as.Rhs[0], func(k ast.Node) bool {
				if id, ok := k.(*ast.Ident); ok {
					o := info.Uses[id]
					if datas[o] {
						usesData = true
					}
					if v, ok := o.(*types.Var); ok && !v.IsField() && v.Pkg() != nil && v.Parent() != v.Pkg().Scope() {
						if b, ok := v.Type().Underlying().(*types.Basic); ok && b.Info()&types.IsInteger != 0 && b.Kind() != types.Uintptr {
							idx = o
						}
					}
				}
				return true
			})
			if usesData && idx != nil {
				if o := core.ObjOf(info, as.Lhs[0]); o != nil && o.Type().String() == "unsafe.Pointer" {
					slots = append(slots, slot{o, idx, as})
				}
			}
			return true
		})
		cf := core.BuildCFG(fd.Body, info)
		le := &core.LinearEval{Info: info}
		for _, sl := range slots {
			// the element decoder calls that receive ep
			ast.Inspect(fd.Body, func(m ast.Node) bool {
				call, ok := m.(*ast.CallExpr)
				if !ok {
					return true
				}
				sel, ok := call.Fun.(*ast.SelectorExpr)
				if !ok || (sel.Sel.Name != "Decode" && sel.Sel.Name != "DecodeStream") {
					return true
				}
				has := false
				for _, a := range call.Args {
					if core.ObjOf(info, a) == sl.ep {
						has = true
					}
				}
				if !has {
					return true
				}
				n++
				key := fn + "/pooled-slot " + sl.ep.Name() + " → " + sel.Sel.Name
				cb, _ := cf.BlockOf(call)
				want := map[string]int64{sl.idx.Name(): 1, srcLen.Name(): -1}
				verdict, why := "", ""
				ast.Inspect(fd.Body, func(k ast.Node) bool {
					ifs, ok := k.(*ast.IfStmt)
					if !ok || verdict == "ok" {
						return true
					}
					if !storesThrough(info, ifs.Body, sl.ep) && !storesThroughAddr(info, ifs.Body, sl.ep) && !definitelyStores(rc, info, ifs.Body, sl.ep, 0) {
						return true
					}
					gb, _ := cf.BlockOf(ifs.Cond)
					if gb == nil || cb == nil || !cf.Dominates(gb, cb) || !(sl.def.Pos() < ifs.Pos() && ifs.End() < call.Pos()) {
						return true
					}
					g := geZero(le, ifs.Cond)
					exact := g.OK && g.Const == 0
					if exact {
						for k2, c := range g.Terms {
							if c != want[k2] {
								exact = false
							}
						}
						for k2, c := range want {
							if g.Terms[k2] != c {
								exact = false
							}
						}
					}
					if !exact {
						verdict, why = "bad", fmt.Sprintf("the slot is cleared under `%s`, which is not equivalent to `%s <= %s`: a slot at or past the caller's length that the guard skips still holds what an earlier call left in the pooled array", core.Src(p.Fset, ifs.Cond), srcLen.Name(), sl.idx.Name())
						return true
					}
					// every path through the body stores (a helper that receives the slot is followed)
					definitely := func(st ast.Stmt) bool { return definitelyStores(rc, info, st, sl.ep, 0) }
					all := definitely(ifs.Body)
					if all {
						verdict = "ok"
					} else {
						verdict, why = "bad", "a branch of the clearing statement does not store through the slot"
					}
					return true
				})
				switch verdict {
				case "ok":
					rc.OK(key, call.Pos(), "every slot at index >= %s is cleared (guard ≡ %s <= %s) before the element decoder receives it", srcLen.Name(), srcLen.Name(), sl.idx.Name())
				case "bad":
					rc.Bad(key, call.Pos(), "%s", why)
				default:
					rc.Bad(key, call.Pos(), "no statement between the slot computation and the element decoder clears the slot: elements are decoded over whatever an earlier call left in the pooled array")
				}
				return true
			})
		}
	}
	if n < 2 {
		rc.Unknown("decoder/pooled-slots", token.NoPos, "found %d element-decoder calls on pooled slots", n)
	}
}

// storesThroughAddr recognises `**(**unsafe.Pointer)(unsafe.Pointer(&ep)) = …`, a store through ep written via its address.
func storesThroughAddr(info *types.Info, n ast.Node, dst types.Object) bool {
	found := false
	ast.Inspect(n, func(m ast.Node) bool {
		as, ok := m.(*ast.AssignStmt)
		if !ok {
			return true
		}
		for _, l := range as.Lhs {
			if st, ok := core.Unparen(l).(*ast.StarExpr); ok {
				ast.Inspect(st.X, func(k ast.Node) bool {
					if u, ok := k.(*ast.UnaryExpr); ok && u.Op == token.AND && core.ObjOf(info, u.X) == dst {
						found = true
					}
					return true
				})
			}
		}
		return true
	})
	return found
}

// ---- C04.R4 an empty token is stored; only the nil token (null) is skipped ----

// The scanners hand back nil for null and an empty non-nil slice for "" (or the empty number
// text). A Decode method that leaves without storing must do so for the nil token only: the
// encoder writes "" for an empty non-nil []byte/string and null for nil, so skipping the store
// for an empty token turns an empty value into whatever the destination held (nil for a fresh one).
func c04r4(rc *core.RC) {
	p := rc.P
	n := 0
	for _, fd := range p.Funcs("decoder") {
		if fd.Recv == nil || fd.Body == nil || (fd.Name.Name != "Decode" && fd.Name.Name != "DecodeStream") {
			continue
		}
		info := p.Info(fd)
		// []byte locals assigned from a call (the token)
		tokens := map[types.Object]bool{}
		ast.Inspect(fd.Body, func(m ast.Node) bool {
			as, ok := m.(*ast.AssignStmt)
			if !ok || len(as.Rhs) != 1 {
				return true
			}
			if _, isCall := core.Unparen(as.Rhs[0]).(*ast.CallExpr); !isCall {
				return true
			}
			for _, l := range as.Lhs {
				if o := core.ObjOf(info, l); o != nil && o.Type().String() == "[]byte" {
					tokens[o] = true
				}
			}
			return true
		})
		if len(tokens) == 0 {
			continue
		}
		fn := p.FuncName(fd)
		for _, st := range fd.Body.List {
			ifs, ok := st.(*ast.IfStmt)
			if !ok {
				continue
			}
			// body returns success
			succ := false
			for _, b := range ifs.Body.List {
				if r, ok := b.(*ast.ReturnStmt); ok && len(r.Results) > 0 && core.IsNilIdent(info, r.Results[len(r.Results)-1]) {
					succ = true
				}
			}
			if !succ {
				continue
			}
			// which token does the condition test, and how
			var tok types.Object
			nilCmp, lenCmp := false, false
			ast.Inspect(ifs.Cond, func(k ast.Node) bool {
				switch x := k.(type) {
				case *ast.BinaryExpr:
					if o := core.ObjOf(info, x.X); o != nil && tokens[o] && core.IsNilIdent(info, x.Y) && x.Op == token.EQL {
						tok, nilCmp = o, true
					}
				case *ast.CallExpr:
					if core.IsBuiltin(info, x, "len") && len(x.Args) == 1 {
						if o := core.ObjOf(info, x.Args[0]); o != nil && tokens[o] {
							tok, lenCmp = o, true
						}
					}
				}
				return true
			})
			if tok == nil {
				continue
			}
			n++
			rc.Touch(fn)
			key := fn + "/skip-store only-for-nil " + tok.Name()
			if lenCmp {
				rc.Bad(key, ifs.Pos(), "the method returns without storing when `%s`: that is also true for the empty token of \"\", so an empty value is not stored (a fresh destination stays nil where the encoder wrote an empty non-nil value)", core.Src(p.Fset, ifs.Cond))
			} else if nilCmp {
				rc.OK(key, ifs.Pos(), "the store is skipped for the nil token (null) only")
			}
		}
	}
	if n < 6 {
		rc.Unknown("decoder/token-nil-tests", token.NoPos, "found %d early returns on a scanned token", n)
	}
}

// definitelyStores: every path through st stores through the pointer variable dst; a call that
// passes dst to a module function is followed into that function (two levels).
func definitelyStores(rc *core.RC, info *types.Info, st ast.Stmt, dst types.Object, depth int) bool {
	switch x := st.(type) {
	case *ast.BlockStmt:
		for _, y := range x.List {
			if definitelyStores(rc, info, y, dst, depth) {
				return true
			}
		}
		return false
	case *ast.IfStmt:
		return x.Else != nil && definitelyStores(rc, info, x.Body, dst, depth) && definitelyStores(rc, info, x.Else, dst, depth)
	case *ast.ForStmt, *ast.RangeStmt, *ast.SwitchStmt:
		return false
	case *ast.ExprStmt:
		call, ok := x.X.(*ast.CallExpr)
		if !ok || depth >= 2 {
			break
		}
		callee := core.Callee(info, call)
		if callee == nil || callee.Pkg() == nil || !strings.HasPrefix(callee.Pkg().Path(), core.ModPath) {
			break
		}
		cd := rc.P.DeclOf(callee)
		if cd == nil || cd.Body == nil {
			break
		}
		cinfo := rc.P.Info(cd)
		k := 0
		for _, f := range cd.Type.Params.List {
			for _, nm := range f.Names {
				if k < len(call.Args) && core.ObjOf(info, call.Args[k]) == dst {
					if definitelyStores(rc, cinfo, cd.Body, cinfo.Defs[nm], depth+1) {
						return true
					}
				}
				k++
			}
		}
	}
	return storesThrough(info, st, dst) || storesThroughAddr(info, st, dst)
}

// ---- C02.R5 the ,string option applies to scalars and to one pointer in front of a scalar ----

func c02r5(rc *core.RC) {
	p := rc.P
	fd := p.Func("decoder", "isStringTagSupportedType")
	key := "decoder.isStringTagSupportedType"
	if fd == nil {
		rc.Unknown(key, token.NoPos, "not found")
		return
	}
	rc.Touch(key)
	info := p.Info(fd)
	// typ is replaced by typ.Elem() under a Ptr test before the kind switch
	through := false
	ast.Inspect(fd.Body, func(m ast.Node) bool {
		ifs, ok := m.(*ast.IfStmt)
		if !ok || !strings.Contains(core.Src(p.Fset, ifs.Cond), "reflect.Ptr") {
			return true
		}
		ast.Inspect(ifs.Body, func(k ast.Node) bool {
			if as, ok := k.(*ast.AssignStmt); ok && len(as.Rhs) == 1 && strings.HasSuffix(core.Src(p.Fset, as.Rhs[0]), ".Elem()") {
				through = true
			}
			return true
		})
		return true
	})
	rc.Check(through, key+"/one-pointer-level", fd.Pos(), "the kind is taken after looking through one pointer (encoding/json quotes *int, not *struct)")
	kss := kindSwitches(info, fd)
	if len(kss) == 0 {
		rc.Unknown(key+"/kind-switch", fd.Pos(), "kind switch not found")
		return
	}
	ks := kss[len(kss)-1]
	for _, k := range []string{"Map", "Slice", "Array", "Struct", "Interface", "Ptr"} {
		cc := ks.clause[k]
		no := false
		if cc != nil {
			for _, st := range cc.Body {
				if r, ok := st.(*ast.ReturnStmt); ok && len(r.Results) == 1 {
					if v := core.ConstValue(info, r.Results[0]); v != nil && v.String() == "false" {
						no = true
					}
				}
			}
		}
		rc.Check(no, key+"/kind "+k, fd.Pos(), "fields of kind %s (after one pointer) do not take the ,string option: their value is not expected as a quoted text", k)
	}
}

// ---- C02.R6 a token reader that reports null as a nil slice has that case tested by its callers ----

// The byte-level readers of the scalar decoders (decodeByte / decodeStreamByte of the int, uint,
// float, number, string and bytes decoders) return the token text, and nil for the literal null.
// encoding/json leaves a scalar destination unchanged for null; a caller that goes on to parse the
// nil slice fails (strconv on "") or stores a zero value. Every caller of such a reader must test the
// result against nil.
func c02r6(rc *core.RC) {
	p := rc.P
	// readers: decoder functions whose first result is []byte and that have a success return with a nil first result
	readers := map[*types.Func]bool{}
	for _, fd := range p.Funcs("decoder") {
		if fd.Body == nil || fd.Type.Results == nil || len(fd.Type.Results.List) < 2 {
			continue
		}
		info := p.Info(fd)
		fo, _ := info.Defs[fd.Name].(*types.Func)
		if fo == nil {
			continue
		}
		sig := fo.Type().(*types.Signature)
		if sl, ok := sig.Results().At(0).Type().(*types.Slice); !ok || !isByte(sl.Elem()) {
			continue
		}
		if !core.IsErrorType(sig.Results().At(sig.Results().Len() - 1).Type()) {
			continue
		}
		nullRet := false
		ast.Inspect(fd.Body, func(m ast.Node) bool {
			if _, isLit := m.(*ast.FuncLit); isLit {
				return false
			}
			if r, ok := m.(*ast.ReturnStmt); ok && len(r.Results) == sig.Results().Len() {
				if core.IsNilIdent(info, r.Results[0]) && core.IsNilIdent(info, r.Results[len(r.Results)-1]) {
					nullRet = true
				}
			}
			return true
		})
		if nullRet {
			readers[fo] = true
		}
	}
	if len(readers) < 8 {
		rc.Unknown("decoder/null-reporting-readers", token.NoPos, "found %d token readers that return nil for null (12 confirmed)", len(readers))
	}
	n := 0
	for _, fd := range p.Funcs("decoder") {
		if fd.Body == nil {
			continue
		}
		info := p.Info(fd)
		fn := p.FuncName(fd)
		k := 0
		ast.Inspect(fd.Body, func(m ast.Node) bool {
			as, ok := m.(*ast.AssignStmt)
			if !ok || len(as.Rhs) != 1 || len(as.Lhs) < 2 {
				return true
			}
			call, ok := core.Unparen(as.Rhs[0]).(*ast.CallExpr)
			if !ok {
				return true
			}
			callee := core.Callee(info, call)
			if callee == nil || !readers[callee] {
				return true
			}
			obj := core.ObjOf(info, as.Lhs[0])
			if obj == nil {
				return true
			}
			n++
			k++
			rc.CallSites++
			rc.Touch(fn)
			key := fmt.Sprintf("%s/token#%d null-tested (%s)", fn, k, callee.Name())
			// the function is itself a reader that passes the token on unchanged: its callers are checked
			passes := false
			tested := false
			ast.Inspect(fd.Body, func(x ast.Node) bool {
				switch y := x.(type) {
				case *ast.BinaryExpr:
					if y.Op == token.EQL || y.Op == token.NEQ {
						if (core.ObjOf(info, y.X) == obj && core.IsNilIdent(info, y.Y)) || (core.ObjOf(info, y.Y) == obj && core.IsNilIdent(info, y.X)) {
							tested = true
						}
					}
				case *ast.ReturnStmt:
					if len(y.Results) > 0 && core.ObjOf(info, y.Results[0]) == obj {
						if fo, _ := info.Defs[fd.Name].(*types.Func); fo != nil && readers[fo] {
							passes = true
						}
					}
				}
				return true
			})
			quoteFirst := false
			if path := core.PathTo(fd.Body, as); len(path) >= 2 {
				if blk, isBlock := path[len(path)-2].(*ast.BlockStmt); isBlock {
					for _, st := range blk.List {
						if st == ast.Stmt(as) {
							break
						}
						ifs, isIf := st.(*ast.IfStmt)
						if !isIf || len(ifs.Body.List) == 0 {
							continue
						}
						if _, rets := ifs.Body.List[len(ifs.Body.List)-1].(*ast.ReturnStmt); !rets {
							continue
						}
						be, isBin := core.Unparen(ifs.Cond).(*ast.BinaryExpr)
						if !isBin || be.Op != token.NEQ {
							continue
						}
						ix, isIndex := core.Unparen(be.X).(*ast.IndexExpr)
						if v, isConst := core.ConstInt(info, be.Y); !isIndex || !isConst || v != '"' {
							continue
						}
						for _, a := range call.Args {
							if o := core.ObjOf(info, a); o != nil && o == core.ObjOf(info, ix.Index) {
								quoteFirst = true
							}
						}
					}
				}
			}
			switch {
			case quoteFirst:
				rc.OK(key, call.Pos(), "the call is made only when the byte at the cursor is a quote: the reader cannot meet null")
			case tested:
				rc.OK(key, call.Pos(), "the token is compared with nil")
			case passes:
				rc.OK(key, call.Pos(), "the token is handed on unchanged by a function that is itself such a reader")
			default:
				rc.Bad(key, call.Pos(), "%s returns nil for the literal null, and this caller never compares the token with nil: null is parsed as if it were text", callee.Name())
			}
			return true
		})
	}
	if n < 15 {
		rc.Unknown("decoder/token-reader-calls", token.NoPos, "found %d calls of null-reporting token readers (20 confirmed)", n)
	}
}

func isByte(t types.Type) bool {
	b, ok := t.Underlying().(*types.Basic)
	return ok && b.Kind() == types.Uint8
}

// ---- C02.R7 a float32 destination is parsed at 32 bits ----

// strconv.ParseFloat(s, 64) followed by float32(v) turns 1e39 into +Inf without an error;
// encoding/json parses with the destination's bit size and reports the range error. The float
// decoder must hand ParseFloat a bit size taken from the decoder value, and the decoder compiled
// for float32 must carry 32.
func c02r7(rc *core.RC) {
	p := rc.P
	// (1) ParseFloat in floatDecoder methods
	n := 0
	for _, fd := range p.Funcs("decoder") {
		if fd.Body == nil || fd.Recv == nil || !strings.Contains(core.RecvString(fd.Recv.List[0].Type), "floatDecoder") {
			continue
		}
		info := p.Info(fd)
		fn := p.FuncName(fd)
		k := 0
		ast.Inspect(fd.Body, func(m ast.Node) bool {
			c, ok := m.(*ast.CallExpr)
			if !ok || core.CalleeName(info, c) != "strconv.ParseFloat" || len(c.Args) != 2 {
				return true
			}
			n++
			k++
			rc.Touch(fn)
			key := fmt.Sprintf("%s/ParseFloat#%d bit-size-from-decoder", fn, k)
			_, isConst := core.ConstInt(info, c.Args[1])
			fromRecv := false
			ast.Inspect(c.Args[1], func(x ast.Node) bool {
				if id, isIdent := x.(*ast.Ident); isIdent && len(fd.Recv.List[0].Names) == 1 && core.ObjOf(info, id) == info.Defs[fd.Recv.List[0].Names[0]] {
					fromRecv = true
				}
				return true
			})
			rc.Check(!isConst && fromRecv, key, c.Pos(), "the bit size handed to ParseFloat (%s) comes from the decoder value, not a constant", core.Src(p.Fset, c.Args[1]))
			return true
		})
	}
	if n < 2 {
		rc.Unknown("decoder.floatDecoder/ParseFloat", token.NoPos, "found %d ParseFloat calls in floatDecoder (2 confirmed)", n)
	}
	// (2) the float32 constructor marks its decoder
	fd := p.Func("decoder", "compileFloat32")
	key := "decoder.compileFloat32/float32-decoder-is-32-bit"
	if fd == nil {
		rc.Unknown(key, token.NoPos, "not found")
		return
	}
	rc.Touch("decoder.compileFloat32")
	info := p.Info(fd)
	marks := false
	ast.Inspect(fd.Body, func(m ast.Node) bool {
		switch x := m.(type) {
		case *ast.AssignStmt:
			for i, l := range x.Lhs {
				if f := core.FieldOf(info, l); f != nil && f.Name() == "bitSize" && i < len(x.Rhs) {
					if v, ok := core.ConstInt(info, x.Rhs[i]); ok && v == 32 {
						marks = true
					}
				}
			}
		case *ast.KeyValueExpr:
			if id, ok := x.Key.(*ast.Ident); ok && id.Name == "bitSize" {
				if v, ok := core.ConstInt(info, x.Value); ok && v == 32 {
					marks = true
				}
			}
		case *ast.CallExpr:
			// a constructor that takes the bit size
			for _, a := range x.Args {
				if v, ok := core.ConstInt(info, a); ok && v == 32 {
					if tv, has := info.Types[a]; has {
						if b, isBasic := tv.Type.Underlying().(*types.Basic); isBasic && b.Info()&types.IsInteger != 0 {
							marks = true
						}
					}
				}
			}
		}
		return true
	})
	rc.Check(marks, key, fd.Pos(), "the decoder built for float32 is given the bit size 32")
}

// ---- C02.R8 "cannot set embedded pointer to unexported struct" is raised only when the pointer is nil ----

// encoding/json refuses to allocate an embedded pointer to an unexported struct type; when the
// destination already holds such a pointer, its fields are set through it. The struct decoder keeps
// the refusal as structFieldSet.err; it may return it only under a test that the pointer at the
// field's offset is nil.
func c02r8(rc *core.RC) {
	p := rc.P
	n := 0
	for _, fd := range p.Funcs("decoder") {
		if fd.Body == nil {
			continue
		}
		info := p.Info(fd)
		fn := p.FuncName(fd)
		k := 0
		ast.Inspect(fd.Body, func(m ast.Node) bool {
			r, ok := m.(*ast.ReturnStmt)
			if !ok || len(r.Results) == 0 {
				return true
			}
			last := r.Results[len(r.Results)-1]
			if f := core.FieldOf(info, last); f == nil || f.Name() != "err" || !strings.HasSuffix(f.Pkg().Path(), "internal/decoder") {
				return true
			}
			n++
			k++
			rc.Touch(fn)
			key := fmt.Sprintf("%s/field-err#%d only-for-nil-pointer", fn, k)
			guarded := false
			for _, c := range condChainNodes(fd, r) {
				// positive branch: a conjunct `*(…offset…) == nil`; negative branch: a disjunct `*(…offset…) != nil`
				parts, want := conjuncts(c.cond), token.EQL
				if !c.pos {
					parts, want = disjuncts(c.cond), token.NEQ
				}
				for _, part := range parts {
					be, isBin := core.Unparen(part).(*ast.BinaryExpr)
					if !isBin || be.Op != want || !core.IsNilIdent(info, be.Y) {
						continue
					}
					// *(*unsafe.Pointer)(… field.offset …)
					if st, isStar := core.Unparen(be.X).(*ast.StarExpr); isStar {
						ast.Inspect(st, func(y ast.Node) bool {
							if e, isExpr := y.(ast.Expr); isExpr {
								if f := core.FieldOf(info, e); f != nil && f.Name() == "offset" {
									guarded = true
								}
							}
							return true
						})
					}
				}
			}
			rc.Check(guarded, key, r.Pos(), "the refusal to set an embedded pointer to an unexported struct is returned only under a test that the pointer at the field's offset is nil")
			return true
		})
	}
	if n < 2 {
		rc.Unknown("decoder/field-err-returns", token.NoPos, "found %d returns of structFieldSet.err (2 confirmed)", n)
	}
}

// ---- C02.R9 a json.Number keeps numbers beyond the float64 range ----

// mentionsErrRange reports whether e (or, one level down, the body of a module function it calls) refers to strconv.ErrRange.
func mentionsErrRange(p *core.Program, info *types.Info, e ast.Node, depth int) bool {
	found := false
	ast.Inspect(e, func(m ast.Node) bool {
		switch x := m.(type) {
		case *ast.SelectorExpr:
			if o := info.Uses[x.Sel]; o != nil && o.Pkg() != nil && o.Pkg().Path() == "strconv" && o.Name() == "ErrRange" {
				found = true
			}
		case *ast.CallExpr:
			if depth > 0 {
				if f := core.Callee(info, x); f != nil {
					if fd := p.DeclOf(f); fd != nil && fd.Body != nil && mentionsErrRange(p, p.Info(fd), fd.Body, depth-1) {
						found = true
					}
				}
			}
		}
		return !found
	})
	return found
}

// The decoder for json.Number stores the text of the number. encoding/json checks that text against the number grammar
// only; a conversion whose *range* error makes the decode fail rejects valid documents (1e400).
func c02r9(rc *core.RC) {
	p := rc.P
	n := 0
	for _, fd := range p.Funcs("decoder") {
		if fd.Body == nil || fd.Recv == nil || !strings.Contains(core.RecvString(fd.Recv.List[0].Type), "numberDecoder") {
			continue
		}
		if fd.Name.Name != "Decode" && fd.Name.Name != "DecodeStream" {
			continue
		}
		n++
		info := p.Info(fd)
		fn := p.FuncName(fd)
		rc.Touch(fn)
		k := 0
		ast.Inspect(fd.Body, func(m ast.Node) bool {
			ifs, ok := m.(*ast.IfStmt)
			if !ok || ifs.Init == nil {
				return true
			}
			isParse := false
			ast.Inspect(ifs.Init, func(x ast.Node) bool {
				if c, isCall := x.(*ast.CallExpr); isCall && core.CalleeName(info, c) == "strconv.ParseFloat" {
					isParse = true
				}
				return true
			})
			if !isParse {
				return true
			}
			k++
			key := fmt.Sprintf("%s/ParseFloat#%d range-error-is-not-a-failure", fn, k)
			// does the branch fail the decode?
			fails := false
			for _, st := range ifs.Body.List {
				if r, isRet := st.(*ast.ReturnStmt); isRet && core.ReturnIsError(info, r) {
					fails = true
				}
			}
			if !fails {
				rc.OK(key, ifs.Pos(), "the conversion's error does not fail the decode")
				return true
			}
			// every conjunct list: one conjunct must exclude the range error
			excl := false
			var walk func(e ast.Expr)
			walk = func(e ast.Expr) {
				e = core.Unparen(e)
				if b, isBin := e.(*ast.BinaryExpr); isBin && b.Op == token.LAND {
					walk(b.X)
					walk(b.Y)
					return
				}
				if u, isNot := e.(*ast.UnaryExpr); isNot && u.Op == token.NOT && mentionsErrRange(p, info, u.X, 1) {
					excl = true
				}
				if b, isBin := e.(*ast.BinaryExpr); isBin && b.Op == token.NEQ && mentionsErrRange(p, info, b, 0) {
					excl = true
				}
			}
			walk(ifs.Cond)
			if excl {
				rc.OK(key, ifs.Pos(), "the failing branch is taken only for errors other than strconv.ErrRange (%s)", core.Src(p.Fset, ifs.Cond))
			} else {
				rc.Bad(key, ifs.Pos(), "a json.Number destination fails on every ParseFloat error (%s), also a range error: Unmarshal(`{\"N\":1e400}`) into struct{N json.Number} is an error where encoding/json stores the text 1e400", core.Src(p.Fset, ifs.Cond))
			}
			return true
		})
		if k == 0 {
			rc.OK(fn+"/no-conversion", fd.Pos(), "the number text is not converted at all (the grammar check is C05.R2)")
		}
	}
	if n < 2 {
		rc.Unknown("decoder.numberDecoder/methods", token.NoPos, "found %d of Decode/DecodeStream on numberDecoder", n)
	}
}

// ---- C02.R10 a map value is decoded into a fresh zero value ----

// encoding/json decodes every map value into a new zero element and then stores it under the key: a key that is
// already in the map (a prefilled destination, a duplicate key in the object) is REPLACED, never merged. The map
// decoder therefore has to hand its value decoder memory that comes from unsafe_New, not the element slot the runtime
// returns for the key (mapassign), where the old element lives.
func c02r10(rc *core.RC) {
	p := rc.P
	of := core.NewOriginFinder(p)
	n := 0
	for _, fn := range p.ModuleFuncs() {
		if fn.Pkg == nil || fn.Pkg.Pkg.Path() != core.PkgPaths["decoder"] || fn.Signature.Recv() == nil || !strings.HasSuffix(fn.Signature.Recv().Type().String(), "mapDecoder") {
			continue
		}
		if fn.Name() != "Decode" && fn.Name() != "DecodeStream" {
			continue
		}
		k := 0
		for _, b := range fn.Blocks {
			for _, ins := range b.Instrs {
				c, ok := ins.(*ssa.Call)
				if !ok || !c.Call.IsInvoke() || (c.Call.Method.Name() != "Decode" && c.Call.Method.Name() != "DecodeStream") {
					continue
				}
				// which decoder: d.valueDecoder or d.keyDecoder
				role := ""
				if u, isLoad := c.Call.Value.(*ssa.UnOp); isLoad {
					if fa, isFA := u.X.(*ssa.FieldAddr); isFA {
						role = core.FieldNameOf(fa)
					}
				}
				if !strings.HasSuffix(role, "valueDecoder") && !strings.HasSuffix(role, "keyDecoder") {
					continue
				}
				n++
				k++
				rc.Touch(core.SSAName(fn))
				dst := c.Call.Args[len(c.Call.Args)-1]
				var bad []string
				fresh := false
				for _, o := range of.Origins(dst) {
					if o.Kind == "call" && strings.HasSuffix(o.Name, "unsafe_New") {
						fresh = true
						continue
					}
					if o.Kind == "const" {
						continue
					}
					bad = append(bad, o.String())
				}
				what := "value"
				if strings.HasSuffix(role, "keyDecoder") {
					what = "key"
				}
				key := fmt.Sprintf("%s/%s-destination#%d fresh-zero-value", core.SSAName(fn), what, k)
				rc.Check(fresh && len(bad) == 0, key, core.SSAPos(c), "the map %s is decoded into memory from unsafe_New%s", what, func() string {
					if len(bad) == 0 {
						return ""
					}
					return " — but also into " + strings.Join(bad, ", ") + ": when the key is already in the map its old element is what the decoder starts from, so {\"k\":7,\"k\":null} into map[string]int keeps 7 and a struct element keeps the fields the new value does not mention (encoding/json replaces the element)"
				}())
			}
		}
	}
	if n < 4 {
		rc.Unknown("decoder.mapDecoder/element-decodes", token.NoPos, "found %d key/value decode calls in mapDecoder.Decode and DecodeStream (confirmed: 4)", n)
	}
}

// ---- C02.R10b interfaces without methods are told apart by their method count ----

// An interface destination with methods can only take a value through the Unmarshaler it already holds; a
// destination of a method-less interface type takes any document, like interface{}. There are many method-less
// interface types (`type Any interface{}` is a type of its own): the interface decoder has to ask for the number of
// methods, not compare the type with interface{}.
func c02r11(rc *core.RC) {
	p := rc.P
	n := 0
	for _, name := range []string{"interfaceDecoder.Decode", "interfaceDecoder.DecodeStream"} {
		fd := p.Func("decoder", name)
		key := "decoder." + name + "/method-less-interfaces-by-method-count"
		if fd == nil || fd.Body == nil {
			rc.Unknown(key, token.NoPos, "function not found")
			continue
		}
		info := p.Info(fd)
		rc.Touch(p.FuncName(fd))
		n++
		// the branch that hands the document to a held Unmarshaler
		byCount, byIdentity := false, ""
		ast.Inspect(fd.Body, func(m ast.Node) bool {
			ifs, ok := m.(*ast.IfStmt)
			if !ok {
				return true
			}
			callsUnmarshaler := false
			ast.Inspect(ifs.Body, func(k ast.Node) bool {
				if c, isCall := k.(*ast.CallExpr); isCall && strings.Contains(core.CalleeName(info, c), "nmarshaler") {
					callsUnmarshaler = true
				}
				return true
			})
			if !callsUnmarshaler {
				return true
			}
			for _, cj := range conjuncts(ifs.Cond) {
				be, isBin := core.Unparen(cj).(*ast.BinaryExpr)
				if !isBin {
					continue
				}
				if c, isCall := core.Unparen(be.X).(*ast.CallExpr); isCall {
					if sel, isSel := core.Unparen(c.Fun).(*ast.SelectorExpr); isSel && sel.Sel.Name == "NumMethod" {
						byCount = true
					}
				}
				if (be.Op == token.NEQ || be.Op == token.EQL) && (strings.Contains(core.Src(p.Fset, be.Y), "emptyInterfaceType") || strings.Contains(core.Src(p.Fset, be.X), "emptyInterfaceType")) {
					byIdentity = core.Src(p.Fset, cj)
				}
			}
			return true
		})
		switch {
		case byCount:
			rc.OK(key, fd.Pos(), "the branch for interfaces with methods is taken on NumMethod() > 0")
		case byIdentity != "":
			rc.Bad(key, fd.Pos(), "the branch for interfaces with methods is taken on `%s`: a named interface type without methods (type Any interface{}) is not interface{} and is refused every document, where encoding/json decodes into it as into interface{}", byIdentity)
		default:
			rc.Unknown(key, fd.Pos(), "no test of the destination's method count found in front of the Unmarshaler branch")
		}
	}
	if n < 2 {
		rc.Unknown("decoder/interface-decoder", token.NoPos, "found %d of the two interface decoder methods", n)
	}
}

// ---- C02.R12 null is taken by the decoder of the kinds that cannot be decoded ----

// For a destination of a kind encoding/json cannot decode (chan, complex, unsafe.Pointer) every JSON value is an
// UnmarshalTypeError except null, which is no value and leaves any destination as it is. invalidDecoder is what
// compile returns for those kinds (C02.R1): its Decode and DecodeStream have to test for the literal before they
// answer with the error.
func c02r12(rc *core.RC) {
	p := rc.P
	n := 0
	for _, m := range []string{"Decode", "DecodeStream"} {
		fd := p.Func("decoder", "invalidDecoder."+m)
		if fd == nil || fd.Body == nil {
			rc.Unknown("decoder.invalidDecoder."+m, token.NoPos, "method not found")
			continue
		}
		n++
		info := p.Info(fd)
		fn := "decoder.(*invalidDecoder)." + m
		rc.Touch(fn)
		sites := nullSites(info, fd)
		ok := false
		for _, s := range sites {
			// the branch ends without the type error: it returns the result of the null reader or a cursor
			ast.Inspect(s, func(x ast.Node) bool {
				if r, isRet := x.(*ast.ReturnStmt); isRet {
					last := r.Results[len(r.Results)-1]
					if tv, has := info.Types[last]; has && tv.IsNil() {
						ok = true
					}
					if c, isCall := core.Unparen(last).(*ast.CallExpr); isCall && core.CalleeName(info, c) == "decoder.nullBytes" {
						ok = true
					}
				}
				return true
			})
		}
		rc.Check(ok, fn+"/null-accepted", fd.Pos(), "the decoder of the kinds that cannot be decoded tests for the literal null and returns without an error for it (null leaves a chan, complex or unsafe.Pointer member as it is in encoding/json; every other value is the type error)")
	}
	if n < 2 {
		rc.Unknown("decoder.invalidDecoder/methods", token.NoPos, "found %d of Decode/DecodeStream", n)
	}
}

// ---- C02.R13 what null does to a TextUnmarshaler destination is decided by the destination's own kind ----

// encoding/json sets a destination of pointer, map, slice or interface kind to its zero value for null and leaves
// every other destination as it is, also when the destination's type implements TextUnmarshaler. The text decoder is
// built for the pointer type that implements the interface (every constructor call passes runtime.PtrTo(T)), so the
// kind to look at is that of typ.Elem(). The kind of typ itself is always Ptr: a switch on it clears every
// destination (`{"Level":null}` turned a struct-kind level {n:3} into {n:0}). Obligations: every call of
// newUnmarshalTextDecoder passes runtime.PtrTo(…); the switch over the four clearing kinds in the decoder's methods
// switches on <typ>.Elem().Kind(), directly, through a local, or through a field the constructor fills with it.
func c02r13(rc *core.RC) {
	p := rc.P
	pk := p.Pkg("decoder")
	if pk == nil {
		rc.Unknown("decoder", token.NoPos, "package not found")
		return
	}
	info := pk.TypesInfo
	ctor := p.FuncObj("decoder", "newUnmarshalTextDecoder")
	ctorDecl := p.Func("decoder", "newUnmarshalTextDecoder")
	if ctor == nil || ctorDecl == nil {
		rc.Unknown("decoder.newUnmarshalTextDecoder", token.NoPos, "constructor not found")
		return
	}
	nCalls := 0
	for _, fd := range p.Funcs("decoder") {
		if fd.Body == nil {
			continue
		}
		name := p.FuncName(fd)
		k := 0
		ast.Inspect(fd.Body, func(m ast.Node) bool {
			c, ok := m.(*ast.CallExpr)
			if !ok || core.Callee(info, c) != ctor || len(c.Args) == 0 {
				return true
			}
			k++
			nCalls++
			rc.Touch(name)
			arg, isCall := core.Unparen(c.Args[0]).(*ast.CallExpr)
			rc.Check(isCall && core.CalleeName(info, arg) == "runtime.PtrTo", fmt.Sprintf("%s/text-decoder#%d built-for-the-pointer-type", name, k), c.Pos(), "newUnmarshalTextDecoder is handed %s: the decoder is written for the pointer type that implements TextUnmarshaler (runtime.PtrTo(T)), its destination being typ.Elem()", core.Src(p.Fset, c.Args[0]))
			return true
		})
	}
	// what the constructor stores in each field
	fieldInit := map[string]ast.Expr{}
	ast.Inspect(ctorDecl.Body, func(m ast.Node) bool {
		if kv, ok := m.(*ast.KeyValueExpr); ok {
			if id, ok := kv.Key.(*ast.Ident); ok {
				fieldInit[id.Name] = kv.Value
			}
		}
		return true
	})
	isElemKind := func(fd *ast.FuncDecl, e ast.Expr) bool {
		for i := 0; i < 4; i++ {
			e = core.Unparen(core.ResolveSingleDef(info, fd.Body, e))
			// a field of the receiver: what the constructor put there
			if sel, ok := e.(*ast.SelectorExpr); ok {
				if f := core.FieldOf(info, sel); f != nil {
					if init, has := fieldInit[f.Name()]; has && !strings.HasSuffix(f.Type().String(), "runtime.Type") {
						e = init
						fd = ctorDecl
						continue
					}
				}
			}
			break
		}
		// X.Kind() with X = <something>.Elem()
		c, ok := e.(*ast.CallExpr)
		if !ok {
			return false
		}
		sel, ok := c.Fun.(*ast.SelectorExpr)
		if !ok || sel.Sel.Name != "Kind" {
			return false
		}
		x := core.Unparen(core.ResolveSingleDef(info, fd.Body, sel.X))
		xc, ok := x.(*ast.CallExpr)
		if !ok {
			return false
		}
		xs, ok := xc.Fun.(*ast.SelectorExpr)
		return ok && xs.Sel.Name == "Elem"
	}
	nSw := 0
	for _, fd := range p.Funcs("decoder") {
		if fd.Body == nil || fd.Recv == nil {
			continue
		}
		fn, _ := info.Defs[fd.Name].(*types.Func)
		if fn == nil || !strings.HasSuffix(fn.Type().(*types.Signature).Recv().Type().String(), "decoder.unmarshalTextDecoder") {
			continue
		}
		name := p.FuncName(fd)
		ast.Inspect(fd.Body, func(m ast.Node) bool {
			sw, ok := m.(*ast.SwitchStmt)
			if !ok || sw.Tag == nil {
				return true
			}
			kinds := map[string]bool{}
			ast.Inspect(sw.Body, func(k ast.Node) bool {
				if cc, ok := k.(*ast.CaseClause); ok {
					for _, e := range cc.List {
						if s, ok := core.Unparen(e).(*ast.SelectorExpr); ok {
							kinds[s.Sel.Name] = true
						}
					}
				}
				return true
			})
			if !(kinds["Ptr"] && kinds["Map"] && kinds["Slice"] && kinds["Interface"]) {
				return true
			}
			nSw++
			rc.Touch(name)
			rc.Check(isElemKind(fd, sw.Tag), name+"/null-clears-by-the-destination's-kind", sw.Pos(), "the switch over the kinds that null clears looks at %s: it has to be the kind of the destination, typ.Elem().Kind() (the kind of the decoder's own type is always Ptr, and null would clear every destination whose type implements TextUnmarshaler)", core.Src(p.Fset, sw.Tag))
			return true
		})
	}
	if nCalls < 3 || nSw < 1 {
		rc.Unknown("decoder.unmarshalTextDecoder/anchors", token.NoPos, "found %d constructor calls and %d switches over the clearing kinds (confirmed: 4 and 1)", nCalls, nSw)
	}
}

// ---- C02.R14 only the text of a string reaches UnmarshalText ----

// encoding/json calls UnmarshalText for a JSON string and answers every other value (array, object, number, true,
// false) with an UnmarshalTypeError; null is handled apart. The four functions of the decoder that call the method
// (the typed text decoder and the one for a value held by an interface, buffer and stream) capture the value's text
// and look at its first byte. Obligation: in front of the call the first byte is dispatched so that each of
// '[' '{' '-' '0'…'9' 't' 'f' leaves with an error, either in a switch over text[0] whose clauses return, or through a
// helper with such a switch whose non-empty answer returns (`if name := nonStringValue(src); name != "" { return … }`).
func c02r14(rc *core.RC) {
	p := rc.P
	pk := p.Pkg("decoder")
	if pk == nil {
		rc.Unknown("decoder", token.NoPos, "package not found")
		return
	}
	info := pk.TypesInfo
	required := []byte("[{-0123456789tf")
	// the bytes for which a switch over x[0] has a clause that ends in a return (returnsValue: any return)
	covered := func(fi *types.Info, body ast.Node, before token.Pos, needNonEmpty bool) map[byte]bool {
		out := map[byte]bool{}
		ast.Inspect(body, func(m ast.Node) bool {
			sw, ok := m.(*ast.SwitchStmt)
			if !ok || sw.Tag == nil || (before.IsValid() && sw.Pos() > before) {
				return true
			}
			ix, ok := core.Unparen(sw.Tag).(*ast.IndexExpr)
			if !ok {
				return true
			}
			if v, isC := core.ConstInt(fi, ix.Index); !isC || v != 0 {
				return true
			}
			for _, c := range sw.Body.List {
				cc := c.(*ast.CaseClause)
				if len(cc.Body) == 0 {
					continue
				}
				ret, isRet := cc.Body[len(cc.Body)-1].(*ast.ReturnStmt)
				if !isRet {
					continue
				}
				if needNonEmpty {
					// the helper's answer: a non-empty string constant
					if len(ret.Results) != 1 {
						continue
					}
					tv, has := fi.Types[ret.Results[0]]
					if !has || tv.Value == nil || tv.Value.Kind() != constant.String || constant.StringVal(tv.Value) == "" {
						continue
					}
				}
				for _, e := range cc.List {
					if v, isC := core.ConstInt(fi, e); isC && v >= 0 && v < 256 {
						out[byte(v)] = true
					}
				}
			}
			return true
		})
		return out
	}
	n := 0
	for _, fd := range p.Funcs("decoder") {
		if fd.Body == nil {
			continue
		}
		var call *ast.CallExpr
		ast.Inspect(fd.Body, func(m ast.Node) bool {
			if c, ok := m.(*ast.CallExpr); ok {
				if sel, ok := c.Fun.(*ast.SelectorExpr); ok && sel.Sel.Name == "UnmarshalText" && len(c.Args) == 1 {
					call = c
				}
			}
			return true
		})
		if call == nil {
			continue
		}
		n++
		name := p.FuncName(fd)
		rc.Touch(name)
		cov := covered(info, fd.Body, call.Pos(), false)
		// through a helper: if name := H(src); name != "" { return … }
		ast.Inspect(fd.Body, func(m ast.Node) bool {
			ifs, ok := m.(*ast.IfStmt)
			if !ok || ifs.Init == nil || ifs.Pos() > call.Pos() || len(ifs.Body.List) == 0 {
				return true
			}
			if _, isRet := ifs.Body.List[len(ifs.Body.List)-1].(*ast.ReturnStmt); !isRet {
				return true
			}
			as, ok := ifs.Init.(*ast.AssignStmt)
			if !ok || len(as.Rhs) != 1 {
				return true
			}
			hc, ok := core.Unparen(as.Rhs[0]).(*ast.CallExpr)
			if !ok {
				return true
			}
			be, ok := core.Unparen(ifs.Cond).(*ast.BinaryExpr)
			if !ok || be.Op != token.NEQ {
				return true
			}
			if tv, has := info.Types[be.Y]; !has || tv.Value == nil || tv.Value.Kind() != constant.String || constant.StringVal(tv.Value) != "" {
				return true
			}
			if f := core.Callee(info, hc); f != nil {
				if d := p.DeclOf(f); d != nil && d.Body != nil {
					for b := range covered(p.Info(d), d.Body, token.NoPos, true) {
						cov[b] = true
					}
				}
			}
			return true
		})
		var missing []byte
		for _, b := range required {
			if !cov[b] {
				missing = append(missing, b)
			}
		}
		rc.Check(len(missing) == 0, name+"/non-strings-leave-before-UnmarshalText", call.Pos(), "in front of the call of UnmarshalText the first byte of the value is dispatched so that arrays, objects, numbers and the literals true and false leave with an error; values that begin with %q reach the method with their text (encoding/json answers them with an UnmarshalTypeError)", string(missing))
	}
	if n < 4 {
		rc.Unknown("decoder/UnmarshalText-callers", token.NoPos, "found %d functions that call UnmarshalText (confirmed: 4)", n)
	}
}

// ---- C02.R15 a map key of string kind is decoded as its text ----

// encoding/json stores the text of an object key into a map key of string kind as it is, whatever the named type:
// json.Number keys are not parsed as numbers. compileMapKey answers the string kind with the plain string decoder.
// The general constructor for the kind (compileString) returns the number decoder for json.Number, which refuses
// every key that is not a number. Obligation: the branch of compileMapKey for reflect.String returns newStringDecoder
// (a call of another constructor is followed one level: it must not be able to return a number decoder).
func c02r15(rc *core.RC) {
	p := rc.P
	fd := p.Func("decoder", "compileMapKey")
	if fd == nil || fd.Body == nil {
		rc.Unknown("decoder.compileMapKey", token.NoPos, "function not found")
		return
	}
	info := p.Info(fd)
	rc.Touch("decoder.compileMapKey")
	n := 0
	ast.Inspect(fd.Body, func(m ast.Node) bool {
		ifs, ok := m.(*ast.IfStmt)
		if !ok {
			return true
		}
		be, ok := core.Unparen(ifs.Cond).(*ast.BinaryExpr)
		if !ok || be.Op != token.EQL {
			return true
		}
		sel, ok := core.Unparen(be.Y).(*ast.SelectorExpr)
		if !ok || sel.Sel.Name != "String" {
			return true
		}
		for _, st := range ifs.Body.List {
			ret, ok := st.(*ast.ReturnStmt)
			if !ok || len(ret.Results) == 0 {
				continue
			}
			c, ok := core.Unparen(ret.Results[0]).(*ast.CallExpr)
			if !ok {
				continue
			}
			n++
			cn := core.CalleeName(info, c)
			good := cn == "decoder.newStringDecoder"
			why := cn
			if !good {
				if f := core.Callee(info, c); f != nil {
					if d := p.DeclOf(f); d != nil && d.Body != nil {
						number := false
						ast.Inspect(d.Body, func(k ast.Node) bool {
							if c2, ok := k.(*ast.CallExpr); ok && core.CalleeName(p.Info(d), c2) == "decoder.newNumberDecoder" {
								number = true
							}
							return true
						})
						good = !number
						if number {
							why = cn + ", which can return the number decoder (for json.Number)"
						}
					}
				}
			}
			rc.Check(good, "decoder.compileMapKey/string-kind-key-is-its-text", ret.Pos(), "a map key of string kind is decoded by %s: the key's text has to be stored as it is (encoding/json does not parse a json.Number key; `{\"abc\":1}` into map[json.Number]int is no error)", why)
		}
		return true
	})
	if n < 1 {
		rc.Unknown("decoder.compileMapKey/string-kind-branch", fd.Pos(), "no branch for reflect.String that returns a decoder found")
	}
}

// ---- C02.R16 the bit a field gets in the key bitmaps follows the order of the texts the bitmaps are filled with ----

// The bitmap key decoders take, among the fields whose bits are left, the one on the lowest bit, and give up when the
// key that was read is shorter than that field's name. A name that is the beginning of another name therefore needs
// the lower bit: the bit positions have to follow the byte order of exactly the texts whose bytes index the bitmap
// rows (the lower-cased names). Sorted by another text (the names as declared: "ID2" sorts in front of "Id"), the
// longer name gets the lower bit and the shorter field is never found. Obligation, for every loop of tryOptimize
// that fills a bitmap (`bitmap[j][c] |= 1 << i` with i the index of a range over S): c is the byte j of the range
// value itself, not of something looked up for it, and S is put in order by sort.Strings(S) in front of the loop; or
// S is ordered by sort.Slice with a comparison of the same expression that indexes the bitmap.
func c02r16(rc *core.RC) {
	p := rc.P
	fd := p.Func("decoder", "structDecoder.tryOptimize")
	if fd == nil || fd.Body == nil {
		rc.Unknown("decoder.(*structDecoder).tryOptimize/bit-order", token.NoPos, "tryOptimize not found")
		return
	}
	rc.Touch(p.FuncName(fd))
	info := p.Info(fd)
	// how S was sorted
	type sorted struct {
		byStrings bool
		lessText  string // for sort.Slice: the compared expression with the element written as $
	}
	sorts := map[types.Object]sorted{}
	ast.Inspect(fd.Body, func(m ast.Node) bool {
		call, ok := m.(*ast.CallExpr)
		if !ok || len(call.Args) == 0 {
			return true
		}
		obj := core.ObjOf(info, call.Args[0])
		if obj == nil {
			return true
		}
		switch core.CalleeName(info, call) {
		case "sort.Strings":
			sorts[obj] = sorted{byStrings: true}
		case "sort.Slice", "sort.SliceStable":
			if len(call.Args) == 2 {
				if fl, isLit := core.Unparen(call.Args[1]).(*ast.FuncLit); isLit && len(fl.Body.List) == 1 {
					if r, isRet := fl.Body.List[0].(*ast.ReturnStmt); isRet && len(r.Results) == 1 {
						if be, isB := core.Unparen(r.Results[0]).(*ast.BinaryExpr); isB && be.Op == token.LSS {
							txt := types.ExprString(be.X)
							// S[i] -> $
							if len(fl.Type.Params.List) > 0 && len(fl.Type.Params.List[0].Names) > 0 {
								txt = strings.ReplaceAll(txt, obj.Name()+"["+fl.Type.Params.List[0].Names[0].Name+"]", "$")
							}
							sorts[obj] = sorted{lessText: txt}
						}
					}
				}
			}
		}
		return true
	})
	n := 0
	ast.Inspect(fd.Body, func(m ast.Node) bool {
		rs, ok := m.(*ast.RangeStmt)
		if !ok || rs.Key == nil || rs.Value == nil {
			return true
		}
		coll := core.ObjOf(info, rs.X)
		idx, val := core.ObjOf(info, rs.Key), core.ObjOf(info, rs.Value)
		if coll == nil || idx == nil || val == nil {
			return true
		}
		// bitmap[j][c] |= 1 << uint(i)
		var store *ast.AssignStmt
		ast.Inspect(rs.Body, func(q ast.Node) bool {
			as, isAs := q.(*ast.AssignStmt)
			if !isAs || as.Tok != token.OR_ASSIGN || len(as.Lhs) != 1 {
				return true
			}
			usesIdx := false
			ast.Inspect(as.Rhs[0], func(z ast.Node) bool {
				if id, isID := z.(*ast.Ident); isID && info.Uses[id] == idx {
					usesIdx = true
				}
				return true
			})
			if usesIdx {
				store = as
			}
			return true
		})
		if store == nil {
			return true
		}
		n++
		key := fmt.Sprintf("decoder.(*structDecoder).tryOptimize/bitmap-fill#%d bit-order-is-the-order-of-the-bitmap-texts", n)
		ix, isIx := core.Unparen(store.Lhs[0]).(*ast.IndexExpr)
		if !isIx {
			rc.Unknown(key, store.Pos(), "the bitmap store %s was not recognised", core.Src(p.Fset, store.Lhs[0]))
			return true
		}
		col := core.Unparen(ix.Index)
		if id, isID := col.(*ast.Ident); isID {
			if def := singleDef(info, rs.Body, info.Uses[id]); def != nil {
				col = core.Unparen(def)
			}
		}
		// the text whose byte j indexes the row: X in X[j], with the element written as $
		bitmapText := ""
		if cix, isC := col.(*ast.IndexExpr); isC {
			bitmapText = strings.ReplaceAll(types.ExprString(cix.X), val.Name(), "$")
			if _, nested := core.Unparen(cix.Index).(*ast.IndexExpr); nested {
				// table[ X[j] ]: the byte is looked up for another one
				inner := core.Unparen(cix.Index).(*ast.IndexExpr)
				bitmapText = types.ExprString(cix.X) + "[" + strings.ReplaceAll(types.ExprString(inner.X), val.Name(), "$") + "[j]]"
			}
		}
		so, has := sorts[coll]
		switch {
		case !has:
			rc.Bad(key, rs.Pos(), "the fields get their bits in the order of %s, which is not sorted in tryOptimize: a name that is the beginning of another name has to get the lower bit", types.ExprString(rs.X))
		case so.byStrings && bitmapText == "$":
			rc.OK(key, rs.Pos(), "the bits follow sort.Strings of the texts whose bytes index the bitmap")
		case !so.byStrings && so.lessText != "" && so.lessText == bitmapText:
			rc.OK(key, rs.Pos(), "the bits follow the order of %s, the text whose bytes index the bitmap", bitmapText)
		default:
			order := "sort.Strings of the elements"
			if !so.byStrings {
				order = "the order of " + so.lessText
			}
			rc.Bad(key, rs.Pos(), "the bits follow %s, the rows of the bitmap are indexed by the bytes of %s: with names that differ in case (\"Id\", \"ID2\") the longer name gets the lower bit, the key decoders give up on it for the shorter key, and the field \"Id\" is never found", order, bitmapText)
		}
		return true
	})
	if n < 2 {
		rc.Unknown("decoder.(*structDecoder).tryOptimize/bit-order", fd.Pos(), "found %d loops that fill a key bitmap, fewer than the 2 confirmed by hand", n)
	}
}
