package rules

import (
	"fmt"
	"go/ast"
	"go/token"
	"go/types"
	"golang.org/x/tools/go/cfg"
	"strings"

	"verif/checker/core"
)

type cacheSite struct {
	pkg, fn, cache string
}

var cacheSites = []cacheSite{
	{"encoder", "CompileToGetCodeSet", "cachedOpcodeSets"},
	{"decoder", "CompileToGetDecoder", "cachedDecoder"},
}

// isLockStmt: x.Lock() / Unlock() / RLock() / RUnlock() on a sync mutex.
func isLockStmt(info *types.Info, s ast.Stmt) bool {
	es, ok := s.(*ast.ExprStmt)
	if !ok {
		return false
	}
	call, ok := es.X.(*ast.CallExpr)
	if !ok {
		return false
	}
	f := core.Callee(info, call)
	if f == nil || f.Pkg() == nil || f.Pkg().Path() != "sync" {
		return false
	}
	switch f.Name() {
	case "Lock", "Unlock", "RLock", "RUnlock":
		return true
	}
	return false
}

// fieldNameOf returns the field name of a selector x.f (typeAddr.MaxTypeAddr) or "".
func fieldNameOf(info *types.Info, e ast.Expr) string {
	if v := core.FieldOf(info, e); v != nil {
		return v.Name()
	}
	return ""
}

func c14r1(rc *core.RC) {
	p := rc.P
	for _, cs := range cacheSites {
		fd := p.Func(cs.pkg, cs.fn)
		fn := cs.pkg + "." + cs.fn
		if fd == nil {
			rc.Unknown(fn, token.NoPos, "cache entry point not found")
			continue
		}
		rc.Touch(fn)
		info := p.Info(fd)
		cacheObj := p.Pkg(cs.pkg).Types.Scope().Lookup(cs.cache)
		cf := core.BuildCFG(fd.Body, info)
		// all guards: if-statements whose then branch always returns
		type guard struct {
			ifs *ast.IfStmt
			cmp []*ast.BinaryExpr
		}
		var guards []guard
		ast.Inspect(fd.Body, func(n ast.Node) bool {
			ifs, ok := n.(*ast.IfStmt)
			if !ok || len(ifs.Body.List) == 0 {
				return true
			}
			if _, ok := ifs.Body.List[len(ifs.Body.List)-1].(*ast.ReturnStmt); !ok {
				return true
			}
			g := guard{ifs: ifs}
			for _, d := range disjuncts(ifs.Cond) {
				if be, ok := d.(*ast.BinaryExpr); ok {
					g.cmp = append(g.cmp, be)
				}
			}
			guards = append(guards, g)
			return true
		})
		n := 0
		ast.Inspect(fd.Body, func(x ast.Node) bool {
			ix, ok := x.(*ast.IndexExpr)
			if !ok || core.ObjOf(info, ix.X) != cacheObj {
				return true
			}
			n++
			rc.CallSites++
			key := fmt.Sprintf("%s/index %s", fn, cs.cache)
			// the indexed variable -> its defining expression -> the address variable
			idxObj := core.ObjOf(info, ix.Index)
			var addr types.Object
			ast.Inspect(fd.Body, func(m ast.Node) bool {
				as, ok := m.(*ast.AssignStmt)
				if !ok || len(as.Lhs) != 1 || core.ObjOf(info, as.Lhs[0]) != idxObj || idxObj == nil {
					return true
				}
				ast.Inspect(as.Rhs[0], func(k ast.Node) bool {
					if be, ok := k.(*ast.BinaryExpr); ok && be.Op == token.SUB && fieldNameOf(info, be.Y) == "BaseTypeAddr" {
						addr = core.ObjOf(info, be.X)
					}
					return true
				})
				return true
			})
			if addr == nil {
				rc.Unknown(key, ix.Pos(), "index expression is not of the form (addr - typeAddr.BaseTypeAddr) >> shift")
				return true
			}
			ub, _ := cf.BlockOf(ix)
			upper, lower := false, false
			for _, g := range guards {
				gb, _ := cf.BlockOf(g.ifs.Cond)
				if gb == nil || ub == nil || !cf.Dominates(gb, ub) {
					continue
				}
				for _, be := range g.cmp {
					x, y, op := be.X, be.Y, be.Op
					if core.ObjOf(info, y) == addr { // constant on the left: flip
						x, y = y, x
						switch op {
						case token.LSS:
							op = token.GTR
						case token.GTR:
							op = token.LSS
						case token.LEQ:
							op = token.GEQ
						case token.GEQ:
							op = token.LEQ
						}
					}
					if core.ObjOf(info, x) != addr {
						continue
					}
					switch fieldNameOf(info, y) {
					case "MaxTypeAddr":
						if op == token.GTR {
							upper = true
						}
					case "BaseTypeAddr":
						if op == token.LSS {
							lower = true
						}
					}
				}
			}
			switch {
			case upper && lower:
				rc.OK(key, ix.Pos(), "dominated by `%s > MaxTypeAddr` and `%s < BaseTypeAddr` exits", addr.Name(), addr.Name())
			case !lower:
				rc.Bad(key, ix.Pos(), "the cache is indexed with (%s - BaseTypeAddr) >> shift but no dominating test sends %s < BaseTypeAddr to the slow path: a type descriptor below the base (run-time created types in a PIE build) makes the unsigned subtraction wrap and the index panic", addr.Name(), addr.Name())
			default:
				rc.Bad(key, ix.Pos(), "no dominating test sends %s > MaxTypeAddr to the slow path: index out of range for types above the analysed range", addr.Name())
			}
			return true
		})
		if n < 2 {
			rc.Unknown(fn+"/index-sites", fd.Pos(), "expected a lookup and a store into %s, found %d index expressions", cs.cache, n)
		}
	}
}

func c14r2(rc *core.RC) {
	p := rc.P
	for _, cs := range cacheSites {
		fd := p.Func(cs.pkg, cs.fn)
		fn := cs.pkg + "." + cs.fn
		if fd == nil {
			rc.Unknown(fn, token.NoPos, "cache entry point not found")
			continue
		}
		info := p.Info(fd)
		cacheObj := p.Pkg(cs.pkg).Types.Scope().Lookup(cs.cache)
		idx := map[types.Object]bool{}
		var idxExprs []*ast.IndexExpr
		ast.Inspect(fd.Body, func(x ast.Node) bool {
			if ix, ok := x.(*ast.IndexExpr); ok && core.ObjOf(info, ix.X) == cacheObj {
				idxExprs = append(idxExprs, ix)
				if o := core.ObjOf(info, ix.Index); o != nil {
					idx[o] = true
				} else {
					idx[nil] = true
				}
			}
			return true
		})
		rc.Check(len(idx) == 1 && !idx[nil], fn+"/same-index", fd.Pos(), "lookup and store index %s with the same variable (%d distinct index expressions)", cs.cache, len(idx))
		// index variable assigned exactly once
		for o := range idx {
			if o == nil {
				continue
			}
			n := 0
			ast.Inspect(fd.Body, func(m ast.Node) bool {
				if as, ok := m.(*ast.AssignStmt); ok {
					for _, l := range as.Lhs {
						if core.ObjOf(info, l) == o {
							n++
						}
					}
				}
				if inc, ok := m.(*ast.IncDecStmt); ok && core.ObjOf(info, inc.X) == o {
					n += 2
				}
				return true
			})
			rc.Check(n == 1, fn+"/index-assigned-once", fd.Pos(), "the index variable %s is assigned %d time(s)", o.Name(), n)
		}
		// the value stored is the result of compiling the same type: store `cache[index] = v` where v comes from a call taking the parameter
		params := map[types.Object]bool{}
		for _, f := range fd.Type.Params.List {
			for _, nm := range f.Names {
				params[info.Defs[nm]] = true
			}
		}
		derivesFromParam := func(e ast.Expr) bool {
			ok := false
			ast.Inspect(e, func(n ast.Node) bool {
				if id, isId := n.(*ast.Ident); isId && params[info.Uses[id]] {
					ok = true
				}
				return true
			})
			return ok
		}
		// typeptr := uintptr(unsafe.Pointer(typ)) makes typeptr a derived parameter
		ast.Inspect(fd.Body, func(m ast.Node) bool {
			if as, ok := m.(*ast.AssignStmt); ok && len(as.Lhs) == 1 && len(as.Rhs) == 1 && derivesFromParam(as.Rhs[0]) {
				if _, isCall := core.Unparen(as.Rhs[0]).(*ast.CallExpr); isCall {
					if c := as.Rhs[0].(*ast.CallExpr); len(c.Args) == 1 {
						if tv := info.Types[c.Fun]; tv.IsType() {
							params[core.ObjOf(info, as.Lhs[0])] = true
						}
					}
				}
			}
			return true
		})
		ast.Inspect(fd.Body, func(m ast.Node) bool {
			as, ok := m.(*ast.AssignStmt)
			if !ok || len(as.Lhs) != 1 || len(as.Rhs) != 1 {
				return true
			}
			ix, ok := core.Unparen(as.Lhs[0]).(*ast.IndexExpr)
			if !ok || core.ObjOf(info, ix.X) != cacheObj {
				return true
			}
			stored := core.ObjOf(info, as.Rhs[0])
			key := fn + "/stored-value"
			if stored == nil {
				rc.Unknown(key, as.Pos(), "stored value is not a variable")
				return true
			}
			// every assignment to the stored variable must be a compile call on this function's type argument
			good := false
			what := ""
			nAssign := 0
			ast.Inspect(fd.Body, func(k ast.Node) bool {
				if d, ok := k.(*ast.AssignStmt); ok {
					for _, l := range d.Lhs {
						if core.ObjOf(info, l) == stored {
							nAssign++
						}
					}
				}
				return true
			})
			ast.Inspect(fd.Body, func(k ast.Node) bool {
				d, ok := k.(*ast.AssignStmt)
				if !ok || len(d.Rhs) != 1 {
					return true
				}
				for _, l := range d.Lhs {
					if core.ObjOf(info, l) == stored {
						if c, ok := core.Unparen(d.Rhs[0]).(*ast.CallExpr); ok {
							what = core.Src(p.Fset, c)
							args := false
							for _, a := range c.Args {
								if params[core.ObjOf(info, a)] {
									args = true
								}
							}
							cn := core.Src(p.Fset, c.Fun)
							if args && strings.Contains(strings.ToLower(cn), "compile") {
								good = true
							}
						}
					}
				}
				return true
			})
			if nAssign != 1 {
				rc.Bad(key, as.Pos(), "the variable stored in the cache slot is assigned %d times: besides the compile call it receives another value (for example the program filtered for this call's field query), so what is cached depends on more than the type", nAssign)
				return true
			}
			rc.Check(good, key, as.Pos(), "the slot receives the result of %s, a compile call on this function's own type argument", what)
			return true
		})
		// slow path keyed by the full address
		slow := map[string]string{"encoder": "compileToGetCodeSetSlowPath", "decoder": "compileToGetDecoderSlowPath"}[cs.pkg]
		sd := p.Func(cs.pkg, slow)
		if sd == nil {
			rc.Unknown(cs.pkg+"."+slow, token.NoPos, "slow path not found")
			continue
		}
		sinfo := p.Info(sd)
		sparams := map[types.Object]bool{}
		for _, f := range sd.Type.Params.List {
			for _, nm := range f.Names {
				sparams[sinfo.Defs[nm]] = true
			}
		}
		keyed := 0
		ast.Inspect(sd.Body, func(m ast.Node) bool {
			if ix, ok := m.(*ast.IndexExpr); ok {
				if tv := sinfo.Types[ix.X]; tv.Type != nil {
					if _, isMap := tv.Type.Underlying().(*types.Map); isMap {
						rc.Check(sparams[core.ObjOf(sinfo, ix.Index)], cs.pkg+"."+slow+"/map-key", ix.Pos(), "the overflow map is keyed by the full type address parameter")
						keyed++
					}
				}
			}
			return true
		})
		if keyed == 0 {
			rc.Unknown(cs.pkg+"."+slow+"/map-key", sd.Pos(), "no map lookup found in the slow path")
		}
	}
}

// c14r3: race and norace variants are equal modulo lock statements.
func c14r3(rc *core.RC) {
	other := "race"
	if rc.P.Config == "race" {
		other = "default"
	}
	q, err := core.GetProgram(other)
	if err != nil {
		rc.Unknown("loader/"+other, token.NoPos, "%v", err)
		return
	}
	for _, cs := range cacheSites {
		a, b := rc.P.Func(cs.pkg, cs.fn), q.Func(cs.pkg, cs.fn)
		fn := cs.pkg + "." + cs.fn
		if a == nil || b == nil {
			rc.Unknown(fn+"/siblings", token.NoPos, "entry point missing in one configuration")
			continue
		}
		rc.Touch(fn)
		// the variants may place lock statements (and the locals they need) differently; what must agree is
		// the sequence of effects: module calls, cache slot reads and writes, and address-bound comparisons
		effects := func(prog *core.Program, fd *ast.FuncDecl) []string {
			info := prog.Info(fd)
			cacheObj := prog.Pkg(cs.pkg).Types.Scope().Lookup(cs.cache)
			lhs := map[ast.Expr]bool{}
			ast.Inspect(fd.Body, func(n ast.Node) bool {
				if as, ok := n.(*ast.AssignStmt); ok {
					for _, l := range as.Lhs {
						lhs[core.Unparen(l)] = true
					}
				}
				return true
			})
			var out []string
			ast.Inspect(fd.Body, func(n ast.Node) bool {
				switch x := n.(type) {
				case *ast.CallExpr:
					if f := core.Callee(info, x); f != nil && f.Pkg() != nil && strings.HasPrefix(f.Pkg().Path(), core.ModPath) {
						out = append(out, "call "+f.Name())
					}
				case *ast.IndexExpr:
					if core.ObjOf(info, x.X) == cacheObj {
						if lhs[x] {
							out = append(out, "slot-write")
						} else {
							out = append(out, "slot-read")
						}
					}
				case *ast.BinaryExpr:
					if f := fieldNameOf(info, x.Y); (f == "MaxTypeAddr" || f == "BaseTypeAddr") && x.Op != token.SUB {
						out = append(out, "cmp "+x.Op.String()+" "+f)
					} else if f := fieldNameOf(info, x.X); f == "MaxTypeAddr" || f == "BaseTypeAddr" {
						// the bound on the left: the same comparison read from the other side
						if op, isCmp := map[token.Token]token.Token{token.LSS: token.GTR, token.GTR: token.LSS, token.LEQ: token.GEQ, token.GEQ: token.LEQ, token.EQL: token.EQL, token.NEQ: token.NEQ}[x.Op]; isCmp {
							out = append(out, "cmp "+op.String()+" "+f)
						}
					}
				}
				return true
			})
			return out
		}
		na, nb := effects(rc.P, a), effects(q, b)
		if d := core.FirstDiff(na, nb); d >= 0 {
			x, y := "<end>", "<end>"
			if d < len(na) {
				x = na[d]
			}
			if d < len(nb) {
				y = nb[d]
			}
			rc.Bad(fn+"/race-norace-siblings", a.Pos(), "the %s and %s variants perform different effects (module calls, cache slot accesses, bound comparisons) at position %d: %q vs %q", rc.P.Config, other, d, x, y)
		} else {
			rc.OK(fn+"/race-norace-siblings", a.Pos(), "same sequence of %d effects in both build configurations", len(na))
		}
	}
	// encoder and decoder agree on the guard shape: both bounds in one condition
	shape := func(pkg, fn string) string {
		fd := rc.P.Func(pkg, fn)
		if fd == nil {
			return "?"
		}
		info := rc.P.Info(fd)
		var out []string
		ast.Inspect(fd.Body, func(n ast.Node) bool {
			if be, ok := n.(*ast.BinaryExpr); ok {
				if f := fieldNameOf(info, be.Y); f == "MaxTypeAddr" || f == "BaseTypeAddr" {
					if be.Op != token.SUB {
						out = append(out, be.Op.String()+f)
					}
				}
			}
			return true
		})
		return strings.Join(out, " ")
	}
	e, d := shape("encoder", "CompileToGetCodeSet"), shape("decoder", "CompileToGetDecoder")
	rc.Check(e == d, "encoder/decoder/guard-shape", token.NoPos, "encoder guard compares [%s], decoder guard compares [%s]", e, d)
}

func c14r4(rc *core.RC) {
	p := rc.P
	for _, cs := range cacheSites {
		initFn := map[string]string{"encoder": "initEncoder", "decoder": "initDecoder"}[cs.pkg]
		fd := p.Func(cs.pkg, initFn)
		if fd == nil {
			rc.Unknown(cs.pkg+"."+initFn, token.NoPos, "initialiser not found")
			continue
		}
		rc.Touch(cs.pkg + "." + initFn)
		info := p.Info(fd)
		cacheObj := p.Pkg(cs.pkg).Types.Scope().Lookup(cs.cache)
		found := false
		ast.Inspect(fd.Body, func(n ast.Node) bool {
			as, ok := n.(*ast.AssignStmt)
			if !ok || len(as.Lhs) != 1 || core.ObjOf(info, as.Lhs[0]) != cacheObj {
				return true
			}
			call, ok := core.Unparen(as.Rhs[0]).(*ast.CallExpr)
			if !ok || !core.IsBuiltin(info, call, "make") || len(call.Args) < 2 {
				return true
			}
			found = true
			// AddrRange >> AddrShift + 1
			be, ok := core.Unparen(call.Args[1]).(*ast.BinaryExpr)
			good := false
			if ok && be.Op == token.ADD {
				if one, isC := core.ConstInt(info, be.Y); isC && one == 1 {
					if sh, ok := core.Unparen(be.X).(*ast.BinaryExpr); ok && sh.Op == token.SHR &&
						fieldNameOf(info, sh.X) == "AddrRange" && fieldNameOf(info, sh.Y) == "AddrShift" {
						good = true
					}
				}
			}
			rc.Check(good, cs.pkg+"."+initFn+"/cache-length", call.Pos(), "cache allocated with %s (need AddrRange>>AddrShift + 1)", core.Src(p.Fset, call.Args[1]))
			return true
		})
		if !found {
			rc.Unknown(cs.pkg+"."+initFn+"/cache-length", fd.Pos(), "no make() of %s found", cs.cache)
		}
		// index uses the same shift field
		ed := p.Func(cs.pkg, cs.fn)
		if ed == nil {
			continue
		}
		einfo := p.Info(ed)
		ast.Inspect(ed.Body, func(n ast.Node) bool {
			if sh, ok := n.(*ast.BinaryExpr); ok && sh.Op == token.SHR {
				if sub, ok := core.Unparen(sh.X).(*ast.BinaryExpr); ok && sub.Op == token.SUB && fieldNameOf(einfo, sub.Y) == "BaseTypeAddr" {
					rc.Check(fieldNameOf(einfo, sh.Y) == "AddrShift", cs.pkg+"."+cs.fn+"/index-shift", sh.Pos(), "index shifts by %s", core.Src(p.Fset, sh.Y))
				}
			}
			return true
		})
	}
}

// ---- C14.R5 a recursive back-reference jumps to the program of its own type ----

// linkRecursiveCode resolves each OpRecursive of a compilation. Whatever it stores into the
// back-reference's Jmp (a fresh copy or an earlier one) must have been looked up under a key derived
// from that back-reference's own Type; a copy remembered in a plain variable from an earlier
// iteration belongs to whichever type came first.
func c14r5(rc *core.RC) {
	p := rc.P
	fd := p.Func("encoder", "Compiler.linkRecursiveCode")
	if fd == nil {
		rc.Unknown("encoder.linkRecursiveCode", token.NoPos, "not found")
		return
	}
	rc.Touch("encoder.(*Compiler).linkRecursiveCode")
	info := p.Info(fd)
	var loop *ast.RangeStmt
	ast.Inspect(fd.Body, func(m ast.Node) bool {
		if r, ok := m.(*ast.RangeStmt); ok && loop == nil && strings.Contains(types.ExprString(r.X), "recursiveCodes") {
			loop = r
		}
		return true
	})
	if loop == nil || loop.Value == nil {
		rc.Unknown("encoder.linkRecursiveCode/loop", fd.Pos(), "the loop over the compilation's back-references was not found")
		return
	}
	ref := core.ObjOf(info, loop.Value)
	// keys derived from ref.Type
	typeKeys := map[types.Object]bool{}
	derivesFromType := func(e ast.Expr) bool {
		found := false
		ast.Inspect(e, func(k ast.Node) bool {
			switch x := k.(type) {
			case *ast.SelectorExpr:
				if x.Sel.Name == "Type" && core.ObjOf(info, x.X) == ref {
					found = true
				}
			case *ast.Ident:
				if typeKeys[info.Uses[x]] {
					found = true
				}
			}
			return true
		})
		return found
	}
	// variables whose every definition is a lookup keyed by the type (M[k], v, ok := M[k]) or derived from such
	keyed := map[types.Object]bool{}
	for round := 0; round < 4; round++ {
		ast.Inspect(loop.Body, func(m ast.Node) bool {
			as, ok := m.(*ast.AssignStmt)
			if !ok || len(as.Rhs) == 0 {
				return true
			}
			r := core.Unparen(as.Rhs[0])
			lo := core.ObjOf(info, as.Lhs[0])
			if lo == nil {
				return true
			}
			if derivesFromType(r) {
				if _, isIx := r.(*ast.IndexExpr); isIx {
					keyed[lo] = true
				} else if _, isCall := r.(*ast.CallExpr); isCall || true {
					// typeptr := uintptr(unsafe.Pointer(recursive.Type))
					if _, isIx := r.(*ast.IndexExpr); !isIx {
						typeKeys[lo] = true
					}
				}
			}
			// derived from a keyed variable: code := copyOpcode(codes.First())
			uses := false
			ast.Inspect(r, func(k ast.Node) bool {
				if id, ok := k.(*ast.Ident); ok && keyed[info.Uses[id]] {
					uses = true
				}
				return true
			})
			if uses {
				keyed[lo] = true
			}
			return true
		})
	}
	// a variable also assigned outside this chain (e.g. carried over from an earlier iteration) is not keyed
	ast.Inspect(fd.Body, func(m ast.Node) bool {
		as, ok := m.(*ast.AssignStmt)
		if !ok || len(as.Rhs) == 0 {
			return true
		}
		for i, l := range as.Lhs {
			lo := core.ObjOf(info, l)
			if lo == nil || !keyed[lo] {
				continue
			}
			r := as.Rhs[0]
			if len(as.Rhs) == len(as.Lhs) {
				r = as.Rhs[i]
			}
			ok := derivesFromType(r)
			ast.Inspect(r, func(k ast.Node) bool {
				if id, isId := k.(*ast.Ident); isId && keyed[info.Uses[id]] && info.Uses[id] != lo {
					ok = true
				}
				return true
			})
			if !ok {
				delete(keyed, lo)
			}
		}
		return true
	})
	// what is stored into the back-reference
	n := 0
	ast.Inspect(loop.Body, func(m ast.Node) bool {
		as, ok := m.(*ast.AssignStmt)
		if !ok || len(as.Lhs) != 1 || len(as.Rhs) != 1 {
			return true
		}
		l := core.Unparen(as.Lhs[0])
		var src ast.Expr
		// *recursive.Jmp = *X
		if st, ok := l.(*ast.StarExpr); ok {
			if f := core.FieldOf(info, st.X); f != nil && f.Name() == "Jmp" {
				src = as.Rhs[0]
			}
		}
		// compiled.Code = code (compiled := recursive.Jmp)
		if f := core.FieldOf(info, l); f != nil && f.Name() == "Code" {
			src = as.Rhs[0]
		}
		if src == nil {
			return true
		}
		n++
		key := fmt.Sprintf("encoder.linkRecursiveCode/jump-target#%d", n)
		var root types.Object
		ast.Inspect(src, func(k ast.Node) bool {
			if id, ok := k.(*ast.Ident); ok && root == nil {
				if v, ok := info.Uses[id].(*types.Var); ok && !v.IsField() {
					root = v
				}
			}
			return true
		})
		if root != nil && keyed[root] {
			rc.OK(key, as.Pos(), "`%s` was looked up under the back-reference's own type", core.Src(p.Fset, src))
		} else {
			rc.Bad(key, as.Pos(), "the back-reference receives `%s`, which is not looked up under a key derived from %s.Type: with two recursive struct types in one program a value of one type is encoded by the program of the other", core.Src(p.Fset, src), ref.Name())
		}
		return true
	})
	if n < 2 {
		rc.Unknown("encoder.linkRecursiveCode/jump-targets", fd.Pos(), "found %d stores into a back-reference's Jmp", n)
	}
}

// ---- C14.R6 the decoder applied to a destination is the one looked up for this call's type ----

// In the Unmarshal entry points and in Decoder.DecodeWithOption the decoder that receives the
// destination pointer must be the direct result of decoder.CompileToGetDecoder(typ) in the same
// call, with typ taken from this call's value, and validateType must run in every call: a decoder
// remembered from an earlier call (in a field) can be paired with another type.
func c14r6(rc *core.RC) {
	p := rc.P
	n := 0
	for _, name := range []string{"unmarshal", "unmarshalContext", "unmarshalNoEscape", "Decoder.DecodeWithOption"} {
		fd := p.Func("json", name)
		fn := "json." + name
		if fd == nil {
			rc.Unknown(fn, token.NoPos, "entry point not found")
			continue
		}
		info := p.Info(fd)
		rc.Touch(p.FuncName(fd))
		cf := core.BuildCFG(fd.Body, info)
		// the decode call and its receiver
		var dcall *ast.CallExpr
		var recv types.Object
		ast.Inspect(fd.Body, func(m ast.Node) bool {
			if c, ok := m.(*ast.CallExpr); ok {
				if sel, ok := c.Fun.(*ast.SelectorExpr); ok && (sel.Sel.Name == "Decode" || sel.Sel.Name == "DecodeStream") {
					if o := core.ObjOf(info, sel.X); o != nil && strings.HasSuffix(o.Type().String(), "decoder.Decoder") {
						dcall, recv = c, o
					}
				}
			}
			return true
		})
		key := fn + "/decoder-looked-up-in-this-call"
		if dcall == nil {
			rc.Unknown(key, fd.Pos(), "no Decode/DecodeStream call on a decoder.Decoder variable (is the decoder taken from a field?)")
			continue
		}
		n++
		defs, good := 0, true
		origin := ""
		ast.Inspect(fd.Body, func(m ast.Node) bool {
			as, ok := m.(*ast.AssignStmt)
			if !ok {
				return true
			}
			for i, l := range as.Lhs {
				if core.ObjOf(info, l) != recv {
					continue
				}
				defs++
				var r ast.Expr
				if len(as.Rhs) == len(as.Lhs) {
					r = as.Rhs[i]
				} else if len(as.Rhs) == 1 {
					r = as.Rhs[0]
				}
				origin = core.Src(p.Fset, r)
				c, ok := core.Unparen(r).(*ast.CallExpr)
				if !ok || core.CalleeName(info, c) != "decoder.CompileToGetDecoder" {
					good = false
				}
			}
			return true
		})
		rc.Check(defs == 1 && good, key, dcall.Pos(), "the decoder that receives the destination is defined once, by decoder.CompileToGetDecoder in this call (found %d definition(s), last: `%s`)", defs, origin)
		// validateType dominates the decode call
		vkey := fn + "/validateType-every-call"
		var vb *cfg.Block
		ast.Inspect(fd.Body, func(m ast.Node) bool {
			if c, ok := m.(*ast.CallExpr); ok && core.CalleeName(info, c) == "json.validateType" {
				for _, b := range cf.G.Blocks {
					for _, nd := range b.Nodes {
						if nd.Pos() <= c.Pos() && c.End() <= nd.End() {
							vb = b
						}
					}
				}
			}
			return true
		})
		db, _ := cf.BlockOf(dcall)
		if db == nil {
			// the call sits inside a larger statement node
			for _, b := range cf.G.Blocks {
				for _, nd := range b.Nodes {
					if nd.Pos() <= dcall.Pos() && dcall.End() <= nd.End() {
						db = b
					}
				}
			}
		}
		rc.Check(vb != nil && db != nil && (vb == db || cf.Dominates(vb, db)), vkey, dcall.Pos(), "validateType (non-nil pointer destination) runs on every path to the decode call")
	}
	if n < 4 {
		rc.Unknown("json/decode-entry-points", token.NoPos, "found %d of 4 decode entry points", n)
	}
}

// ---- C14.R7 tables of compiled programs are keyed by the type's identity ----

// Every table that maps a type to what was compiled for it (decoders, opcode sets, struct codes, recursive programs,
// the in-progress tables that resolve recursive definitions) is keyed by the address of the type descriptor. A key
// derived from the type's printed name identifies two different types that print alike (same-named packages,
// same-named function-local types) and hands one type's program to values of the other.
func c14r7(rc *core.RC) {
	p := rc.P
	programLike := func(t types.Type) bool {
		s := t.String()
		for _, suf := range []string{"decoder.Decoder", "decoder.structDecoder", "encoder.OpcodeSet", "encoder.StructCode", "encoder.Opcodes", "encoder.CompiledCode", "encoder.Opcode", "encoder.Code"} {
			if strings.HasSuffix(s, suf) {
				return true
			}
		}
		return false
	}
	n := 0
	seen := map[string]bool{}
	for _, short := range []string{"decoder", "encoder"} {
		pk := p.Pkg(short)
		if pk == nil {
			continue
		}
		for _, f := range pk.Syntax {
			// the struct field a map type belongs to, if any
			fieldOf := map[ast.Expr]string{}
			ast.Inspect(f, func(m ast.Node) bool {
				if fl, ok := m.(*ast.Field); ok && len(fl.Names) > 0 {
					fieldOf[fl.Type] = fl.Names[0].Name
				}
				// Field: map[K]V{} in a struct literal
				if kv, ok := m.(*ast.KeyValueExpr); ok {
					if id, isIdent := kv.Key.(*ast.Ident); isIdent {
						if cl, isLit := core.Unparen(kv.Value).(*ast.CompositeLit); isLit && cl.Type != nil {
							fieldOf[cl.Type] = id.Name
						}
						if c, isCall := core.Unparen(kv.Value).(*ast.CallExpr); isCall && len(c.Args) > 0 {
							fieldOf[c.Args[0]] = id.Name // make(map[K]V)
						}
					}
				}
				return true
			})
			ast.Inspect(f, func(m ast.Node) bool {
				mt, ok := m.(*ast.MapType)
				if !ok {
					return true
				}
				tv, has := pk.TypesInfo.Types[mt]
				if !has {
					return true
				}
				mp, isMap := tv.Type.Underlying().(*types.Map)
				if !isMap || !programLike(mp.Elem()) {
					return true
				}
				n++
				encl := core.EnclosingFunc(pk, mt.Pos())
				where := "package level"
				if encl != nil {
					where = p.FuncName(encl)
				}
				if fieldOf[mt] != "" {
					where = "field " + fieldOf[mt]
				}
				key := fmt.Sprintf("%s/%s/%s keyed-by-type-identity", short, where, types.TypeString(mp, func(*types.Package) string { return "" }))
				if seen[key] {
					return true
				}
				seen[key] = true
				kt := mp.Key().String()
				switch {
				case kt == "uintptr" || strings.HasSuffix(kt, "runtime.Type"):
					rc.OK(key, mt.Pos(), "keyed by the type descriptor's address")
				case fieldOf[mt] == "QueryCache":
					rc.OK(key, mt.Pos(), "the per-type cache of filtered programs, keyed by the query's hash inside one type's OpcodeSet")
				default:
					rc.Bad(key, mt.Pos(), "a table of compiled programs (%s) is keyed by %s, not by the address of the type descriptor: two distinct types with the same key (types that print alike: same-named packages, same-named local types) get one program, and values of one are processed with the offsets and keys of the other", mp.Elem(), kt)
				}
				return true
			})
		}
	}
	if n < 12 {
		rc.Unknown("module/program-tables", token.NoPos, "found %d map types with compiled programs as elements (confirmed: 25 occurrences)", n)
	}
}

// ---- C14.R8 the decoder of the pointee is only used for a pointer ----

// guardedOnAllPaths reports whether every flow-graph path from the function's entry to target crosses an edge that a
// condition makes safe: safe(cond) says whether the true edge and whether the false edge of a two-way block establish
// the fact wanted.
func guardedOnAllPaths(cf *core.FuncCFG, target ast.Node, safe func(cond ast.Expr) (onTrue, onFalse bool)) (guarded, found bool) {
	tb, _ := cf.BlockOf(target)
	if tb == nil || len(cf.G.Blocks) == 0 {
		return false, false
	}
	safeEdge := map[[2]int32]bool{}
	for _, b := range cf.G.Blocks {
		if len(b.Succs) != 2 || len(b.Nodes) == 0 {
			continue
		}
		cond, isExpr := b.Nodes[len(b.Nodes)-1].(ast.Expr)
		if !isExpr {
			continue
		}
		t, f := safe(cond)
		if t {
			safeEdge[[2]int32{b.Index, b.Succs[0].Index}] = true
		}
		if f {
			safeEdge[[2]int32{b.Index, b.Succs[1].Index}] = true
		}
	}
	seen := map[int32]bool{}
	stack := []*cfg.Block{cf.G.Blocks[0]}
	for len(stack) > 0 {
		b := stack[len(stack)-1]
		stack = stack[:len(stack)-1]
		if seen[b.Index] {
			continue
		}
		seen[b.Index] = true
		if b == tb {
			return false, true
		}
		for _, su := range b.Succs {
			if !safeEdge[[2]int32{b.Index, su.Index}] {
				stack = append(stack, su)
			}
		}
	}
	return true, true
}

// CompileToGetDecoder takes the type of a POINTER destination and returns the decoder of what it points to. Inside the
// decoder package it is called for the value an interface{} destination already holds; that value can be of any kind.
// Every such call has to be reachable only where the type's kind was tested to be Ptr: for a chan, a func, a
// one-element array of pointers or a struct with one pointer field (all stored directly in the interface word, like a
// pointer) the decoder of the element type would be applied to memory of another type.
func c14r8(rc *core.RC) {
	p := rc.P
	n := 0
	for _, fd := range p.Funcs("decoder") {
		if fd.Body == nil {
			continue
		}
		info := p.Info(fd)
		var calls []*ast.CallExpr
		ast.Inspect(fd.Body, func(m ast.Node) bool {
			if c, ok := m.(*ast.CallExpr); ok && strings.HasSuffix(core.CalleeName(info, c), "decoder.CompileToGetDecoder") && len(c.Args) == 1 {
				calls = append(calls, c)
			}
			return true
		})
		if len(calls) == 0 {
			continue
		}
		fn := p.FuncName(fd)
		rc.Touch(fn)
		cf := core.BuildCFGFor(fd, info)
		for i, c := range calls {
			n++
			typ := core.ObjOf(info, c.Args[0])
			key := fmt.Sprintf("%s/CompileToGetDecoder#%d only-for-pointer-kind", fn, i+1)
			if typ == nil {
				rc.Unknown(key, c.Pos(), "the type argument is not a variable")
				continue
			}
			isKindCmp := func(e ast.Expr, op token.Token) bool {
				be, ok := core.Unparen(e).(*ast.BinaryExpr)
				if !ok || be.Op != op {
					return false
				}
				kc, isCall := core.Unparen(be.X).(*ast.CallExpr)
				if !isCall {
					return false
				}
				sel, isSel := kc.Fun.(*ast.SelectorExpr)
				if !isSel || sel.Sel.Name != "Kind" || core.ObjOf(info, sel.X) != typ {
					return false
				}
				rs, isRS := core.Unparen(be.Y).(*ast.SelectorExpr)
				return isRS && rs.Sel.Name == "Ptr"
			}
			safe := func(cond ast.Expr) (bool, bool) {
				onTrue, onFalse := false, false
				// Kind() != Ptr among the top-level disjuncts: the false edge knows Kind() == Ptr
				var disj func(e ast.Expr)
				disj = func(e ast.Expr) {
					e = core.Unparen(e)
					if be, ok := e.(*ast.BinaryExpr); ok && be.Op == token.LOR {
						disj(be.X)
						disj(be.Y)
						return
					}
					if isKindCmp(e, token.NEQ) {
						onFalse = true
					}
				}
				disj(cond)
				var conj func(e ast.Expr)
				conj = func(e ast.Expr) {
					e = core.Unparen(e)
					if be, ok := e.(*ast.BinaryExpr); ok && be.Op == token.LAND {
						conj(be.X)
						conj(be.Y)
						return
					}
					if isKindCmp(e, token.EQL) {
						onTrue = true
					}
				}
				conj(cond)
				return onTrue, onFalse
			}
			guarded, found := guardedOnAllPaths(cf, c, safe)
			if !found {
				rc.Unknown(key, c.Pos(), "call not found in the flow graph")
				continue
			}
			rc.Check(guarded, key, c.Pos(), "every path to CompileToGetDecoder(%s) passes a test that establishes %s.Kind() == reflect.Ptr: for another kind that is stored directly in the interface word (chan, func, [1]*T, struct{ *T }) the decoder of the element type would be applied to a value of that other type", typ.Name(), typ.Name())
		}
	}
	if n < 2 {
		rc.Unknown("decoder/CompileToGetDecoder-calls", token.NoPos, "found %d calls of CompileToGetDecoder inside the decoder package (confirmed: interfaceDecoder.Decode and DecodeStream)", n)
	}
}

// ---- C14.R9 the dynamic value of an interface is written by the program of its own type only ----

// The OpInterface handler of each interpreter looks up the program compiled for the dynamic type
// (CompileToGetCodeSet(typ)) and enters it. Before that call the handler may write null (nil interface, nil
// pointer) and nothing else: a shortcut that writes the value itself for "simple" kinds (string, bool) bypasses the
// program of a named type of that kind, and with it its MarshalJSON / MarshalText.
func c14r9(rc *core.RC) {
	p := rc.P
	n := 0
	for _, vm := range []string{"vm", "vm_indent", "vm_color", "vm_color_indent"} {
		fd := p.Func(vm, "Run")
		if fd == nil || fd.Body == nil {
			rc.Unknown(vm+".Run", token.NoPos, "interpreter not found")
			continue
		}
		info := p.Info(fd)
		key := vm + ".Run/case OpInterface/value-written-by-the-program-of-the-dynamic-type"
		var clause *ast.CaseClause
		ast.Inspect(fd.Body, func(m ast.Node) bool {
			cc, ok := m.(*ast.CaseClause)
			if !ok {
				return true
			}
			for _, l := range cc.List {
				if sel, ok := core.Unparen(l).(*ast.SelectorExpr); ok && sel.Sel.Name == "OpInterface" {
					clause = cc
				}
			}
			return true
		})
		if clause == nil {
			rc.Unknown(key, fd.Pos(), "OpInterface handler not found")
			continue
		}
		rc.Touch(vm + ".Run")
		n++
		compiled := false
		var early []string
		for _, st := range clause.Body {
			has := false
			ast.Inspect(st, func(m ast.Node) bool {
				if c, ok := m.(*ast.CallExpr); ok && core.CalleeName(info, c) == "encoder.CompileToGetCodeSet" {
					has = true
				}
				return true
			})
			if has {
				compiled = true
				break
			}
			// writes in front of the lookup
			ast.Inspect(st, func(m ast.Node) bool {
				as, ok := m.(*ast.AssignStmt)
				if !ok || len(as.Lhs) != 1 || len(as.Rhs) != 1 {
					return true
				}
				if t := info.TypeOf(as.Lhs[0]); t == nil || t.String() != "[]byte" {
					return true
				}
				c, isCall := core.Unparen(as.Rhs[0]).(*ast.CallExpr)
				if !isCall {
					return true
				}
				name := core.CalleeName(info, c)
				if strings.HasSuffix(name, ".appendNullComma") || strings.HasSuffix(name, ".appendNull") {
					return true
				}
				early = append(early, core.Src(p.Fset, as))
				return true
			})
		}
		if !compiled {
			rc.Bad(key, clause.Pos(), "the handler never looks up the program of the dynamic type (no call of CompileToGetCodeSet)")
			continue
		}
		rc.Check(len(early) == 0, key, clause.Pos(), "in front of the lookup of the dynamic type's program the handler writes nothing but null%s", map[bool]string{true: "", false: "; it writes: " + strings.Join(early, "; ") + " (a named type of that kind has a program of its own, with its marshaler)"}[len(early) == 0])
	}
	if n < 4 {
		rc.Unknown("vm/interface-handlers", token.NoPos, "found %d OpInterface handlers", n)
	}
}

// ---- C14.R10 the dynamic type is a fresh variable for every interface value ----

// The OpInterface handler reads the dynamic type of the interface value it enters into a local (typ) that the
// non-empty-interface branch assigns only when the itab is not nil. The local has to start as nil for every value:
// it is declared inside the handler. Hoisted to the top of Run ("one slot less per frame") it keeps the type of the
// interface value entered before, and a nil error or Stringer that follows a pointer-shaped struct is encoded by
// that struct's program instead of as null.
func c14r10(rc *core.RC) {
	p := rc.P
	n := 0
	for _, vm := range []string{"vm", "vm_indent", "vm_color", "vm_color_indent"} {
		fd := p.Func(vm, "Run")
		if fd == nil || fd.Body == nil {
			rc.Unknown(vm+".Run", token.NoPos, "interpreter not found")
			continue
		}
		info := p.Info(fd)
		key := vm + ".Run/case OpInterface/dynamic-type-variable fresh-per-value"
		var clause *ast.CaseClause
		ast.Inspect(fd.Body, func(m ast.Node) bool {
			cc, ok := m.(*ast.CaseClause)
			if !ok {
				return true
			}
			for _, l := range cc.List {
				if sel, ok := core.Unparen(l).(*ast.SelectorExpr); ok && sel.Sel.Name == "OpInterface" {
					clause = cc
				}
			}
			return true
		})
		if clause == nil {
			rc.Unknown(key, fd.Pos(), "OpInterface handler not found")
			continue
		}
		rc.Touch(vm + ".Run")
		// the variable handed (through conversions) to CompileToGetCodeSet
		var typ types.Object
		ast.Inspect(clause, func(m ast.Node) bool {
			c, ok := m.(*ast.CallExpr)
			if !ok || core.CalleeName(info, c) != "encoder.CompileToGetCodeSet" || len(c.Args) < 2 {
				return true
			}
			ast.Inspect(c.Args[1], func(k ast.Node) bool {
				if id, isID := k.(*ast.Ident); isID {
					if v, isVar := info.Uses[id].(*types.Var); isVar && strings.HasSuffix(v.Type().String(), "runtime.Type") {
						typ = v
					}
				}
				return true
			})
			return true
		})
		if typ == nil {
			rc.Unknown(key, clause.Pos(), "the variable that holds the dynamic type was not found")
			continue
		}
		n++
		inside := clause.Pos() <= typ.Pos() && typ.Pos() <= clause.End()
		rc.Check(inside, key, clause.Pos(), "the variable %s that holds the dynamic type of the value being entered is declared inside the handler, so it is nil when a non-empty interface has no itab: declared outside, it keeps the type of the interface value entered before and a nil interface is encoded by that type's program", typ.Name())
	}
	if n < 4 {
		rc.Unknown("vm/interface-handlers-typ", token.NoPos, "found %d OpInterface handlers with a dynamic-type variable", n)
	}
}

// ---- C14.R11 a copy of the type table copies each entry's own value ----

// The slow-path caches (types whose descriptors lie outside the linker's range: reflect.StructOf and friends) are
// maps replaced copy-on-write: a new map is filled from the old one and the new entry is added. The copying loop has
// to store, under each old key, that key's old value. Storing the decoder that is being inserted under every key
// re-binds all earlier run-time types to the newest decoder, which then runs over values of the other types.
func c14r11(rc *core.RC) {
	p := rc.P
	n := 0
	for _, pk := range []string{"decoder", "encoder"} {
		for _, fd := range p.Funcs(pk) {
			if fd.Body == nil {
				continue
			}
			info := p.Info(fd)
			fn := p.FuncName(fd)
			// copy-on-write publication: the function stores the new table with atomic.StorePointer
			publishes := false
			ast.Inspect(fd.Body, func(m ast.Node) bool {
				if c, ok := m.(*ast.CallExpr); ok && core.CalleeName(info, c) == "sync/atomic.StorePointer" || ok && core.CalleeName(info, c) == "atomic.StorePointer" {
					publishes = true
				}
				return true
			})
			if !publishes {
				continue
			}
			k := 0
			ast.Inspect(fd.Body, func(m ast.Node) bool {
				rs, ok := m.(*ast.RangeStmt)
				if !ok || rs.Key == nil {
					return true
				}
				if t := info.TypeOf(rs.X); t == nil {
					return true
				} else if _, isMap := t.Underlying().(*types.Map); !isMap {
					return true
				}
				keyObj := core.ObjOf(info, rs.Key)
				var valObj types.Object
				if rs.Value != nil {
					valObj = core.ObjOf(info, rs.Value)
				}
				for _, st := range rs.Body.List {
					as, isAs := st.(*ast.AssignStmt)
					if !isAs || len(as.Lhs) != 1 || len(as.Rhs) != 1 || as.Tok != token.ASSIGN {
						continue
					}
					ix, isIx := core.Unparen(as.Lhs[0]).(*ast.IndexExpr)
					if !isIx || core.ObjOf(info, ix.Index) != keyObj || keyObj == nil {
						continue
					}
					if t := info.TypeOf(ix.X); t == nil {
						continue
					} else if _, isMap := t.Underlying().(*types.Map); !isMap {
						continue
					}
					k++
					n++
					rc.Touch(fn)
					key := fmt.Sprintf("%s/map-copy#%d each-key-keeps-its-value", fn, k)
					good := false
					r := core.Unparen(as.Rhs[0])
					if valObj != nil && core.ObjOf(info, r) == valObj {
						good = true
					}
					// m2[k] = m[k]
					if rix, isR := r.(*ast.IndexExpr); isR && core.ObjOf(info, rix.Index) == keyObj && core.ObjOf(info, rix.X) == core.ObjOf(info, rs.X) {
						good = true
					}
					rc.Check(good, key, as.Pos(), "the loop that copies the table stores under each key the value that key had (found: %s = %s): a value from outside the loop gives every earlier type the same compiled program, the newest one", core.Src(p.Fset, as.Lhs[0]), core.Src(p.Fset, r))
				}
				return true
			})
		}
	}
	if n < 1 {
		rc.Unknown("module/table-copies", token.NoPos, "no loop that copies a map key by key found in decoder or encoder (confirmed: decoder.storeDecoder)")
	}
}

// ---- C14.R12 a marshaler program is built for the type as it was received ----

// marshalJSONCode(t) and marshalTextCode(t) make the program that calls t's method on the value: the interpreter
// rebuilds an interface of type t from the address it holds. The compiler functions that call them also peel pointers
// from their type variable (typ = typ.Elem()) to look at what is behind; the program has to be made for the type the
// function was asked about, that is for a variable that still holds it (the parameter before it is changed, or a copy
// taken before). A program made for the peeled type is stored under the pointer type: for a pointer-shaped T with a
// value-receiver MarshalText, Marshal(&t) hands the method the address where it expects the value.
func c14r12(rc *core.RC) {
	p := rc.P
	pk := p.Pkg("encoder")
	if pk == nil {
		rc.Unknown("encoder", token.NoPos, "package not found")
		return
	}
	info := pk.TypesInfo
	n := 0
	for _, fd := range p.Funcs("encoder") {
		if fd.Body == nil {
			continue
		}
		name := p.FuncName(fd)
		// assignments (not definitions) per variable, by position
		assigns := map[types.Object][]token.Pos{}
		defs := map[types.Object]*ast.AssignStmt{}
		ast.Inspect(fd.Body, func(m ast.Node) bool {
			as, ok := m.(*ast.AssignStmt)
			if !ok {
				return true
			}
			for _, l := range as.Lhs {
				id, ok := core.Unparen(l).(*ast.Ident)
				if !ok {
					continue
				}
				if o := info.Defs[id]; o != nil {
					defs[o] = as
				} else if o := info.Uses[id]; o != nil {
					assigns[o] = append(assigns[o], as.Pos())
				}
			}
			return true
		})
		var changedBefore func(e ast.Expr, at token.Pos, depth int) (bool, string)
		changedBefore = func(e ast.Expr, at token.Pos, depth int) (bool, string) {
			id, ok := core.Unparen(e).(*ast.Ident)
			if !ok || depth > 3 {
				return false, ""
			}
			o := core.ObjOf(info, id)
			for _, pos := range assigns[o] {
				if pos < at {
					return true, id.Name
				}
			}
			if d := defs[o]; d != nil && len(d.Lhs) == len(d.Rhs) {
				for i, l := range d.Lhs {
					if lid, ok := l.(*ast.Ident); ok && info.Defs[lid] == o {
						return changedBefore(d.Rhs[i], d.Pos(), depth+1)
					}
				}
			}
			return false, ""
		}
		k := 0
		ast.Inspect(fd.Body, func(m ast.Node) bool {
			c, ok := m.(*ast.CallExpr)
			if !ok || len(c.Args) != 1 {
				return true
			}
			cn := core.CalleeName(info, c)
			if cn != "encoder.Compiler.marshalJSONCode" && cn != "encoder.Compiler.marshalTextCode" {
				return true
			}
			k++
			n++
			rc.Touch(name)
			changed, which := changedBefore(c.Args[0], c.Pos(), 0)
			rc.Check(!changed, fmt.Sprintf("%s/marshaler-code#%d for-the-type-received", name, k), c.Pos(), "%s is given %s, and %s was assigned a new value (a peeled pointer) before this point: the program calls the method of that type on the value of the type the function was asked about (for *T with a pointer-shaped T the method receives the address in place of the value)", cn, core.Src(p.Fset, c.Args[0]), which)
			return true
		})
	}
	if n < 10 {
		rc.Unknown("encoder/marshaler-code-calls", token.NoPos, "found %d calls of marshalJSONCode/marshalTextCode (confirmed: 13)", n)
	}
}

// ---- C14.R13 an opcode carries the type of the node that emits it ----

// OpMarshalJSON, OpMarshalText, OpInterface and the recursive operations rebuild a Go value from the address they
// hold and Opcode.Type. In the methods of the compiler's node types (…Code) the type written into an opcode is the
// node's own (c.typ): the struct member opcode that is merged with its value opcode keeps the member's type, `*T` for
// a member of type *T, because it is handed the address of the member. Taking the type from the value opcode
// (field.Type = value.Type) makes it T with the address of a *T: T's marshaler runs on the pointer.
func c14r13(rc *core.RC) {
	p := rc.P
	pk := p.Pkg("encoder")
	if pk == nil {
		rc.Unknown("encoder", token.NoPos, "package not found")
		return
	}
	info := pk.TypesInfo
	n := 0
	for _, fd := range p.Funcs("encoder") {
		if fd.Body == nil || fd.Recv == nil || len(fd.Recv.List) != 1 || len(fd.Recv.List[0].Names) != 1 {
			continue
		}
		recv := info.Defs[fd.Recv.List[0].Names[0]]
		if recv == nil {
			continue
		}
		rt := recv.Type()
		if pt, ok := rt.(*types.Pointer); ok {
			rt = pt.Elem()
		}
		named, ok := rt.(*types.Named)
		if !ok || !strings.HasSuffix(named.Obj().Name(), "Code") || named.Obj().Name() == "Opcode" {
			continue
		}
		name := p.FuncName(fd)
		k := 0
		check := func(e ast.Expr, pos token.Pos) {
			k++
			n++
			rc.Touch(name)
			own := false
			if sel, ok := core.Unparen(e).(*ast.SelectorExpr); ok && core.ObjOf(info, sel.X) == recv {
				if f := core.FieldOf(info, sel); f != nil && strings.HasSuffix(f.Type().String(), "runtime.Type") {
					own = true
				}
			}
			rc.Check(own, fmt.Sprintf("%s/opcode-type#%d the-node's-own", name, k), pos, "Opcode.Type is given %s: in a method of a compiler node it has to be the node's own type (%s.typ); the type of another opcode (the value opcode merged into a member opcode) belongs to another address: the marshaler of T would be run on the address of a *T member", core.Src(p.Fset, e), recv.Name())
		}
		ast.Inspect(fd.Body, func(m ast.Node) bool {
			switch x := m.(type) {
			case *ast.AssignStmt:
				if len(x.Lhs) != len(x.Rhs) {
					return true
				}
				for i, l := range x.Lhs {
					if f := core.FieldOf(info, l); f != nil && f.Name() == "Type" {
						if sel, ok := core.Unparen(l).(*ast.SelectorExpr); ok && strings.HasSuffix(strings.TrimPrefix(info.TypeOf(sel.X).String(), "*"), "encoder.Opcode") {
							check(x.Rhs[i], x.Pos())
						}
					}
				}
			case *ast.CompositeLit:
				if t := info.TypeOf(x); t == nil || !strings.HasSuffix(t.String(), "encoder.Opcode") {
					return true
				}
				for _, el := range x.Elts {
					if kv, ok := el.(*ast.KeyValueExpr); ok {
						if id, ok := kv.Key.(*ast.Ident); ok && id.Name == "Type" {
							check(kv.Value, kv.Pos())
						}
					}
				}
			}
			return true
		})
	}
	if n < 4 {
		rc.Unknown("encoder/opcode-types", token.NoPos, "found %d places where a compiler node writes Opcode.Type (confirmed: 5)", n)
	}
}

// ---- C14.R14 a decoder fetched for the type in an interface word runs on that word's data ----

// Where the library decodes into what an interface holds it takes the two words of the interface apart (typ, ptr),
// fetches the decoder compiled for typ and runs it on ptr: the decoder of *T writes a *T. Handing it any other
// address (the address of the interface variable itself, p) makes the decoder of one type write over a value of
// another: T's fields land on the interface's type and data words. Obligation, for every Decode/DecodeStream call on a
// decoder obtained from CompileToGetDecoder(H.typ) with H a local header: the destination argument is H.ptr.
func c14r14(rc *core.RC) {
	p := rc.P
	n := 0
	for _, short := range []string{"decoder", "json"} {
		pk := p.Pkg(short)
		if pk == nil {
			continue
		}
		info := pk.TypesInfo
		for _, fd := range p.Funcs(short) {
			if fd.Body == nil {
				continue
			}
			name := p.FuncName(fd)
			// decoder variables and the header they were fetched for
			fetched := map[types.Object]string{}
			ast.Inspect(fd.Body, func(m ast.Node) bool {
				as, ok := m.(*ast.AssignStmt)
				if !ok || len(as.Rhs) != 1 || len(as.Lhs) != 2 {
					return true
				}
				c, ok := core.Unparen(as.Rhs[0]).(*ast.CallExpr)
				if !ok || core.CalleeName(info, c) != "decoder.CompileToGetDecoder" || len(c.Args) != 1 {
					return true
				}
				t := core.Unparen(core.ResolveSingleDef(info, fd.Body, c.Args[0]))
				sel, ok := t.(*ast.SelectorExpr)
				if !ok || sel.Sel.Name != "typ" {
					return true
				}
				if o := core.ObjOf(info, as.Lhs[0]); o != nil {
					fetched[o] = types.ExprString(sel.X)
				}
				return true
			})
			if len(fetched) == 0 {
				continue
			}
			k := 0
			ast.Inspect(fd.Body, func(m ast.Node) bool {
				c, ok := m.(*ast.CallExpr)
				if !ok || len(c.Args) == 0 {
					return true
				}
				sel, ok := c.Fun.(*ast.SelectorExpr)
				if !ok || (sel.Sel.Name != "Decode" && sel.Sel.Name != "DecodeStream") {
					return true
				}
				hdr, ok := fetched[core.ObjOf(info, sel.X)]
				if !ok {
					return true
				}
				k++
				n++
				rc.Touch(name)
				dstE := core.Unparen(c.Args[len(c.Args)-1])
				if w, isCall := dstE.(*ast.CallExpr); isCall && len(w.Args) == 1 && strings.HasSuffix(core.CalleeName(info, w), ".noescape") {
					dstE = core.Unparen(w.Args[0]) // the identity that hides the pointer from escape analysis
				}
				dst := types.ExprString(dstE)
				rc.Check(dst == hdr+".ptr", fmt.Sprintf("%s/fetched-decoder#%d runs-on-the-word's-data", name, k), c.Pos(), "the decoder fetched for %s.typ is run on %s: it has to be %s.ptr, the memory of that type (any other address, the interface variable itself included, is a value of another type that the decoder writes over)", hdr, dst, hdr)
				return true
			})
		}
	}
	if n < 4 {
		rc.Unknown("module/fetched-decoders", token.NoPos, "found %d runs of a decoder fetched for the type word of an interface header (confirmed: 6)", n)
	}
}

// ---- C14.R15 the encoder tells interfaces with methods by their methods ----

// An interface value with methods holds (method table, data), one without holds (type, data). InterfaceCode.ToOpcode
// marks the opcode with NonEmptyInterfaceFlags so that the interpreter takes the type out of the method table. What
// decides is whether the interface type has methods, NumMethod() > 0 (C02.R11 is the decoder's twin). Identity with
// interface{} is another question: a defined type without methods (type Any interface{}) is not interface{} and has
// no method table; marked as non-empty, its type word is read as a method table and the program is looked up for
// whatever small integer lies there.
func c14r15(rc *core.RC) {
	p := rc.P
	pk := p.Pkg("encoder")
	if pk == nil {
		rc.Unknown("encoder", token.NoPos, "package not found")
		return
	}
	info := pk.TypesInfo
	n := 0
	for _, fd := range p.Funcs("encoder") {
		if fd.Body == nil {
			continue
		}
		name := p.FuncName(fd)
		k := 0
		ast.Inspect(fd.Body, func(m ast.Node) bool {
			as, ok := m.(*ast.AssignStmt)
			if !ok || len(as.Rhs) != 1 {
				return true
			}
			sets := false
			ast.Inspect(as.Rhs[0], func(x ast.Node) bool {
				if id, ok := x.(*ast.Ident); ok && id.Name == "NonEmptyInterfaceFlags" {
					if _, isC := core.ObjOf(info, id).(*types.Const); isC {
						sets = true
					}
				}
				return true
			})
			if !sets || (as.Tok != token.OR_ASSIGN && as.Tok != token.ASSIGN) {
				return true
			}
			if f := core.FieldOf(info, as.Lhs[0]); f == nil || f.Name() != "Flags" {
				return true
			}
			k++
			n++
			rc.Touch(name)
			byMethods := false
			for _, cn := range condChainNodes(fd, as) {
				if !cn.pos {
					continue
				}
				be, ok := core.Unparen(cn.cond).(*ast.BinaryExpr)
				if !ok {
					continue
				}
				c, ok := core.Unparen(be.X).(*ast.CallExpr)
				if !ok {
					continue
				}
				sel, ok := c.Fun.(*ast.SelectorExpr)
				if !ok || sel.Sel.Name != "NumMethod" {
					continue
				}
				v, isC := core.ConstInt(info, be.Y)
				if isC && ((be.Op == token.GTR && v == 0) || (be.Op == token.NEQ && v == 0) || (be.Op == token.GEQ && v == 1)) {
					byMethods = true
				}
			}
			rc.Check(byMethods, fmt.Sprintf("%s/non-empty-interface-mark#%d by-NumMethod", name, k), as.Pos(), "NonEmptyInterfaceFlags is set under a test that is not NumMethod() > 0: a defined interface type without methods is not identical with interface{} and has no method table; marked, its type word is read as one (Marshal of a value held by `type Any interface{}` dereferences nil)")
			return true
		})
	}
	if n < 1 {
		rc.Unknown("encoder/non-empty-interface-marks", token.NoPos, "no statement that sets NonEmptyInterfaceFlags found")
	}
}

// ---- C14.R16 the table of programs per struct type holds whole programs ----

// linkRecursiveCode takes the program of a recursive reference from compileContext.structTypeToCodes. What is stored
// there is what every reference to the type runs: it has to be the program of the type by itself (braces, every
// member, the end operation), which only (*StructCode).ToOpcode builds. The shape the same struct has as an embedded
// member (ToAnonymousOpcode: no braces, hidden members removed) depends on the struct that embeds it. Obligation:
// every store into structTypeToCodes is in (*StructCode).ToOpcode.
func c14r16(rc *core.RC) {
	p := rc.P
	n := 0
	for _, short := range append([]string{"encoder"}, core.VMPkgs...) {
		for _, fd := range p.Funcs(short) {
			if fd.Body == nil {
				continue
			}
			info := p.Info(fd)
			k := 0
			ast.Inspect(fd.Body, func(m ast.Node) bool {
				as, ok := m.(*ast.AssignStmt)
				if !ok {
					return true
				}
				for _, l := range as.Lhs {
					ix, isIx := core.Unparen(l).(*ast.IndexExpr)
					if !isIx {
						continue
					}
					f := core.FieldOf(info, core.Unparen(ix.X))
					if f == nil || f.Name() != "structTypeToCodes" {
						continue
					}
					n++
					k++
					rc.Touch(p.FuncName(fd))
					key := fmt.Sprintf("%s/store#%d into structTypeToCodes whole-program", p.FuncName(fd), k)
					if p.FuncName(fd) == "encoder.(*StructCode).ToOpcode" {
						rc.OK(key, as.Pos(), "the program stored for the type is the one ToOpcode builds for the struct by itself")
					} else {
						rc.Bad(key, as.Pos(), "%s stores a program into compileContext.structTypeToCodes: every recursive reference to the type is linked to what is stored there, and only (*StructCode).ToOpcode builds the program of the type by itself (the embedded form has no braces and lacks the members the embedding struct hides)", p.FuncName(fd))
					}
				}
				return true
			})
		}
	}
	if n < 1 {
		rc.Unknown("encoder/structTypeToCodes-stores", token.NoPos, "no store into compileContext.structTypeToCodes found")
	}
}

// ---- C14.R17 the description of the type section is written once, where it is made ----

// runtime.AnalyzeTypeAddr returns one *TypeAddr for the process; the encoder and the decoder both keep that pointer
// and compute the slot of a type from its fields ((typeptr-BaseTypeAddr)>>AddrShift) on every call. A field changed
// by one of them after the other has filled slots (a larger shift to halve a cache) lets a type find the program of
// another. Obligation: no assignment in the library stores into a field of runtime.TypeAddr outside package runtime.
func c14r17(rc *core.RC) {
	p := rc.P
	n := 0
	for _, pk := range p.LibPkgs() {
		info := pk.TypesInfo
		for _, fd := range p.Funcs(pk.Name) {
			if fd.Body == nil {
				continue
			}
			k := 0
			ast.Inspect(fd.Body, func(m ast.Node) bool {
				var targets []ast.Expr
				switch x := m.(type) {
				case *ast.AssignStmt:
					targets = x.Lhs
				case *ast.IncDecStmt:
					targets = []ast.Expr{x.X}
				}
				for _, tg := range targets {
					sel, ok := core.Unparen(tg).(*ast.SelectorExpr)
					if !ok {
						continue
					}
					s := info.Selections[sel]
					if s == nil || s.Kind() != types.FieldVal || !strings.HasSuffix(strings.TrimPrefix(s.Recv().String(), "*"), "internal/runtime.TypeAddr") {
						continue
					}
					n++
					k++
					rc.Touch(p.FuncName(fd))
					key := fmt.Sprintf("%s/TypeAddr.%s-store#%d", p.FuncName(fd), sel.Sel.Name, k)
					if pk.Name == "runtime" {
						rc.OK(key, tg.Pos(), "written where the description is made")
					} else {
						rc.Bad(key, tg.Pos(), "%s changes runtime.TypeAddr.%s: the value is shared by the encoder and the decoder, which both compute cache slots from it on every call; slots filled before the change are found by other types after it (the encoding of a type depends on whether something was decoded first)", p.FuncName(fd), sel.Sel.Name)
					}
				}
				return true
			})
		}
	}
	// the composite literal in AnalyzeTypeAddr is the positive instance
	lit := 0
	for _, fd := range p.Funcs("runtime") {
		if fd.Body == nil {
			continue
		}
		info := p.Info(fd)
		ast.Inspect(fd.Body, func(m ast.Node) bool {
			if cl, ok := m.(*ast.CompositeLit); ok {
				if tv, has := info.Types[cl]; has && strings.HasSuffix(tv.Type.String(), "internal/runtime.TypeAddr") {
					lit++
				}
			}
			return true
		})
	}
	if lit < 1 {
		rc.Unknown("runtime/TypeAddr-literal", token.NoPos, "the composite literal that makes the TypeAddr was not found")
	} else if n == 0 {
		rc.OK("library/TypeAddr-fields-written-only-where-made", token.NoPos, "no field of runtime.TypeAddr is assigned anywhere; the value is made by one composite literal in package runtime")
	}
}
