package rules

import (
	"fmt"
	"go/ast"
	"go/token"
	"go/types"
	"sort"
	"strings"
	"sync"

	"golang.org/x/tools/go/cfg"
	"golang.org/x/tools/go/ssa"

	"verif/checker/core"
)

// ---- C06.R1 depth threading ----

// depthRoles finds the nesting-depth parameters of the decoder package by role, not by name: a parameter of type
// int64 is a depth parameter if it stands at the depth position of a Decoder method (Decode, DecodePath: third;
// DecodeStream: second), if the function compares it with maxDecodeNestingDepth, or if the function passes it
// (as it is, or plus a constant) at the depth position of a callee (fixpoint).
var (
	depthMu    sync.Mutex
	depthCache = map[*core.Program]map[types.Object]int{} // *types.Func → index of its depth parameter
)

func depthIndexOf(p *core.Program, f *types.Func) int {
	depthMu.Lock()
	defer depthMu.Unlock()
	m, ok := depthCache[p]
	if !ok {
		m = computeDepthRoles(p)
		depthCache[p] = m
	}
	if i, ok := m[f]; ok {
		return i
	}
	return -1
}

func computeDepthRoles(p *core.Program) map[types.Object]int {
	m := map[types.Object]int{}
	isInt64 := func(t types.Type) bool {
		b, ok := t.Underlying().(*types.Basic)
		return ok && b.Kind() == types.Int64
	}
	type fn struct {
		fd   *ast.FuncDecl
		obj  *types.Func
		info *types.Info
	}
	var fns []fn
	for _, short := range []string{"decoder", "json"} {
		for _, fd := range p.Funcs(short) {
			if fd.Body == nil {
				continue
			}
			info := p.Info(fd)
			obj, _ := info.Defs[fd.Name].(*types.Func)
			if obj == nil {
				continue
			}
			fns = append(fns, fn{fd, obj, info})
			sig := obj.Type().(*types.Signature)
			if sig.Recv() != nil {
				idx := -1
				switch obj.Name() {
				case "Decode", "DecodePath":
					idx = 2
				case "DecodeStream":
					idx = 1
				}
				if idx >= 0 && idx < sig.Params().Len() && isInt64(sig.Params().At(idx).Type()) && sig.Params().Len() >= 3 {
					m[obj] = idx
					continue
				}
			}
			// compared with the nesting limit
			ast.Inspect(fd.Body, func(x ast.Node) bool {
				be, ok := x.(*ast.BinaryExpr)
				if !ok {
					return true
				}
				for _, pair := range [][2]ast.Expr{{be.X, be.Y}, {be.Y, be.X}} {
					c, isC := core.ObjOf(info, pair[1]).(*types.Const)
					if !isC || c.Name() != "maxDecodeNestingDepth" {
						continue
					}
					o := core.ObjOf(info, pair[0])
					for i := 0; i < sig.Params().Len(); i++ {
						if sig.Params().At(i) == o && isInt64(o.Type()) {
							m[obj] = i
						}
					}
				}
				return true
			})
		}
	}
	for changed := true; changed; {
		changed = false
		for _, f := range fns {
			if _, done := m[f.obj]; done {
				continue
			}
			sig := f.obj.Type().(*types.Signature)
			ast.Inspect(f.fd.Body, func(x ast.Node) bool {
				call, ok := x.(*ast.CallExpr)
				if !ok {
					return true
				}
				callee := core.Callee(f.info, call)
				if callee == nil {
					return true
				}
				ci, known := m[callee]
				if !known {
					// interface methods of Decoder
					if csig, ok := callee.Type().(*types.Signature); ok && csig.Recv() != nil {
						if _, isIface := csig.Recv().Type().Underlying().(*types.Interface); isIface && strings.HasPrefix(pkgPathOf(callee), core.ModPath) {
							switch callee.Name() {
							case "Decode", "DecodePath":
								ci, known = 2, true
							case "DecodeStream":
								ci, known = 1, true
							}
						}
					}
				}
				if !known || ci >= len(call.Args) {
					return true
				}
				a := core.Unparen(call.Args[ci])
				if be, ok := a.(*ast.BinaryExpr); ok && be.Op == token.ADD {
					a = core.Unparen(be.X)
				}
				o := core.ObjOf(f.info, a)
				for i := 0; i < sig.Params().Len(); i++ {
					if sig.Params().At(i) == o && o != nil && isInt64(o.Type()) {
						if _, done := m[f.obj]; !done {
							m[f.obj] = i
							changed = true
						}
					}
				}
				return true
			})
		}
	}
	return m
}

// depthParam returns the nesting-depth parameter (type int64) of fd, found by role (see depthRoles).
func depthParam(p *core.Program, info *types.Info, fd *ast.FuncDecl) types.Object {
	obj, _ := info.Defs[fd.Name].(*types.Func)
	if obj == nil {
		return nil
	}
	i := depthIndexOf(p, obj)
	if i < 0 {
		return nil
	}
	return obj.Type().(*types.Signature).Params().At(i)
}

// depthArgIndex returns the index of the depth argument of a call, or -1.
func depthArgIndex(rc *core.RC, info *types.Info, call *ast.CallExpr) int {
	f := core.Callee(info, call)
	if f == nil {
		return -1
	}
	if !strings.HasPrefix(pkgPathOf(f), core.ModPath) {
		return -1
	}
	sig := f.Type().(*types.Signature)
	// interface methods of Decoder have unnamed parameters: by method name
	if sig.Recv() != nil {
		if _, isIface := sig.Recv().Type().Underlying().(*types.Interface); isIface {
			switch f.Name() {
			case "Decode", "DecodePath":
				return 2
			case "DecodeStream":
				return 1
			}
			return -1
		}
	}
	return depthIndexOf(rc.P, f)
}

func pkgPathOf(o types.Object) string {
	if o.Pkg() == nil {
		return ""
	}
	return o.Pkg().Path()
}

// isDepthGuard: if depth > maxDecodeNestingDepth { …error… }
func isDepthGuard(info *types.Info, ifs *ast.IfStmt, depth types.Object, maxObj types.Object) bool {
	be, ok := core.Unparen(ifs.Cond).(*ast.BinaryExpr)
	if !ok {
		return false
	}
	okShape := false
	switch be.Op {
	case token.GTR, token.GEQ:
		okShape = core.ObjOf(info, be.X) == depth && core.ObjOf(info, be.Y) == maxObj
	case token.LSS, token.LEQ:
		okShape = core.ObjOf(info, be.Y) == depth && core.ObjOf(info, be.X) == maxObj
	}
	if !okShape || len(ifs.Body.List) == 0 {
		return false
	}
	r, ok := ifs.Body.List[len(ifs.Body.List)-1].(*ast.ReturnStmt)
	return ok && core.ReturnIsError(info, r)
}

func c06r1(rc *core.RC) {
	p := rc.P
	pk := p.Pkg("decoder")
	maxObj := pk.Types.Scope().Lookup("maxDecodeNestingDepth")
	if maxObj == nil {
		rc.Unknown("decoder.maxDecodeNestingDepth", token.NoPos, "constant not found")
		return
	}
	hasGuard := map[*types.Func]bool{}
	type fnInfo struct {
		fd    *ast.FuncDecl
		depth types.Object
	}
	var fns []fnInfo
	for _, fd := range p.Funcs("decoder") {
		if fd.Body == nil {
			continue
		}
		info := p.Info(fd)
		d := depthParam(rc.P, info, fd)
		if d == nil {
			continue
		}
		fns = append(fns, fnInfo{fd, d})
		ast.Inspect(fd.Body, func(n ast.Node) bool {
			if ifs, ok := n.(*ast.IfStmt); ok && isDepthGuard(info, ifs, d, maxObj) {
				if fo, ok := info.Defs[fd.Name].(*types.Func); ok {
					hasGuard[fo] = true
				}
			}
			return true
		})
	}
	for _, fi := range fns {
		fd, depth := fi.fd, fi.depth
		info := p.Info(fd)
		fn := p.FuncName(fd)
		rc.Touch(fn)
		// every depth++ is followed, in its statement list, by the guard before any call that passes depth
		var lists [][]ast.Stmt
		ast.Inspect(fd.Body, func(n ast.Node) bool {
			switch x := n.(type) {
			case *ast.BlockStmt:
				lists = append(lists, x.List)
			case *ast.CaseClause:
				lists = append(lists, x.Body)
			}
			return true
		})
		passesDepth := func(st ast.Stmt) bool {
			found := false
			ast.Inspect(st, func(n ast.Node) bool {
				if call, ok := n.(*ast.CallExpr); ok {
					if i := depthArgIndex(rc, info, call); i >= 0 && i < len(call.Args) {
						found = true
					}
				}
				return true
			})
			return found
		}
		incs := 0
		for _, list := range lists {
			for i, st := range list {
				inc, ok := st.(*ast.IncDecStmt)
				if !ok || inc.Tok != token.INC || core.ObjOf(info, inc.X) != depth {
					continue
				}
				incs++
				guarded := false
				for _, later := range list[i+1:] {
					if ifs, ok := later.(*ast.IfStmt); ok && isDepthGuard(info, ifs, depth, maxObj) {
						guarded = true
						break
					}
					if passesDepth(later) {
						break
					}
				}
				rc.Check(guarded, fn+"/depth++", inc.Pos(), "the increment of the nesting depth is followed by `if depth > maxDecodeNestingDepth { return error }` before depth is passed on")
			}
		}
		// every call that takes a depth receives depth or depth+k
		ast.Inspect(fd.Body, func(n ast.Node) bool {
			call, ok := n.(*ast.CallExpr)
			if !ok {
				return true
			}
			i := depthArgIndex(rc, info, call)
			if i < 0 || i >= len(call.Args) {
				return true
			}
			rc.CallSites++
			arg := core.Unparen(call.Args[i])
			key := fmt.Sprintf("%s/call %s/depth-arg", fn, core.CalleeName(info, call))
			if core.ObjOf(info, arg) == depth {
				rc.OK(key, call.Pos(), "passes its own depth")
				return true
			}
			if be, ok := arg.(*ast.BinaryExpr); ok && be.Op == token.ADD && core.ObjOf(info, be.X) == depth {
				if k, ok := core.ConstInt(info, be.Y); ok && k >= 0 {
					callee := core.Callee(info, call)
					if callee != nil && hasGuard[callee] {
						rc.OK(key, call.Pos(), "passes depth+%d to a function that compares depth with the limit", k)
					} else {
						rc.Bad(key, call.Pos(), "passes depth+%d to a function that never compares depth with maxDecodeNestingDepth", k)
					}
					return true
				}
			}
			rc.Bad(key, call.Pos(), "the nesting depth handed to the callee is %s, neither this function's depth nor depth+k: the nesting bound is reset or lost on this edge", core.Src(p.Fset, arg))
			return true
		})
		// a function that passes depth through a *dynamic* Decoder call and is a container kind must increment
		_ = incs
	}
	// container decoders: Decode/DecodeStream/DecodePath of struct, slice, array, map must increment depth
	for _, tn := range []string{"structDecoder", "sliceDecoder", "arrayDecoder", "mapDecoder"} {
		for _, m := range []string{"Decode", "DecodeStream", "DecodePath"} {
			fd := p.Func("decoder", tn+"."+m)
			if fd == nil {
				rc.Unknown("decoder."+tn+"."+m, token.NoPos, "container decoder method not found")
				continue
			}
			info := p.Info(fd)
			d := depthParam(rc.P, info, fd)
			// does it make a dynamic Decoder call or call a skipper with depth?
			dyn := false
			ast.Inspect(fd.Body, func(n ast.Node) bool {
				if call, ok := n.(*ast.CallExpr); ok && depthArgIndex(rc, info, call) >= 0 {
					dyn = true
				}
				return true
			})
			if !dyn || d == nil {
				rc.Note(p.FuncName(fd)+"/container", fd.Pos(), "does not pass a depth on")
				continue
			}
			inc := false
			ast.Inspect(fd.Body, func(n ast.Node) bool {
				if s, ok := n.(*ast.IncDecStmt); ok && s.Tok == token.INC && core.ObjOf(info, s.X) == d {
					inc = true
				}
				return true
			})
			rc.Check(inc, p.FuncName(fd)+"/container-increments", fd.Pos(), "a container decoder that recurses into element decoders increments depth (and, by the rule above, compares it)")
		}
	}
	// entry points in package json start at depth 0
	for _, fd := range p.Funcs("json") {
		if fd.Body == nil {
			continue
		}
		info := p.Info(fd)
		ast.Inspect(fd.Body, func(n ast.Node) bool {
			call, ok := n.(*ast.CallExpr)
			if !ok {
				return true
			}
			i := depthArgIndex(rc, info, call)
			if i < 0 || i >= len(call.Args) {
				return true
			}
			v, isC := core.ConstInt(info, call.Args[i])
			rc.Check(isC && v == 0, fmt.Sprintf("%s/call %s/depth-arg", p.FuncName(fd), core.CalleeName(info, call)), call.Pos(), "entry point starts decoding at depth 0")
			return true
		})
	}
}

// ---- C06.R2 unbounded recursion ----

// decodeEntryRoots lists the decoding / utility entry points of package json.
var decodeEntryNames = []string{
	"Unmarshal", "UnmarshalContext", "UnmarshalNoEscape", "UnmarshalWithOption", "Valid", "Compact", "Indent", "HTMLEscape", "CreatePath",
	"Decoder.Decode", "Decoder.DecodeContext", "Decoder.DecodeWithOption", "Decoder.Token", "Decoder.More", "Decoder.Buffered", "Decoder.InputOffset",
	"Path.Extract", "Path.Unmarshal", "Path.Get", "Path.PathString", "Path.UsedSingleQuotePathSelector", "Path.UsedDoubleQuotePathSelector",
	"RawMessage.UnmarshalJSON",
}

var encodeEntryNames = []string{
	"Marshal", "MarshalIndent", "MarshalContext", "MarshalNoEscape", "MarshalWithOption", "MarshalIndentWithOption",
	"Encoder.Encode", "Encoder.EncodeWithOption", "Encoder.EncodeContext",
}

func entryRoots(rc *core.RC, names []string) []*ssa.Function {
	var out []*ssa.Function
	for _, n := range names {
		if f := rc.P.SSAFunc("json", n); f != nil {
			out = append(out, f)
		}
	}
	return out
}

// carriesInput: a parameter (or receiver) of the function has a type through which input bytes or a Go type flow.
func carriesInput(f *ssa.Function) string {
	for _, prm := range f.Params {
		t := prm.Type().String()
		switch {
		case t == "[]byte" || t == "[]rune" || t == "[]int32":
			return t
		case strings.HasSuffix(t, "decoder.Stream"):
			return "*Stream"
		case strings.HasSuffix(t, "runtime.Type"):
			return "*runtime.Type"
		}
	}
	return ""
}

// recursionGuard reports whether the function bounds its own recursion: a
// depth comparison with an error exit, or a memo lookup with an early return.
func recursionGuard(rc *core.RC, f *ssa.Function) string {
	fd, _ := f.Syntax().(*ast.FuncDecl)
	if fd == nil || fd.Body == nil {
		return ""
	}
	info := rc.P.Info(fd)
	if info == nil {
		return ""
	}
	kind := ""
	ast.Inspect(fd.Body, func(n ast.Node) bool {
		ifs, ok := n.(*ast.IfStmt)
		if !ok {
			return true
		}
		// depth > limit
		if be, ok := core.Unparen(ifs.Cond).(*ast.BinaryExpr); ok && (be.Op == token.GTR || be.Op == token.GEQ) {
			if c, ok := core.ObjOf(info, be.Y).(*types.Const); ok && strings.Contains(strings.ToLower(c.Name()), "depth") && len(ifs.Body.List) > 0 {
				if r, ok := ifs.Body.List[len(ifs.Body.List)-1].(*ast.ReturnStmt); ok && core.ReturnIsError(info, r) {
					kind = "depth comparison with " + c.Name()
				}
			}
		}
		// v, ok := m[k]; ok -> return
		if as, ok := ifs.Init.(*ast.AssignStmt); ok && len(as.Lhs) == 2 && len(as.Rhs) == 1 {
			if ix, ok := core.Unparen(as.Rhs[0]).(*ast.IndexExpr); ok {
				if tv := info.Types[ix.X]; tv.Type != nil {
					if _, isMap := tv.Type.Underlying().(*types.Map); isMap && core.ObjOf(info, ifs.Cond) == core.ObjOf(info, as.Lhs[1]) {
						hasRet := false
						for _, st := range ifs.Body.List {
							if _, ok := st.(*ast.ReturnStmt); ok {
								hasRet = true
							}
						}
						if hasRet {
							kind = "memo lookup " + core.Src(rc.P.Fset, ix)
						}
					}
				}
			}
		}
		return true
	})
	return kind
}

// sccRule evaluates the recursion rule on the SCCs reachable from roots.
func sccRule(rc *core.RC, roots []*ssa.Function, what string, only func(*ssa.Function) bool) {
	p := rc.P
	if len(roots) < 3 {
		rc.Unknown("json/entry-points", token.NoPos, "only %d %s entry points resolved", len(roots), what)
		return
	}
	reach := core.ReachableFrom(p.VTA(), roots)
	g := p.StaticGraph()
	for _, comp := range g.SCCs() {
		in := map[*ssa.Function]bool{}
		reachable := false
		carrier := ""
		var names []string
		for _, f := range comp {
			in[f] = true
			if reach[f] {
				reachable = true
			}
			if c := carriesInput(f); c != "" && carrier == "" {
				carrier = c
			}
			names = append(names, core.SSAName(f))
			rc.Touch(core.SSAName(f))
		}
		if !reachable {
			continue
		}
		// the component is known by the members that are entered from outside it: a helper that is added inside the
		// recursion (or taken out of it) leaves the name, and with it a recorded finding, alone
		var entries []string
		for _, f := range comp {
			for caller, succ := range g.Succ {
				if in[caller] {
					continue
				}
				called := false
				for _, s2 := range succ {
					if s2 == f {
						called = true
					}
				}
				if called {
					entries = append(entries, core.SSAName(f))
					break
				}
			}
		}
		if len(entries) == 0 {
			entries = names
		}
		key := "scc{" + strings.Join(shortNames(entries), ",") + "}"
		if only != nil && !only(comp[0]) {
			continue
		}
		if carrier == "" {
			rc.Note(key, comp[0].Pos(), "recursion over Go values / compile-time objects (no []byte, []rune, *Stream or *runtime.Type parameter): not input-driven, outside this rule")
			continue
		}
		guards := map[*ssa.Function]string{}
		for _, f := range comp {
			if k := recursionGuard(rc, f); k != "" {
				guards[f] = k
			}
		}
		// remove guard functions; is the rest still cyclic?
		var cyc []string
		color := map[*ssa.Function]int{}
		var dfs func(f *ssa.Function, path []string) bool
		dfs = func(f *ssa.Function, path []string) bool {
			color[f] = 1
			path = append(path, core.SSAName(f))
			for _, s := range g.Succ[f] {
				if !in[s] || guards[s] != "" {
					continue
				}
				if color[s] == 1 {
					cyc = append(path, core.SSAName(s))
					return true
				}
				if color[s] == 0 && dfs(s, path) {
					return true
				}
			}
			color[f] = 2
			return false
		}
		found := false
		for _, f := range comp {
			if guards[f] == "" && color[f] == 0 && dfs(f, nil) {
				found = true
				break
			}
		}
		if !found {
			var gs []string
			for f, k := range guards {
				gs = append(gs, core.SSAName(f)+": "+k)
			}
			sort.Strings(gs)
			rc.OK(key, comp[0].Pos(), "every cycle passes a guard (%s)", strings.Join(gs, "; "))
		} else {
			rc.Bad(key, comp[0].Pos(), "recursion driven by %s has a cycle with no depth bound and no memo: %s — recursion depth is proportional to the input (stack exhaustion is a fatal error, not a panic)", carrier, strings.Join(shortNames(cyc), " → "))
		}
	}
}

func shortNames(ns []string) []string {
	out := make([]string, len(ns))
	for i, n := range ns {
		if j := strings.LastIndex(n, "."); j >= 0 {
			n = n[j+1:]
		}
		out[i] = n
	}
	return out
}

func c06r2(rc *core.RC) { sccRule(rc, entryRoots(rc, decodeEntryNames), "decoding/utility", nil) }

// ---- C06.R3 reflect kind preconditions ----

var kindRestricted = map[string][]string{
	"reflect.Type.Len":       {"Array"},
	"reflect.Type.Key":       {"Map"},
	"reflect.Type.NumField":  {"Struct"},
	"reflect.Type.Field":     {"Struct"},
	"reflect.Type.Elem":      {"Array", "Chan", "Map", "Ptr", "Slice"},
	"reflect.Value.Len":      {"Array", "Chan", "Map", "Slice", "String"},
	"reflect.Value.Index":    {"Array", "Slice", "String"},
	"reflect.Value.MapRange": {"Map"},
	"reflect.Value.MapKeys":  {"Map"},
	"reflect.Value.MapIndex": {"Map"},
	"reflect.Value.NumField": {"Struct"},
	"reflect.Value.Field":    {"Struct"},
	"reflect.Value.Elem":     {"Interface", "Ptr"},
	"reflect.Value.IsNil":    {"Chan", "Func", "Interface", "Map", "Ptr", "Slice", "UnsafePointer"},
	"reflect.Value.Bool":     {"Bool"},
	"reflect.Value.Int":      {"Int", "Int8", "Int16", "Int32", "Int64"},
	"reflect.Value.Uint":     {"Uint", "Uint8", "Uint16", "Uint32", "Uint64", "Uintptr"},
	"reflect.Value.Float":    {"Float32", "Float64"},
}

// rootOf strips .Type() / local aliases (typ := src.Type()) to the underlying variable.
func rootOf(info *types.Info, fd *ast.FuncDecl, e ast.Expr, depth int) types.Object {
	e = core.Unparen(e)
	switch x := e.(type) {
	case *ast.Ident:
		o := core.ObjOf(info, x)
		if depth > 3 || o == nil {
			return o
		}
		// single definition `typ := <expr>` ?
		var def ast.Expr
		n := 0
		ast.Inspect(fd.Body, func(m ast.Node) bool {
			if as, ok := m.(*ast.AssignStmt); ok && len(as.Lhs) == len(as.Rhs) {
				for i, l := range as.Lhs {
					if core.ObjOf(info, l) == o {
						n++
						def = as.Rhs[i]
					}
				}
			}
			return true
		})
		if n == 1 {
			if c, ok := core.Unparen(def).(*ast.CallExpr); ok {
				if sel, ok := c.Fun.(*ast.SelectorExpr); ok && sel.Sel.Name == "Type" && len(c.Args) == 0 {
					return rootOf(info, fd, sel.X, depth+1)
				}
			}
		}
		return o
	case *ast.CallExpr:
		if sel, ok := x.Fun.(*ast.SelectorExpr); ok && sel.Sel.Name == "Type" && len(x.Args) == 0 {
			return rootOf(info, fd, sel.X, depth+1)
		}
	}
	return nil
}

func c06r3(rc *core.RC) {
	p := rc.P
	n := 0
	for _, short := range []string{"json", "decoder", "encoder", "runtime"} {
		for _, fd := range p.Funcs(short) {
			if fd.Body == nil {
				continue
			}
			info := p.Info(fd)
			for _, ks := range kindSwitches(info, fd) {
				tagCall, ok := core.Unparen(ks.sw.Tag).(*ast.CallExpr)
				if !ok {
					continue
				}
				sel, ok := tagCall.Fun.(*ast.SelectorExpr)
				if !ok || sel.Sel.Name != "Kind" {
					continue
				}
				root := rootOf(info, fd, sel.X, 0)
				if root == nil {
					continue
				}
				// clause -> its kinds
				kindsOf := map[*ast.CaseClause][]string{}
				for k, cc := range ks.clause {
					kindsOf[cc] = append(kindsOf[cc], k)
				}
				for cc, kinds := range kindsOf {
					sort.Strings(kinds)
					for _, st := range cc.Body {
						ast.Inspect(st, func(m ast.Node) bool {
							if _, isSw := m.(*ast.SwitchStmt); isSw {
								return false // a nested kind switch refines the kind: handled on its own
							}
							call, ok := m.(*ast.CallExpr)
							if !ok {
								return true
							}
							cn := core.CalleeName(info, call)
							allowed, restricted := kindRestricted[cn]
							if !restricted {
								return true
							}
							rsel, ok := call.Fun.(*ast.SelectorExpr)
							if !ok || rootOf(info, fd, rsel.X, 0) != root {
								return true
							}
							// the receiver must be the switched value itself (src / typ), not a derived one (src.Elem().Len())
							if _, isIdent := core.Unparen(rsel.X).(*ast.Ident); !isIdent {
								if c2, ok := core.Unparen(rsel.X).(*ast.CallExpr); !ok || !isTypeCall(c2) {
									return true
								}
							}
							n++
							rc.CallSites++
							okKinds := map[string]bool{}
							for _, a := range allowed {
								okKinds[a] = true
							}
							all := true
							for _, k := range kinds {
								if okKinds[k] {
									all = false
								}
							}
							key := fmt.Sprintf("%s/case %s/%s", p.FuncName(fd), strings.Join(kinds, ","), strings.TrimPrefix(cn, "reflect."))
							if all {
								rc.Bad(key, call.Pos(), "%s panics unless the kind is one of %v, but this clause is entered only for kind %s: a definite run-time panic", cn, allowed, strings.Join(kinds, ","))
							} else {
								rc.OK(key, call.Pos(), "kind %s admits %s", strings.Join(kinds, ","), cn)
							}
							return true
						})
					}
				}
			}
		}
	}
	_ = n
}

func isTypeCall(c *ast.CallExpr) bool {
	sel, ok := c.Fun.(*ast.SelectorExpr)
	return ok && sel.Sel.Name == "Type" && len(c.Args) == 0
}

// ---- C06.R4 no reachable explicit panic ----

func c06r4(rc *core.RC) {
	p := rc.P
	roots := entryRoots(rc, decodeEntryNames)
	if len(roots) < 10 {
		rc.Unknown("json/entry-points", token.NoPos, "only %d decoding entry points resolved", len(roots))
		return
	}
	reach := core.ReachableFrom(p.VTA(), roots)
	sites := 0
	for _, f := range p.ModuleFuncs() {
		for _, b := range f.Blocks {
			for _, ins := range b.Instrs {
				pn, ok := ins.(*ssa.Panic)
				if !ok {
					continue
				}
				sites++
				key := core.SSAName(f) + "/panic"
				if fromRecover(pn.X, 0) {
					rc.OK(key, pn.Pos(), "re-raises a value obtained from recover(): introduces no new panic")
					continue
				}
				if f.Name() == "init" || strings.HasPrefix(f.Name(), "init#") {
					rc.OK(key, pn.Pos(), "package initialisation, not input-dependent")
					continue
				}
				if reach[f] {
					rc.Bad(key, pn.Pos(), "explicit panic in a function reachable (VTA call graph) from the decoding/utility entry points")
				} else {
					rc.OK(key, pn.Pos(), "not reachable from the decoding/utility entry points")
				}
			}
		}
	}
	rc.Check(len(reach) > 200, "json/decoding-reachability", token.NoPos, "%d functions reachable from %d entry points", len(reach), len(roots))
}

// ---- C06.R3b zero reflect.Value tolerance ----

var panicsOnZeroValue = map[string]bool{
	"Type": true, "Interface": true, "Elem": true, "Len": true, "Index": true, "Field": true, "NumField": true,
	"MapRange": true, "MapKeys": true, "MapIndex": true, "IsNil": true, "Int": true, "Uint": true, "Float": true, "Bool": true,
	"Convert": true, "Addr": true, "Pointer": true, "Set": true,
}

func isReflectValue(t types.Type) bool {
	n, ok := t.(*types.Named)
	return ok && n.Obj().Name() == "Value" && n.Obj().Pkg() != nil && n.Obj().Pkg().Path() == "reflect"
}

// maybeZeroValue: the expression can evaluate to the zero reflect.Value for
// ordinary data: x.Elem() (nil pointer / nil interface), reflect.ValueOf(e)
// with e of interface type (nil interface), x.MapIndex(k) (missing key).
func maybeZeroValue(info *types.Info, e ast.Expr) string {
	call, ok := core.Unparen(e).(*ast.CallExpr)
	if !ok {
		return ""
	}
	isValueVar := func(x ast.Expr) bool {
		o, ok := core.ObjOf(info, x).(*types.Var)
		return ok && isReflectValue(o.Type())
	}
	switch core.CalleeName(info, call) {
	case "reflect.Value.Elem":
		// Elem() of a Value that is being traversed: nil pointer / nil interface in the data
		if sel, ok := call.Fun.(*ast.SelectorExpr); ok && isValueVar(sel.X) {
			return "Elem() of a nil pointer or nil interface in the traversed value"
		}
	case "reflect.ValueOf":
		// reflect.ValueOf(x.Interface()) re-boxes the content of an interface-kinded Value: nil interface gives the zero Value
		if len(call.Args) == 1 {
			if inner, ok := core.Unparen(call.Args[0]).(*ast.CallExpr); ok && core.CalleeName(info, inner) == "reflect.Value.Interface" {
				if sel, ok := inner.Fun.(*ast.SelectorExpr); ok && isValueVar(sel.X) {
					return "reflect.ValueOf(x.Interface()) of a nil interface in the traversed value"
				}
			}
			// reflect.ValueOf(v) of a variable of an interface type: nil gives the zero Value
			if o, ok := core.ObjOf(info, call.Args[0]).(*types.Var); ok {
				if _, isIface := o.Type().Underlying().(*types.Interface); isIface && !definedByShortDecl(info, o) {
					return "reflect.ValueOf(" + o.Name() + ") of an interface variable that can be nil"
				}
			}
		}
	}
	return ""
}

// unguardedZeroUse returns the first use of variable v (a reflect.Value) as
// the receiver of a method that panics on the zero Value, not protected by an
// IsValid test; nil if every such use is protected.
func unguardedZeroUse(rc *core.RC, fd *ast.FuncDecl, v types.Object) *ast.CallExpr {
	info := rc.P.Info(fd)
	var cf *core.FuncCFG
	var bad *ast.CallExpr
	isValidCall := func(e ast.Expr) bool {
		c, ok := core.Unparen(e).(*ast.CallExpr)
		if !ok {
			return false
		}
		sel, ok := c.Fun.(*ast.SelectorExpr)
		return ok && sel.Sel.Name == "IsValid" && core.ObjOf(info, sel.X) == v
	}
	ast.Inspect(fd.Body, func(n ast.Node) bool {
		if bad != nil {
			return false
		}
		call, ok := n.(*ast.CallExpr)
		if !ok {
			return true
		}
		sel, ok := call.Fun.(*ast.SelectorExpr)
		if !ok || !panicsOnZeroValue[sel.Sel.Name] || core.ObjOf(info, sel.X) != v {
			return true
		}
		if f := core.Callee(info, call); f == nil || f.Pkg() == nil || f.Pkg().Path() != "reflect" {
			return true
		}
		// guarded?
		if cf == nil {
			cf = core.BuildCFG(fd.Body, info)
		}
		ub, _ := cf.BlockOf(call)
		guarded := false
		ast.Inspect(fd.Body, func(m ast.Node) bool {
			ifs, ok := m.(*ast.IfStmt)
			if !ok || guarded {
				return true
			}
			cond := core.Unparen(ifs.Cond)
			if ue, ok := cond.(*ast.UnaryExpr); ok && ue.Op == token.NOT && isValidCall(ue.X) {
				gb, _ := cf.BlockOf(ifs.Cond)
				tb, _ := core.IfEdges(gb)
				if gb != nil && ub != nil && cf.Dominates(gb, ub) && tb != nil && len(cf.ReachableFrom(tb, nil)) > 0 {
					// then-branch must leave the function
					leaves := true
					if n := len(ifs.Body.List); n == 0 {
						leaves = false
					} else if _, isRet := ifs.Body.List[n-1].(*ast.ReturnStmt); !isRet {
						leaves = false
					}
					if leaves {
						guarded = true
					}
				}
			}
			for _, c := range conjuncts(cond) {
				if isValidCall(c) && ifs.Body.Pos() <= call.Pos() && call.End() <= ifs.Body.End() {
					guarded = true
				}
			}
			// `!v.IsValid() || … v.Type() …`: the later operands are evaluated for a valid v only, and behind the
			// statement v is valid when the then-branch leaves
			ds := disjuncts(cond)
			for i, d := range ds {
				ue, isNot := core.Unparen(d).(*ast.UnaryExpr)
				if !isNot || ue.Op != token.NOT || !isValidCall(ue.X) {
					continue
				}
				for _, later := range ds[i+1:] {
					if later.Pos() <= call.Pos() && call.End() <= later.End() {
						guarded = true
					}
				}
				if nb := len(ifs.Body.List); nb > 0 {
					if _, isRet := ifs.Body.List[nb-1].(*ast.ReturnStmt); isRet {
						gb, _ := cf.BlockOf(ifs.Cond)
						if gb != nil && ub != nil && cf.Dominates(gb, ub) && call.Pos() > ifs.End() {
							guarded = true
						}
					}
				}
			}
			return true
		})
		if !guarded {
			bad = call
		}
		return true
	})
	return bad
}

func c06r3b(rc *core.RC) {
	p := rc.P
	pk := p.Pkg("decoder")
	// implementations of interface methods, by name, for dynamic calls on module interfaces
	implsOf := func(m *types.Func) []*types.Func {
		var out []*types.Func
		recv := m.Type().(*types.Signature).Recv()
		if recv == nil {
			return []*types.Func{m}
		}
		iface, ok := recv.Type().Underlying().(*types.Interface)
		if !ok {
			return []*types.Func{m}
		}
		for _, name := range pk.Types.Scope().Names() {
			tn, ok := pk.Types.Scope().Lookup(name).(*types.TypeName)
			if !ok {
				continue
			}
			pt := types.NewPointer(tn.Type())
			if types.Implements(pt, iface) || types.Implements(tn.Type(), iface) {
				if o, _, _ := types.LookupFieldOrMethod(pt, true, pk.Types, m.Name()); o != nil {
					if f, ok := o.(*types.Func); ok {
						out = append(out, f)
					}
				}
			}
		}
		return out
	}
	for _, short := range []string{"decoder", "json"} {
		for _, fd := range p.Funcs(short) {
			if fd.Body == nil {
				continue
			}
			info := p.Info(fd)
			fn := p.FuncName(fd)
			// (a) locals assigned from a possibly-zero expression
			ast.Inspect(fd.Body, func(n ast.Node) bool {
				as, ok := n.(*ast.AssignStmt)
				if !ok || len(as.Lhs) != len(as.Rhs) {
					return true
				}
				for i, r := range as.Rhs {
					why := maybeZeroValue(info, r)
					if why == "" {
						continue
					}
					v := core.ObjOf(info, as.Lhs[i])
					if v == nil {
						continue
					}
					rc.Touch(fn)
					key := fmt.Sprintf("%s/local %s", fn, v.Name())
					if use := unguardedZeroUse(rc, fd, v); use != nil {
						rc.Bad(key, use.Pos(), "%s may be the zero reflect.Value (%s) and %s panics on it; no IsValid test protects the call", v.Name(), why, core.Src(p.Fset, use.Fun))
					} else {
						rc.OK(key, as.Pos(), "possibly-zero Value is only used under IsValid or through zero-safe methods")
					}
				}
				return true
			})
			// (b) possibly-zero expressions passed to module functions
			ast.Inspect(fd.Body, func(n ast.Node) bool {
				call, ok := n.(*ast.CallExpr)
				if !ok {
					return true
				}
				callee := core.Callee(info, call)
				if callee == nil || !strings.HasPrefix(pkgPathOf(callee), core.ModPath) {
					return true
				}
				for ai, a := range call.Args {
					why := maybeZeroValue(info, a)
					if why == "" {
						continue
					}
					rc.CallSites++
					rc.Touch(fn)
					for _, impl := range implsOf(callee) {
						id := p.DeclOf(impl)
						if id == nil || id.Body == nil {
							continue
						}
						iinfo := p.Info(id)
						// parameter object at index ai
						var prm types.Object
						k := 0
						for _, f := range id.Type.Params.List {
							for _, nm := range f.Names {
								if k == ai {
									prm = iinfo.Defs[nm]
								}
								k++
							}
						}
						if prm == nil || !isReflectValue(prm.Type()) {
							continue
						}
						key := fmt.Sprintf("%s/call %s/arg %s", fn, p.FuncName(id), core.Shape(p.Fset, info, fd, a))
						if use := unguardedZeroUse(rc, id, prm); use != nil {
							rc.Bad(key, call.Pos(), "passes %s, which may be the zero reflect.Value (%s), to %s whose parameter %s is used by %s without an IsValid test: panics on nil data", core.Src(p.Fset, a), why, p.FuncName(id), prm.Name(), core.Src(p.Fset, use.Fun))
						} else {
							rc.OK(key, call.Pos(), "callee tolerates the zero Value")
						}
					}
				}
				return true
			})
		}
	}
}

// fromRecover: the value is (a phi/conversion of) the result of the builtin recover.
func fromRecover(v ssa.Value, depth int) bool {
	if depth > 6 {
		return false
	}
	switch x := v.(type) {
	case *ssa.Call:
		if b, ok := x.Call.Value.(*ssa.Builtin); ok && b.Name() == "recover" {
			return true
		}
	case *ssa.MakeInterface:
		return fromRecover(x.X, depth+1)
	case *ssa.ChangeInterface:
		return fromRecover(x.X, depth+1)
	case *ssa.Phi:
		for _, e := range x.Edges {
			if fromRecover(e, depth+1) {
				return true
			}
		}
	case *ssa.UnOp:
		if al, ok := x.X.(*ssa.Alloc); ok {
			for _, r := range *al.Referrers() {
				if st, ok := r.(*ssa.Store); ok && fromRecover(st.Val, depth+1) {
					return true
				}
			}
		}
	}
	return false
}

// ---- C06.R6 panicking type assertions on user-typed values ----

// A single-value type assertion x.(I) panics when the dynamic type does not
// implement I. In the decoders the operand is the user's destination. The
// assertion is safe only when the decoder is constructed for types that
// implement exactly I; two assertions of one operand to different interfaces,
// selected by something other than the dynamic type, cannot both be safe.
func c06r6(rc *core.RC) {
	p := rc.P
	n := 0
	for _, short := range []string{"decoder", "encoder"} {
		for _, fd := range p.Funcs(short) {
			if fd.Body == nil {
				continue
			}
			info := p.Info(fd)
			type asr struct {
				e     *ast.TypeAssertExpr
				iface string
			}
			byOperand := map[types.Object][]asr{}
			// assertions in comma-ok form or in type switches are non-panicking
			safe := map[*ast.TypeAssertExpr]bool{}
			ast.Inspect(fd.Body, func(m ast.Node) bool {
				switch x := m.(type) {
				case *ast.AssignStmt:
					if len(x.Lhs) == 2 && len(x.Rhs) == 1 {
						if ta, ok := core.Unparen(x.Rhs[0]).(*ast.TypeAssertExpr); ok {
							safe[ta] = true
						}
					}
				case *ast.ValueSpec:
					if len(x.Names) == 2 && len(x.Values) == 1 {
						if ta, ok := core.Unparen(x.Values[0]).(*ast.TypeAssertExpr); ok {
							safe[ta] = true
						}
					}
				case *ast.TypeSwitchStmt:
					ast.Inspect(x.Assign, func(k ast.Node) bool {
						if ta, ok := k.(*ast.TypeAssertExpr); ok {
							safe[ta] = true
						}
						return true
					})
				}
				return true
			})
			ast.Inspect(fd.Body, func(m ast.Node) bool {
				ta, ok := m.(*ast.TypeAssertExpr)
				if !ok || ta.Type == nil || safe[ta] {
					return true
				}
				tv := info.Types[ta.Type]
				if tv.Type == nil {
					return true
				}
				if _, isIface := tv.Type.Underlying().(*types.Interface); !isIface {
					return true // assertion to a concrete library type (pool values, Code nodes)
				}
				if o := core.ObjOf(info, ta.X); o != nil {
					byOperand[o] = append(byOperand[o], asr{ta, types.ExprString(ta.Type)})
				}
				return true
			})
			for o, as := range byOperand {
				distinct := map[string]bool{}
				for _, a := range as {
					distinct[a.iface] = true
				}
				for _, a := range as {
					n++
					rc.Touch(p.FuncName(fd))
					key := fmt.Sprintf("%s/type-assertion %s.(%s)", p.FuncName(fd), o.Name(), a.iface)
					if len(distinct) > 1 {
						rc.Bad(key, a.e.Pos(), "%s is asserted (panicking form) to %d different interfaces in this function (%s): which assertion runs is decided by an option flag, not by the dynamic type, so a destination implementing only one of them panics with an interface conversion error", o.Name(), len(distinct), strings.Join(keysOf(distinct), ", "))
					} else {
						rc.OK(key, a.e.Pos(), "single interface asserted; the decoder is constructed only for types implementing it")
					}
				}
			}
		}
	}
	if n < 2 {
		rc.Unknown("module/panicking-assertions", token.NoPos, "found %d panicking interface assertions (confirmed: the two TextUnmarshaler sites)", n)
	}
}

// ---- C06.R7 indexed writes into a made buffer are bounded inside the loop ----

// For a local x := make([]byte, N) that is written at a position i which moves inside a loop
// (x[i] = v, utf8.EncodeRune(x[i:], r), copy(x[i:], …)), the loop must contain a test relating
// i to len(x)/cap(x) whose branch replaces x (growth) or leaves the function. Without it the
// write position can pass the end of the buffer for inputs that expand (here: every malformed
// byte of a quoted text becomes a three-byte U+FFFD), and the decoder panics.
func c06r7(rc *core.RC) {
	p := rc.P
	n := 0
	for _, short := range []string{"decoder", "encoder"} {
		for _, fd := range p.Funcs(short) {
			if fd.Body == nil {
				continue
			}
			info := p.Info(fd)
			made := map[types.Object]bool{}
			ast.Inspect(fd.Body, func(m ast.Node) bool {
				as, ok := m.(*ast.AssignStmt)
				if !ok || len(as.Lhs) != 1 || len(as.Rhs) != 1 {
					return true
				}
				if c, ok := core.Unparen(as.Rhs[0]).(*ast.CallExpr); ok && core.IsBuiltin(info, c, "make") {
					if o := core.ObjOf(info, as.Lhs[0]); o != nil && o.Type().String() == "[]byte" {
						if v, ok := o.(*types.Var); ok && !v.IsField() {
							made[o] = true
						}
					}
				}
				return true
			})
			if len(made) == 0 {
				continue
			}
			ast.Inspect(fd.Body, func(m ast.Node) bool {
				loop, ok := m.(*ast.ForStmt)
				if !ok {
					return true
				}
				// positions that move in this loop
				moves := map[types.Object]bool{}
				ast.Inspect(loop.Body, func(k ast.Node) bool {
					switch x := k.(type) {
					case *ast.IncDecStmt:
						if o := core.ObjOf(info, x.X); o != nil {
							moves[o] = true
						}
					case *ast.AssignStmt:
						if x.Tok == token.ADD_ASSIGN && len(x.Lhs) == 1 {
							if o := core.ObjOf(info, x.Lhs[0]); o != nil {
								moves[o] = true
							}
						}
					}
					return true
				})
				// writes x[i] = …, f(x[i:], …)
				type site struct {
					buf, idx types.Object
					pos      token.Pos
				}
				var sites []site
				add := func(x, i ast.Expr, pos token.Pos) {
					bo, io := core.ObjOf(info, x), core.ObjOf(info, i)
					if bo != nil && io != nil && made[bo] && moves[io] {
						sites = append(sites, site{bo, io, pos})
					}
				}
				ast.Inspect(loop.Body, func(k ast.Node) bool {
					switch x := k.(type) {
					case *ast.AssignStmt:
						for _, l := range x.Lhs {
							if ix, ok := core.Unparen(l).(*ast.IndexExpr); ok {
								add(ix.X, ix.Index, ix.Pos())
							}
						}
					case *ast.CallExpr:
						cn := core.CalleeName(info, x)
						if (cn == "utf8.EncodeRune" || core.IsBuiltin(info, x, "copy")) && len(x.Args) > 0 {
							if sl, ok := core.Unparen(x.Args[0]).(*ast.SliceExpr); ok && sl.Low != nil {
								add(sl.X, sl.Low, sl.Pos())
							}
						}
					}
					return true
				})
				done := map[string]bool{}
				for _, s := range sites {
					key := fmt.Sprintf("%s/bounded-write %s[%s]", p.FuncName(fd), s.buf.Name(), s.idx.Name())
					if done[key] {
						continue
					}
					done[key] = true
					n++
					rc.Touch(p.FuncName(fd))
					// a capacity test in the loop: mentions idx and len(buf)/cap(buf); branch reassigns buf or returns
					ok := false
					ast.Inspect(loop.Body, func(k ast.Node) bool {
						ifs, isIf := k.(*ast.IfStmt)
						if !isIf || ok {
							return true
						}
						hasIdx, hasLen := false, false
						ast.Inspect(ifs.Cond, func(c ast.Node) bool {
							switch x := c.(type) {
							case *ast.Ident:
								if info.Uses[x] == s.idx {
									hasIdx = true
								}
							case *ast.CallExpr:
								if (core.IsBuiltin(info, x, "len") || core.IsBuiltin(info, x, "cap")) && len(x.Args) == 1 && core.ObjOf(info, x.Args[0]) == s.buf {
									hasLen = true
								}
							}
							return true
						})
						if !hasIdx || !hasLen {
							return true
						}
						ast.Inspect(ifs.Body, func(c ast.Node) bool {
							switch x := c.(type) {
							case *ast.ReturnStmt:
								ok = true
							case *ast.AssignStmt:
								for _, l := range x.Lhs {
									if core.ObjOf(info, l) == s.buf {
										ok = true
									}
								}
							}
							return true
						})
						return true
					})
					if ok {
						rc.OK(key, s.pos, "the loop compares %s with len(%s) and grows the buffer (or leaves) before writing", s.idx.Name(), s.buf.Name())
					} else {
						rc.Bad(key, s.pos, "%s is written at the moving position %s inside a loop that never compares %s with len(%s): if the output can outgrow the initial allocation (each malformed input byte becomes a three-byte U+FFFD) the write runs past the buffer and the call panics", s.buf.Name(), s.idx.Name(), s.idx.Name(), s.buf.Name())
					}
				}
				return true
			})
		}
	}
	if n < 1 {
		rc.Unknown("decoder/indexed-buffer-writes", token.NoPos, "no indexed write into a made buffer found (unquoteBytes expected)")
	}
}

// ---- C06.R8 the structure skippers count nesting depth symmetrically ----

// skipObject/skipArray (buffer and stream) walk a skipped value by counting brackets. In each of
// them the depth counter must go up in the clause of an opening bracket and down in the clause of
// the matching closing bracket: an increment without its decrement turns the nesting depth into a
// count of siblings, and a wide but shallow skipped value fails with "exceeded max depth".
func c06r8(rc *core.RC) {
	p := rc.P
	n := 0
	for _, name := range []string{"skipObject", "skipArray", "Stream.skipObject", "Stream.skipArray"} {
		fd := p.Func("decoder", name)
		fn := "decoder." + name
		if fd == nil {
			rc.Unknown(fn, token.NoPos, "not found")
			continue
		}
		info := p.Info(fd)
		rc.Touch(p.FuncName(fd))
		// the depth parameter (found by role)
		depth := depthParam(p, info, fd)
		if depth == nil {
			rc.Unknown(fn+"/depth", fd.Pos(), "no depth parameter")
			continue
		}
		var bs *core.ByteSwitch
		ast.Inspect(fd.Body, func(m ast.Node) bool {
			if sw, ok := m.(*ast.SwitchStmt); ok && bs == nil {
				if b, _ := core.EvalByteSwitch(info, sw); b != nil && b.HasLabel('{') && b.HasLabel('[') {
					bs = b
				}
			}
			return true
		})
		if bs == nil {
			rc.Unknown(fn+"/bracket-dispatch", fd.Pos(), "bracket dispatch not found")
			continue
		}
		delta := func(cc *ast.CaseClause) (inc, dec int) {
			if cc == nil {
				return
			}
			for _, st := range cc.Body {
				ast.Inspect(st, func(k ast.Node) bool {
					if x, ok := k.(*ast.IncDecStmt); ok && core.ObjOf(info, x.X) == depth {
						if x.Tok == token.INC {
							inc++
						} else {
							dec++
						}
					}
					return true
				})
			}
			return
		}
		for _, pair := range [][2]byte{{'{', '}'}, {'[', ']'}} {
			n++
			oi, od := delta(bs.ClauseOf(pair[0]))
			ci, cd := delta(bs.ClauseOf(pair[1]))
			key := fmt.Sprintf("%s/depth %c%c", fn, pair[0], pair[1])
			ok := oi == 1 && od == 0 && ci == 0 && cd == 1
			rc.Check(ok, key, fd.Pos(), "the clause of %q raises the depth once (+%d −%d) and the clause of %q lowers it once (+%d −%d): without the matching decrement the depth counts siblings, and a wide shallow value that is skipped fails with a depth error", pair[0], oi, od, pair[1], ci, cd)
		}
	}
	if n < 8 {
		rc.Unknown("decoder/skippers", token.NoPos, "found %d bracket pairs in the four structure skippers", n)
	}
}

// ---- C06.R9 an index into a power table is bounded by that table's own length ----

// parseInt and parseUint weight digits with pow10i64/pow10u64 and reject literals with more digits
// than the table has entries, using a package variable defined as len(table). The guard in a
// function has to name the length of the table that function indexes: the two tables have
// different lengths, and the other one's length lets a 20-digit literal index past the end.
func c06r9(rc *core.RC) {
	p := rc.P
	pk := p.Pkg("decoder")
	// package variables defined as len(<table>)
	lenOf := map[types.Object]types.Object{}
	for _, f := range pk.Syntax {
		for _, d := range f.Decls {
			gd, ok := d.(*ast.GenDecl)
			if !ok {
				continue
			}
			for _, sp := range gd.Specs {
				vs, ok := sp.(*ast.ValueSpec)
				if !ok {
					continue
				}
				for i, nm := range vs.Names {
					if i >= len(vs.Values) {
						continue
					}
					if c, ok := core.Unparen(vs.Values[i]).(*ast.CallExpr); ok && core.IsBuiltin(pk.TypesInfo, c, "len") && len(c.Args) == 1 {
						if t := core.ObjOf(pk.TypesInfo, c.Args[0]); t != nil {
							lenOf[pk.TypesInfo.Defs[nm]] = t
						}
					}
				}
			}
		}
	}
	n := 0
	for _, fd := range p.Funcs("decoder") {
		if fd.Body == nil {
			continue
		}
		info := p.Info(fd)
		indexed := map[types.Object]token.Pos{}
		guarded := map[types.Object]bool{}
		ast.Inspect(fd.Body, func(m ast.Node) bool {
			switch x := m.(type) {
			case *ast.IndexExpr:
				t := core.ObjOf(info, x.X)
				if t == nil || t.Pkg() == nil || t.Parent() != t.Pkg().Scope() {
					return true
				}
				if _, isConst := core.ConstInt(info, x.Index); isConst {
					return true
				}
				hasLenVar := false
				for _, tt := range lenOf {
					if tt == t {
						hasLenVar = true
					}
				}
				if hasLenVar {
					indexed[t] = x.Pos()
				}
			case *ast.IfStmt:
				exits := false
				for _, st := range x.Body.List {
					if r, ok := st.(*ast.ReturnStmt); ok && core.ReturnIsError(info, r) {
						exits = true
					}
				}
				if !exits {
					return true
				}
				ast.Inspect(x.Cond, func(k ast.Node) bool {
					if id, ok := k.(*ast.Ident); ok {
						if t, ok := lenOf[info.Uses[id]]; ok {
							guarded[t] = true
						}
					}
					if c, ok := k.(*ast.CallExpr); ok && core.IsBuiltin(info, c, "len") && len(c.Args) == 1 {
						if t := core.ObjOf(info, c.Args[0]); t != nil {
							guarded[t] = true
						}
					}
					return true
				})
			}
			return true
		})
		for t, pos := range indexed {
			n++
			fn := p.FuncName(fd)
			rc.Touch(fn)
			key := fn + "/index " + t.Name() + " bounded-by-own-length"
			if guarded[t] {
				rc.OK(key, pos, "an error exit compares against the length of %s", t.Name())
			} else {
				var others []string
				for o := range guarded {
					others = append(others, o.Name())
				}
				sort.Strings(others)
				rc.Bad(key, pos, "%s is indexed with a run-time value, but the only length tests with an error exit in %s are against %v: a literal long enough for the other table indexes past the end of this one and the call panics", t.Name(), fd.Name.Name, others)
			}
		}
	}
	if n < 2 {
		rc.Unknown("decoder/table-index-sites", token.NoPos, "found %d indexed length-guarded tables (parseInt and parseUint expected)", n)
	}
}

// ---- C06.R10 every decoder context carries options ----

// Decoders read ctx.Option (flags, context, path). A RuntimeContext built by a composite literal
// instead of taken from the pool must set Option, or the first decoder that looks at it panics.
func c06r10(rc *core.RC) {
	p := rc.P
	n := 0
	for _, short := range []string{"decoder", "json"} {
		pk := p.Pkg(short)
		info := pk.TypesInfo
		for _, file := range pk.Syntax {
			k := 0
			base := p.FileBase(file.Pos())
			ast.Inspect(file, func(m ast.Node) bool {
				cl, ok := m.(*ast.CompositeLit)
				if !ok {
					return true
				}
				tv := info.Types[cl]
				nt, ok := tv.Type.(*types.Named)
				if !ok || nt.Obj().Name() != "RuntimeContext" || nt.Obj().Pkg() == nil || nt.Obj().Pkg().Path() != core.PkgPaths["decoder"] {
					return true
				}
				n++
				k++
				where := short + "/" + base
				if fd := core.EnclosingFunc(pk, cl.Pos()); fd != nil {
					where = p.FuncName(fd)
					rc.Touch(where)
				}
				has := false
				for _, el := range cl.Elts {
					if kv, ok := el.(*ast.KeyValueExpr); ok {
						if id, ok := kv.Key.(*ast.Ident); ok && id.Name == "Option" && !core.IsNilIdent(info, kv.Value) {
							has = true
						}
					}
				}
				rc.Check(has, fmt.Sprintf("%s/RuntimeContext-literal#%d has-Option", where, k), cl.Pos(), "a decoder RuntimeContext is built with its Option set (decoders dereference ctx.Option)")
				return true
			})
		}
	}
	if n < 2 {
		rc.Unknown("decoder/RuntimeContext-literals", token.NoPos, "found %d RuntimeContext literals (the pool constructor and the ,string stream path expected)", n)
	}
}

// ---- C06.R11 a pointer taken out of an interface header is nil-tested before it becomes a destination ----

// headerPtrBase returns the variable X of an expression X.ptr where X is (a pointer to) a struct with the two words of an
// interface value (fields typ and ptr), looking through noescape(...) and conversions.
func headerPtrBase(info *types.Info, e ast.Expr) types.Object {
	e = core.Unparen(e)
	if c, ok := e.(*ast.CallExpr); ok && len(c.Args) == 1 {
		return headerPtrBase(info, c.Args[0])
	}
	sel, ok := e.(*ast.SelectorExpr)
	if !ok || sel.Sel.Name != "ptr" {
		return nil
	}
	f := core.FieldOf(info, sel)
	if f == nil || f.Type().String() != "unsafe.Pointer" {
		return nil
	}
	tv, has := info.Types[sel.X]
	if !has {
		return nil
	}
	t := tv.Type
	if pt, isPtr := t.Underlying().(*types.Pointer); isPtr {
		t = pt.Elem()
	}
	st, isStruct := t.Underlying().(*types.Struct)
	if !isStruct || st.NumFields() != 2 {
		return nil
	}
	return core.ObjOf(info, sel.X)
}

// The two words of an interface value the caller supplied (the root destination, the value already stored in an
// interface{} destination) are read through a header struct. The data word may be nil (a typed nil pointer). Every
// decoder call that takes such a word as its destination has to be unreachable while the word may still be nil: on
// every flow-graph path from the function's entry there is a test `X.ptr == nil` (or validateType(X.typ, uintptr(X.ptr))
// != nil) whose failing side leaves.
func c06r11(rc *core.RC) {
	p := rc.P
	n := 0
	for _, short := range []string{"json", "decoder"} {
		for _, fd := range p.Funcs(short) {
			if fd.Body == nil {
				continue
			}
			info := p.Info(fd)
			type site struct {
				call *ast.CallExpr
				base types.Object
			}
			var sites []site
			ast.Inspect(fd.Body, func(m ast.Node) bool {
				c, ok := m.(*ast.CallExpr)
				if !ok || len(c.Args) == 0 {
					return true
				}
				sel, isSel := c.Fun.(*ast.SelectorExpr)
				if !isSel || (sel.Sel.Name != "Decode" && sel.Sel.Name != "DecodeStream") {
					return true
				}
				if b := headerPtrBase(info, c.Args[len(c.Args)-1]); b != nil {
					sites = append(sites, site{c, b})
				}
				return true
			})
			if len(sites) == 0 {
				continue
			}
			cf := core.BuildCFGFor(fd, info)
			fn := p.FuncName(fd)
			rc.Touch(fn)
			for i, s := range sites {
				n++
				key := fmt.Sprintf("%s/destination-from-interface-word#%d nil-tested", fn, i+1)
				// edges that establish X.ptr != nil
				safe := map[[2]int32]bool{}
				for _, b := range cf.G.Blocks {
					if len(b.Succs) != 2 || len(b.Nodes) == 0 {
						continue
					}
					cond, isExpr := b.Nodes[len(b.Nodes)-1].(ast.Expr)
					if !isExpr {
						continue
					}
					// X.ptr == nil among the disjuncts: the false edge knows the word is not nil
					var disj func(e ast.Expr) bool
					disj = func(e ast.Expr) bool {
						e = core.Unparen(e)
						if be, ok := e.(*ast.BinaryExpr); ok {
							if be.Op == token.LOR {
								return disj(be.X) || disj(be.Y)
							}
							if be.Op == token.EQL && core.IsNilIdent(info, be.Y) && headerPtrBase(info, be.X) == s.base {
								return true
							}
						}
						return false
					}
					var conj func(e ast.Expr) bool
					conj = func(e ast.Expr) bool {
						e = core.Unparen(e)
						if be, ok := e.(*ast.BinaryExpr); ok {
							if be.Op == token.LAND {
								return conj(be.X) || conj(be.Y)
							}
							if be.Op == token.NEQ && core.IsNilIdent(info, be.Y) && headerPtrBase(info, be.X) == s.base {
								return true
							}
						}
						return false
					}
					if disj(cond) {
						safe[[2]int32{b.Index, b.Succs[1].Index}] = true
					}
					if conj(cond) {
						safe[[2]int32{b.Index, b.Succs[0].Index}] = true
					}
					// if err := validateType(X.typ, uintptr(X.ptr)); err != nil { return }
					if be, ok := core.Unparen(cond).(*ast.BinaryExpr); ok && be.Op == token.NEQ && core.IsNilIdent(info, be.Y) {
						for _, nd := range b.Nodes {
							ast.Inspect(nd, func(m ast.Node) bool {
								c, isCall := m.(*ast.CallExpr)
								if !isCall || !strings.HasSuffix(core.CalleeName(info, c), "validateType") {
									return true
								}
								for _, a := range c.Args {
									// the word itself, or a local defined once from it (ptr := uintptr(header.ptr))
									if id, isIdent := core.Unparen(a).(*ast.Ident); isIdent {
										if def := singleDef(info, fd.Body, core.ObjOf(info, id)); def != nil {
											a = def
										}
									}
									if headerPtrBase(info, a) == s.base && validateTypeTestsZero(p) {
										safe[[2]int32{b.Index, b.Succs[1].Index}] = true
									}
								}
								return true
							})
						}
					}
				}
				target, _ := cf.BlockOf(s.call)
				if target == nil {
					rc.Unknown(key, s.call.Pos(), "call not found in the flow graph")
					continue
				}
				// is the call reachable from the entry without crossing a safe edge?
				seen := map[int32]bool{}
				var stack []*cfg.Block
				if len(cf.G.Blocks) > 0 {
					stack = append(stack, cf.G.Blocks[0])
				}
				reached := false
				for len(stack) > 0 {
					b := stack[len(stack)-1]
					stack = stack[:len(stack)-1]
					if seen[b.Index] {
						continue
					}
					seen[b.Index] = true
					if b == target {
						reached = true
						break
					}
					for _, su := range b.Succs {
						if !safe[[2]int32{b.Index, su.Index}] {
							stack = append(stack, su)
						}
					}
				}
				if reached {
					rc.Bad(key, s.call.Pos(), "%s hands the data word of an interface value the caller supplied (%s) to a decoder as destination on a path without a nil test of that word: a typed nil pointer stored in the interface (var v interface{} = (*T)(nil)) makes the decoder write through nil (panic)", fn, core.Src(p.Fset, s.call.Args[len(s.call.Args)-1]))
				} else {
					rc.OK(key, s.call.Pos(), "every path to the call passes the failing side of a nil test of %s", core.Src(p.Fset, s.call.Args[len(s.call.Args)-1]))
				}
			}
		}
	}
	if n < 6 {
		rc.Unknown("decoder/destinations-from-interface-words", token.NoPos, "found %d decoder calls with an interface word as destination (confirmed: 2 in interfaceDecoder, 3 Unmarshal entries, Decoder.DecodeWithOption)", n)
	}
}

// singleDef returns the expression a local variable is defined from when it has exactly one definition in body.
func singleDef(info *types.Info, body *ast.BlockStmt, o types.Object) ast.Expr {
	if o == nil {
		return nil
	}
	var def ast.Expr
	n := 0
	ast.Inspect(body, func(m ast.Node) bool {
		switch x := m.(type) {
		case *ast.AssignStmt:
			for i, l := range x.Lhs {
				if core.ObjOf(info, l) == o {
					n++
					if len(x.Lhs) == len(x.Rhs) {
						def = x.Rhs[i]
					}
				}
			}
		case *ast.IncDecStmt:
			if core.ObjOf(info, x.X) == o {
				n++
			}
		case *ast.UnaryExpr:
			if x.Op == token.AND && core.ObjOf(info, x.X) == o {
				n++
			}
		}
		return true
	})
	if n != 1 {
		return nil
	}
	return def
}

// validateTypeTestsZero: json.validateType returns an error when its address argument is 0.
func validateTypeTestsZero(p *core.Program) bool {
	fd := p.Func("json", "validateType")
	if fd == nil || fd.Body == nil || fd.Type.Params.NumFields() < 2 {
		return false
	}
	info := p.Info(fd)
	var addr types.Object
	for _, f := range fd.Type.Params.List {
		for _, nm := range f.Names {
			if o := info.Defs[nm]; o != nil && o.Type().String() == "uintptr" {
				addr = o
			}
		}
	}
	ok := false
	ast.Inspect(fd.Body, func(m ast.Node) bool {
		ifs, isIf := m.(*ast.IfStmt)
		if !isIf {
			return true
		}
		tests := false
		ast.Inspect(ifs.Cond, func(x ast.Node) bool {
			if be, isBin := x.(*ast.BinaryExpr); isBin && be.Op == token.EQL && core.ObjOf(info, be.X) == addr {
				if v, isC := core.ConstInt(info, be.Y); isC && v == 0 {
					tests = true
				}
			}
			return true
		})
		if tests {
			for _, st := range ifs.Body.List {
				if r, isRet := st.(*ast.ReturnStmt); isRet && core.ReturnIsError(info, r) {
					ok = true
				}
			}
		}
		return true
	})
	return ok
}

// ---- C06.R12 an index found in a tail of a slice is relative to that tail ----

// bytes.IndexByte(x[lo:], c) (and the other Index functions of bytes and strings) count from lo. Used as an index or
// slice bound on x itself the result has to be added to lo; used on its own, the bound can lie in front of the
// low bound (slice bounds out of range) or cut the data short.
func c06r12(rc *core.RC) {
	p := rc.P
	n := 0
	isIndexFn := func(name string) bool {
		for _, pre := range []string{"bytes.Index", "strings.Index", "bytes.LastIndex", "strings.LastIndex"} {
			if strings.HasPrefix(name, pre) {
				return true
			}
		}
		return false
	}
	for _, pk := range p.LibPkgs() {
		for _, f := range pk.Syntax {
			for _, d := range f.Decls {
				fd, ok := d.(*ast.FuncDecl)
				if !ok || fd.Body == nil {
					continue
				}
				info := pk.TypesInfo
				fn := p.FuncName(fd)
				le := &core.LinearEval{Info: info, Pkg: pk, Body: fd.Body}
				k := 0
				ast.Inspect(fd.Body, func(m ast.Node) bool {
					as, ok := m.(*ast.AssignStmt)
					if !ok || len(as.Rhs) != 1 || len(as.Lhs) < 1 {
						return true
					}
					c, isCall := core.Unparen(as.Rhs[0]).(*ast.CallExpr)
					if !isCall || len(c.Args) < 1 || !isIndexFn(core.CalleeName(info, c)) {
						return true
					}
					arg := core.Unparen(c.Args[0])
					if id, isIdent := arg.(*ast.Ident); isIdent {
						if def := core.ResolveSingleDef(info, fd.Body, id); def != nil {
							arg = core.Unparen(def)
						}
					}
					se, isSlice := arg.(*ast.SliceExpr)
					if !isSlice || se.Low == nil {
						return true
					}
					if v, isC := core.ConstInt(info, se.Low); isC && v == 0 {
						return true
					}
					res := core.ObjOf(info, as.Lhs[0])
					if res == nil {
						return true
					}
					n++
					rc.Touch(fn)
					base := core.Src(p.Fset, se.X)
					low := le.Eval(se.Low)
					resLin := le.Eval(as.Lhs[0])
					// every use of the result as an index or bound on the base itself
					ast.Inspect(fd.Body, func(y ast.Node) bool {
						var bx ast.Expr
						var bounds []ast.Expr
						switch u := y.(type) {
						case *ast.IndexExpr:
							bx, bounds = u.X, []ast.Expr{u.Index}
						case *ast.SliceExpr:
							bx, bounds = u.X, []ast.Expr{u.Low, u.High, u.Max}
						default:
							return true
						}
						if core.Src(p.Fset, bx) != base {
							return true
						}
						for _, b := range bounds {
							if b == nil {
								continue
							}
							uses := false
							ast.Inspect(b, func(z ast.Node) bool {
								if id, isIdent := z.(*ast.Ident); isIdent && core.ObjOf(info, id) == res {
									uses = true
								}
								return true
							})
							if !uses {
								continue
							}
							k++
							key := fmt.Sprintf("%s/relative-index#%d added-to-its-base", fn, k)
							rest := le.Eval(b).Sub(resLin).Sub(low)
							if rest.OK && len(nonzeroTerms(rest)) == 0 {
								rc.OK(key, b.Pos(), "%s is used on %s as %s: the low bound of the searched tail is added", res.Name(), base, core.Src(p.Fset, b))
							} else {
								rc.Bad(key, b.Pos(), "%s is the position found in %s, counted from %s, but it bounds %s as `%s` without that offset: when the offset is larger than the position the slice bounds are out of range (panic), otherwise the data is cut short", res.Name(), core.Src(p.Fset, arg), core.Src(p.Fset, se.Low), base, core.Src(p.Fset, b))
							}
						}
						return true
					})
					return true
				})
			}
		}
	}
	rc.OK("module/relative-indexes", token.NoPos, "%d Index calls on a tail x[lo:] of a slice or string in the library", n)
}

func nonzeroTerms(l core.Linear) []string {
	var out []string
	for k, v := range l.Terms {
		if v != 0 {
			out = append(out, k)
		}
	}
	return out
}

// ---- C06.R13 the stream window is regrown from its real length ----

// (*Stream).readBuf makes room for the next read. The window s.buf does not only grow there: the string scanner
// rewrites invalid bytes in place (one byte becomes the three bytes of U+FFFD, through append), so s.buf can be
// longer than the size readBuf keeps in s.bufSize, and it can be full although no read filled it. A new window
// made with a size that is not tied to len(s.buf) truncates the old one in the copy, and a window without free
// space makes read index position -1. Two facts are required: the size handed to make is raised to a bound
// computed from len(s.buf) before the window is reallocated, and the decision to grow looks at the free space
// (len(s.buf) against s.length), not only at the filled flag.
func c06r13(rc *core.RC) {
	p := rc.P
	fd := p.Func("decoder", "Stream.readBuf")
	key := "decoder.(*Stream).readBuf"
	if fd == nil || fd.Body == nil {
		rc.Unknown(key+"/window-regrown-from-its-length", token.NoPos, "readBuf not found")
		return
	}
	rc.Touch("decoder.(*Stream).readBuf")
	info := p.Info(fd)
	isField := func(e ast.Expr, name string) bool {
		f := core.FieldOf(info, e)
		return f != nil && f.Name() == name
	}
	mentionsLenBuf := func(n ast.Node) bool {
		found := false
		ast.Inspect(n, func(m ast.Node) bool {
			if c, ok := m.(*ast.CallExpr); ok && core.IsBuiltin(info, c, "len") && len(c.Args) == 1 && isField(c.Args[0], "buf") {
				found = true
			}
			return true
		})
		return found
	}
	// the reallocation
	var mk *ast.CallExpr
	var growIf *ast.IfStmt
	ast.Inspect(fd.Body, func(m ast.Node) bool {
		if ifs, ok := m.(*ast.IfStmt); ok && growIf == nil {
			ast.Inspect(ifs.Body, func(k ast.Node) bool {
				if c, isCall := k.(*ast.CallExpr); isCall && core.IsBuiltin(info, c, "make") && len(c.Args) >= 2 {
					mk = c
					growIf = ifs
				}
				return true
			})
		}
		return true
	})
	if mk == nil {
		rc.Unknown(key+"/window-regrown-from-its-length", fd.Pos(), "no reallocation of the window (make) under a condition found")
		return
	}
	// (1) the size: a variable or field raised to a bound derived from len(s.buf) inside the growing branch, or an expression of len(s.buf)
	sized := mentionsLenBuf(mk.Args[1])
	if !sized {
		sizeSrc := core.Src(p.Fset, mk.Args[1])
		ast.Inspect(growIf.Body, func(m ast.Node) bool {
			inner, ok := m.(*ast.IfStmt)
			if !ok || inner == growIf {
				return true
			}
			// if size < need { size = need } with need derived from len(s.buf)
			raises := false
			for _, st := range inner.Body.List {
				if as, isAs := st.(*ast.AssignStmt); isAs && len(as.Lhs) == 1 && core.Src(p.Fset, as.Lhs[0]) == sizeSrc {
					raises = true
				}
			}
			if !raises {
				return true
			}
			if mentionsLenBuf(inner) {
				sized = true
			}
			if as, isAs := inner.Init.(*ast.AssignStmt); isAs && mentionsLenBuf(as) {
				sized = true
			}
			return true
		})
	}
	rc.Check(sized, key+"/window-regrown-from-its-length", mk.Pos(), "the size of the new window (%s) is raised to a bound computed from len(s.buf) before the old window is copied into it: the window also grows in place when invalid bytes are replaced by U+FFFD, and a new window shorter than the old one truncates it (a string of 600 bytes 0xff through a Decoder: slice bounds out of range)", core.Src(p.Fset, mk.Args[1]))
	// (2) the decision to grow looks at the free space
	free := mentionsLenBuf(growIf.Cond)
	rc.Check(free, key+"/grows-when-full", growIf.Pos(), "the window is regrown when it has no free space left (the condition compares len(s.buf) with the data length), not only after a read that filled it: in-place growth can fill it too, and read would index position -1 of an empty rest")
}

// ---- C06.R14 the buffer base64 decodes into is as long as the decoded length ----

// base64.Encoding.Decode writes DecodedLen(len(src)) bytes into dst and indexes dst up to that length: dst has to be
// at least that long (length, not capacity). Every destination handed to Decode in the decoder package is therefore,
// on every path, a make of exactly the variable that holds DecodedLen(len(src)), or a re-slice up to it. A reused
// destination slice that was only tested for capacity panics with index out of range on a well-formed document.
func c06r14(rc *core.RC) {
	p := rc.P
	n := 0
	for _, fd := range p.Funcs("decoder") {
		if fd.Body == nil {
			continue
		}
		info := p.Info(fd)
		fn := p.FuncName(fd)
		k := 0
		ast.Inspect(fd.Body, func(m ast.Node) bool {
			call, ok := m.(*ast.CallExpr)
			if !ok || core.CalleeName(info, call) != "encoding/base64.Encoding.Decode" && core.CalleeName(info, call) != "base64.Encoding.Decode" || len(call.Args) != 2 {
				return true
			}
			k++
			n++
			rc.Touch(fn)
			key := fmt.Sprintf("%s/base64-destination#%d long-enough", fn, k)
			dst := core.ObjOf(info, call.Args[0])
			if dst == nil {
				rc.Unknown(key, call.Pos(), "the destination %s is not a variable", core.Src(p.Fset, call.Args[0]))
				return true
			}
			// the variable that holds DecodedLen(len(src))
			var lenObj types.Object
			ast.Inspect(fd.Body, func(x ast.Node) bool {
				as, isAs := x.(*ast.AssignStmt)
				if !isAs || len(as.Lhs) != 1 || len(as.Rhs) != 1 {
					return true
				}
				if c, isCall := core.Unparen(as.Rhs[0]).(*ast.CallExpr); isCall && strings.HasSuffix(core.CalleeName(info, c), "Encoding.DecodedLen") {
					lenObj = core.ObjOf(info, as.Lhs[0])
				}
				return true
			})
			// every definition of dst
			var bad []string
			defs := 0
			ast.Inspect(fd.Body, func(x ast.Node) bool {
				as, isAs := x.(*ast.AssignStmt)
				if !isAs || len(as.Lhs) != len(as.Rhs) || as.Pos() > call.Pos() {
					return true
				}
				for i, l := range as.Lhs {
					if core.ObjOf(info, l) != dst {
						continue
					}
					defs++
					r := core.Unparen(as.Rhs[i])
					good := false
					switch v := r.(type) {
					case *ast.CallExpr:
						if core.IsBuiltin(info, v, "make") && len(v.Args) >= 2 {
							if o := core.ObjOf(info, v.Args[1]); o != nil && o == lenObj {
								good = true
							} else if c, isCall := core.Unparen(v.Args[1]).(*ast.CallExpr); isCall && strings.HasSuffix(core.CalleeName(info, c), "Encoding.DecodedLen") {
								good = true
							}
						}
					case *ast.SliceExpr:
						if v.High != nil && core.ObjOf(info, v.High) == lenObj && lenObj != nil {
							good = true // x[:decodedLen]: the bounds check is the slice expression's own (capacity)
						}
					}
					if !good {
						bad = append(bad, core.Src(p.Fset, r))
					}
				}
				return true
			})
			switch {
			case defs == 0:
				rc.Unknown(key, call.Pos(), "no definition of the destination %s found", dst.Name())
			case len(bad) > 0:
				rc.Bad(key, call.Pos(), "the destination of base64 Decode can be %s, whose length is not known to reach the decoded length: Decode indexes it up to DecodedLen(len(src)) (a reused slice with enough capacity but a shorter length: index out of range)", strings.Join(bad, " or "))
			default:
				rc.OK(key, call.Pos(), "the destination is made with (or re-sliced to) the decoded length on every path")
			}
			return true
		})
	}
	if n < 2 {
		rc.Unknown("decoder/base64-destinations", token.NoPos, "found %d calls of base64 Decode in the decoder package (confirmed: 2)", n)
	}
}

// ---- C06.R15 the nesting depth is raised where a bracket is consumed, nowhere else ----

// The depth parameter counts the brackets of the JSON text that are open, and the limit (10000) is the same number in
// encoding/json. A decoder that consumes '{' or '[' raises it; a decoder that wraps another one (pointer, embedded
// member, ,string, interface dispatch) hands it on as it is. A wrapper that also raises it makes every level reached
// through it cost two: a valid document of 5001 linked-list nodes is refused with "exceeded max depth" where
// encoding/json decodes it. Obligation: every function of the decoder package that increments its depth parameter
// also tests a byte against '{' or '[' (a case clause or a comparison).
func c06r15(rc *core.RC) {
	p := rc.P
	pk := p.Pkg("decoder")
	if pk == nil {
		rc.Unknown("decoder", token.NoPos, "package not found")
		return
	}
	info := pk.TypesInfo
	n := 0
	for _, fd := range p.Funcs("decoder") {
		if fd.Body == nil {
			continue
		}
		depth := depthParam(p, info, fd)
		if depth == nil {
			continue
		}
		var inc ast.Node
		ast.Inspect(fd.Body, func(m ast.Node) bool {
			switch x := m.(type) {
			case *ast.IncDecStmt:
				if x.Tok == token.INC && core.ObjOf(info, x.X) == depth {
					inc = x
				}
			case *ast.AssignStmt:
				if len(x.Lhs) == 1 && core.ObjOf(info, x.Lhs[0]) == depth && (x.Tok == token.ADD_ASSIGN || x.Tok == token.ASSIGN) {
					inc = x
				}
			}
			return true
		})
		if inc == nil {
			continue
		}
		n++
		name := p.FuncName(fd)
		rc.Touch(name)
		bracket := false
		ast.Inspect(fd.Body, func(m ast.Node) bool {
			switch x := m.(type) {
			case *ast.CaseClause:
				for _, e := range x.List {
					if v, ok := core.ConstInt(info, e); ok && (v == '{' || v == '[') {
						bracket = true
					}
				}
			case *ast.BinaryExpr:
				if x.Op == token.EQL || x.Op == token.NEQ {
					for _, e := range []ast.Expr{x.X, x.Y} {
						if v, ok := core.ConstInt(info, e); ok && (v == '{' || v == '[') {
							bracket = true
						}
					}
				}
			}
			return true
		})
		rc.Check(bracket, name+"/depth-raised-at-a-bracket", inc.Pos(), "the function raises the nesting depth and consumes no opening bracket (no test of a byte against '{' or '['): a decoder that wraps another one has to hand the depth on unchanged, or every level reached through it counts twice against the limit of 10000 and valid documents are refused")
	}
	if n < 10 {
		rc.Unknown("decoder/depth-increments", token.NoPos, "found %d functions that raise their depth parameter (confirmed: 12 or more)", n)
	}
}

// ---- C06.R16 a jump of the cursor over several bytes follows a look at them ----

// The buffer-mode scanners run on a text that ends with a NUL and have no length test per byte: the byte under the
// cursor is examined before the cursor passes it (C07.R8 for unit steps). A step of two or more (`cursor += 4` behind
// null, `cursor += 2` behind a two-byte sequence) is safe because the bytes in between were examined first: by the
// literal validators (validateNull(buf, cursor)), by reads at cursor+1 …, or by a length test on cursor+k. A step
// over a byte nobody looked at passes the terminator when that byte is the NUL (`"abc\` + NUL: the next read is out
// of range). Obligation, for every `cursor += K` with constant K >= 2 on a scan cursor of the decoder package: in the
// innermost clause (or function body) that holds the statement, in front of it, stands a read at an offset behind the
// cursor, a call that is handed the text and the cursor, or a comparison of cursor+k with a length.
func c06r16(rc *core.RC) {
	p := rc.P
	pk := p.Pkg("decoder")
	if pk == nil {
		rc.Unknown("decoder", token.NoPos, "package not found")
		return
	}
	info := pk.TypesInfo
	n := 0
	for _, fd := range p.Funcs("decoder") {
		if fd.Body == nil {
			continue
		}
		name := p.FuncName(fd)
		le := &core.LinearEval{Info: info, Pkg: pk, Body: fd.Body}
		k := 0
		ast.Inspect(fd.Body, func(m ast.Node) bool {
			as, ok := m.(*ast.AssignStmt)
			if !ok || as.Tok != token.ADD_ASSIGN || len(as.Lhs) != 1 || !isCursorExpr(as.Lhs[0]) {
				return true
			}
			step, isC := core.ConstInt(info, as.Rhs[0])
			if !isC || step < 2 {
				return true
			}
			k++
			n++
			rc.Touch(name)
			cur := types.ExprString(core.Unparen(as.Lhs[0]))
			// the innermost clause or the function body
			var region []ast.Stmt = fd.Body.List
			var conds []ast.Expr
			path := core.PathTo(fd.Body, as)
			for _, pn := range path {
				switch x := pn.(type) {
				case *ast.CaseClause:
					region = x.Body
					conds = nil
				case *ast.IfStmt:
					conds = append(conds, x.Cond)
				}
			}
			behindCursor := func(e ast.Expr) bool {
				l := le.Eval(e)
				if !l.OK || l.Terms[cur] != 1 {
					return false
				}
				return l.Const >= 1 || len(nonzeroTerms(l)) > 1
			}
			looked := false
			scan := func(nd ast.Node) {
				ast.Inspect(nd, func(x ast.Node) bool {
					if x == nil || x.Pos() >= as.Pos() {
						return false
					}
					switch v := x.(type) {
					case *ast.IndexExpr:
						if behindCursor(v.Index) {
							looked = true
						}
					case *ast.CallExpr:
						if core.CalleeName(info, v) == "decoder.char" && len(v.Args) == 2 && behindCursor(v.Args[1]) {
							looked = true
						}
						if f := core.Callee(info, v); f != nil && f.Pkg() == pk.Types {
							hasCur, hasText := false, false
							for _, a := range v.Args {
								if types.ExprString(core.Unparen(a)) == cur {
									hasCur = true
								}
								if t := info.TypeOf(a); t != nil && (t.String() == "[]byte" || t.String() == "unsafe.Pointer") {
									hasText = true
								}
							}
							if hasCur && hasText {
								looked = true
							}
						}
					case *ast.BinaryExpr:
						switch v.Op {
						case token.GEQ, token.GTR, token.LSS, token.LEQ:
							for _, side := range []ast.Expr{v.X, v.Y} {
								l := le.Eval(side)
								if l.OK && l.Terms[cur] == 1 && (l.Const >= step-1 || len(nonzeroTerms(l)) > 1) {
									looked = true
								}
							}
						}
					}
					return true
				})
			}
			for _, st := range region {
				if st.Pos() < as.Pos() {
					scan(st)
				}
			}
			for _, c := range conds {
				scan(c)
			}
			rc.Check(looked, fmt.Sprintf("%s/jump#%d by %d bytes-in-between-examined", name, k, step), as.Pos(), "%s += %d: in front of the jump, in the same clause, nothing looks behind the cursor (no read at %s+1…, no validator handed the text and the cursor, no length test on %s+%d): if one of the bytes stepped over is the terminating NUL the scanner leaves the text (`\"abc\\` + NUL: index out of range)", cur, step, cur, cur, step-1)
			return true
		})
	}
	if n < 20 {
		rc.Unknown("decoder/cursor-jumps", token.NoPos, "found %d jumps of a scan cursor by two or more bytes (confirmed: 30)", n)
	}
}

// ---- C06.R17 the number of distinct field names is known for every struct decoder ----

// tryOptimize numbers the fields of a struct decoder by their case-folded names (fieldIdx) and stores how many
// numbers there are (fieldUniqueNameNum). Whatever is sized by the count and indexed by the number relies on the
// count being set for every decoder, also for those that cannot use the key bitmaps: tryOptimize leaves early for
// them (more than 16 names, a long key, a cased letter outside ASCII). Obligation: the assignment to
// fieldUniqueNameNum is a statement of the function body that stands in front of every return, and its value is the
// length of the map the numbering loop fills.
func c06r17(rc *core.RC) {
	p := rc.P
	fd := p.Func("decoder", "structDecoder.tryOptimize")
	if fd == nil || fd.Body == nil {
		rc.Unknown("decoder.structDecoder.tryOptimize", token.NoPos, "function not found")
		return
	}
	info := p.Info(fd)
	rc.Touch("decoder.(*structDecoder).tryOptimize")
	var assign *ast.AssignStmt
	for _, st := range fd.Body.List {
		if as, ok := st.(*ast.AssignStmt); ok && len(as.Lhs) == 1 {
			if f := core.FieldOf(info, as.Lhs[0]); f != nil && f.Name() == "fieldUniqueNameNum" {
				assign = as
			}
		}
	}
	key := "decoder.(*structDecoder).tryOptimize/name-count-set-before-any-return"
	if assign == nil {
		rc.Bad(key, fd.Pos(), "fieldUniqueNameNum is not assigned by a statement of the function body (it has to be set for every struct decoder, also for those that leave tryOptimize early)")
		return
	}
	firstRet := token.NoPos
	ast.Inspect(fd.Body, func(m ast.Node) bool {
		if r, ok := m.(*ast.ReturnStmt); ok && (!firstRet.IsValid() || r.Pos() < firstRet) {
			firstRet = r.Pos()
		}
		return true
	})
	fromMap := false
	if c, ok := core.Unparen(assign.Rhs[0]).(*ast.CallExpr); ok && core.IsBuiltin(info, c, "len") && len(c.Args) == 1 {
		if _, isMap := info.TypeOf(c.Args[0]).Underlying().(*types.Map); isMap {
			fromMap = true
		}
	}
	rc.Check((!firstRet.IsValid() || assign.Pos() < firstRet) && fromMap, key, assign.Pos(), "fieldUniqueNameNum is the length of the map that numbers the fields and is set in front of every return of tryOptimize: set only behind the early returns (or from another list) it stays 0 for the decoders that cannot use the key bitmaps, and what is sized by it and indexed by fieldIdx is too short (index out of range under DecodeFieldPriorityFirstWin)")
}

// ---- C06.R18 a lock that is taken is given back on every way out ----

// A sync mutex of the library that stays locked when a function returns blocks every later caller for ever (the
// decoder cache of the race build is entered by every decoding entry point). Obligation, for every statement
// X.Lock() / X.RLock() on a sync.Mutex or sync.RWMutex in the library (all build configurations): every path of the
// flow graph from the statement to a return, or to the end of the function, passes X.Unlock() / X.RUnlock() on the
// same X, or the function defers it.
func c06r18(rc *core.RC) {
	p := rc.P
	n := 0
	for _, pk := range p.LibPkgs() {
		info := pk.TypesInfo
		for _, fd := range p.Funcs(pk.Name) {
			if fd.Body == nil {
				continue
			}
			type lockSite struct {
				call *ast.CallExpr
				recv string
				un   string
			}
			var sites []lockSite
			deferred := map[string]bool{}
			mutexCall := func(call *ast.CallExpr) (recv, method string, ok bool) {
				sel, isSel := core.Unparen(call.Fun).(*ast.SelectorExpr)
				if !isSel {
					return
				}
				cn := core.CalleeName(info, call)
				if !strings.HasPrefix(cn, "sync.Mutex.") && !strings.HasPrefix(cn, "sync.RWMutex.") {
					return
				}
				return types.ExprString(core.Unparen(sel.X)), sel.Sel.Name, true
			}
			ast.Inspect(fd.Body, func(m ast.Node) bool {
				switch x := m.(type) {
				case *ast.FuncLit:
					return false
				case *ast.DeferStmt:
					if r, meth, ok := mutexCall(x.Call); ok && (meth == "Unlock" || meth == "RUnlock") {
						deferred[r+"."+meth] = true
					}
					return false
				case *ast.ExprStmt:
					if call, isCall := x.X.(*ast.CallExpr); isCall {
						if r, meth, ok := mutexCall(call); ok && (meth == "Lock" || meth == "RLock") {
							un := "Unlock"
							if meth == "RLock" {
								un = "RUnlock"
							}
							sites = append(sites, lockSite{call, r, un})
						}
					}
				}
				return true
			})
			if len(sites) == 0 {
				continue
			}
			cf := core.BuildCFGFor(fd, info)
			rc.Touch(p.FuncName(fd))
			for i, s := range sites {
				n++
				key := fmt.Sprintf("%s/%s.%s#%d given-back-on-every-way-out", p.FuncName(fd), s.recv, strings.TrimPrefix(s.un, "Un"), i+1)
				if s.un == "RUnlock" {
					key = fmt.Sprintf("%s/%s.RLock#%d given-back-on-every-way-out", p.FuncName(fd), s.recv, i+1)
				} else {
					key = fmt.Sprintf("%s/%s.Lock#%d given-back-on-every-way-out", p.FuncName(fd), s.recv, i+1)
				}
				if deferred[s.recv+"."+s.un] {
					rc.OK(key, s.call.Pos(), "%s.%s() is deferred", s.recv, s.un)
					continue
				}
				sb, si := cf.BlockOf(s.call)
				if sb == nil {
					rc.Unknown(key, s.call.Pos(), "the statement is in no block of the flow graph")
					continue
				}
				isUnlock := func(nd ast.Node) bool {
					found := false
					ast.Inspect(nd, func(q ast.Node) bool {
						if _, isLit := q.(*ast.FuncLit); isLit {
							return false
						}
						if c, isCall := q.(*ast.CallExpr); isCall {
							if r, meth, ok := mutexCall(c); ok && r == s.recv && meth == s.un {
								found = true
							}
						}
						return !found
					})
					return found
				}
				seen := map[*cfg.Block]bool{}
				var leak ast.Node
				var walk func(b *cfg.Block, from int)
				walk = func(b *cfg.Block, from int) {
					if leak != nil {
						return
					}
					for j := from; j < len(b.Nodes); j++ {
						if isUnlock(b.Nodes[j]) {
							return
						}
						if r, isRet := b.Nodes[j].(*ast.ReturnStmt); isRet {
							leak = r
							return
						}
					}
					if len(b.Succs) == 0 {
						// the end of the function body (a block that ends in a call that does not return is no way out)
						if len(b.Nodes) == 0 {
							leak = fd.Body
							return
						}
						last := b.Nodes[len(b.Nodes)-1]
						if es, isES := last.(*ast.ExprStmt); isES {
							if c, isCall := es.X.(*ast.CallExpr); isCall && core.IsBuiltin(info, c, "panic") {
								return
							}
						}
						leak = last
						return
					}
					for _, nx := range b.Succs {
						if !seen[nx] {
							seen[nx] = true
							walk(nx, 0)
						}
					}
				}
				walk(sb, si+1)
				if leak != nil {
					rc.Bad(key, s.call.Pos(), "%s is still locked on the way out at %s: every later call that takes this lock blocks for ever", s.recv, p.Pos(leak.Pos()))
				} else {
					rc.OK(key, s.call.Pos(), "every path to a way out of the function passes %s.%s()", s.recv, s.un)
				}
			}
		}
	}
	if n < 2 {
		rc.Unknown("library/lock-sites", token.NoPos, "found %d Lock/RLock statements in this configuration, fewer than the 2 confirmed by hand", n)
	}
}

// ---- C06.R20 what the cast helpers hand to reflect's Set fits the destination ----

// Path.Unmarshal and Path.Get store what a path selected through reflect: AssignValue and the cast helpers of
// assign.go build a value for the destination's type and call Value.Set / SetMapIndex. Set panics unless the value's
// type is assignable to the destination's: a helper that casts by kind (int for every integer kind, the source slice
// for an array) panics for `type Celsius float64`, for an array, for a named slice. Obligations: every value handed to
// Set or SetMapIndex in assign.go is the result of castValue for the type of the place it is stored in; and
// castValue returns a value only behind a test that its type is assignable to the wanted type, or converted to it.
func c06r20(rc *core.RC) {
	p := rc.P
	pk := p.Pkg("decoder")
	if pk == nil {
		return
	}
	info := pk.TypesInfo
	nset := 0
	for _, fd := range p.Funcs("decoder") {
		if fd.Body == nil || p.FileBase(fd.Pos()) != "assign.go" {
			continue
		}
		k := 0
		ast.Inspect(fd.Body, func(m ast.Node) bool {
			call, ok := m.(*ast.CallExpr)
			if !ok {
				return true
			}
			cn := core.CalleeName(info, call)
			if cn != "reflect.Value.Set" && cn != "reflect.Value.SetMapIndex" {
				return true
			}
			nset++
			k++
			rc.Touch(p.FuncName(fd))
			key := fmt.Sprintf("%s/%s#%d value-from-castValue", p.FuncName(fd), strings.TrimPrefix(cn, "reflect.Value."), k)
			bad := ""
			for _, a := range call.Args {
				obj := core.ObjOf(info, a)
				if obj == nil {
					bad = core.Src(p.Fset, a)
					break
				}
				// every definition of the local is the first result of a castValue call
				defs, good := 0, 0
				ast.Inspect(fd.Body, func(q ast.Node) bool {
					as, isAs := q.(*ast.AssignStmt)
					if !isAs {
						return true
					}
					for li, l := range as.Lhs {
						if core.ObjOf(info, l) != obj {
							continue
						}
						defs++
						if li == 0 && len(as.Rhs) == 1 {
							if c, isCall := core.Unparen(as.Rhs[0]).(*ast.CallExpr); isCall && core.CalleeName(info, c) == "decoder.castValue" {
								good++
							}
						}
					}
					return true
				})
				if defs == 0 || defs != good {
					bad = core.Src(p.Fset, a)
					break
				}
			}
			if bad == "" {
				rc.OK(key, call.Pos(), "every value stored is a result of castValue")
			} else {
				rc.Bad(key, call.Pos(), "%s is stored with reflect's %s and is no result of castValue: when its type is not assignable to the place (a named type, an array for a slice, a field the other struct lacks) the call panics, in Path.Unmarshal and Path.Get", bad, strings.TrimPrefix(cn, "reflect.Value."))
			}
			return true
		})
	}
	if nset < 6 {
		rc.Unknown("decoder/assign.go/Set-sites", token.NoPos, "found %d calls of Set / SetMapIndex in assign.go, fewer than the 6 confirmed by hand", nset)
	}
	fd := p.Func("decoder", "castValue")
	if fd == nil || fd.Body == nil {
		rc.Unknown("decoder.castValue/result-fits-the-type", token.NoPos, "castValue not found")
		return
	}
	rc.Touch(p.FuncName(fd))
	nret := 0
	for _, r := range core.BuildCFGFor(fd, info).Returns() {
		if len(r.Results) != 2 {
			continue
		}
		if o := core.ObjOf(info, r.Results[0]); o != nil && o.Name() == "nilValue" {
			continue
		}
		nret++
		key := fmt.Sprintf("decoder.castValue/return#%d result-fits-the-type", nret)
		res := core.Unparen(r.Results[0])
		ok := false
		why := ""
		if c, isCall := res.(*ast.CallExpr); isCall && core.CalleeName(info, c) == "reflect.Value.Convert" {
			ok, why = true, "converted to the wanted type"
		}
		for _, anc := range core.PathTo(fd.Body, r) {
			ifs, isIf := anc.(*ast.IfStmt)
			if !isIf || !(ifs.Body.Pos() <= r.Pos() && r.End() <= ifs.Body.End()) {
				continue
			}
			ast.Inspect(ifs.Cond, func(q ast.Node) bool {
				if c, isCall := q.(*ast.CallExpr); isCall {
					if cn := core.CalleeName(info, c); cn == "reflect.Type.AssignableTo" || cn == "reflect.Type.ConvertibleTo" {
						ok, why = true, "behind "+core.Src(p.Fset, ifs.Cond)
					}
				}
				return true
			})
		}
		if ok {
			rc.OK(key, r.Pos(), "%s", why)
		} else {
			rc.Bad(key, r.Pos(), "castValue returns %s without a test that its type is assignable to the wanted type: the caller hands it to reflect's Set, which panics for a destination of a named type (type Celsius float64), an array, a named slice", core.Src(p.Fset, res))
		}
	}
	if nret < 2 {
		rc.Unknown("decoder.castValue/returns", fd.Pos(), "found %d returns of a value in castValue, fewer than the 2 confirmed by hand", nret)
	}
}

// definedByShortDecl reports whether o is introduced by `o := expr` (its value is what the expression makes, e.g. an
// interface built from a type word and a data word); parameters and `var o T` can hold nil.
func definedByShortDecl(info *types.Info, o types.Object) bool {
	for id, d := range info.Defs {
		if d == o && id.Obj != nil {
			if as, ok := id.Obj.Decl.(*ast.AssignStmt); ok && as.Tok == token.DEFINE {
				return true
			}
		}
	}
	return false
}

// ---- C06.R21 Path.Get walks the members of a struct, not its unexported fields ----

// The Get methods of the path nodes walk a Go value by reflection. reflect hands out the value of an unexported field
// only for looking: storing it (reflect.Value.Set in AssignValue, Interface in the casts) panics. An unexported or
// "-" field is no member of the document either. Obligation: every loop of a Get method in path.go that visits
// src.Field(i) for i below NumField leaves the field alone (continue) when runtime.IsIgnoredStructField says so, in
// front of every use of src.Field(i).
func c06r21(rc *core.RC) {
	p := rc.P
	n := 0
	for _, fd := range p.Funcs("decoder") {
		if fd.Body == nil || fd.Name.Name != "Get" || fd.Recv == nil || p.FileBase(fd.Pos()) != "path.go" {
			continue
		}
		info := p.Info(fd)
		k := 0
		ast.Inspect(fd.Body, func(m ast.Node) bool {
			loop, ok := m.(*ast.ForStmt)
			if !ok || loop.Cond == nil || !strings.Contains(core.Src(p.Fset, loop.Cond), "NumField()") {
				return true
			}
			var firstUse ast.Node
			ast.Inspect(loop.Body, func(q ast.Node) bool {
				if c, isCall := q.(*ast.CallExpr); isCall && core.CalleeName(info, c) == "reflect.Value.Field" && firstUse == nil {
					firstUse = c
				}
				return true
			})
			if firstUse == nil {
				return true
			}
			n++
			k++
			rc.Touch(p.FuncName(fd))
			key := fmt.Sprintf("%s/field-walk#%d skips-what-is-no-member", p.FuncName(fd), k)
			guarded := false
			for _, st := range loop.Body.List {
				if st.Pos() >= firstUse.Pos() {
					break
				}
				ifs, isIf := st.(*ast.IfStmt)
				if !isIf || len(ifs.Body.List) == 0 {
					continue
				}
				if br, isBr := ifs.Body.List[len(ifs.Body.List)-1].(*ast.BranchStmt); !isBr || br.Tok != token.CONTINUE {
					continue
				}
				ast.Inspect(ifs.Cond, func(q ast.Node) bool {
					if c, isCall := q.(*ast.CallExpr); isCall {
						if cn := core.CalleeName(info, c); cn == "runtime.IsIgnoredStructField" || cn == "reflect.StructField.IsExported" {
							guarded = true
						}
					}
					if sel, isSel := q.(*ast.SelectorExpr); isSel && sel.Sel.Name == "PkgPath" {
						guarded = true
					}
					return true
				})
			}
			rc.Check(guarded, key, loop.Pos(), "the walk over the fields of a struct leaves unexported and ignored fields alone before it reads src.Field(i): handed on, the value of an unexported field makes reflect's Set or Interface panic (Path.Get with $.a over struct{ a string })")
			return true
		})
	}
	if n < 2 {
		rc.Unknown("decoder/path.go/field-walks", token.NoPos, "found %d walks over struct fields in the Get methods of path.go, fewer than the 2 confirmed by hand", n)
	}
}
