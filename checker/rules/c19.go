package rules

import (
	"fmt"
	"go/ast"
	"go/token"
	"go/types"
	"strings"

	"verif/checker/core"
)

// ---- C19.R1 Filter reaches children ----

func c19r1(rc *core.RC) {
	p := rc.P
	pk := p.Pkg("encoder")
	codeIface, _ := pk.Types.Scope().Lookup("Code").(*types.TypeName)
	if codeIface == nil {
		rc.Unknown("encoder.Code", token.NoPos, "interface not found")
		return
	}
	n := 0
	for _, name := range pk.Types.Scope().Names() {
		tn, ok := pk.Types.Scope().Lookup(name).(*types.TypeName)
		if !ok {
			continue
		}
		st, ok := tn.Type().Underlying().(*types.Struct)
		if !ok || !types.Implements(types.NewPointer(tn.Type()), codeIface.Type().Underlying().(*types.Interface)) {
			continue
		}
		// child codes: fields of interface type Code (the element/value code)
		var children []string
		for i := 0; i < st.NumFields(); i++ {
			f := st.Field(i)
			if types.Identical(f.Type(), codeIface.Type()) && f.Name() == "value" {
				children = append(children, f.Name())
			}
		}
		if len(children) == 0 {
			continue
		}
		fd := p.Func("encoder", name+".Filter")
		key := "encoder.(*" + name + ").Filter/reaches-value"
		if fd == nil {
			rc.Unknown(key, tn.Pos(), "Filter method not found")
			continue
		}
		n++
		rc.Touch("encoder.(*" + name + ").Filter")
		info := p.Info(fd)
		calls := false
		ast.Inspect(fd.Body, func(m ast.Node) bool {
			call, ok := m.(*ast.CallExpr)
			if !ok {
				return true
			}
			sel, ok := call.Fun.(*ast.SelectorExpr)
			if !ok || sel.Sel.Name != "Filter" {
				return true
			}
			if f := core.FieldOf(info, sel.X); f != nil && f.Name() == "value" {
				calls = true
			}
			return true
		})
		if calls {
			rc.OK(key, fd.Pos(), "the query is applied to the value code")
		} else {
			rc.Bad(key, fd.Pos(), "%s holds a child Code (value) but its Filter does not call value.Filter: a sub-query below this kind of member is ignored and every field of the elements is encoded", name)
		}
	}
	if n < 4 {
		rc.Unknown("encoder/Code-with-children", token.NoPos, "found %d Code types with a child value (confirmed: Slice, Array, Map, Ptr, StructField)", n)
	}
}

// ---- C19.R3 cache discipline ----

func c19r3(rc *core.RC) {
	p := rc.P
	fd := p.Func("encoder", "getFilteredCodeSetIfNeeded")
	if fd == nil {
		rc.Unknown("encoder.getFilteredCodeSetIfNeeded", token.NoPos, "not found")
		return
	}
	rc.Touch("encoder.getFilteredCodeSetIfNeeded")
	info := p.Info(fd)
	var getKey, setKey, filterArg, compiled string
	var setVal types.Object
	var compiledObj types.Object
	ast.Inspect(fd.Body, func(m ast.Node) bool {
		switch x := m.(type) {
		case *ast.CallExpr:
			switch core.CalleeName(info, x) {
			case "encoder.OpcodeSet.getQueryCache":
				getKey = core.NormalNode(p.Fset, info, x.Args[0], core.NormOpts{KeepNames: true})
			case "encoder.OpcodeSet.setQueryCache":
				setKey = core.NormalNode(p.Fset, info, x.Args[0], core.NormOpts{KeepNames: true})
				setVal = core.ObjOf(info, x.Args[1])
			case "encoder.Compiler.codeToOpcodeSet":
				compiled = core.Src(p.Fset, x)
				if len(x.Args) == 2 {
					filterArg = core.Src(p.Fset, x.Args[1])
				}
			}
		case *ast.AssignStmt:
			if len(x.Rhs) == 1 {
				if c, ok := core.Unparen(x.Rhs[0]).(*ast.CallExpr); ok && core.CalleeName(info, c) == "encoder.Compiler.codeToOpcodeSet" {
					compiledObj = core.ObjOf(info, x.Lhs[0])
				}
			}
		}
		return true
	})
	rc.Check(getKey != "" && getKey == setKey, "encoder.getFilteredCodeSetIfNeeded/same-cache-key", fd.Pos(), "the filtered program is looked up with %q and stored with %q", getKey, setKey)
	rc.Check(setVal != nil && setVal == compiledObj, "encoder.getFilteredCodeSetIfNeeded/stores-filtered-program", fd.Pos(), "what is stored under the query hash is the program compiled from the filtered code (%s)", compiled)
	rc.Check(strings.Contains(filterArg, ".Code.Filter("), "encoder.getFilteredCodeSetIfNeeded/filters-original-code", fd.Pos(), "the filtered program is built from the unfiltered Code tree kept in the type's OpcodeSet (%s)", filterArg)
	// the query decision is per call: under ContextOption, and FieldQueryOption is only set here
	guard := false
	ast.Inspect(fd.Body, func(m ast.Node) bool {
		if ifs, ok := m.(*ast.IfStmt); ok && strings.Contains(core.Src(p.Fset, ifs.Cond), "ContextOption") && len(ifs.Body.List) > 0 {
			if _, isRet := ifs.Body.List[len(ifs.Body.List)-1].(*ast.ReturnStmt); isRet {
				guard = true
			}
		}
		return true
	})
	rc.Check(guard, "encoder.getFilteredCodeSetIfNeeded/needs-context-option", fd.Pos(), "without ContextOption the unfiltered program is returned before the context is consulted")
	_ = fmt.Sprint
	// the query flag is set on every path that returns a filtered program (cache hit or fresh):
	// the interpreters and the marshaler helpers hand sub-queries on only when it is set
	cf := core.BuildCFG(fd.Body, info)
	var flagNode ast.Node
	ast.Inspect(fd.Body, func(m ast.Node) bool {
		if as, ok := m.(*ast.AssignStmt); ok && as.Tok == token.OR_ASSIGN && len(as.Rhs) == 1 {
			if o := core.ObjOf(info, as.Rhs[0]); o != nil && o.Name() == "FieldQueryOption" {
				flagNode = as
			}
		}
		return true
	})
	var base types.Object
	for _, f := range fd.Type.Params.List {
		for _, nm := range f.Names {
			if o := info.Defs[nm]; o != nil && strings.HasSuffix(o.Type().String(), "OpcodeSet") {
				base = o
			}
		}
	}
	if flagNode == nil {
		rc.Bad("encoder.getFilteredCodeSetIfNeeded/query-flag", fd.Pos(), "FieldQueryOption is never set: sub-queries are not handed to interface values and context-aware marshalers")
	} else {
		fb, fi := cf.BlockOf(flagNode)
		nret, ok := 0, true
		for _, r := range cf.Returns() {
			if len(r.Results) != 2 || core.IsNilIdent(info, r.Results[0]) || core.ObjOf(info, r.Results[0]) == base {
				continue
			}
			nret++
			rb, ri := cf.BlockOf(r)
			if fb == nil || rb == nil || !((fb == rb && fi < ri) || (fb != rb && cf.Dominates(fb, rb))) {
				ok = false
				rc.Bad("encoder.getFilteredCodeSetIfNeeded/query-flag", r.Pos(), "the filtered program `%s` is returned on a path that does not pass `ctx.Option.Flag |= FieldQueryOption`: served from the query cache, the program runs without the flag, and interface members and MarshalJSON(ctx) fields below it are projected with the root query", core.Src(p.Fset, r.Results[0]))
			}
		}
		if ok {
			rc.Check(nret >= 2, "encoder.getFilteredCodeSetIfNeeded/query-flag", flagNode.Pos(), "the flag assignment dominates all %d returns of a filtered program", nret)
		}
	}
}

// ---- C19.R4 nested consumers of the query use the opcode's own sub-query ----

func c19r4(rc *core.RC) {
	p := rc.P
	isCodeFieldQuery := func(info *types.Info, e ast.Expr) bool {
		f := core.FieldOf(info, e)
		if f == nil || f.Name() != "FieldQuery" {
			return false
		}
		sel, ok := core.Unparen(e).(*ast.SelectorExpr)
		if !ok {
			return false
		}
		o := core.ObjOf(info, sel.X)
		return o != nil && strings.HasSuffix(o.Type().String(), "encoder.Opcode")
	}
	// (a) every SetFieldQueryToContext in the encoder and the interpreters installs code.FieldQuery
	nset := 0
	for _, short := range append([]string{"encoder"}, core.VMPkgs...) {
		for _, fd := range p.Funcs(short) {
			if fd.Body == nil {
				continue
			}
			info := p.Info(fd)
			k := 0
			ast.Inspect(fd.Body, func(m ast.Node) bool {
				call, ok := m.(*ast.CallExpr)
				if !ok || core.CalleeName(info, call) != "encoder.SetFieldQueryToContext" || len(call.Args) != 2 {
					return true
				}
				nset++
				k++
				rc.Touch(p.FuncName(fd))
				rc.Check(isCodeFieldQuery(info, call.Args[1]), fmt.Sprintf("%s/SetFieldQueryToContext#%d", p.FuncName(fd), k), call.Pos(),
					"the query handed on is the current opcode's FieldQuery (got `%s`)", types.ExprString(call.Args[1]))
				return true
			})
		}
	}
	if nset < 6 {
		rc.Unknown("encoder/SetFieldQueryToContext-sites", token.NoPos, "found %d calls (two marshaler helpers and one interface handler per interpreter expected)", nset)
	}
	// (b) a program compiled while interpreting (dynamic value of an interface) is compiled under the opcode's sub-query
	for _, short := range core.VMPkgs {
		fd := p.Func(short, "Run")
		if fd == nil {
			rc.Unknown(short+".Run", token.NoPos, "not found")
			continue
		}
		info := p.Info(fd)
		n := 0
		ast.Inspect(fd.Body, func(m ast.Node) bool {
			cc, ok := m.(*ast.CaseClause)
			if !ok {
				return true
			}
			var compile *ast.CallExpr
			for _, st := range cc.Body {
				ast.Inspect(st, func(k ast.Node) bool {
					if c, ok := k.(*ast.CallExpr); ok && core.CalleeName(info, c) == "encoder.CompileToGetCodeSet" {
						compile = c
					}
					return true
				})
			}
			if compile == nil {
				return true
			}
			n++
			label := "case"
			if len(cc.List) > 0 {
				label = "case " + types.ExprString(cc.List[0])
			}
			key := short + ".Run/" + label + "/compile-under-sub-query"
			rc.Touch(short + ".Run")
			// ctx.Option.Context = SetFieldQueryToContext(saved, code.FieldQuery) before the call, guarded by FieldQueryOption only
			var set, restore *ast.AssignStmt
			var guard *ast.IfStmt
			var saved types.Object
			isCtxContext := func(e ast.Expr) bool {
				f := core.FieldOf(info, e)
				return f != nil && f.Name() == "Context" && strings.HasSuffix(f.Pkg().Path(), "internal/encoder")
			}
			var walk func(list []ast.Stmt, g *ast.IfStmt)
			walk = func(list []ast.Stmt, g *ast.IfStmt) {
				for _, st := range list {
					switch x := st.(type) {
					case *ast.AssignStmt:
						if len(x.Lhs) == 1 && len(x.Rhs) == 1 {
							if isCtxContext(x.Lhs[0]) {
								if c, ok := core.Unparen(x.Rhs[0]).(*ast.CallExpr); ok && core.CalleeName(info, c) == "encoder.SetFieldQueryToContext" && x.Pos() < compile.Pos() {
									set, guard = x, g
								} else if o := core.ObjOf(info, x.Rhs[0]); o != nil && o == saved && x.Pos() > compile.End() && restore == nil {
									restore = x
								}
							} else if isCtxContext(x.Rhs[0]) && x.Pos() < compile.Pos() {
								saved = core.ObjOf(info, x.Lhs[0])
							}
						}
					case *ast.IfStmt:
						walk(x.Body.List, x)
					}
				}
			}
			walk(cc.Body, nil)
			switch {
			case set == nil:
				rc.Bad(key, compile.Pos(), "the dynamic value's program is compiled under the context's root query: a sub-query below an interface-typed member is ignored and the root's field names are applied to the inner value instead")
			case guard != nil && !strings.Contains(core.Src(p.Fset, guard.Cond), "FieldQueryOption"):
				rc.Bad(key, set.Pos(), "the sub-query is installed only under `%s`", core.Src(p.Fset, guard.Cond))
			case guard != nil && (strings.Contains(core.Src(p.Fset, guard.Cond), "&&") || guard.Else != nil):
				rc.Bad(key, set.Pos(), "the sub-query is installed only under `%s`, which is narrower than the FieldQueryOption flag", core.Src(p.Fset, guard.Cond))
			case restore == nil:
				rc.Bad(key, compile.Pos(), "ctx.Option.Context is not put back after the compile call: the following members are encoded under this member's sub-query context")
			default:
				// no return between the compile call and the restore
				early := false
				for _, st := range cc.Body {
					ast.Inspect(st, func(k ast.Node) bool {
						if r, ok := k.(*ast.ReturnStmt); ok && r.Pos() > compile.End() && r.Pos() < restore.Pos() {
							early = true
						}
						return true
					})
				}
				rc.Check(!early, key, compile.Pos(), "compiled under code.FieldQuery when a query is active, context restored right after the call")
			}
			return true
		})
		if n == 0 {
			rc.Unknown(short+".Run/compile-sites", fd.Pos(), "no CompileToGetCodeSet call found in the interpreter")
		}
	}
}

// ---- C19.R5 what Filter changes is what ToOpcode compiles ----

func c19r5(rc *core.RC) {
	p := rc.P
	n := 0
	for _, fd := range p.Funcs("encoder") {
		if fd.Recv == nil || fd.Body == nil || fd.Name.Name != "Filter" || len(fd.Recv.List[0].Names) == 0 {
			continue
		}
		info := p.Info(fd)
		recv := info.Defs[fd.Recv.List[0].Names[0]]
		tname := ""
		if pt, ok := recv.Type().(*types.Pointer); ok {
			if nt, ok := pt.Elem().(*types.Named); ok {
				tname = nt.Obj().Name()
			}
		}
		if tname == "" {
			continue
		}
		// fields of the rebuilt receiver that do not simply carry over c.<field>
		changed := map[string]bool{}
		ast.Inspect(fd.Body, func(m ast.Node) bool {
			cl, ok := m.(*ast.CompositeLit)
			if !ok {
				return true
			}
			tv := info.Types[cl]
			if nt, ok := tv.Type.(*types.Named); !ok || nt.Obj().Name() != tname {
				return true
			}
			for _, el := range cl.Elts {
				kv, ok := el.(*ast.KeyValueExpr)
				if !ok {
					continue
				}
				k := kv.Key.(*ast.Ident).Name
				if sel, ok := core.Unparen(kv.Value).(*ast.SelectorExpr); ok && sel.Sel.Name == k && core.ObjOf(info, sel.X) == recv {
					continue
				}
				if k == "fieldQuery" {
					continue // carried to the opcode as data, checked by C19.R4
				}
				changed[k] = true
			}
			return true
		})
		// the copy-and-assign form: code := *c; code.f = …; return &code
		copies := map[types.Object]bool{}
		ast.Inspect(fd.Body, func(m ast.Node) bool {
			as, ok := m.(*ast.AssignStmt)
			if !ok || len(as.Lhs) != 1 || len(as.Rhs) != 1 {
				return true
			}
			if st, isStar := core.Unparen(as.Rhs[0]).(*ast.StarExpr); isStar && core.ObjOf(info, st.X) == recv {
				if o := core.ObjOf(info, as.Lhs[0]); o != nil {
					copies[o] = true
				}
			}
			return true
		})
		ast.Inspect(fd.Body, func(m ast.Node) bool {
			as, ok := m.(*ast.AssignStmt)
			if !ok || len(as.Lhs) != len(as.Rhs) {
				return true
			}
			for i, l := range as.Lhs {
				sel, isSel := core.Unparen(l).(*ast.SelectorExpr)
				if !isSel || !copies[core.ObjOf(info, sel.X)] {
					continue
				}
				k := sel.Sel.Name
				if rs, isRS := core.Unparen(as.Rhs[i]).(*ast.SelectorExpr); isRS && rs.Sel.Name == k && core.ObjOf(info, rs.X) == recv {
					continue
				}
				if k != "fieldQuery" {
					changed[k] = true
				}
			}
			return true
		})
		if len(changed) == 0 {
			continue
		}
		for _, mname := range []string{"ToOpcode", "ToAnonymousOpcode"} {
			md := p.Func("encoder", tname+"."+mname)
			if md == nil || md.Body == nil || len(md.Recv.List[0].Names) == 0 {
				continue
			}
			minfo := p.Info(md)
			mrecv := minfo.Defs[md.Recv.List[0].Names[0]]
			cf := core.BuildCFG(md.Body, minfo)
			// nodes that read a changed field of the receiver
			reads := func(nd ast.Node) bool {
				found := false
				ast.Inspect(nd, func(k ast.Node) bool {
					if sel, ok := k.(*ast.SelectorExpr); ok && changed[sel.Sel.Name] && core.ObjOf(minfo, sel.X) == mrecv {
						found = true
					}
					return true
				})
				return found
			}
			fn := "encoder.(*" + tname + ")." + mname
			rc.Touch(fn)
			for i, ret := range cf.Returns() {
				n++
				rb, ri := cf.BlockOf(ret)
				where := "tail"
				path := core.PathTo(md.Body, ret)
				for j := len(path) - 1; j >= 0; j-- {
					if ifs, ok := path[j].(*ast.IfStmt); ok {
						where = "if " + core.Shape(p.Fset, minfo, md, ifs.Cond)
						break
					}
				}
				_ = i
				key := fmt.Sprintf("%s/return under `%s` depends-on-%s", fn, where, strings.Join(keysOf(changed), ","))
				if rb == nil {
					rc.Unknown(key, ret.Pos(), "return not in the CFG")
					continue
				}
				ok := reads(ret)
				for _, b := range cf.G.Blocks {
					if ok {
						break
					}
					for ni, nd := range b.Nodes {
						if !reads(nd) {
							continue
						}
						if (b == rb && ni < ri) || (b != rb && cf.Dominates(b, rb)) {
							ok = true
							break
						}
					}
				}
				if ok {
					rc.OK(key, ret.Pos(), "the program returned here is built from the part Filter rebuilds")
				} else {
					rc.Bad(key, ret.Pos(), "%s returns a program here without reading %s, the only part of a %s that Filter changes: on this path a filtered and an unfiltered %s compile to the same program, so the query below this point is lost", mname, strings.Join(keysOf(changed), ","), tname, tname)
				}
			}
		}
	}
	if n < 8 {
		rc.Unknown("encoder/filterable-codes", token.NoPos, "found %d returns of ToOpcode methods of filterable Code types", n)
	}
}

// ---- C19.R6 the first field of a struct is merged with its value opcode like every other field ----

// headerOpcodes (first field) and fieldOpcodes (the others) fold the value's first opcode into the
// field opcode; for single-opcode values (marshalers, scalars) the value opcode is then dropped, so
// whatever the handlers read from it (FieldQuery, NumBitSize, PtrNum, the marshaler-context flag)
// has to be copied. The twins must be the same up to the Head/Field naming.
func c19r6(rc *core.RC) {
	p := rc.P
	a, b := p.Func("encoder", "StructFieldCode.headerOpcodes"), p.Func("encoder", "StructFieldCode.fieldOpcodes")
	key := "encoder.(*StructFieldCode).headerOpcodes~fieldOpcodes/twins"
	if a == nil || b == nil {
		rc.Unknown(key, token.NoPos, "twins not found")
		return
	}
	rc.Touch("encoder.(*StructFieldCode).headerOpcodes")
	rc.Touch("encoder.(*StructFieldCode).fieldOpcodes")
	opt := core.NormOpts{Subst: map[string]string{"optimizeStructHeader": "optimizeStructX", "optimizeStructField": "optimizeStructX", "IsMultipleOpHead": "IsMultipleOpX", "IsMultipleOpField": "IsMultipleOpX"}}
	na := core.NormalStmts(p.Fset, p.Info(a), a.Body.List, opt)
	nb := core.NormalStmts(p.Fset, p.Info(b), b.Body.List, opt)
	if i := core.FirstDiff(na, nb); i >= 0 {
		da, db := "<end>", "<end>"
		if i < len(na) {
			da = na[i]
		}
		if i < len(nb) {
			db = nb[i]
		}
		rc.Bad(key, a.Pos(), "the first field and the other fields are merged with their value opcode differently at statement %d: `%s` (headerOpcodes) vs `%s` (fieldOpcodes); an attribute of the dropped value opcode (sub-query, bit size, pointer depth, context flag) reaches the handler only for one of them", i+1, oneLine(da), oneLine(db))
	} else {
		rc.OK(key, a.Pos(), "same %d statements up to the Head/Field naming", len(na))
	}
	// and FieldQuery is among what is carried over
	carries := 0
	for _, fd := range []*ast.FuncDecl{a, b} {
		info := p.Info(fd)
		ast.Inspect(fd.Body, func(m ast.Node) bool {
			if as, ok := m.(*ast.AssignStmt); ok && len(as.Lhs) == 1 && len(as.Rhs) == 1 {
				l, r := core.FieldOf(info, as.Lhs[0]), core.FieldOf(info, as.Rhs[0])
				if l != nil && r != nil && l.Name() == "FieldQuery" && r.Name() == "FieldQuery" {
					carries++
				}
			}
			return true
		})
	}
	rc.Check(carries == 2, "encoder.(*StructFieldCode).headerOpcodes~fieldOpcodes/carry-FieldQuery", a.Pos(), "both copy the value opcode's FieldQuery to the field opcode (%d of 2)", carries)
}

// ---- C19.R7 promoted fields are selected by the enclosing query ----

// The members of an embedded struct are written as members of the outer object. StructCode.Filter
// therefore has to filter an anonymous field's value with its own query parameter (the enclosing
// query), not look the embedded struct up by name only.
func c19r7(rc *core.RC) {
	p := rc.P
	fd := p.Func("encoder", "StructCode.Filter")
	key := "encoder.(*StructCode).Filter/promoted-fields"
	if fd == nil {
		rc.Unknown(key, token.NoPos, "not found")
		return
	}
	rc.Touch("encoder.(*StructCode).Filter")
	info := p.Info(fd)
	// the query parameter and variables that only ever hold it
	var qparam types.Object
	for _, f := range fd.Type.Params.List {
		for _, nm := range f.Names {
			qparam = info.Defs[nm]
		}
	}
	holds := map[types.Object]bool{qparam: true}
	for round := 0; round < 3; round++ {
		ast.Inspect(fd.Body, func(m ast.Node) bool {
			as, ok := m.(*ast.AssignStmt)
			if !ok {
				return true
			}
			for i, r := range as.Rhs {
				if i < len(as.Lhs) && holds[core.ObjOf(info, r)] {
					if lo := core.ObjOf(info, as.Lhs[i]); lo != nil {
						holds[lo] = true
					}
				}
			}
			return true
		})
	}
	// an if statement testing isAnonymous whose body makes the loop's query variable hold the enclosing query
	found := false
	ast.Inspect(fd.Body, func(m ast.Node) bool {
		ifs, ok := m.(*ast.IfStmt)
		if !ok || !strings.Contains(core.Src(p.Fset, ifs.Cond), "isAnonymous") {
			return true
		}
		ast.Inspect(ifs.Body, func(k ast.Node) bool {
			switch x := k.(type) {
			case *ast.AssignStmt:
				for _, r := range x.Rhs {
					if holds[core.ObjOf(info, r)] {
						found = true
					}
				}
			case *ast.CallExpr:
				if sel, ok := x.Fun.(*ast.SelectorExpr); ok && sel.Sel.Name == "Filter" && len(x.Args) == 1 && holds[core.ObjOf(info, x.Args[0])] {
					found = true
				}
			}
			return true
		})
		return true
	})
	rc.Check(found, key, fd.Pos(), "an anonymous (embedded) field is filtered with the enclosing query: its members are promoted into the outer object and are selected by the outer query's names")
}

// ---- C19.R8 setting a query always replaces the query in the context ----

// The interpreters and the marshaler helpers call SetFieldQueryToContext(ctx, code.FieldQuery) also
// with a nil query: a member selected without a sub-query is encoded whole, and the nil value is what
// hides the enclosing query from it. SetFieldQueryToContext therefore has to wrap the context on
// every path; returning the context unchanged for a nil query lets the root query through.
func c19r8(rc *core.RC) {
	p := rc.P
	fd := p.Func("encoder", "SetFieldQueryToContext")
	key := "encoder.SetFieldQueryToContext/always-wraps"
	if fd == nil {
		rc.Unknown(key, token.NoPos, "not found")
		return
	}
	rc.Touch("encoder.SetFieldQueryToContext")
	info := p.Info(fd)
	n, ok := 0, true
	var q types.Object
	if ps := fd.Type.Params.List; len(ps) > 0 {
		last := ps[len(ps)-1]
		if len(last.Names) > 0 {
			q = info.Defs[last.Names[len(last.Names)-1]]
		}
	}
	ast.Inspect(fd.Body, func(m ast.Node) bool {
		r, isRet := m.(*ast.ReturnStmt)
		if !isRet {
			return true
		}
		n++
		good := false
		if len(r.Results) == 1 {
			if c, isCall := core.Unparen(core.ResolveSingleDef(info, fd.Body, r.Results[0])).(*ast.CallExpr); isCall && core.CalleeName(info, c) == "context.WithValue" && len(c.Args) == 3 && core.ObjOf(info, c.Args[2]) == q {
				good = true
			}
		}
		if !good {
			ok = false
		}
		return true
	})
	rc.Check(ok && n > 0, key, fd.Pos(), "every return is context.WithValue(ctx, key, query) with the function's own query argument (%d return(s)): a nil query replaces the enclosing one instead of leaving it visible", n)
}

// ---- C19.R9 the program run for an interface value is the one compiled in that very handler ----

// The program for the dynamic value of an interface member depends on the value's type and, under a
// field query, on the member's own sub-query (code.FieldQuery). The OpInterface handler obtains it
// from encoder.CompileToGetCodeSet after installing that sub-query. Every use of an *OpcodeSet in the
// handler must go back to a variable whose only definition is that call, made in the handler: a
// program remembered from an earlier opcode (a variable of Run that outlives the handler) was built
// for another member's sub-query.
func c19r9(rc *core.RC) {
	p := rc.P
	for _, short := range core.VMPkgs {
		fd := p.Func(short, "Run")
		if fd == nil {
			rc.Unknown(short+".Run", token.NoPos, "not found")
			continue
		}
		info := p.Info(fd)
		var clause *ast.CaseClause
		ast.Inspect(fd.Body, func(m ast.Node) bool {
			cc, ok := m.(*ast.CaseClause)
			if !ok {
				return true
			}
			for _, l := range cc.List {
				if sel, isSel := l.(*ast.SelectorExpr); isSel && sel.Sel.Name == "OpInterface" {
					clause = cc
				}
			}
			return clause == nil
		})
		key := short + ".Run/OpInterface program-compiled-here"
		if clause == nil {
			rc.Unknown(key, fd.Pos(), "OpInterface handler not found")
			continue
		}
		rc.Touch(short + ".Run")
		// variables of type *encoder.OpcodeSet used in the clause
		vars := map[types.Object]token.Pos{}
		ast.Inspect(clause, func(m ast.Node) bool {
			id, ok := m.(*ast.Ident)
			if !ok {
				return true
			}
			o := info.Uses[id]
			if o == nil {
				o = info.Defs[id]
			}
			if v, isVar := o.(*types.Var); isVar && strings.HasSuffix(v.Type().String(), "encoder.OpcodeSet") {
				if _, seen := vars[v]; !seen {
					vars[v] = id.Pos()
				}
			}
			return true
		})
		if len(vars) == 0 {
			rc.Unknown(key, clause.Pos(), "no *OpcodeSet variable in the handler")
			continue
		}
		bad := ""
		at := clause.Pos()
		for v, pos := range vars {
			// declared inside the handler?
			if !(clause.Pos() <= v.Pos() && v.Pos() <= clause.End()) {
				bad = fmt.Sprintf("%s is declared outside the handler (it outlives one opcode)", v.Name())
				at = pos
				break
			}
			// definitions: all assignments to v in the clause
			ndef, okDef := 0, true
			ast.Inspect(clause, func(m ast.Node) bool {
				as, isAssign := m.(*ast.AssignStmt)
				if !isAssign {
					return true
				}
				for i, l := range as.Lhs {
					if core.ObjOf(info, l) != v {
						continue
					}
					ndef++
					var rhs ast.Expr
					if len(as.Rhs) == 1 {
						rhs = as.Rhs[0]
					} else if i < len(as.Rhs) {
						rhs = as.Rhs[i]
					}
					c, isCall := core.Unparen(rhs).(*ast.CallExpr)
					if !isCall || core.CalleeName(info, c) != "encoder.CompileToGetCodeSet" {
						okDef = false
					}
				}
				return true
			})
			if ndef != 1 || !okDef {
				bad = fmt.Sprintf("%s has %d definition(s) in the handler, not exactly one by encoder.CompileToGetCodeSet", v.Name(), ndef)
				at = pos
				break
			}
		}
		rc.Check(bad == "", key, at, "every *OpcodeSet used by the OpInterface handler is a variable of the handler defined once, by encoder.CompileToGetCodeSet%s", map[bool]string{true: "", false: ": " + bad}[bad == ""])
	}
}

// ---- C19.R10 a Filter that has children never answers with its receiver ----

// Code.Filter projects a compiled code tree on a query. For a code that has children (the members of a struct, the
// value of a pointer, slice, array or map, the value of a struct field) the answer has to be a new node built around
// the FILTERED children: answering with the receiver itself, on any path, returns the unprojected subtree, and every
// sub-query below that point is lost (the query keeps every member of a struct and narrows one of them).
func c19r10(rc *core.RC) {
	p := rc.P
	n := 0
	for _, fd := range p.Funcs("encoder") {
		if fd.Recv == nil || fd.Body == nil || fd.Name.Name != "Filter" || len(fd.Recv.List[0].Names) == 0 {
			continue
		}
		info := p.Info(fd)
		recv := info.Defs[fd.Recv.List[0].Names[0]]
		pt, isPtr := recv.Type().(*types.Pointer)
		if !isPtr {
			continue
		}
		st, isStruct := pt.Elem().Underlying().(*types.Struct)
		if !isStruct {
			continue
		}
		// children: fields whose type is the Code interface, a field code, or a list of field codes
		var children []string
		for i := 0; i < st.NumFields(); i++ {
			t := st.Field(i).Type().String()
			if strings.HasSuffix(t, "encoder.Code") || strings.HasSuffix(t, "encoder.StructFieldCode") {
				children = append(children, st.Field(i).Name())
			}
		}
		if len(children) == 0 {
			continue
		}
		fn := p.FuncName(fd)
		rc.Touch(fn)
		k := 0
		ast.Inspect(fd.Body, func(m ast.Node) bool {
			r, ok := m.(*ast.ReturnStmt)
			if !ok || len(r.Results) != 1 {
				return true
			}
			n++
			k++
			key := fmt.Sprintf("%s/return#%d built-from-filtered-children", fn, k)
			res := core.Unparen(r.Results[0])
			if id, isIdent := res.(*ast.Ident); isIdent {
				if def := core.ResolveSingleDef(info, fd.Body, id); def != nil {
					res = core.Unparen(def)
				}
			}
			if core.ObjOf(info, res) == recv {
				rc.Bad(key, r.Pos(), "%s answers with its receiver on this path: the node has children (%s) and the query is not applied to them, so every sub-query below a struct of which all members are selected (or below this pointer, slice, map) is ignored", fn, strings.Join(children, ", "))
				return true
			}
			rc.OK(key, r.Pos(), "a node of its own is returned")
			return true
		})
	}
	if n < 5 {
		rc.Unknown("encoder/filters-with-children", token.NoPos, "found %d returns in Filter methods of code types with children (confirmed: struct, struct field, pointer, slice, array, map)", n)
	}
}

// ---- C19.R11 the cache key of a query is an injective text ----

// Filtered programs are cached per type under FieldQuery.Hash(): two different queries with one hash share a
// program, so the second is answered with the first one's fields. The hash is the query's JSON text (Marshal(q)),
// whose injectivity is what the QueryString round trip rests on. A hand-written key is injective only if it quotes
// the names and brackets the nesting; a key that appends the raw name text collides as soon as a name contains the
// delimiter (`a,b` against `a` and `b`), or for equal names at different depths.
func c19r11(rc *core.RC) {
	p := rc.P
	fd := p.Func("encoder", "FieldQuery.Hash")
	if fd == nil || fd.Body == nil {
		rc.Unknown("encoder.FieldQuery.Hash", token.NoPos, "function not found")
		return
	}
	info := p.Info(fd)
	fn := p.FuncName(fd)
	rc.Touch(fn)
	key := fn + "/key-is-the-query's-JSON-text"
	recv := core.ObjOf(info, fd.Recv.List[0].Names[0])
	// the field store q.hash = X
	var stored ast.Expr
	var storePos token.Pos
	defs := map[types.Object][]ast.Expr{}
	ast.Inspect(fd.Body, func(x ast.Node) bool {
		as, ok := x.(*ast.AssignStmt)
		if !ok {
			return true
		}
		for i, l := range as.Lhs {
			var r ast.Expr
			if len(as.Rhs) == len(as.Lhs) {
				r = as.Rhs[i]
			} else {
				r = as.Rhs[0]
			}
			if sel, ok := core.Unparen(l).(*ast.SelectorExpr); ok && sel.Sel.Name == "hash" {
				stored, storePos = r, as.Pos()
			}
			if id, ok := l.(*ast.Ident); ok {
				if o := core.ObjOf(info, id); o != nil {
					defs[o] = append(defs[o], r)
				}
			}
		}
		return true
	})
	if stored == nil {
		rc.Unknown(key, fd.Pos(), "no store to the hash field found")
		return
	}
	// resolve: stored → ident hash → definitions (the field load and the computed one) → string(b) → b from Marshal(q)
	var isMarshalText func(e ast.Expr, d int) (bool, string)
	isMarshalText = func(e ast.Expr, d int) (bool, string) {
		e = core.Unparen(e)
		if d > 5 {
			return false, core.Src(p.Fset, e)
		}
		switch v := e.(type) {
		case *ast.Ident:
			o := core.ObjOf(info, v)
			ok, why := false, core.Src(p.Fset, e)
			found := false
			for _, r := range defs[o] {
				if sel, isSel := core.Unparen(r).(*ast.SelectorExpr); isSel && sel.Sel.Name == "hash" {
					continue // the cached value itself
				}
				found = true
				ok, why = isMarshalText(r, d+1)
				if !ok {
					return false, why
				}
			}
			return found && ok, why
		case *ast.CallExpr:
			if tv, isT := info.Types[v.Fun]; isT && tv.IsType() && len(v.Args) == 1 {
				return isMarshalText(v.Args[0], d+1) // string(b)
			}
			name := core.CalleeName(info, v)
			if id, isID := core.Unparen(v.Fun).(*ast.Ident); isID && name == "" {
				// Marshal is a package-level function variable, set by package json to its own Marshal
				if o := info.Uses[id]; o != nil && o.Pkg() != nil && o.Parent() == o.Pkg().Scope() {
					name = o.Pkg().Name() + "." + o.Name()
				}
			}
			if name == "encoder.Marshal" && len(v.Args) == 1 && core.ObjOf(info, v.Args[0]) == recv {
				return true, "Marshal(" + recv.Name() + ")"
			}
			return false, "a call of " + name
		}
		return false, core.Src(p.Fset, e)
	}
	ok, why := isMarshalText(stored, 0)
	if ok {
		rc.OK(key, storePos, "the cached key is the text of %s", why)
		return
	}
	// a hand-written key: names appended raw make it definitely non-injective
	raw := ""
	for _, other := range p.Funcs("encoder") {
		if other.Body == nil || other.Recv == nil || p.FuncName(other) == fn || !strings.Contains(p.FuncName(other), "FieldQuery") {
			continue
		}
		oi := p.Info(other)
		ast.Inspect(other.Body, func(x ast.Node) bool {
			c, isCall := x.(*ast.CallExpr)
			if !isCall || !core.IsBuiltin(oi, c, "append") || !c.Ellipsis.IsValid() || len(c.Args) != 2 {
				return true
			}
			if sel, isSel := core.Unparen(c.Args[1]).(*ast.SelectorExpr); isSel && sel.Sel.Name == "Name" {
				raw = p.FuncName(other)
			}
			return true
		})
	}
	if raw != "" {
		rc.Bad(key, storePos, "the cached key comes from %s and %s appends the field names raw: a name that contains the delimiter, or equal names at different depths, give two different queries one key, and the second query is answered with the first one's filtered program", why, raw)
		return
	}
	rc.Unknown(key, storePos, "the cached key comes from %s, not from Marshal of the query: its injectivity (quoted names, bracketed nesting) is not established", why)
}

// ---- C19.R12 a member of a query text is a nested query only when it looks like one ----

// A query string is a JSON array whose members are field names or, for nested selections, the text of another
// query (an array or an object). buildString parses a member as JSON only when it begins with '[' or '{'; any other
// text is a field name, also when it happens to be a JSON text itself ("1", "true", "null" are legal member names
// given by tags). Parsing every member first and falling back to a name on failure turns those names into numbers,
// booleans and nil, which build rejects: the query built from a query's own QueryString no longer equals it.
func c19r12(rc *core.RC) {
	p := rc.P
	fd := p.Func("encoder", "FieldQueryString.buildString")
	key := "encoder.FieldQueryString.buildString/nested-query-only-behind-a-bracket"
	if fd == nil || fd.Body == nil {
		rc.Unknown(key, token.NoPos, "function not found")
		return
	}
	info := p.Info(fd)
	rc.Touch(p.FuncName(fd))
	n := 0
	ast.Inspect(fd.Body, func(m ast.Node) bool {
		call, ok := m.(*ast.CallExpr)
		if !ok {
			return true
		}
		id, isID := core.Unparen(call.Fun).(*ast.Ident)
		if !isID || id.Name != "Unmarshal" {
			return true
		}
		n++
		guarded := false
		path := core.PathTo(fd.Body, call)
		for _, nd := range path {
			switch x := nd.(type) {
			case *ast.CaseClause:
				br, cu := false, false
				for _, l := range x.List {
					if v, isC := core.ConstInt(info, l); isC {
						if v == '[' {
							br = true
						}
						if v == '{' {
							cu = true
						}
					}
				}
				if br && cu {
					guarded = true
				}
			case *ast.IfStmt:
				br, cu := false, false
				ast.Inspect(x.Cond, func(k ast.Node) bool {
					if e, isE := k.(ast.Expr); isE {
						if v, isC := core.ConstInt(info, e); isC {
							if v == '[' {
								br = true
							}
							if v == '{' {
								cu = true
							}
						}
					}
					return true
				})
				if br && cu && x.Body.Pos() <= call.Pos() && call.End() <= x.Body.End() {
					guarded = true
				}
			}
		}
		rc.Check(guarded, key, call.Pos(), "the member is parsed as JSON only in the branch taken for a first byte '[' or '{': parsed unconditionally, member names that are JSON texts themselves (1, true, null) stop being names")
		return true
	})
	if n < 1 {
		rc.Unknown(key, fd.Pos(), "no call of Unmarshal found in buildString")
	}
}

// ---- C19.R13 every opcode of a node that carries a query is given the query ----

// InterfaceCode, MarshalJSONCode and MarshalTextCode keep the sub-query that selected them (fieldQuery) and their
// ToOpcode hands it to the opcode, which passes it on at run time (to the dynamic value, to MarshalJSON(ctx)). The
// methods choose between several operations (plain, behind a pointer): the query belongs to every one of them. The
// assignment code.FieldQuery = c.fieldQuery is a statement of the method body itself; inside one arm of the choice it
// leaves the other operation without the query (a query on &v with v an interface{} selected nothing).
func c19r13(rc *core.RC) {
	p := rc.P
	pk := p.Pkg("encoder")
	if pk == nil {
		rc.Unknown("encoder", token.NoPos, "package not found")
		return
	}
	info := pk.TypesInfo
	n := 0
	for _, fd := range p.Funcs("encoder") {
		if fd.Body == nil || fd.Recv == nil || fd.Name.Name != "ToOpcode" || len(fd.Recv.List) != 1 || len(fd.Recv.List[0].Names) != 1 {
			continue
		}
		recv := info.Defs[fd.Recv.List[0].Names[0]]
		if recv == nil {
			continue
		}
		rt := recv.Type()
		if pt, ok := rt.(*types.Pointer); ok {
			rt = pt.Elem()
		}
		st, ok := rt.Underlying().(*types.Struct)
		if !ok {
			continue
		}
		has := false
		for i := 0; i < st.NumFields(); i++ {
			if st.Field(i).Name() == "fieldQuery" {
				has = true
			}
		}
		if !has {
			continue
		}
		n++
		name := p.FuncName(fd)
		rc.Touch(name)
		isHandOver := func(s ast.Stmt) bool {
			as, ok := s.(*ast.AssignStmt)
			if !ok || len(as.Lhs) != 1 || len(as.Rhs) != 1 {
				return false
			}
			lf, rf := core.FieldOf(info, as.Lhs[0]), core.FieldOf(info, as.Rhs[0])
			if lf == nil || rf == nil || lf.Name() != "FieldQuery" || rf.Name() != "fieldQuery" {
				return false
			}
			sel, ok := core.Unparen(as.Rhs[0]).(*ast.SelectorExpr)
			return ok && core.ObjOf(info, sel.X) == recv
		}
		top, nested := false, false
		for _, s := range fd.Body.List {
			if isHandOver(s) {
				top = true
			}
		}
		ast.Inspect(fd.Body, func(m ast.Node) bool {
			if s, ok := m.(ast.Stmt); ok && isHandOver(s) {
				nested = true
			}
			return true
		})
		key := name + "/query-handed-to-every-operation"
		switch {
		case top:
			rc.OK(key, fd.Pos(), "code.FieldQuery = %s.fieldQuery is a statement of the method body: every operation the method chooses carries the query", recv.Name())
		case nested:
			rc.Bad(key, fd.Pos(), "the query is handed over inside one arm of the choice between the operations only: the other operation (the value behind a pointer) is encoded without the query that selected it, every member is written")
		default:
			rc.Bad(key, fd.Pos(), "the node keeps a sub-query and its ToOpcode never hands it to the opcode")
		}
	}
	if n < 3 {
		rc.Unknown("encoder/query-nodes", token.NoPos, "found %d ToOpcode methods of nodes with a fieldQuery (confirmed: 3)", n)
	}
}

// ---- C19.R14 a query is written in the shapes its reader reads ----

// FieldQuery.MarshalJSON writes the text QueryString returns and Build reads back: a name as a string, a named query
// with members as an object whose value is the array of members, a list as an array. The reader (buildMap) takes the
// members of an object's value from the array it built for that value (def.Fields): an object value that is not an
// array loses a level (a nested object keeps only its members, a string contributes nothing). Obligation: every value
// MarshalJSON hands to Marshal is a string, a slice of queries, or a map whose value type is a slice of queries.
func c19r14(rc *core.RC) {
	p := rc.P
	fd := p.Func("encoder", "FieldQuery.MarshalJSON")
	if fd == nil || fd.Body == nil {
		rc.Unknown("encoder.FieldQuery.MarshalJSON", token.NoPos, "method not found")
		return
	}
	info := p.Info(fd)
	name := p.FuncName(fd)
	rc.Touch(name)
	n := 0
	ast.Inspect(fd.Body, func(m ast.Node) bool {
		c, ok := m.(*ast.CallExpr)
		if !ok || len(c.Args) != 1 {
			return true
		}
		// Marshal is a package-level function variable of the encoder package (set by package json)
		fn := ""
		switch f := core.Unparen(c.Fun).(type) {
		case *ast.Ident:
			fn = f.Name
		case *ast.SelectorExpr:
			fn = f.Sel.Name
		}
		if fn != "Marshal" {
			return true
		}
		t := info.TypeOf(c.Args[0])
		if t == nil {
			return true
		}
		n++
		good := false
		switch u := t.Underlying().(type) {
		case *types.Basic:
			good = u.Info()&types.IsString != 0
		case *types.Slice:
			good = true
		case *types.Map:
			_, good = u.Elem().Underlying().(*types.Slice)
		}
		rc.Check(good, fmt.Sprintf("%s/written-shape#%d %s", name, n, t.String()), c.Pos(), "MarshalJSON writes a value of type %s: the reader of query texts takes the members of an object's value from the array built for it, so the value of a written object has to be an array of members (a single member written without brackets, {\"a\":{\"b\":[…]}}, comes back without the level b)", t.String())
		return true
	})
	if n < 3 {
		rc.Unknown(name+"/written-shapes", fd.Pos(), "found %d values handed to Marshal (confirmed: 3)", n)
	}
}

// ---- C19.R15 a marshaler node under a query is always rebuilt with the query ----

// Filter of MarshalJSONCode and MarshalTextCode returns a node that carries the sub-query: the operation made from it
// hands the query to a MarshalJSON(ctx) method through the context. Whether the method takes a context is known by
// the node's isMarshalerContext, which the compiler set from the type and from the pointer to it. A Filter that gives
// back the receiver unchanged for some types (decided on the value's method set only) leaves a pointer-receiver
// MarshalJSON(ctx) of a member held by value without its sub-query. Obligation: every return of
// (*MarshalJSONCode).Filter and (*MarshalTextCode).Filter returns a composite literal whose fieldQuery is the
// parameter, never the receiver itself.
func c19r15(rc *core.RC) {
	p := rc.P
	n := 0
	for _, name := range []string{"MarshalJSONCode.Filter", "MarshalTextCode.Filter"} {
		fd := p.Func("encoder", name)
		if fd == nil || fd.Body == nil {
			rc.Unknown("encoder."+name+"/carries-the-query", token.NoPos, "method not found")
			continue
		}
		rc.Touch(p.FuncName(fd))
		info := p.Info(fd)
		var recv, query types.Object
		if fd.Recv != nil && len(fd.Recv.List) > 0 && len(fd.Recv.List[0].Names) > 0 {
			recv = info.Defs[fd.Recv.List[0].Names[0]]
		}
		for _, fl := range fd.Type.Params.List {
			for _, nm := range fl.Names {
				query = info.Defs[nm]
			}
		}
		k := 0
		ast.Inspect(fd.Body, func(m ast.Node) bool {
			r, ok := m.(*ast.ReturnStmt)
			if !ok || len(r.Results) != 1 {
				return true
			}
			n++
			k++
			key := fmt.Sprintf("%s/return#%d carries-the-query", p.FuncName(fd), k)
			res := core.Unparen(r.Results[0])
			if core.ObjOf(info, res) == recv && recv != nil {
				rc.Bad(key, r.Pos(), "Filter gives back the node it was called on, without the sub-query: a MarshalJSON(ctx) method of the member is handed no query and writes all its fields")
				return true
			}
			good := false
			if u, isU := res.(*ast.UnaryExpr); isU && u.Op == token.AND {
				if cl, isCL := core.Unparen(u.X).(*ast.CompositeLit); isCL {
					for _, e := range cl.Elts {
						if kv, isKV := e.(*ast.KeyValueExpr); isKV {
							if id, isID := kv.Key.(*ast.Ident); isID && id.Name == "fieldQuery" && core.ObjOf(info, kv.Value) == query {
								good = true
							}
						}
					}
				}
			}
			rc.Check(good, key, r.Pos(), "the node Filter returns is made anew with fieldQuery set to the query it was called with")
			return true
		})
	}
	if n < 2 {
		rc.Unknown("encoder/marshaler-Filter-returns", token.NoPos, "found %d returns in the Filter methods of the marshaler nodes, fewer than the 2 confirmed by hand", n)
	}
}
