package rules

import (
	"fmt"
	"go/ast"
	"go/token"
	"go/types"
	"strings"

	"verif/checker/core"
)

// ---- C19.R1 Filter reaches children ----

func c19r1(rc *core.RC) {
	p := rc.P
	pk := p.Pkg("encoder")
	codeIface, _ := pk.Types.Scope().Lookup("Code").(*types.TypeName)
	if codeIface == nil {
		rc.Unknown("encoder.Code", token.NoPos, "interface not found")
		return
	}
	n := 0
	for _, name := range pk.Types.Scope().Names() {
		tn, ok := pk.Types.Scope().Lookup(name).(*types.TypeName)
		if !ok {
			continue
		}
		st, ok := tn.Type().Underlying().(*types.Struct)
		if !ok || !types.Implements(types.NewPointer(tn.Type()), codeIface.Type().Underlying().(*types.Interface)) {
			continue
		}
		// child codes: fields of interface type Code (the element/value code)
		var children []string
		for i := 0; i < st.NumFields(); i++ {
			f := st.Field(i)
			if types.Identical(f.Type(), codeIface.Type()) && f.Name() == "value" {
				children = append(children, f.Name())
			}
		}
		if len(children) == 0 {
			continue
		}
		fd := p.Func("encoder", name+".Filter")
		key := "encoder.(*" + name + ").Filter/reaches-value"
		if fd == nil {
			rc.Unknown(key, tn.Pos(), "Filter method not found")
			continue
		}
		n++
		rc.Touch("encoder.(*" + name + ").Filter")
		info := p.Info(fd)
		calls := false
		ast.Inspect(fd.Body, func(m ast.Node) bool {
			call, ok := m.(*ast.CallExpr)
			if !ok {
				return true
			}
			sel, ok := call.Fun.(*ast.SelectorExpr)
			if !ok || sel.Sel.Name != "Filter" {
				return true
			}
			if f := core.FieldOf(info, sel.X); f != nil && f.Name() == "value" {
				calls = true
			}
			return true
		})
		if calls {
			rc.OK(key, fd.Pos(), "the query is applied to the value code")
		} else {
			rc.Bad(key, fd.Pos(), "%s holds a child Code (value) but its Filter does not call value.Filter: a sub-query below this kind of member is ignored and every field of the elements is encoded", name)
		}
	}
	if n < 4 {
		rc.Unknown("encoder/Code-with-children", token.NoPos, "found %d Code types with a child value (confirmed: Slice, Array, Map, Ptr, StructField)", n)
	}
}

// ---- C19.R3 cache discipline ----

func c19r3(rc *core.RC) {
	p := rc.P
	fd := p.Func("encoder", "getFilteredCodeSetIfNeeded")
	if fd == nil {
		rc.Unknown("encoder.getFilteredCodeSetIfNeeded", token.NoPos, "not found")
		return
	}
	rc.Touch("encoder.getFilteredCodeSetIfNeeded")
	info := p.Info(fd)
	var getKey, setKey, filterArg, compiled string
	var setVal types.Object
	var compiledObj types.Object
	ast.Inspect(fd.Body, func(m ast.Node) bool {
		switch x := m.(type) {
		case *ast.CallExpr:
			switch core.CalleeName(info, x) {
			case "encoder.OpcodeSet.getQueryCache":
				getKey = core.NormalNode(p.Fset, info, x.Args[0], core.NormOpts{KeepNames: true})
			case "encoder.OpcodeSet.setQueryCache":
				setKey = core.NormalNode(p.Fset, info, x.Args[0], core.NormOpts{KeepNames: true})
				setVal = core.ObjOf(info, x.Args[1])
			case "encoder.Compiler.codeToOpcodeSet":
				compiled = core.Src(p.Fset, x)
				if len(x.Args) == 2 {
					filterArg = core.Src(p.Fset, x.Args[1])
				}
			}
		case *ast.AssignStmt:
			if len(x.Rhs) == 1 {
				if c, ok := core.Unparen(x.Rhs[0]).(*ast.CallExpr); ok && core.CalleeName(info, c) == "encoder.Compiler.codeToOpcodeSet" {
					compiledObj = core.ObjOf(info, x.Lhs[0])
				}
			}
		}
		return true
	})
	rc.Check(getKey != "" && getKey == setKey, "encoder.getFilteredCodeSetIfNeeded/same-cache-key", fd.Pos(), "the filtered program is looked up with %q and stored with %q", getKey, setKey)
	rc.Check(setVal != nil && setVal == compiledObj, "encoder.getFilteredCodeSetIfNeeded/stores-filtered-program", fd.Pos(), "what is stored under the query hash is the program compiled from the filtered code (%s)", compiled)
	rc.Check(strings.Contains(filterArg, ".Code.Filter("), "encoder.getFilteredCodeSetIfNeeded/filters-original-code", fd.Pos(), "the filtered program is built from the unfiltered Code tree kept in the type's OpcodeSet (%s)", filterArg)
	// the query decision is per call: under ContextOption, and FieldQueryOption is only set here
	guard := false
	ast.Inspect(fd.Body, func(m ast.Node) bool {
		if ifs, ok := m.(*ast.IfStmt); ok && strings.Contains(core.Src(p.Fset, ifs.Cond), "ContextOption") && len(ifs.Body.List) > 0 {
			if _, isRet := ifs.Body.List[len(ifs.Body.List)-1].(*ast.ReturnStmt); isRet {
				guard = true
			}
		}
		return true
	})
	rc.Check(guard, "encoder.getFilteredCodeSetIfNeeded/needs-context-option", fd.Pos(), "without ContextOption the unfiltered program is returned before the context is consulted")
	_ = fmt.Sprint
}
