package rules

import (
	"fmt"
	"go/ast"
	"go/token"
	"go/types"
	"strings"

	"verif/checker/core"
)

// ---- C17.R10 getu4 reads four hex digits of either case ----

// getu4 turns the six bytes `\uXXXX` into the code unit for unquoteBytes (the text of UnmarshalText values and
// keys). The function is a pure classifier of six bytes: it is folded as a whole, for every byte value in each of
// the four digit positions (the other three running through a sample of digits of all three classes), and compared
// with the value of the hex digits; anything that is not `\u` plus four hex digits has to give -1.
func c17r10(rc *core.RC) {
	p := rc.P
	fd := p.Func("decoder", "getu4")
	key := "decoder.getu4/value-of-four-hex-digits"
	if fd == nil || fd.Body == nil || fd.Type.Params.NumFields() != 1 {
		rc.Unknown(key, token.NoPos, "function not found")
		return
	}
	rc.Touch(p.FuncName(fd))
	info := p.Info(fd)
	arg := info.Defs[fd.Type.Params.List[0].Names[0]]
	bp := &core.BytePred{P: p, Strings: map[types.Object][]byte{}}
	hexVal := func(c byte) int64 {
		switch {
		case '0' <= c && c <= '9':
			return int64(c - '0')
		case 'a' <= c && c <= 'f':
			return int64(c-'a') + 10
		case 'A' <= c && c <= 'F':
			return int64(c-'A') + 10
		}
		return -1
	}
	sample := []byte("09afAF3cD")
	var bad []string
	count := 0
	eval := func(s []byte) bool {
		bp.Steps = 0
		bp.Strings[arg] = s
		_, _, done, ok := bp.ExecList(info, fd.Body.List, core.BindAll(nil))
		if !ok || !done || len(bp.Results) != 1 {
			return false
		}
		count++
		want := int64(0)
		if len(s) < 6 || s[0] != '\\' || s[1] != 'u' {
			want = -1
		} else {
			for _, c := range s[2:6] {
				v := hexVal(c)
				if v < 0 {
					want = -1
					break
				}
				want = want*16 + v
			}
		}
		if got := int64(int32(bp.Results[0])); got != want && len(bad) < 6 {
			bad = append(bad, fmt.Sprintf("%q -> %d (the digits say %d)", s, got, want))
		}
		return true
	}
	for pos := 2; pos < 6; pos++ {
		for b := 0; b < 256; b++ {
			for _, fill := range sample {
				s := []byte{'\\', 'u', fill, fill, fill, fill}
				s[pos] = byte(b)
				if !eval(s) {
					rc.Unknown(key, fd.Pos(), "getu4 could not be folded for %q", s)
					return
				}
			}
		}
	}
	for _, s := range []string{"", "\\u", "\\u12", "\\u123", "\\x1234", "/u1234", "\\U1234", "\\u1234rest"} {
		if !eval([]byte(s)) {
			rc.Unknown(key, fd.Pos(), "getu4 could not be folded for %q", s)
			return
		}
	}
	rc.Check(len(bad) == 0, key, fd.Pos(), "getu4, folded for %d six-byte inputs (every byte value in each digit position), returns the value of the four hex digits, upper or lower case, and -1 otherwise%s", count, map[bool]string{true: "", false: ": " + strings.Join(bad, "; ")}[len(bad) == 0])
}

// ---- C17.R11 unicodeToRune, folded ----

// unicodeToRune is the decoders' reader of the four hex digits behind `\u` (string values, object keys, in buffer
// and stream mode). It is a pure function of its bytes: folded as a whole for every byte value in each of the four
// positions (the others running through digits of all classes) it has to return the value of the digits, and -1
// when a byte is not a hex digit.
func c17r11(rc *core.RC) {
	p := rc.P
	fd := p.Func("decoder", "unicodeToRune")
	key := "decoder.unicodeToRune/value-of-four-hex-digits"
	if fd == nil || fd.Body == nil || fd.Type.Params.NumFields() != 1 {
		rc.Unknown(key, token.NoPos, "function not found")
		return
	}
	rc.Touch(p.FuncName(fd))
	info := p.Info(fd)
	arg := info.Defs[fd.Type.Params.List[0].Names[0]]
	bp := &core.BytePred{P: p, Strings: map[types.Object][]byte{}}
	hexVal := func(c byte) int64 {
		switch {
		case '0' <= c && c <= '9':
			return int64(c - '0')
		case 'a' <= c && c <= 'f':
			return int64(c-'a') + 10
		case 'A' <= c && c <= 'F':
			return int64(c-'A') + 10
		}
		return -1
	}
	var bad []string
	count := 0
	for pos := 0; pos < 4; pos++ {
		for b := 0; b < 256; b++ {
			for _, fill := range []byte("09afAF3cD") {
				s := []byte{fill, fill, fill, fill}
				s[pos] = byte(b)
				bp.Steps = 0
				bp.Strings[arg] = s
				_, _, done, ok := bp.ExecList(info, fd.Body.List, core.BindAll(nil))
				if !ok || !done || len(bp.Results) != 1 {
					rc.Unknown(key, fd.Pos(), "unicodeToRune could not be folded for %q", s)
					return
				}
				count++
				want := int64(0)
				for _, c := range s {
					v := hexVal(c)
					if v < 0 {
						want = -1
						break
					}
					want = want*16 + v
				}
				if got := int64(int32(bp.Results[0])); got != want && len(bad) < 6 {
					bad = append(bad, fmt.Sprintf("%q -> %d (the digits say %d)", s, got, want))
				}
			}
		}
	}
	rc.Check(len(bad) == 0, key, fd.Pos(), "unicodeToRune, folded for %d four-byte inputs (every byte value in each position), returns the value of the hex digits of either case and -1 otherwise%s", count, map[bool]string{true: "", false: ": " + strings.Join(bad, "; ")}[len(bad) == 0])
}

// ---- C17.R12 the mark of what is written only moves behind a flush ----

// The string writers keep two indexes: j scans, and the other (the mark) is where the part of the text begins that
// has not been written yet. When a byte needs an escape the writer flushes s[mark:j], writes the escape and sets the
// mark behind the byte; at the end it flushes s[mark:]. Every byte is written exactly once as long as the mark moves
// only after a flush of what lies in front of it. An assignment to the mark with no flush in front (a loop that
// reuses the variable as its counter) loses the text between the old and the new mark: the literal is still a valid
// JSON string and decodes to a suffix of the original. Obligation, in every function of encoder/string.go that
// appends s[mark:…]: each assignment or increment of the mark stands in a statement list in which an append of
// s[mark:…] precedes it.
func c17r12(rc *core.RC) {
	p := rc.P
	pk := p.Pkg("encoder")
	if pk == nil {
		rc.Unknown("encoder", token.NoPos, "package not found")
		return
	}
	info := pk.TypesInfo
	n, funcs := 0, 0
	for _, fd := range p.Funcs("encoder") {
		if fd.Body == nil || p.FileBase(fd.Pos()) != "string.go" {
			continue
		}
		// the text parameter and the mark: append(buf, s[mark:…]...)
		marks := map[types.Object]bool{}
		isFlush := func(nd ast.Node, mark types.Object) bool {
			hit := false
			ast.Inspect(nd, func(m ast.Node) bool {
				c, ok := m.(*ast.CallExpr)
				if !ok || !core.IsBuiltin(info, c, "append") || !c.Ellipsis.IsValid() || len(c.Args) != 2 {
					return true
				}
				se, ok := core.Unparen(c.Args[1]).(*ast.SliceExpr)
				if !ok || se.Low == nil {
					return true
				}
				if t := info.TypeOf(se.X); t == nil || (t.String() != "string" && t.String() != "[]byte") {
					return true
				}
				if o := core.ObjOf(info, se.Low); o != nil && (mark == nil || o == mark) {
					if mark == nil {
						marks[o] = true
					}
					hit = true
				}
				return true
			})
			return hit
		}
		isFlush(fd.Body, nil)
		if len(marks) == 0 {
			continue
		}
		funcs++
		name := p.FuncName(fd)
		rc.Touch(name)
		k := 0
		check := func(st ast.Node, mark types.Object, what string) {
			k++
			n++
			// the statement list that holds st, and a flush in front of it there
			path := core.PathTo(fd.Body, st)
			flushed := false
			for i := len(path) - 2; i >= 0 && !flushed; i-- {
				var list []ast.Stmt
				switch x := path[i].(type) {
				case *ast.BlockStmt:
					list = x.List
				case *ast.CaseClause:
					list = x.Body
				default:
					continue
				}
				for _, s2 := range list {
					if s2.Pos() >= st.Pos() {
						break
					}
					if isFlush(s2, mark) {
						flushed = true
					}
				}
				break
			}
			rc.Check(flushed, fmt.Sprintf("%s/mark-write#%d behind-a-flush", name, k), st.Pos(), "%s moves %s, the start of the text that is not written yet, and no append of s[%s:…] stands in front of it in the same statement list: what lies between the old and the new position is never written (\"hello, world\\n\" comes out as \"\\n\")", what, mark.Name(), mark.Name())
		}
		ast.Inspect(fd.Body, func(m ast.Node) bool {
			switch x := m.(type) {
			case *ast.AssignStmt:
				if x.Tok == token.DEFINE {
					return true
				}
				for _, l := range x.Lhs {
					if o := core.ObjOf(info, l); o != nil && marks[o] {
						check(x, o, core.Src(p.Fset, x))
					}
				}
			case *ast.IncDecStmt:
				if o := core.ObjOf(info, x.X); o != nil && marks[o] {
					check(x, o, core.Src(p.Fset, x))
				}
			}
			return true
		})
	}
	if funcs < 4 || n < 20 {
		rc.Unknown("encoder/string-writers", token.NoPos, "found %d string writers with a mark and %d writes to it (confirmed: 4 and more than 20)", funcs, n)
	}
}

// ---- C17.R13 what decides whether a member name is escaped is set wherever a member node is made ----

// Under the escape-key pass the compiler writes a member name through the HTML-escaping string writer
// (StructFieldCode.structKey). If that is made to depend on a property of the node (only names given by a tag can
// hold <, > or &), the property has to be right in every node that reaches structKey: also in the copies
// StructCode.Filter makes for a field query. Obligation: every field of StructFieldCode that the condition of the
// escaping branch of structKey reads is set in every composite literal of StructFieldCode in the package. (With the
// condition on ctx.escapeKey alone there is nothing to set.)
func c17r13(rc *core.RC) {
	p := rc.P
	pk := p.Pkg("encoder")
	fd := p.Func("encoder", "StructFieldCode.structKey")
	if pk == nil || fd == nil || fd.Body == nil || len(fd.Recv.List) != 1 || len(fd.Recv.List[0].Names) != 1 {
		rc.Unknown("encoder.StructFieldCode.structKey", token.NoPos, "method not found")
		return
	}
	info := pk.TypesInfo
	name := p.FuncName(fd)
	rc.Touch(name)
	recv := info.Defs[fd.Recv.List[0].Names[0]]
	// the branch that escapes: its body calls one of the string writers
	var cond ast.Expr
	ast.Inspect(fd.Body, func(m ast.Node) bool {
		ifs, ok := m.(*ast.IfStmt)
		if !ok || cond != nil {
			return true
		}
		esc := false
		ast.Inspect(ifs.Body, func(k ast.Node) bool {
			if c, ok := k.(*ast.CallExpr); ok && strings.HasPrefix(core.CalleeName(info, c), "encoder.AppendString") {
				esc = true
			}
			return true
		})
		if esc {
			cond = ifs.Cond
		}
		return true
	})
	if cond == nil {
		rc.Unknown(name+"/escaping-branch", fd.Pos(), "no branch that writes the name through AppendString found")
		return
	}
	var needs []string
	ast.Inspect(cond, func(m ast.Node) bool {
		if sel, ok := m.(*ast.SelectorExpr); ok && core.ObjOf(info, sel.X) == recv {
			needs = append(needs, sel.Sel.Name)
		}
		return true
	})
	if len(needs) == 0 {
		rc.OK(name+"/escape-condition", cond.Pos(), "the name is escaped whenever the pass asks for it (`%s`): no property of the node decides", core.Src(p.Fset, cond))
		return
	}
	nlit := 0
	for _, f := range p.Funcs("encoder") {
		if f.Body == nil {
			continue
		}
		fname := p.FuncName(f)
		k := 0
		ast.Inspect(f.Body, func(m ast.Node) bool {
			cl, ok := m.(*ast.CompositeLit)
			if !ok {
				return true
			}
			nt, isNamed := info.TypeOf(cl).(*types.Named)
			if !isNamed || nt.Obj().Name() != "StructFieldCode" {
				return true
			}
			k++
			nlit++
			set := map[string]bool{}
			for _, el := range cl.Elts {
				if kv, ok := el.(*ast.KeyValueExpr); ok {
					if id, ok := kv.Key.(*ast.Ident); ok {
						set[id.Name] = true
					}
				}
			}
			for _, need := range needs {
				rc.Check(set[need], fmt.Sprintf("%s/member-node#%d sets %s", fname, k, need), cl.Pos(), "structKey escapes a member name only when %s.%s says so, and this StructFieldCode is made without it: its name is written raw by the escape-key pass (a tag name with <, > or & selected through a field query)", recv.Name(), need)
			}
			return true
		})
	}
	if nlit < 2 {
		rc.Unknown("encoder/member-nodes", token.NoPos, "found %d composite literals of StructFieldCode (confirmed: 2)", nlit)
	}
}

// ---- C17.R14 the walker over the rest of an unmatched key never looks at the byte it is entered on ----

// decodeKeyNotFound is entered from the bitmap key decoders with the cursor on a byte that is done with: a plain byte
// that matched no field, or the letter behind a backslash (the decoded character matched no field). Looking at that
// byte again takes the `"` of `\"` for the end of the key and the second `\` of `\\` for a new escape. Obligation:
// in decodeKeyNotFound the first statement of the loop is the advance of the cursor parameter, in front of the
// dispatch on the byte under it.
func c17r14(rc *core.RC) {
	p := rc.P
	n := 0
	for _, name := range []string{"decodeKeyNotFound"} {
		fd := p.Func("decoder", name)
		key := "decoder." + name + "/entered-on-a-byte-that-is-done-with"
		if fd == nil || fd.Body == nil {
			rc.Unknown(key, token.NoPos, "function not found")
			continue
		}
		n++
		rc.Touch(p.FuncName(fd))
		info := p.Info(fd)
		var cur types.Object
		for _, fl := range fd.Type.Params.List {
			for _, nm := range fl.Names {
				if o := info.Defs[nm]; o != nil {
					if b, isB := o.Type().Underlying().(*types.Basic); isB && b.Kind() == types.Int64 {
						cur = o
					}
				}
			}
		}
		var loop *ast.ForStmt
		for _, st := range fd.Body.List {
			if f, ok := st.(*ast.ForStmt); ok && loop == nil {
				loop = f
			}
		}
		if loop == nil || cur == nil || len(loop.Body.List) == 0 {
			rc.Unknown(key, fd.Pos(), "no loop over the key found")
			continue
		}
		// the first read of the byte under the cursor and the first advance, in statement order
		firstRead, firstInc := token.NoPos, token.NoPos
		ast.Inspect(loop.Body, func(m ast.Node) bool {
			switch x := m.(type) {
			case *ast.IncDecStmt:
				if core.ObjOf(info, x.X) == cur && x.Tok == token.INC && firstInc == token.NoPos {
					firstInc = x.Pos()
				}
			case *ast.CallExpr:
				if core.CalleeName(info, x) == "decoder.char" && len(x.Args) == 2 && core.ObjOf(info, x.Args[1]) == cur && firstRead == token.NoPos {
					firstRead = x.Pos()
				}
			}
			return true
		})
		inc0, isInc := loop.Body.List[0].(*ast.IncDecStmt)
		if isInc && core.ObjOf(info, inc0.X) == cur && firstRead != token.NoPos && firstInc < firstRead {
			rc.OK(key, loop.Pos(), "the cursor is advanced before the first byte is looked at")
		} else {
			rc.Bad(key, loop.Pos(), "the loop looks at the byte under the cursor it was entered with: the callers enter it on the letter behind a backslash, so the quote of \\\" ends the key and the backslash of \\\\ starts another escape; a valid document with such a key that selects no field is refused")
		}
	}
	if n < 1 {
		rc.Unknown("decoder/decodeKeyNotFound", token.NoPos, "function not found")
	}
}

// ---- C17.R15 the walk over a marshaler's output escapes as its caller said ----

// compact and the functions it calls (compactValue, compactObject, compactArray, compactString …) carry the flag
// `escape`: with it compactString rewrites <, > and & and, by a branch of its own, the raw U+2028 and U+2029. A
// function that switches the flag off for the text it was given (because the text holds none of the three ASCII
// characters, say) lets the two separators through. Obligation: in compact.go no function assigns to its bool
// parameter, and every call between these functions passes the parameter itself, or a constant, on.
func c17r15(rc *core.RC) {
	p := rc.P
	n := 0
	for _, fd := range p.Funcs("encoder") {
		if fd.Body == nil || p.FileBase(fd.Pos()) != "compact.go" || fd.Type.Params == nil {
			continue
		}
		info := p.Info(fd)
		var flag types.Object
		for _, fl := range fd.Type.Params.List {
			for _, nm := range fl.Names {
				if o := info.Defs[nm]; o != nil {
					if b, isB := o.Type().Underlying().(*types.Basic); isB && b.Kind() == types.Bool {
						flag = o
					}
				}
			}
		}
		if flag == nil {
			continue
		}
		n++
		rc.Touch(p.FuncName(fd))
		key := fmt.Sprintf("%s/%s handed-on-as-given", p.FuncName(fd), flag.Name())
		var bad ast.Node
		ast.Inspect(fd.Body, func(m ast.Node) bool {
			if as, ok := m.(*ast.AssignStmt); ok {
				for _, l := range as.Lhs {
					if core.ObjOf(info, l) == flag && bad == nil {
						bad = as
					}
				}
			}
			return true
		})
		if bad != nil {
			rc.Bad(key, bad.Pos(), "%s changes the flag %s it was called with (%s): the strings of the text are then walked without the escaping the caller asked for, and a raw U+2028 or U+2029 in a marshaler's output (which none of <, > and & announces) reaches the result", p.FuncName(fd), flag.Name(), core.Src(p.Fset, bad))
		} else {
			rc.OK(key, fd.Pos(), "the flag is read and handed on, never assigned")
		}
	}
	if n < 5 {
		rc.Unknown("encoder/compact.go/escape-flags", token.NoPos, "found %d functions with a bool parameter in compact.go, fewer than the 5 confirmed by hand", n)
	}
}
