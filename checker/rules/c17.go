package rules

import (
	"fmt"
	"go/token"
	"go/types"
	"strings"

	"verif/checker/core"
)

// ---- C17.R10 getu4 reads four hex digits of either case ----

// getu4 turns the six bytes `\uXXXX` into the code unit for unquoteBytes (the text of UnmarshalText values and
// keys). The function is a pure classifier of six bytes: it is folded as a whole, for every byte value in each of
// the four digit positions (the other three running through a sample of digits of all three classes), and compared
// with the value of the hex digits; anything that is not `\u` plus four hex digits has to give -1.
func c17r10(rc *core.RC) {
	p := rc.P
	fd := p.Func("decoder", "getu4")
	key := "decoder.getu4/value-of-four-hex-digits"
	if fd == nil || fd.Body == nil || fd.Type.Params.NumFields() != 1 {
		rc.Unknown(key, token.NoPos, "function not found")
		return
	}
	rc.Touch(p.FuncName(fd))
	info := p.Info(fd)
	arg := info.Defs[fd.Type.Params.List[0].Names[0]]
	bp := &core.BytePred{P: p, Strings: map[types.Object][]byte{}}
	hexVal := func(c byte) int64 {
		switch {
		case '0' <= c && c <= '9':
			return int64(c - '0')
		case 'a' <= c && c <= 'f':
			return int64(c-'a') + 10
		case 'A' <= c && c <= 'F':
			return int64(c-'A') + 10
		}
		return -1
	}
	sample := []byte("09afAF3cD")
	var bad []string
	count := 0
	eval := func(s []byte) bool {
		bp.Steps = 0
		bp.Strings[arg] = s
		_, _, done, ok := bp.ExecList(info, fd.Body.List, core.BindAll(nil))
		if !ok || !done || len(bp.Results) != 1 {
			return false
		}
		count++
		want := int64(0)
		if len(s) < 6 || s[0] != '\\' || s[1] != 'u' {
			want = -1
		} else {
			for _, c := range s[2:6] {
				v := hexVal(c)
				if v < 0 {
					want = -1
					break
				}
				want = want*16 + v
			}
		}
		if got := int64(int32(bp.Results[0])); got != want && len(bad) < 6 {
			bad = append(bad, fmt.Sprintf("%q -> %d (the digits say %d)", s, got, want))
		}
		return true
	}
	for pos := 2; pos < 6; pos++ {
		for b := 0; b < 256; b++ {
			for _, fill := range sample {
				s := []byte{'\\', 'u', fill, fill, fill, fill}
				s[pos] = byte(b)
				if !eval(s) {
					rc.Unknown(key, fd.Pos(), "getu4 could not be folded for %q", s)
					return
				}
			}
		}
	}
	for _, s := range []string{"", "\\u", "\\u12", "\\u123", "\\x1234", "/u1234", "\\U1234", "\\u1234rest"} {
		if !eval([]byte(s)) {
			rc.Unknown(key, fd.Pos(), "getu4 could not be folded for %q", s)
			return
		}
	}
	rc.Check(len(bad) == 0, key, fd.Pos(), "getu4, folded for %d six-byte inputs (every byte value in each digit position), returns the value of the four hex digits, upper or lower case, and -1 otherwise%s", count, map[bool]string{true: "", false: ": " + strings.Join(bad, "; ")}[len(bad) == 0])
}

// ---- C17.R11 unicodeToRune, folded ----

// unicodeToRune is the decoders' reader of the four hex digits behind `\u` (string values, object keys, in buffer
// and stream mode). It is a pure function of its bytes: folded as a whole for every byte value in each of the four
// positions (the others running through digits of all classes) it has to return the value of the digits, and -1
// when a byte is not a hex digit.
func c17r11(rc *core.RC) {
	p := rc.P
	fd := p.Func("decoder", "unicodeToRune")
	key := "decoder.unicodeToRune/value-of-four-hex-digits"
	if fd == nil || fd.Body == nil || fd.Type.Params.NumFields() != 1 {
		rc.Unknown(key, token.NoPos, "function not found")
		return
	}
	rc.Touch(p.FuncName(fd))
	info := p.Info(fd)
	arg := info.Defs[fd.Type.Params.List[0].Names[0]]
	bp := &core.BytePred{P: p, Strings: map[types.Object][]byte{}}
	hexVal := func(c byte) int64 {
		switch {
		case '0' <= c && c <= '9':
			return int64(c - '0')
		case 'a' <= c && c <= 'f':
			return int64(c-'a') + 10
		case 'A' <= c && c <= 'F':
			return int64(c-'A') + 10
		}
		return -1
	}
	var bad []string
	count := 0
	for pos := 0; pos < 4; pos++ {
		for b := 0; b < 256; b++ {
			for _, fill := range []byte("09afAF3cD") {
				s := []byte{fill, fill, fill, fill}
				s[pos] = byte(b)
				bp.Steps = 0
				bp.Strings[arg] = s
				_, _, done, ok := bp.ExecList(info, fd.Body.List, core.BindAll(nil))
				if !ok || !done || len(bp.Results) != 1 {
					rc.Unknown(key, fd.Pos(), "unicodeToRune could not be folded for %q", s)
					return
				}
				count++
				want := int64(0)
				for _, c := range s {
					v := hexVal(c)
					if v < 0 {
						want = -1
						break
					}
					want = want*16 + v
				}
				if got := int64(int32(bp.Results[0])); got != want && len(bad) < 6 {
					bad = append(bad, fmt.Sprintf("%q -> %d (the digits say %d)", s, got, want))
				}
			}
		}
	}
	rc.Check(len(bad) == 0, key, fd.Pos(), "unicodeToRune, folded for %d four-byte inputs (every byte value in each position), returns the value of the hex digits of either case and -1 otherwise%s", count, map[bool]string{true: "", false: ": " + strings.Join(bad, "; ")}[len(bad) == 0])
}
