package rules

import (
	"fmt"
	"go/ast"
	"go/token"
	"go/types"
	"strings"

	"golang.org/x/tools/go/cfg"

	"verif/checker/core"
)

// ---- C04.R6 every map member is decoded into a value of its own ----

// The map decoder decodes each member's value into a scratch value and hands it to mapassign, which copies it.
// The scratch value has to be new (zero) for every member: the struct decoder writes only the members the document
// names, so a slot that is reused for the next entry keeps what the previous entry put there, and an omitempty
// member that Marshal left out comes back with the neighbour's value. The destination of every valueDecoder call
// in the map decoder is therefore a variable defined by unsafe_New inside the loop that runs once per member.
func c04r6(rc *core.RC) {
	p := rc.P
	n := 0
	for _, name := range []string{"mapDecoder.Decode", "mapDecoder.DecodeStream"} {
		fd := p.Func("decoder", name)
		if fd == nil || fd.Body == nil {
			rc.Unknown("decoder."+name, token.NoPos, "function not found")
			continue
		}
		info := p.Info(fd)
		fn := p.FuncName(fd)
		k := 0
		ast.Inspect(fd.Body, func(m ast.Node) bool {
			call, ok := m.(*ast.CallExpr)
			if !ok || len(call.Args) < 3 {
				return true
			}
			sel, isSel := core.Unparen(call.Fun).(*ast.SelectorExpr)
			if !isSel || (sel.Sel.Name != "Decode" && sel.Sel.Name != "DecodeStream") {
				return true
			}
			if f := core.FieldOf(info, sel.X); f == nil || f.Name() != "valueDecoder" {
				return true
			}
			k++
			n++
			rc.Touch(fn)
			key := fmt.Sprintf("%s/value-slot#%d new-for-every-member", fn, k)
			dst := core.ObjOf(info, call.Args[len(call.Args)-1])
			if dst == nil {
				rc.Unknown(key, call.Pos(), "the destination %s is not a variable", core.Src(p.Fset, call.Args[len(call.Args)-1]))
				return true
			}
			// the innermost loop around the call
			var loop ast.Node
			for _, nd := range core.PathTo(fd.Body, call) {
				switch nd.(type) {
				case *ast.ForStmt, *ast.RangeStmt:
					loop = nd
				}
			}
			if loop == nil {
				rc.Unknown(key, call.Pos(), "the call is not inside a loop over the members")
				return true
			}
			var bad []string
			defs := 0
			ast.Inspect(fd.Body, func(x ast.Node) bool {
				as, isAs := x.(*ast.AssignStmt)
				if !isAs || len(as.Lhs) != len(as.Rhs) {
					return true
				}
				for i, l := range as.Lhs {
					if core.ObjOf(info, l) != dst {
						continue
					}
					defs++
					c, isCall := core.Unparen(as.Rhs[i]).(*ast.CallExpr)
					fresh := isCall && strings.HasSuffix(core.CalleeName(info, c), "unsafe_New")
					inside := loop.Pos() <= as.Pos() && as.End() <= loop.End()
					if !fresh || !inside {
						bad = append(bad, core.Src(p.Fset, as)+map[bool]string{true: "", false: " (outside the loop)"}[inside])
					}
				}
				return true
			})
			if !(loop.Pos() <= dst.Pos() && dst.Pos() <= loop.End()) {
				bad = append(bad, "the variable "+dst.Name()+" is declared outside the member loop and lives across members")
			}
			switch {
			case defs == 0:
				rc.Unknown(key, call.Pos(), "no definition of the destination %s found", dst.Name())
			default:
				rc.Check(len(bad) == 0, key, call.Pos(), "the value is decoded into a variable that unsafe_New defines inside the member loop%s", map[bool]string{true: "", false: "; other definitions: " + strings.Join(bad, "; ") + " — a slot that survives from one member to the next keeps the members the next document entry does not name"}[len(bad) == 0])
			}
			return true
		})
	}
	if n < 2 {
		rc.Unknown("decoder/map-value-slots", token.NoPos, "found %d valueDecoder calls in the map decoder (confirmed: 2)", n)
	}
}

// ---- C04.R7 the set of struct types being compiled is a set of types being compiled ----

// structCode of the encoder's compiler enters the struct type into c.structTypeToCode before it compiles the members
// and takes a type found there for a reference back into a compilation that is still going on (the member becomes a
// recursive jump, an embedded one is left out). That is right only while the entry is removed when the compilation of
// the type is done: a type that merely occurs twice (struct{ Meta; Items []struct{ Meta; … } }) would otherwise lose
// its second, embedded occurrence. Obligation: every path from the store into the map to a return without an error
// passes delete(c.structTypeToCode, <the same key>).
func c04r7(rc *core.RC) {
	p := rc.P
	fd := p.Func("encoder", "Compiler.structCode")
	key := "encoder.(*Compiler).structCode/in-progress-entry-removed"
	if fd == nil || fd.Body == nil {
		rc.Unknown(key, token.NoPos, "structCode not found")
		return
	}
	rc.Touch(p.FuncName(fd))
	info := p.Info(fd)
	cf := core.BuildCFGFor(fd, info)
	isRegistry := func(e ast.Expr) bool {
		f := core.FieldOf(info, core.Unparen(e))
		return f != nil && f.Name() == "structTypeToCode"
	}
	var store *ast.AssignStmt
	var storeKey string
	var deletes []ast.Node
	ast.Inspect(fd.Body, func(m ast.Node) bool {
		switch x := m.(type) {
		case *ast.AssignStmt:
			if len(x.Lhs) == 1 {
				if ix, ok := core.Unparen(x.Lhs[0]).(*ast.IndexExpr); ok && isRegistry(ix.X) && store == nil {
					store, storeKey = x, types.ExprString(core.Unparen(ix.Index))
				}
			}
		case *ast.CallExpr:
			if core.IsBuiltin(info, x, "delete") && len(x.Args) == 2 && isRegistry(x.Args[0]) {
				deletes = append(deletes, x)
			}
		}
		return true
	})
	if store == nil {
		rc.Unknown(key, fd.Pos(), "no store into c.structTypeToCode found in structCode")
		return
	}
	sb, si := cf.BlockOf(store)
	if sb == nil {
		rc.Unknown(key, store.Pos(), "the store is in no block of the flow graph")
		return
	}
	stop := map[*cfg.Block]bool{}
	delAt := map[*cfg.Block]int{}
	for _, d := range deletes {
		call := d.(*ast.CallExpr)
		if types.ExprString(core.Unparen(call.Args[1])) != storeKey {
			continue
		}
		if b, i := cf.BlockOf(d); b != nil {
			stop[b] = true
			delAt[b] = i
		}
	}
	free := cf.ReachableFrom(sb, stop)
	var bad []string
	for _, r := range cf.Returns() {
		if cf.IsFailure(r) {
			continue
		}
		rb, ri := cf.BlockOf(r)
		if rb == nil || !free[rb] || (rb == sb && ri < si) {
			continue // not reached from the store, or only through a block with the delete
		}
		bad = append(bad, p.Pos(r.Pos()))
	}
	// returns in blocks that are reached only through a delete block
	through := 0
	for b := range stop {
		for rb := range cf.ReachableFrom(b, nil) {
			if r := core.BlockReturn(rb); r != nil && !cf.IsFailure(r) {
				through++
			}
		}
	}
	switch {
	case len(bad) > 0:
		rc.Bad(key, store.Pos(), "c.structTypeToCode[%s] is set when the compilation of the struct begins and is still set at the successful return at %s: every later occurrence of the type in the same compilation is taken for a reference back into a compilation in progress (an embedded one is left out, its members are not written)", storeKey, strings.Join(bad, ", "))
	case through == 0:
		rc.Unknown(key, store.Pos(), "no successful return behind delete(c.structTypeToCode, %s) found", storeKey)
	default:
		rc.OK(key, store.Pos(), "every path from c.structTypeToCode[%s] = … to a return without an error passes delete(c.structTypeToCode, %s) (%d return(s) behind it)", storeKey, storeKey, through)
	}
}

// ---- C04.R8 every member the decoder makes for a field of its own honours the string option of the field's tag ----

// The encoder quotes a member whose tag has the string option, whatever way the field came to be a member: declared
// with a name, or embedded with a type that is no struct (type MyInt int embedded as `MyInt \`json:",string"\``),
// directly or through a pointer. The decoder makes the member's field set in one branch of compileStruct for each of
// these, and each has to wrap the decoder (newWrappedStringDecoder) when the tag says so; a branch that does not
// cannot read what Marshal wrote for it. Obligation: in compileStruct every structFieldSet literal for a member of
// the struct's own (key: field.Name or the tag's key) stands in a statement list that holds, in front of it, an if
// on tag.IsString that calls newWrappedStringDecoder.
func c04r8(rc *core.RC) {
	p := rc.P
	fd := p.Func("decoder", "compileStruct")
	if fd == nil || fd.Body == nil {
		rc.Unknown("decoder.compileStruct/string-option", token.NoPos, "compileStruct not found")
		return
	}
	rc.Touch(p.FuncName(fd))
	info := p.Info(fd)
	var lists [][]ast.Stmt
	ast.Inspect(fd.Body, func(m ast.Node) bool {
		switch x := m.(type) {
		case *ast.BlockStmt:
			lists = append(lists, x.List)
		case *ast.CaseClause:
			lists = append(lists, x.Body)
		}
		return true
	})
	n := 0
	for _, l := range lists {
		for i, st := range l {
			as, ok := st.(*ast.AssignStmt)
			if !ok || len(as.Rhs) != 1 {
				continue
			}
			u, isU := core.Unparen(as.Rhs[0]).(*ast.UnaryExpr)
			if !isU {
				continue
			}
			cl, isCL := core.Unparen(u.X).(*ast.CompositeLit)
			if !isCL {
				continue
			}
			if tv, has := info.Types[cl]; !has || !strings.HasSuffix(tv.Type.String(), "structFieldSet") {
				continue
			}
			own := false
			for _, e := range cl.Elts {
				if kv, isKV := e.(*ast.KeyValueExpr); isKV {
					if id, isID := kv.Key.(*ast.Ident); isID && id.Name == "key" {
						// the member's own name: field.Name of the reflect.StructField, or a string local that is not
						// taken from the key of a field set of another decoder (a promoted field)
						switch v := core.Unparen(kv.Value).(type) {
						case *ast.SelectorExpr:
							if t := info.TypeOf(v.X); t != nil && t.String() == "reflect.StructField" && v.Sel.Name == "Name" {
								own = true
							}
						case *ast.Ident:
							promoted := false
							if o := info.Uses[v]; o != nil {
								ast.Inspect(fd.Body, func(q ast.Node) bool {
									if a2, isAs := q.(*ast.AssignStmt); isAs && len(a2.Lhs) == len(a2.Rhs) {
										for i2, l2 := range a2.Lhs {
											if core.ObjOf(info, l2) == o {
												if s2, isSel := core.Unparen(a2.Rhs[i2]).(*ast.SelectorExpr); isSel && s2.Sel.Name == "key" {
													promoted = true
												}
											}
										}
									}
									if rs, isR := q.(*ast.RangeStmt); isR && rs.Key != nil && core.ObjOf(info, rs.Key) == o {
										promoted = true
									}
									return true
								})
							}
							if !promoted {
								own = true
							}
						}
					}
				}
			}
			if !own {
				continue
			}
			n++
			key := fmt.Sprintf("decoder.compileStruct/own-member#%d string-option-honoured", n)
			wraps := false
			for _, prev := range l[:i] {
				ifs, isIf := prev.(*ast.IfStmt)
				if !isIf || !strings.Contains(core.Src(p.Fset, ifs.Cond), "IsString") {
					continue
				}
				ast.Inspect(ifs.Body, func(q ast.Node) bool {
					if c, isCall := q.(*ast.CallExpr); isCall && core.CalleeName(info, c) == "decoder.newWrappedStringDecoder" {
						wraps = true
					}
					return true
				})
			}
			rc.Check(wraps, key, as.Pos(), "the decoder of this member is wrapped for the string option of its tag in front of the field set (the encoder quotes such a member; without the wrap Unmarshal cannot read what Marshal wrote: type MyInt int embedded as `MyInt `+\"`json:\\\",string\\\"`\"+``)")
		}
	}
	if n < 3 {
		rc.Unknown("decoder.compileStruct/string-option", fd.Pos(), "found %d field sets for members of the struct's own, fewer than the 3 confirmed by hand (a named field, an embedded non-struct type, an embedded pointer to one)", n)
	}
}
