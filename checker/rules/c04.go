package rules

import (
	"fmt"
	"go/ast"
	"go/token"
	"strings"

	"verif/checker/core"
)

// ---- C04.R6 every map member is decoded into a value of its own ----

// The map decoder decodes each member's value into a scratch value and hands it to mapassign, which copies it.
// The scratch value has to be new (zero) for every member: the struct decoder writes only the members the document
// names, so a slot that is reused for the next entry keeps what the previous entry put there, and an omitempty
// member that Marshal left out comes back with the neighbour's value. The destination of every valueDecoder call
// in the map decoder is therefore a variable defined by unsafe_New inside the loop that runs once per member.
func c04r6(rc *core.RC) {
	p := rc.P
	n := 0
	for _, name := range []string{"mapDecoder.Decode", "mapDecoder.DecodeStream"} {
		fd := p.Func("decoder", name)
		if fd == nil || fd.Body == nil {
			rc.Unknown("decoder."+name, token.NoPos, "function not found")
			continue
		}
		info := p.Info(fd)
		fn := p.FuncName(fd)
		k := 0
		ast.Inspect(fd.Body, func(m ast.Node) bool {
			call, ok := m.(*ast.CallExpr)
			if !ok || len(call.Args) < 3 {
				return true
			}
			sel, isSel := core.Unparen(call.Fun).(*ast.SelectorExpr)
			if !isSel || (sel.Sel.Name != "Decode" && sel.Sel.Name != "DecodeStream") {
				return true
			}
			if f := core.FieldOf(info, sel.X); f == nil || f.Name() != "valueDecoder" {
				return true
			}
			k++
			n++
			rc.Touch(fn)
			key := fmt.Sprintf("%s/value-slot#%d new-for-every-member", fn, k)
			dst := core.ObjOf(info, call.Args[len(call.Args)-1])
			if dst == nil {
				rc.Unknown(key, call.Pos(), "the destination %s is not a variable", core.Src(p.Fset, call.Args[len(call.Args)-1]))
				return true
			}
			// the innermost loop around the call
			var loop ast.Node
			for _, nd := range core.PathTo(fd.Body, call) {
				switch nd.(type) {
				case *ast.ForStmt, *ast.RangeStmt:
					loop = nd
				}
			}
			if loop == nil {
				rc.Unknown(key, call.Pos(), "the call is not inside a loop over the members")
				return true
			}
			var bad []string
			defs := 0
			ast.Inspect(fd.Body, func(x ast.Node) bool {
				as, isAs := x.(*ast.AssignStmt)
				if !isAs || len(as.Lhs) != len(as.Rhs) {
					return true
				}
				for i, l := range as.Lhs {
					if core.ObjOf(info, l) != dst {
						continue
					}
					defs++
					c, isCall := core.Unparen(as.Rhs[i]).(*ast.CallExpr)
					fresh := isCall && strings.HasSuffix(core.CalleeName(info, c), "unsafe_New")
					inside := loop.Pos() <= as.Pos() && as.End() <= loop.End()
					if !fresh || !inside {
						bad = append(bad, core.Src(p.Fset, as)+map[bool]string{true: "", false: " (outside the loop)"}[inside])
					}
				}
				return true
			})
			if !(loop.Pos() <= dst.Pos() && dst.Pos() <= loop.End()) {
				bad = append(bad, "the variable "+dst.Name()+" is declared outside the member loop and lives across members")
			}
			switch {
			case defs == 0:
				rc.Unknown(key, call.Pos(), "no definition of the destination %s found", dst.Name())
			default:
				rc.Check(len(bad) == 0, key, call.Pos(), "the value is decoded into a variable that unsafe_New defines inside the member loop%s", map[bool]string{true: "", false: "; other definitions: " + strings.Join(bad, "; ") + " — a slot that survives from one member to the next keeps the members the next document entry does not name"}[len(bad) == 0])
			}
			return true
		})
	}
	if n < 2 {
		rc.Unknown("decoder/map-value-slots", token.NoPos, "found %d valueDecoder calls in the map decoder (confirmed: 2)", n)
	}
}
