package rules

import (
	"fmt"
	"go/ast"
	"go/token"
	"go/types"
	"sort"
	"strings"

	"verif/checker/core"
)

// minimal size in bytes of a value of each kind (0 = varies / unknown)
func kindMinSize(word int64) map[string]int64 {
	return map[string]int64{
		"Bool": 1, "Int8": 1, "Uint8": 1, "Int16": 2, "Uint16": 2, "Int32": 4, "Uint32": 4, "Float32": 4,
		"Int64": 8, "Uint64": 8, "Float64": 8, "Int": word, "Uint": word, "Uintptr": word,
		"Ptr": word, "Map": word, "Func": word, "Chan": word, "UnsafePointer": word,
		"String": 2 * word, "Interface": 2 * word, "Slice": 3 * word, "Struct": 0, "Array": 0,
	}
}

// decoderKinds derives, from the kind switch of decoder.compile, which reflect
// kinds each decoder struct type is constructed for. A decoder that is (also)
// constructed outside the switch gets the kind "any".
func decoderKinds(rc *core.RC) map[string]map[string]bool {
	p := rc.P
	pk := p.Pkg("decoder")
	out := map[string]map[string]bool{}
	add := func(d, k string) {
		if out[d] == nil {
			out[d] = map[string]bool{}
		}
		out[d][k] = true
	}
	// decoder types constructed (composite literal &T{…}) by a function, following static calls
	var constructed func(fd *ast.FuncDecl, depth int, seen map[*ast.FuncDecl]bool) []string
	constructed = func(fd *ast.FuncDecl, depth int, seen map[*ast.FuncDecl]bool) []string {
		if fd == nil || fd.Body == nil || depth > 3 || seen[fd] {
			return nil
		}
		seen[fd] = true
		info := p.Info(fd)
		var res []string
		// only what the function returns counts: helper decoders embedded in other decoders (a stringDecoder used
		// for keys inside a structDecoder) never receive the destination pointer
		returned := map[types.Object]bool{}
		ast.Inspect(fd.Body, func(n ast.Node) bool {
			if r, ok := n.(*ast.ReturnStmt); ok && len(r.Results) > 0 {
				if o := core.ObjOf(info, r.Results[0]); o != nil {
					returned[o] = true
				}
			}
			return true
		})
		var visit func(e ast.Expr)
		visit = func(e ast.Expr) {
			e = core.Unparen(e)
			if u, ok := e.(*ast.UnaryExpr); ok && u.Op == token.AND {
				e = core.Unparen(u.X)
			}
			switch x := e.(type) {
			case *ast.CompositeLit:
				if tv := info.Types[x]; tv.Type != nil {
					if nt, ok := tv.Type.(*types.Named); ok && nt.Obj().Pkg() == pk.Types && strings.HasSuffix(nt.Obj().Name(), "Decoder") {
						res = append(res, nt.Obj().Name())
					}
				}
			case *ast.CallExpr:
				if f := core.Callee(info, x); f != nil && f.Pkg() == pk.Types {
					if f.Name() == "compile" || f.Name() == "compileMapKey" || f.Name() == "compileHead" {
						return
					}
					res = append(res, constructed(p.DeclOf(f), depth+1, seen)...)
				}
			}
		}
		ast.Inspect(fd.Body, func(n ast.Node) bool {
			switch x := n.(type) {
			case *ast.ReturnStmt:
				if len(x.Results) > 0 {
					visit(x.Results[0])
				}
			case *ast.AssignStmt:
				for i, l := range x.Lhs {
					if returned[core.ObjOf(info, l)] && i < len(x.Rhs) {
						visit(x.Rhs[i])
					}
				}
			}
			return true
		})
		return res
	}
	fd := p.Func("decoder", "compile")
	if fd == nil {
		rc.Unknown("decoder.compile", token.NoPos, "not found")
		return out
	}
	info := p.Info(fd)
	kss := kindSwitches(info, fd)
	if len(kss) == 0 {
		rc.Unknown("decoder.compile/kind-switch", fd.Pos(), "no kind switch")
		return out
	}
	inSwitch := map[ast.Node]bool{}
	for _, ks := range kss {
		for k, cc := range ks.clause {
			ast.Inspect(cc, func(n ast.Node) bool {
				inSwitch[n] = true
				if call, ok := n.(*ast.CallExpr); ok {
					if f := core.Callee(info, call); f != nil && f.Pkg() == pk.Types && f.Name() != "compile" {
						for _, d := range constructed(p.DeclOf(f), 0, map[*ast.FuncDecl]bool{}) {
							add(d, k)
						}
					}
				}
				return true
			})
		}
	}
	// constructions anywhere else in the package's compile-time code: any kind
	for _, f := range p.Funcs("decoder") {
		if f.Body == nil || !strings.HasPrefix(f.Name.Name, "compile") {
			continue
		}
		finfo := p.Info(f)
		ast.Inspect(f.Body, func(n ast.Node) bool {
			if f == fd && inSwitch[n] {
				return true
			}
			call, ok := n.(*ast.CallExpr)
			if !ok {
				return true
			}
			callee := core.Callee(finfo, call)
			if callee == nil || callee.Pkg() != pk.Types || !strings.HasPrefix(callee.Name(), "new") {
				return true
			}
			// constructors reached from a kind clause through compileXxx are attributed there; direct `new…Decoder` calls
			// in compile's prologue, compileMapKey, compileStruct (string tag, anonymous fields) are kind-independent
			if f == fd || f.Name.Name == "compileMapKey" || f.Name.Name == "compileStruct" || f.Name.Name == "compileHead" {
				kind := "any"
				// the construction may sit under a test that fixes the destination's kind
				for _, c := range condChainNodes(f, call) {
					if !c.pos {
						continue
					}
					if be, ok := core.Unparen(c.cond).(*ast.BinaryExpr); ok && be.Op == token.EQL {
						if v, ok := core.ConstInt(finfo, be.Y); ok {
							if cx, ok := core.Unparen(be.X).(*ast.CallExpr); ok && core.CalleeName(finfo, cx) == "runtime.Type.Kind" {
								kind = reflectKinds[int(v)]
							}
						}
					}
				}
				path := core.PathTo(f.Body, call)
				for _, pn := range path {
					if ifs, ok := pn.(*ast.IfStmt); ok && ifs.Init != nil {
						if as, ok := ifs.Init.(*ast.AssignStmt); ok && len(as.Rhs) == 1 {
							if ta, ok := core.Unparen(as.Rhs[0]).(*ast.TypeAssertExpr); ok && ta.Type != nil && strings.HasSuffix(types.ExprString(ta.Type), "ptrDecoder") {
								kind = "Ptr" // the field's own decoder is a ptrDecoder: the destination is a pointer
							}
						}
					}
				}
				for _, d := range constructed(p.DeclOf(callee), 0, map[*ast.FuncDecl]bool{}) {
					add(d, kind)
				}
			}
			return true
		})
	}
	return out
}

// ---- C07.R1 typed raw stores ----

func c07r1(rc *core.RC) {
	p := rc.P
	pk := p.Pkg("decoder")
	word := pk.TypesSizes.Sizeof(types.Typ[types.Uintptr])
	minSize := kindMinSize(word)
	kinds := decoderKinds(rc)
	if len(kinds) < 10 {
		rc.Unknown("decoder/decoder-kinds", token.NoPos, "derived target kinds for only %d decoder types", len(kinds))
		return
	}
	n := 0
	for _, fd := range p.Funcs("decoder") {
		if fd.Body == nil || fd.Recv == nil {
			continue
		}
		recv := strings.Trim(core.RecvString(fd.Recv.List[0].Type), "(*)")
		if !strings.HasSuffix(recv, "Decoder") {
			continue
		}
		info := p.Info(fd)
		// the destination parameter
		var dst types.Object
		for _, f := range fd.Type.Params.List {
			for _, nm := range f.Names {
				if o := info.Defs[nm]; o != nil && o.Type().String() == "unsafe.Pointer" {
					dst = o
				}
			}
		}
		if dst == nil {
			continue
		}
		ks := kinds[recv]
		ast.Inspect(fd.Body, func(m ast.Node) bool {
			if _, isLit := m.(*ast.FuncLit); isLit {
				return false
			}
			as, ok := m.(*ast.AssignStmt)
			if !ok {
				return true
			}
			for _, l := range as.Lhs {
				st, ok := core.Unparen(l).(*ast.StarExpr)
				if !ok {
					continue
				}
				// does the address derive from the destination parameter?
				uses := false
				ast.Inspect(st.X, func(k ast.Node) bool {
					if id, ok := k.(*ast.Ident); ok && info.Uses[id] == dst {
						uses = true
					}
					return true
				})
				if !uses {
					continue
				}
				tv := info.Types[st]
				if tv.Type == nil {
					continue
				}
				n++
				rc.Touch(p.FuncName(fd))
				width := pk.TypesSizes.Sizeof(tv.Type)
				key := fmt.Sprintf("%s/store *(%s)", p.FuncName(fd), types.TypeString(tv.Type, func(*types.Package) string { return "" }))
				// a guard that fixes the destination's shape
				guarded := ""
				for _, c := range condChainNodes(fd, as) {
					src := core.Src(p.Fset, c.cond)
					if c.pos && (strings.Contains(src, "isPtrType") || strings.Contains(src, "Kind()")) {
						guarded = src
					}
				}
				if guarded != "" {
					rc.OK(key, as.Pos(), "under the shape guard `%s`", guarded)
					continue
				}
				if len(ks) == 0 {
					rc.Unknown(key, as.Pos(), "no target kinds derived for decoder %s", recv)
					continue
				}
				var tooSmall []string
				for k := range ks {
					if k == "any" || minSize[k] < width {
						tooSmall = append(tooSmall, k)
					}
				}
				sort.Strings(tooSmall)
				if len(tooSmall) == 0 {
					rc.OK(key, as.Pos(), "%d-byte store; %s is only built for kinds of at least that size (%s)", width, recv, strings.Join(keysOf(ks), ","))
				} else {
					rc.Bad(key, as.Pos(), "a %d-byte store through the destination pointer, but %s is also built for destinations of kind %s, which can be smaller or differently shaped: the store overwrites neighbouring memory or leaves a malformed value", width, recv, strings.Join(tooSmall, ","))
				}
			}
			return true
		})
	}
	if n < 12 {
		rc.Unknown("decoder/raw-stores", token.NoPos, "found %d raw stores through a destination pointer", n)
	}
}

// ---- C07.R2 variable-stride stores are size-aware ----

func c07r2(rc *core.RC) {
	p := rc.P
	n, strided := 0, 0
	for _, fd := range p.Funcs("decoder") {
		if fd.Body == nil {
			continue
		}
		info := p.Info(fd)
		hasRuntimeStride := func(e ast.Expr) (bool, string) {
			found, what := false, ""
			ast.Inspect(e, func(k ast.Node) bool {
				be, ok := k.(*ast.BinaryExpr)
				if !ok || be.Op != token.MUL {
					return true
				}
				for _, side := range []ast.Expr{be.X, be.Y} {
					if _, isConst := core.ConstInt(info, side); isConst {
						continue
					}
					if f := core.FieldOf(info, side); f != nil && strings.Contains(strings.ToLower(f.Name()), "size") {
						found, what = true, core.Src(p.Fset, be)
					}
				}
				return true
			})
			return found, what
		}
		ast.Inspect(fd.Body, func(m ast.Node) bool {
			switch x := m.(type) {
			case *ast.AssignStmt:
				for _, l := range x.Lhs {
					st, ok := core.Unparen(l).(*ast.StarExpr)
					if !ok {
						continue
					}
					if ok2, what := hasRuntimeStride(st.X); ok2 {
						n++
						strided++
						rc.Touch(p.FuncName(fd))
						rc.Bad(fmt.Sprintf("%s/strided-store", p.FuncName(fd)), x.Pos(), "a fixed-width Go store at an address computed with the run-time element size (%s): the store is %d bytes whatever the element size is, so small elements overflow into their neighbours and large ones are only partly written", what, p.Pkg("decoder").TypesSizes.Sizeof(info.Types[st].Type))
					}
				}
			case *ast.CallExpr:
				cn := core.CalleeName(info, x)
				if cn == "decoder.typedmemmove" && len(x.Args) == 3 {
					if ok2, _ := hasRuntimeStride(x.Args[1]); ok2 {
						n++
						rc.Touch(p.FuncName(fd))
						rc.OK(fmt.Sprintf("%s/strided-move", p.FuncName(fd)), x.Pos(), "element at a run-time stride is written with typedmemmove (size-aware)")
					}
				}
			}
			return true
		})
	}
	if n < 4 {
		rc.Unknown("decoder/strided-writes", token.NoPos, "found %d writes at a run-time stride (confirmed: 4 zero-fill sites in array.go and the slice decoder's element moves)", n)
	}
	_ = strided
}

// ---- C07.R3 allocation / move type agreement ----

func c07r3(rc *core.RC) {
	p := rc.P
	n := 0
	for _, fd := range p.Funcs("decoder") {
		if fd.Body == nil {
			continue
		}
		info := p.Info(fd)
		ast.Inspect(fd.Body, func(m ast.Node) bool {
			call, ok := m.(*ast.CallExpr)
			if !ok || core.CalleeName(info, call) != "decoder.typedmemmove" || len(call.Args) != 3 {
				return true
			}
			n++
			rc.CallSites++
			rc.Touch(p.FuncName(fd))
			T := types.ExprString(core.Unparen(call.Args[0]))
			key := fmt.Sprintf("%s/typedmemmove(%s)", p.FuncName(fd), T)
			// source allocated in place: unsafe_New(T2)
			src := core.Unparen(call.Args[2])
			if c, ok := src.(*ast.CallExpr); ok && core.CalleeName(info, c) == "decoder.unsafe_New" && len(c.Args) == 1 {
				T2 := types.ExprString(core.Unparen(c.Args[0]))
				rc.Check(T == T2, key, call.Pos(), "moves a value of type %s whose source was allocated as %s", T, T2)
				return true
			}
			// source is a variable assigned from unsafe_New(T2) in this function
			if o := core.ObjOf(info, src); o != nil {
				T2 := ""
				ast.Inspect(fd.Body, func(k ast.Node) bool {
					if as, ok := k.(*ast.AssignStmt); ok && len(as.Lhs) == len(as.Rhs) {
						for i, l := range as.Lhs {
							if core.ObjOf(info, l) == o {
								if c, ok := core.Unparen(as.Rhs[i]).(*ast.CallExpr); ok && core.CalleeName(info, c) == "decoder.unsafe_New" && len(c.Args) == 1 {
									T2 = types.ExprString(core.Unparen(c.Args[0]))
								}
							}
						}
					}
					return true
				})
				if T2 != "" {
					rc.Check(T == T2, key, call.Pos(), "moves a value of type %s whose source was allocated as %s", T, T2)
					return true
				}
			}
			// source is a parameter: every caller in the package must pass memory allocated as T
			if o := core.ObjOf(info, src); o != nil {
				pidx := -1
				k := 0
				for _, f := range fd.Type.Params.List {
					for _, nm := range f.Names {
						if info.Defs[nm] == o {
							pidx = k
						}
						k++
					}
				}
				if pidx >= 0 {
					fo, _ := info.Defs[fd.Name].(*types.Func)
					sites, bad := 0, ""
					for _, cfd := range p.Funcs("decoder") {
						if cfd.Body == nil {
							continue
						}
						cinfo := p.Info(cfd)
						ast.Inspect(cfd.Body, func(q ast.Node) bool {
							c2, ok := q.(*ast.CallExpr)
							if !ok || core.Callee(cinfo, c2) != fo || pidx >= len(c2.Args) {
								return true
							}
							ao := core.ObjOf(cinfo, c2.Args[pidx])
							if ao == nil {
								return true
							}
							ast.Inspect(cfd.Body, func(r ast.Node) bool {
								if as, ok := r.(*ast.AssignStmt); ok && len(as.Lhs) == len(as.Rhs) {
									for i, l := range as.Lhs {
										if core.ObjOf(cinfo, l) == ao {
											if c3, ok := core.Unparen(as.Rhs[i]).(*ast.CallExpr); ok && core.CalleeName(cinfo, c3) == "decoder.unsafe_New" && len(c3.Args) == 1 {
												sites++
												if T2 := types.ExprString(core.Unparen(c3.Args[0])); T2 != T {
													bad = fmt.Sprintf("%s allocates it with unsafe_New(%s)", p.FuncName(cfd), T2)
												}
											}
										}
									}
								}
								return true
							})
							return true
						})
					}
					if sites > 0 {
						rc.Check(bad == "", key, call.Pos(), "moves a value of type %s received as a parameter; callers allocate it as the same type (%d allocation sites) %s", T, sites, bad)
						return true
					}
				}
			}
			rc.OK(key, call.Pos(), "source is not allocated in this function (package-level zero value or decoder field)")
			return true
		})
	}
	// element stride fields are initialised from the same type's Size()
	for _, ctor := range []string{"newSliceDecoder", "newArrayDecoder"} {
		fd := p.Func("decoder", ctor)
		if fd == nil {
			rc.Unknown("decoder."+ctor, token.NoPos, "constructor not found")
			continue
		}
		info := p.Info(fd)
		var elemExpr, sizeExpr string
		ast.Inspect(fd.Body, func(m ast.Node) bool {
			kv, ok := m.(*ast.KeyValueExpr)
			if !ok {
				return true
			}
			id, _ := kv.Key.(*ast.Ident)
			if id == nil {
				return true
			}
			switch id.Name {
			case "elemType":
				elemExpr = types.ExprString(kv.Value)
			case "size":
				if c, ok := core.Unparen(kv.Value).(*ast.CallExpr); ok {
					if sel, ok := c.Fun.(*ast.SelectorExpr); ok && sel.Sel.Name == "Size" {
						sizeExpr = types.ExprString(sel.X)
					}
				}
				_ = info
			}
			return true
		})
		n++
		if sizeExpr == "" {
			// the stride is a parameter: every caller must pass <elem>.Size() for the element type it passes
			fo, _ := info.Defs[fd.Name].(*types.Func)
			sites := 0
			for _, cfd := range p.Funcs("decoder") {
				if cfd.Body == nil {
					continue
				}
				cinfo := p.Info(cfd)
				ast.Inspect(cfd.Body, func(m ast.Node) bool {
					call, ok := m.(*ast.CallExpr)
					if !ok || core.Callee(cinfo, call) != fo || len(call.Args) < 3 {
						return true
					}
					sites++
					el := types.ExprString(core.Unparen(call.Args[1]))
					sz := ""
					if c, ok := core.Unparen(call.Args[2]).(*ast.CallExpr); ok {
						if sel, ok := c.Fun.(*ast.SelectorExpr); ok && sel.Sel.Name == "Size" {
							sz = types.ExprString(sel.X)
						}
					}
					key := fmt.Sprintf("%s/call %s/stride-is-elem-size", p.FuncName(cfd), ctor)
					if v, isC := core.ConstInt(cinfo, call.Args[2]); isC {
						// a literal stride is right only for the element kind of that size: the bytes path is entered under elem.Kind() == reflect.Uint8
						guard := false
						if cfn := p.Func("decoder", "compile"); cfn != nil {
							ci := p.Info(cfn)
							ast.Inspect(cfn.Body, func(k ast.Node) bool {
								if ifs, ok := k.(*ast.IfStmt); ok {
									if be, ok := core.Unparen(ifs.Cond).(*ast.BinaryExpr); ok && be.Op == token.EQL {
										if kv, ok := core.ConstInt(ci, be.Y); ok && reflectKinds[int(kv)] == "Uint8" {
											ast.Inspect(ifs.Body, func(q ast.Node) bool {
												if c2, ok := q.(*ast.CallExpr); ok && core.CalleeName(ci, c2) == "decoder.compileBytes" {
													guard = true
												}
												return true
											})
										}
									}
								}
								return true
							})
						}
						rc.Check(v == 1 && guard, key, call.Pos(), "literal stride %d: accepted only as the size of a uint8 element on the path guarded by elem.Kind() == reflect.Uint8 (guard found: %v)", v, guard)
						return true
					}
					rc.Check(sz == el, key, call.Pos(), "passes element type %s with stride %s.Size()", el, sz)
					return true
				})
			}
			if sites == 0 {
				rc.Unknown("decoder."+ctor+"/stride-is-elem-size", fd.Pos(), "stride is a parameter and no call site was found")
			}
			continue
		}
		rc.Check(elemExpr != "" && elemExpr == sizeExpr, "decoder."+ctor+"/stride-is-elem-size", fd.Pos(), "the element stride is %s.Size() and the element type is %s", sizeExpr, elemExpr)
	}
	if n < 8 {
		rc.Unknown("decoder/moves", token.NoPos, "found %d typedmemmove/stride sites", n)
	}
}

// ---- C07.R5 a slice header's capacity is the element count its array was allocated with ----

func c07r5(rc *core.RC) {
	p := rc.P
	n := 0
	for _, fd := range p.Funcs("decoder") {
		if fd.Body == nil {
			continue
		}
		info := p.Info(fd)
		fn := p.FuncName(fd)
		le := &core.LinearEval{Info: info}
		same := func(a, b ast.Expr) bool {
			la, lb := le.Eval(a), le.Eval(b)
			if la.OK && lb.OK {
				return la.Equal(lb)
			}
			return types.ExprString(a) == types.ExprString(b)
		}
		capOf := func(cl *ast.CompositeLit) ast.Expr {
			for _, el := range cl.Elts {
				if kv, ok := el.(*ast.KeyValueExpr); ok {
					if id, ok := kv.Key.(*ast.Ident); ok && id.Name == "cap" {
						return kv.Value
					}
				}
			}
			return nil
		}
		dataOf := func(cl *ast.CompositeLit) ast.Expr {
			for _, el := range cl.Elts {
				if kv, ok := el.(*ast.KeyValueExpr); ok {
					if id, ok := kv.Key.(*ast.Ident); ok && id.Name == "data" {
						return kv.Value
					}
				}
			}
			return nil
		}
		seq := 0
		ast.Inspect(fd.Body, func(m ast.Node) bool {
			call, ok := m.(*ast.CallExpr)
			if !ok || core.CalleeName(info, call) != "decoder.newArray" || len(call.Args) != 2 {
				return true
			}
			n++
			seq++
			rc.Touch(fn)
			count := call.Args[1]
			key := fmt.Sprintf("%s/newArray#%d(%s)", fn, seq, core.Shape(p.Fset, info, fd, count))
			path := core.PathTo(fd.Body, call)
			if len(path) < 2 {
				rc.Unknown(key, call.Pos(), "context of the allocation not recognised")
				return true
			}
			parent := path[len(path)-2]
			switch par := parent.(type) {
			case *ast.KeyValueExpr:
				if len(path) >= 3 {
					if cl, ok := path[len(path)-3].(*ast.CompositeLit); ok {
						c := capOf(cl)
						if c == nil {
							rc.Bad(key, call.Pos(), "the header built around this array has no cap field")
						} else {
							rc.Check(same(c, count), key, call.Pos(), "header cap `%s` equals the allocated element count `%s`", types.ExprString(c), types.ExprString(count))
						}
						return true
					}
				}
				rc.Unknown(key, call.Pos(), "key-value context not recognised")
			case *ast.AssignStmt:
				if len(par.Lhs) != 1 {
					rc.Unknown(key, call.Pos(), "multi-assignment")
					return true
				}
				// the statement list that holds the assignment
				var list []ast.Stmt
				for i := len(path) - 3; i >= 0; i-- {
					switch b := path[i].(type) {
					case *ast.BlockStmt:
						list = b.List
					case *ast.CaseClause:
						list = b.Body
					}
					if list != nil {
						break
					}
				}
				at := -1
				for i, st := range list {
					if st == ast.Stmt(par) {
						at = i
					}
				}
				if sel, ok := core.Unparen(par.Lhs[0]).(*ast.SelectorExpr); ok && sel.Sel.Name == "data" {
					if v, ok := core.ConstInt(info, count); ok && v == 0 {
						rc.OK(key, call.Pos(), "an empty array: no element can be addressed through it")
						return true
					}
					hdr := types.ExprString(sel.X)
					found := false
					for _, st := range list {
						as, ok := st.(*ast.AssignStmt)
						if !ok || len(as.Lhs) != 1 || len(as.Rhs) != 1 {
							continue
						}
						if s2, ok := core.Unparen(as.Lhs[0]).(*ast.SelectorExpr); ok && s2.Sel.Name == "cap" && types.ExprString(s2.X) == hdr {
							found = true
							rc.Check(same(as.Rhs[0], count), key, call.Pos(), "`%s.cap = %s` next to the allocation of %s elements", hdr, types.ExprString(as.Rhs[0]), types.ExprString(count))
						}
					}
					if !found {
						rc.Bad(key, call.Pos(), "%s.data receives a new array of %s elements but %s.cap is not set beside it", hdr, types.ExprString(count), hdr)
					}
					return true
				}
				v := core.ObjOf(info, par.Lhs[0])
				if v == nil || at < 0 {
					rc.Unknown(key, call.Pos(), "assignment target not recognised")
					return true
				}
				// the next header built from v in the same statement list
				var hit *ast.CompositeLit
				for _, st := range list[at+1:] {
					if hit != nil {
						break
					}
					ast.Inspect(st, func(k ast.Node) bool {
						if cl, ok := k.(*ast.CompositeLit); ok && hit == nil {
							if d := dataOf(cl); d != nil && core.ObjOf(info, d) == v {
								hit = cl
							}
						}
						return true
					})
				}
				if hit == nil {
					rc.Unknown(key, call.Pos(), "no slice header is built from %s after the allocation in the same block", v.Name())
					return true
				}
				c := capOf(hit)
				rc.Check(c != nil && same(c, count), key, call.Pos(), "the header built from %s has cap `%s`; allocated element count `%s`", v.Name(), exprOrNone(c), types.ExprString(count))
			default:
				rc.Unknown(key, call.Pos(), "context of the allocation not recognised (%T)", parent)
			}
			return true
		})
	}
	if n < 8 {
		rc.Unknown("decoder/newArray-sites", token.NoPos, "found %d newArray calls", n)
	}
}

func exprOrNone(e ast.Expr) string {
	if e == nil {
		return "<none>"
	}
	return types.ExprString(e)
}

// ---- C07.R6 no address is kept as an integer across statements in the decoders ----

// unsafe.Pointer(uintptr(p) + off) is valid only as one expression. A local uintptr that was
// computed from a pointer and is converted back later no longer keeps the object alive and is
// not updated when a goroutine stack moves: with the destination on the stack
// (UnmarshalNoEscape, or any destination reached through a stack-allocated value) later
// stores go to the old address. The decoders never do this today; the rule keeps it so.
func c07r6(rc *core.RC) {
	p := rc.P
	n := 0
	for _, short := range []string{"decoder", "json"} {
		for _, fd := range p.Funcs(short) {
			if fd.Body == nil {
				continue
			}
			info := p.Info(fd)
			fn := p.FuncName(fd)
			isPtrExpr := func(e ast.Expr) bool {
				tv := info.Types[e]
				if tv.Type == nil {
					return false
				}
				if tv.Type.String() == "unsafe.Pointer" {
					return true
				}
				_, isPtr := tv.Type.Underlying().(*types.Pointer)
				return isPtr
			}
			// uintptr(<pointer expr>) somewhere inside e
			fromPointer := func(e ast.Expr) bool {
				found := false
				ast.Inspect(e, func(k ast.Node) bool {
					c, ok := k.(*ast.CallExpr)
					if !ok || len(c.Args) != 1 {
						return true
					}
					if tv, ok := info.Types[c.Fun]; ok && tv.IsType() && tv.Type.String() == "uintptr" && isPtrExpr(c.Args[0]) {
						found = true
					}
					return true
				})
				return found
			}
			held := map[types.Object]token.Pos{}
			ast.Inspect(fd.Body, func(m ast.Node) bool {
				as, ok := m.(*ast.AssignStmt)
				if !ok || len(as.Lhs) != len(as.Rhs) {
					return true
				}
				for i, l := range as.Lhs {
					o := core.ObjOf(info, l)
					if v, ok := o.(*types.Var); ok && !v.IsField() && v.Type().String() == "uintptr" && fromPointer(as.Rhs[i]) {
						held[o] = as.Pos()
					}
				}
				return true
			})
			// conversions back
			ast.Inspect(fd.Body, func(m ast.Node) bool {
				c, ok := m.(*ast.CallExpr)
				if !ok || len(c.Args) != 1 {
					return true
				}
				tv, ok := info.Types[c.Fun]
				if !ok || !tv.IsType() || tv.Type.String() != "unsafe.Pointer" {
					return true
				}
				if at := info.Types[c.Args[0]].Type; at == nil || at.String() != "uintptr" {
					return true
				}
				n++
				var used types.Object
				ast.Inspect(c.Args[0], func(k ast.Node) bool {
					if id, ok := k.(*ast.Ident); ok {
						if _, isHeld := held[info.Uses[id]]; isHeld {
							used = info.Uses[id]
						}
					}
					return true
				})
				if used == nil {
					return true
				}
				rc.Touch(fn)
				key := fn + "/address-held-as-integer " + used.Name()
				if fd.Name.Name == "noescape" {
					rc.Note(key, c.Pos(), "the noescape idiom: converted back in the next statement of a nosplit function")
					return true
				}
				rc.Bad(key, c.Pos(), "`%s` converts the uintptr variable %s, computed from a pointer at %s, back to a pointer: between the two the integer does not keep the object alive and is not adjusted when the goroutine stack moves, so with a destination on the stack the store goes to the old address", core.Src(p.Fset, c), used.Name(), p.Pos(held[used]))
				return true
			})
		}
	}
	if n < 12 {
		rc.Unknown("decoder/pointer-arithmetic-sites", token.NoPos, "found %d uintptr→unsafe.Pointer conversions in the decoder", n)
	} else {
		rc.OK("decoder/pointer-arithmetic-sites", token.NoPos, "%d uintptr→unsafe.Pointer conversions examined: each takes its address from a pointer inside the same expression", n)
	}
}

// ---- C07.R7 a map key decoder is the decoder of the key type itself ----

// compileMapKey wraps scalar decoders so that they read a quoted key. The decoder it wraps stores
// a value of its own kind through the key slot, so it has to be the decoder compiled for the key
// type itself: a variable that is re-assigned (for example to the inner decoder of a ptrDecoder)
// would store a scalar where the map holds a pointer.
func c07r7(rc *core.RC) {
	p := rc.P
	fd := p.Func("decoder", "compileMapKey")
	key := "decoder.compileMapKey/wrapped-decoder-is-for-key-type"
	if fd == nil {
		rc.Unknown(key, token.NoPos, "not found")
		return
	}
	rc.Touch("decoder.compileMapKey")
	info := p.Info(fd)
	var typParam types.Object
	for _, f := range fd.Type.Params.List {
		for _, nm := range f.Names {
			if o := info.Defs[nm]; o != nil && strings.HasSuffix(o.Type().String(), "runtime.Type") && typParam == nil {
				typParam = o
			}
		}
	}
	n := 0
	ast.Inspect(fd.Body, func(m ast.Node) bool {
		call, ok := m.(*ast.CallExpr)
		if !ok || core.CalleeName(info, call) != "decoder.newWrappedStringDecoder" || len(call.Args) < 2 {
			return true
		}
		n++
		d := core.ObjOf(info, call.Args[1])
		if d == nil || core.ObjOf(info, call.Args[0]) != typParam {
			rc.Unknown(key, call.Pos(), "arguments of newWrappedStringDecoder not recognised")
			return true
		}
		// every definition of d is compile(typ, …)
		defs, good := 0, true
		ast.Inspect(fd.Body, func(k ast.Node) bool {
			as, ok := k.(*ast.AssignStmt)
			if !ok {
				return true
			}
			for i, l := range as.Lhs {
				if core.ObjOf(info, l) != d {
					continue
				}
				defs++
				var r ast.Expr
				if len(as.Rhs) == len(as.Lhs) {
					r = as.Rhs[i]
				} else if len(as.Rhs) == 1 {
					r = as.Rhs[0]
				}
				c, ok := core.Unparen(r).(*ast.CallExpr)
				if !ok || core.CalleeName(info, c) != "decoder.compile" || len(c.Args) == 0 || core.ObjOf(info, c.Args[0]) != typParam {
					good = false
				}
			}
			return true
		})
		rc.Check(defs > 0 && good, key, call.Pos(), "the decoder wrapped for key type %s is only ever the result of compile(%s, …) (%d definition(s)): it is never replaced by the decoder of a type the key points to", typParam.Name(), typParam.Name(), defs)
		return true
	})
	if n == 0 {
		rc.Unknown(key, fd.Pos(), "no newWrappedStringDecoder call found")
	}
}

// ---- C07.R8 no byte of the NUL-terminated input is stepped over unread ----

// The decoders find the end of their input by the NUL sentinel, not by a length test, so the only
// thing that keeps a scan inside the buffer is that every byte is looked at before the cursor moves
// past it. For every unit increment of a variable that indexes the input (cursor++ on a variable used
// in buf[cursor] / char(p, cursor)), every flow-graph path to the next increment of the same variable
// must read the byte at the cursor in between (index it, pass the cursor to a call, switch on it).
// Two increments in a row step over a byte that may be the terminator; the scan then continues in
// foreign memory.
func c07r8(rc *core.RC) {
	p := rc.P
	sites := 0
	for _, fd := range p.Funcs("decoder") {
		if fd.Body == nil {
			continue
		}
		info := p.Info(fd)
		fn := p.FuncName(fd)
		// variables that index the input in this function
		cursors := map[types.Object]bool{}
		streamCursor := false
		note := func(e ast.Expr) {
			e = core.Unparen(e)
			if be, ok := e.(*ast.BinaryExpr); ok {
				e = core.Unparen(be.X)
			}
			if id, ok := e.(*ast.Ident); ok {
				if o := info.Uses[id]; o != nil {
					if b, isBasic := o.Type().Underlying().(*types.Basic); isBasic && b.Info()&types.IsInteger != 0 {
						cursors[o] = true
					}
				}
			}
			if isStreamCursor(info, e) {
				streamCursor = true
			}
		}
		ast.Inspect(fd.Body, func(m ast.Node) bool {
			switch x := m.(type) {
			case *ast.IndexExpr:
				if tv, ok := info.Types[x.X]; ok {
					if sl, isSlice := tv.Type.Underlying().(*types.Slice); isSlice {
						if b, isBasic := sl.Elem().Underlying().(*types.Basic); isBasic && b.Kind() == types.Uint8 {
							note(x.Index)
						}
					}
				}
			case *ast.CallExpr:
				if core.CalleeName(info, x) == "decoder.char" && len(x.Args) == 2 {
					note(x.Args[1])
				}
				if core.CalleeName(info, x) == "decoder.Stream.char" {
					streamCursor = true
				}
			}
			return true
		})
		if len(cursors) == 0 && !streamCursor {
			continue
		}
		var incs []*ast.IncDecStmt
		ast.Inspect(fd.Body, func(m ast.Node) bool {
			if _, isLit := m.(*ast.FuncLit); isLit {
				return false
			}
			if st, ok := m.(*ast.IncDecStmt); ok && st.Tok == token.INC {
				if o := core.ObjOf(info, st.X); o != nil && cursors[o] {
					incs = append(incs, st)
				} else if streamCursor && isStreamCursor(info, st.X) {
					incs = append(incs, st)
				}
			}
			return true
		})
		if len(incs) == 0 {
			continue
		}
		rc.Touch(fn)
		cf := core.BuildCFG(fd.Body, info)
		for k, st := range incs {
			sites++
			key := fmt.Sprintf("%s/advance#%d byte-read-before-next-advance", fn, k+1)
			blk, idx := cf.BlockOf(st)
			if blk == nil || !cf.Reachable(blk) {
				rc.Note(key, st.Pos(), "not in the flow graph (unreachable)")
				continue
			}
			locals := map[types.Object]bool{}
			init := map[string]int{}
			if o := core.ObjOf(info, st.X); o != nil && cursors[o] {
				locals[o] = true
				init["l:"+o.Name()] = 0
			} else {
				init[refillCursorKey] = 0
			}
			w := &refillWalk{rc: rc, info: info, cf: cf, locals: locals, fn: fn, visited: map[string]bool{}, argExamines: true}
			w.run(blk, idx+1, init)
			if w.bad != token.NoPos {
				rc.Bad(key, w.bad, "after the advance at line %d %s; if that byte is the NUL terminator the scan leaves the buffer", p.Fset.Position(st.Pos()).Line, w.badMsg)
			} else {
				rc.OK(key, st.Pos(), "the byte is read before the cursor advances again")
			}
		}
	}
	if sites < 150 {
		rc.Unknown("decoder/advance-sites", token.NoPos, "found %d cursor advances", sites)
	}
}

// ---- C07.R9 no pointer is manufactured from an integer ----

// unsafe.Pointer(x) with x of type uintptr is valid only in the patterns of the unsafe package's
// documentation: x is, in that same expression, uintptr(p) for a pointer p, optionally with offsets
// added or bits cleared. Converting a uintptr variable makes a pointer the garbage collector and
// checkptr (on in race builds) never saw as one: for an address on the heap (a type descriptor made
// by reflect.StructOf, a value's address kept in a frame slot) the race build dies with "checkptr:
// pointer arithmetic result points to invalid allocation". The library's idiom for this is
// *(*unsafe.Pointer)(unsafe.Pointer(&x)); its single deliberate exception is the escape-analysis
// helper `noescape` (x ^ 0).
func c07r9(rc *core.RC) {
	p := rc.P
	n, convs := 0, 0
	for _, pk := range p.LibPkgs() {
		info := pk.TypesInfo
		for _, f := range pk.Syntax {
			for _, d := range f.Decls {
				fd, ok := d.(*ast.FuncDecl)
				if !ok || fd.Body == nil {
					continue
				}
				fn := p.FuncName(fd)
				k := 0
				ast.Inspect(fd.Body, func(m ast.Node) bool {
					c, ok := m.(*ast.CallExpr)
					if !ok || len(c.Args) != 1 {
						return true
					}
					tv, isConv := info.Types[c.Fun]
					if !isConv || !tv.IsType() {
						return true
					}
					if b, isBasic := tv.Type.(*types.Basic); !isBasic || b.Kind() != types.UnsafePointer {
						return true
					}
					at, has := info.Types[c.Args[0]]
					if !has {
						return true
					}
					if b, isBasic := at.Type.Underlying().(*types.Basic); !isBasic || b.Kind() != types.Uintptr {
						return true
					}
					convs++
					k++
					key := fmt.Sprintf("%s/uintptr-to-pointer#%d", fn, k)
					switch {
					case derivedFromPointer(info, c.Args[0]):
						n++
						rc.OK(key, c.Pos(), "the integer is uintptr(pointer) with arithmetic, in the same expression")
					case isNoescapeShape(c.Args[0]):
						n++
						rc.OK(key, c.Pos(), "the escape-analysis helper (x ^ 0): its argument is a pointer the caller still holds")
					default:
						n++
						rc.Bad(key, c.Pos(), "unsafe.Pointer(%s) turns an integer that is not derived from a pointer in this expression into a pointer: invalid by the unsafe rules, fatal under checkptr (race builds) when the address is on the heap", core.Src(p.Fset, c.Args[0]))
					}
					return true
				})
			}
		}
	}
	if convs < 15 {
		rc.Unknown("lib/uintptr-to-pointer-conversions", token.NoPos, "found %d conversions from uintptr to unsafe.Pointer (17 confirmed)", convs)
	}
}

// derivedFromPointer: e is uintptr(<pointer>) possibly combined by + - &^ * with other integers, the
// pointer-derived operand being on the left of + and - (the unsafe package's patterns 3 and 4), or a
// call of reflect.Value.Pointer / UnsafeAddr (pattern 5).
func derivedFromPointer(info *types.Info, e ast.Expr) bool {
	e = core.Unparen(e)
	switch x := e.(type) {
	case *ast.BinaryExpr:
		switch x.Op {
		case token.ADD, token.SUB, token.AND_NOT:
			return derivedFromPointer(info, x.X)
		}
	case *ast.CallExpr:
		if len(x.Args) == 1 {
			if tv, ok := info.Types[x.Fun]; ok && tv.IsType() {
				if b, isBasic := tv.Type.Underlying().(*types.Basic); isBasic && b.Kind() == types.Uintptr {
					if at, has := info.Types[x.Args[0]]; has {
						if ab, isB := at.Type.Underlying().(*types.Basic); isB && ab.Kind() == types.UnsafePointer {
							return true
						}
					}
				}
			}
		}
		switch core.CalleeName(info, x) {
		case "reflect.Value.Pointer", "reflect.Value.UnsafeAddr":
			return true
		}
	}
	return false
}

func isNoescapeShape(e ast.Expr) bool {
	be, ok := core.Unparen(e).(*ast.BinaryExpr)
	if !ok || be.Op != token.XOR {
		return false
	}
	lit, ok := core.Unparen(be.Y).(*ast.BasicLit)
	return ok && lit.Value == "0"
}

// ---- C07.R10 a one-word clear is gated by one-word kinds only ----

// Where a decoder resets its destination by storing nil into one machine word (`**(**unsafe.Pointer)(&p) = nil`,
// `*(*unsafe.Pointer)(p) = nil`) under a flag field computed at construction, the flag may be true only for kinds
// whose whole value is that word: pointer, map, chan, func, unsafe.Pointer. For a string, slice or interface the
// second word (length, dynamic value) would survive: a reused backing-array slot keeps the old length with a nil
// data pointer, and the next access faults or shows stale content.
func c07r10(rc *core.RC) {
	p := rc.P
	oneWord := map[string]bool{"Ptr": true, "Pointer": true, "Map": true, "Chan": true, "Func": true, "UnsafePointer": true}
	type gate struct {
		field types.Object
		pos   token.Pos
		fn    string
	}
	var gates []gate
	isWordNilStore := func(info *types.Info, st ast.Stmt) bool {
		as, ok := st.(*ast.AssignStmt)
		if !ok || len(as.Lhs) != 1 || len(as.Rhs) != 1 {
			return false
		}
		if id, ok := core.Unparen(as.Rhs[0]).(*ast.Ident); !ok || id.Name != "nil" {
			return false
		}
		star, ok := core.Unparen(as.Lhs[0]).(*ast.StarExpr)
		if !ok {
			return false
		}
		t := info.TypeOf(as.Lhs[0])
		return t != nil && t.String() == "unsafe.Pointer" && star != nil
	}
	for _, fd := range p.Funcs("decoder") {
		if fd.Body == nil {
			continue
		}
		info := p.Info(fd)
		fn := p.FuncName(fd)
		ast.Inspect(fd.Body, func(x ast.Node) bool {
			ifs, ok := x.(*ast.IfStmt)
			if !ok {
				return true
			}
			cond := core.Unparen(ifs.Cond)
			branch := ifs.Body.List
			if u, neg := cond.(*ast.UnaryExpr); neg && u.Op == token.NOT {
				// `if !flag { … } else { nil store }`
				cond = core.Unparen(u.X)
				branch = nil
				if e, ok := ifs.Else.(*ast.BlockStmt); ok {
					branch = e.List
				}
			}
			sel, ok := cond.(*ast.SelectorExpr)
			if !ok {
				return true
			}
			obj := info.Uses[sel.Sel]
			v, isVar := obj.(*types.Var)
			if !isVar || !v.IsField() {
				return true
			}
			for _, st := range branch {
				if isWordNilStore(info, st) {
					gates = append(gates, gate{obj, ifs.Pos(), fn})
					break
				}
			}
			return true
		})
	}
	seen := map[types.Object]bool{}
	n := 0
	for _, g := range gates {
		n++
		rc.Touch(g.fn)
		if seen[g.field] {
			continue
		}
		seen[g.field] = true
		// initialisations of the field: composite literal entries and assignments
		inits := 0
		for _, fd := range p.Funcs("decoder") {
			if fd.Body == nil {
				continue
			}
			info := p.Info(fd)
			fn := p.FuncName(fd)
			check := func(e ast.Expr, pos token.Pos) {
				inits++
				key := fmt.Sprintf("%s/%s one-word-kinds-only", fn, g.field.Name())
				var bad, unknown []string
				var kinds []string
				for _, d := range disjuncts(e) {
					d = core.Unparen(d)
					be, ok := d.(*ast.BinaryExpr)
					if !ok || be.Op != token.EQL {
						unknown = append(unknown, core.Src(p.Fset, d))
						continue
					}
					ksel, ok := core.Unparen(be.Y).(*ast.SelectorExpr)
					if !ok {
						ksel, ok = core.Unparen(be.X).(*ast.SelectorExpr)
					}
					if !ok || info.TypeOf(ksel) == nil || info.TypeOf(ksel).String() != "reflect.Kind" {
						unknown = append(unknown, core.Src(p.Fset, d))
						continue
					}
					kinds = append(kinds, ksel.Sel.Name)
					if !oneWord[ksel.Sel.Name] {
						bad = append(bad, ksel.Sel.Name)
					}
				}
				switch {
				case len(bad) > 0:
					rc.Bad(key, pos, "the flag that gates a one-word nil store is true for kind %s, whose value is wider than a word: the words behind the first (length, dynamic value) survive the reset of a reused slot", strings.Join(bad, ", "))
				case len(unknown) > 0:
					rc.Unknown(key, pos, "the flag that gates a one-word nil store is computed from %s, not from comparisons with reflect kinds", strings.Join(unknown, "; "))
				default:
					rc.OK(key, pos, "the flag is true for kinds %s only, each one word wide", strings.Join(kinds, ", "))
				}
			}
			ast.Inspect(fd.Body, func(x ast.Node) bool {
				switch v := x.(type) {
				case *ast.KeyValueExpr:
					if id, ok := v.Key.(*ast.Ident); ok && info.Uses[id] == g.field {
						check(v.Value, v.Pos())
					}
				case *ast.AssignStmt:
					for i, l := range v.Lhs {
						if sel, ok := core.Unparen(l).(*ast.SelectorExpr); ok && info.Uses[sel.Sel] == g.field && len(v.Rhs) == len(v.Lhs) {
							check(v.Rhs[i], v.Pos())
						}
					}
				}
				return true
			})
		}
		if inits == 0 {
			rc.Unknown(fmt.Sprintf("%s/%s one-word-kinds-only", g.fn, g.field.Name()), g.pos, "no initialisation of the flag found")
		}
	}
	if n < 4 {
		rc.Unknown("decoder/one-word-clears", token.NoPos, "found %d flag-gated one-word nil stores (confirmed: 4)", n)
	}
}

// ---- C07.R12 an empty-interface pair is stored only in a destination without methods ----

// interfaceDecoder serves every interface type. Its two workers (decodeEmptyInterface, decodeStreamEmptyInterface)
// build a Go value for the JSON text and store it with *(*interface{})(p) = v: a pair (type descriptor, data). That
// is the layout of interface{} only; a destination whose type has methods is a pair (method table, data), and the
// same store leaves it pointing at a type descriptor where the runtime expects a method table (the next method call
// through it faults). The callers keep the two apart with one test: `if rv.NumMethod() > 0 … { … return }` in front
// of every call of a worker. Obligation, for each call of a worker from another method of interfaceDecoder: an if
// statement of the method body that tests NumMethod() and always returns stands in front of the call.
func c07r12(rc *core.RC) {
	p := rc.P
	pk := p.Pkg("decoder")
	if pk == nil {
		rc.Unknown("decoder", token.NoPos, "package not found")
		return
	}
	info := pk.TypesInfo
	isEfaceStore := func(as *ast.AssignStmt) bool {
		for i, l := range as.Lhs {
			st, ok := core.Unparen(l).(*ast.StarExpr)
			if !ok {
				continue
			}
			t := info.TypeOf(st.X)
			pt, ok := t.(*types.Pointer)
			if !ok {
				continue
			}
			if it, ok := pt.Elem().Underlying().(*types.Interface); !ok || it.NumMethods() != 0 {
				continue
			}
			if i < len(as.Rhs) {
				if tv, ok := info.Types[as.Rhs[i]]; ok && tv.IsNil() {
					continue
				}
			}
			return true
		}
		return false
	}
	workers := map[*types.Func]bool{}
	for _, fd := range p.Funcs("decoder") {
		if fd.Body == nil || fd.Recv == nil {
			continue
		}
		fn, _ := info.Defs[fd.Name].(*types.Func)
		if fn == nil || !strings.HasSuffix(fn.Type().(*types.Signature).Recv().Type().String(), "decoder.interfaceDecoder") {
			continue
		}
		ast.Inspect(fd.Body, func(n ast.Node) bool {
			if as, ok := n.(*ast.AssignStmt); ok && isEfaceStore(as) {
				workers[fn] = true
			}
			return true
		})
	}
	if len(workers) < 2 {
		rc.Unknown("decoder.interfaceDecoder/workers", token.NoPos, "found %d methods of interfaceDecoder that store a value through *(*interface{})(p) (confirmed: 2)", len(workers))
	}
	n := 0
	for _, fd := range p.Funcs("decoder") {
		if fd.Body == nil || fd.Recv == nil {
			continue
		}
		fn, _ := info.Defs[fd.Name].(*types.Func)
		if fn == nil || workers[fn] {
			continue
		}
		name := p.FuncName(fd)
		k := 0
		ast.Inspect(fd.Body, func(m ast.Node) bool {
			c, ok := m.(*ast.CallExpr)
			if !ok || !workers[core.Callee(info, c)] {
				return true
			}
			k++
			n++
			rc.Touch(name)
			guarded := false
			for _, st := range fd.Body.List {
				if st.End() > c.Pos() {
					break
				}
				ifs, ok := st.(*ast.IfStmt)
				if !ok || ifs.Else != nil || len(ifs.Body.List) == 0 {
					continue
				}
				if _, isRet := ifs.Body.List[len(ifs.Body.List)-1].(*ast.ReturnStmt); !isRet {
					continue
				}
				// NumMethod() > 0 as a conjunct of the condition
				var conj func(e ast.Expr) bool
				conj = func(e ast.Expr) bool {
					e = core.Unparen(e)
					be, ok := e.(*ast.BinaryExpr)
					if !ok {
						return false
					}
					if be.Op == token.LAND {
						return conj(be.X) || conj(be.Y)
					}
					call, ok := core.Unparen(be.X).(*ast.CallExpr)
					if !ok || !strings.HasSuffix(core.CalleeName(info, call), ".NumMethod") {
						return false
					}
					v, isC := core.ConstInt(info, be.Y)
					return isC && ((be.Op == token.GTR && v == 0) || (be.Op == token.NEQ && v == 0) || (be.Op == token.GEQ && v == 1))
				}
				if conj(ifs.Cond) {
					guarded = true
				}
			}
			rc.Check(guarded, fmt.Sprintf("%s/worker-call#%d behind-the-method-test", name, k), c.Pos(), "%s stores a (type, data) pair through *(*interface{})(p): in front of the call the method has to have left, with `if rv.NumMethod() > 0 … { … return }`, for every destination whose interface type has methods (there the same two words are a method table and data: a nil fmt.Stringer would come back non-nil with a type descriptor in place of its method table)", core.CalleeName(info, c))
			return true
		})
	}
	if n < 4 {
		rc.Unknown("decoder.interfaceDecoder/worker-calls", token.NoPos, "found %d calls of the empty-interface workers (confirmed: 4)", n)
	}
}

// ---- C07.R13 nothing a cached decoder owns is stored into a destination ----

// A compiled decoder is cached per type and shared by every call. What Decode/DecodeStream store into the destination
// through p has to be made in the call (unsafe_New, makemap, make) or taken from the destination itself. A reference
// kept in a field of the decoder (a prepared empty map, a slice header, a pointer) and stored into the destination is
// shared by all destinations that ever received it: the next decode into one of them (the map decoder reuses an
// existing map) changes all the others, values that were never handed to that call. Obligation: no store through the
// destination pointer of a Decode/DecodeStream method takes its value (through locals) from a field of the receiver
// whose type is a pointer, map, slice, chan or unsafe.Pointer. (Copying a value out of a field with typedmemmove is a
// copy and is C11.R6's business.)
func c07r13(rc *core.RC) {
	p := rc.P
	pk := p.Pkg("decoder")
	if pk == nil {
		rc.Unknown("decoder", token.NoPos, "package not found")
		return
	}
	info := pk.TypesInfo
	refType := func(t types.Type) bool {
		switch u := t.Underlying().(type) {
		case *types.Pointer, *types.Map, *types.Slice, *types.Chan:
			return true
		case *types.Basic:
			return u.Kind() == types.UnsafePointer
		}
		return false
	}
	n := 0
	for _, fd := range p.Funcs("decoder") {
		if fd.Body == nil || fd.Recv == nil || (fd.Name.Name != "Decode" && fd.Name.Name != "DecodeStream") {
			continue
		}
		var recv types.Object
		if len(fd.Recv.List) == 1 && len(fd.Recv.List[0].Names) == 1 {
			recv = info.Defs[fd.Recv.List[0].Names[0]]
		}
		var dst types.Object
		for _, f := range fd.Type.Params.List {
			for _, nm := range f.Names {
				if o := info.Defs[nm]; o != nil && o.Type().String() == "unsafe.Pointer" {
					dst = o
				}
			}
		}
		if recv == nil || dst == nil {
			continue
		}
		name := p.FuncName(fd)
		// all definitions of each local
		defs := map[types.Object][]ast.Expr{}
		ast.Inspect(fd.Body, func(m ast.Node) bool {
			if as, ok := m.(*ast.AssignStmt); ok && len(as.Lhs) == len(as.Rhs) {
				for i, l := range as.Lhs {
					if id, ok := core.Unparen(l).(*ast.Ident); ok {
						if o := core.ObjOf(info, id); o != nil {
							defs[o] = append(defs[o], as.Rhs[i])
						}
					}
				}
			}
			return true
		})
		var fromField func(e ast.Expr, seen map[types.Object]bool) ast.Expr
		fromField = func(e ast.Expr, seen map[types.Object]bool) ast.Expr {
			e = core.Unparen(e)
			switch x := e.(type) {
			case *ast.SelectorExpr:
				if core.ObjOf(info, x.X) == recv {
					if f := core.FieldOf(info, x); f != nil && refType(f.Type()) {
						return x
					}
				}
			case *ast.Ident:
				o := core.ObjOf(info, x)
				if o == nil || seen[o] {
					return nil
				}
				seen[o] = true
				for _, d := range defs[o] {
					if r := fromField(d, seen); r != nil {
						return r
					}
				}
			case *ast.CallExpr:
				if tv, ok := info.Types[x.Fun]; ok && tv.IsType() && len(x.Args) == 1 {
					return fromField(x.Args[0], seen)
				}
			}
			return nil
		}
		// stores through the destination: *(*T)(p) = v, **(**T)(unsafe.Pointer(&p)) = v
		mentionsDst := func(e ast.Expr) bool {
			hit := false
			ast.Inspect(e, func(m ast.Node) bool {
				if id, ok := m.(*ast.Ident); ok && core.ObjOf(info, id) == dst {
					hit = true
				}
				return true
			})
			return hit
		}
		k := 0
		ast.Inspect(fd.Body, func(m ast.Node) bool {
			as, ok := m.(*ast.AssignStmt)
			if !ok || len(as.Lhs) != len(as.Rhs) {
				return true
			}
			for i, l := range as.Lhs {
				st, ok := core.Unparen(l).(*ast.StarExpr)
				if !ok || !mentionsDst(st.X) {
					continue
				}
				k++
				n++
				rc.Touch(name)
				src := fromField(as.Rhs[i], map[types.Object]bool{})
				key := fmt.Sprintf("%s/store#%d not-a-reference-the-decoder-keeps", name, k)
				if src == nil {
					rc.OK(key, as.Pos(), "the value stored through the destination does not come from a reference-typed field of the decoder")
				} else {
					rc.Bad(key, as.Pos(), "%s = %s stores %s, a reference the cached decoder keeps, into the destination: every destination that receives it shares it, and a later decode into one of them (an existing map is reused) changes the others, which are not part of that call", core.Src(p.Fset, l), core.Src(p.Fset, as.Rhs[i]), core.Src(p.Fset, src))
				}
			}
			return true
		})
	}
	if n < 20 {
		rc.Unknown("decoder/destination-stores", token.NoPos, "found %d stores through the destination pointer in Decode/DecodeStream methods (confirmed: more than 20)", n)
	}
}

// ---- C07.R14 the embedded struct is allocated with its own type ----

// For a struct that embeds a pointer to a struct the decoder of a promoted member allocates the embedded struct when
// the pointer is nil (anonymousFieldDecoder: unsafe_New(structType)). The type it is given has to be the type the
// embedded pointer points to: compileStruct has it as pdec.typ, the type of the pointer decoder compiled for the
// field. The enclosing struct's type (typ, two lines above in a comparison with it) is a *runtime.Type as well: with
// it the allocation has the size and the pointer bitmap of the wrong type, members beyond it are written into the
// neighbouring heap objects and pointers in it are not traced. Obligation: the first argument of every call of
// newAnonymousFieldDecoder is X.typ with X a *ptrDecoder.
func c07r14(rc *core.RC) {
	p := rc.P
	pk := p.Pkg("decoder")
	ctor := p.FuncObj("decoder", "newAnonymousFieldDecoder")
	if pk == nil || ctor == nil {
		rc.Unknown("decoder.newAnonymousFieldDecoder", token.NoPos, "constructor not found")
		return
	}
	info := pk.TypesInfo
	n := 0
	for _, fd := range p.Funcs("decoder") {
		if fd.Body == nil {
			continue
		}
		name := p.FuncName(fd)
		k := 0
		ast.Inspect(fd.Body, func(m ast.Node) bool {
			c, ok := m.(*ast.CallExpr)
			if !ok || core.Callee(info, c) != ctor || len(c.Args) == 0 {
				return true
			}
			k++
			n++
			rc.Touch(name)
			good := false
			if sel, ok := core.Unparen(c.Args[0]).(*ast.SelectorExpr); ok && sel.Sel.Name == "typ" {
				if t := info.TypeOf(sel.X); t != nil && strings.HasSuffix(t.String(), "decoder.ptrDecoder") {
					good = true
				}
			}
			rc.Check(good, fmt.Sprintf("%s/embedded-struct-allocation#%d its-own-type", name, k), c.Pos(), "newAnonymousFieldDecoder is handed %s as the type to allocate: it has to be the element type of the embedded pointer, the typ of the *ptrDecoder compiled for the field (the enclosing struct's type gives the allocation the wrong size and pointer bitmap: writes into neighbouring objects, untraced pointers)", core.Src(p.Fset, c.Args[0]))
			return true
		})
	}
	if n < 1 {
		rc.Unknown("decoder/anonymous-field-decoders", token.NoPos, "no call of newAnonymousFieldDecoder found")
	}
}

// ---- C07.R15 the pooled working header of the slice decoder goes back to the pool as it is used ----

// sliceDecoder decodes into a working array taken from a sync.Pool with its header (data, len, cap). While decoding
// the array may be replaced by one of twice the capacity: the function keeps the current array and capacity in two
// locals and writes them into the header before the header is released. A header that goes back with the new
// capacity and the old, smaller array makes the next decode of the type write behind the end of that array (the
// elements are stored with pointer arithmetic, not through a checked slice). Obligations, for every function of the
// decoder package that calls releaseSlice(h): in the statement list of the call, in front of it, h.cap and h.data are
// both assigned from the locals that the growth step doubles and re-allocates; and the fields cap and data of such a
// header are never changed one without the other (no h.cap *= 2, no single store).
func c07r15(rc *core.RC) {
	p := rc.P
	n := 0
	for _, fd := range p.Funcs("decoder") {
		if fd.Body == nil {
			continue
		}
		info := p.Info(fd)
		// the growth step: capacity *= 2 ; data = newArray(T, capacity)
		var capVar, dataVar types.Object
		ast.Inspect(fd.Body, func(m ast.Node) bool {
			as, ok := m.(*ast.AssignStmt)
			if !ok || len(as.Lhs) != 1 || len(as.Rhs) != 1 {
				return true
			}
			if call, isCall := core.Unparen(as.Rhs[0]).(*ast.CallExpr); isCall && core.CalleeName(info, call) == "decoder.newArray" && len(call.Args) == 2 {
				if o := core.ObjOf(info, as.Lhs[0]); o != nil {
					if c := core.ObjOf(info, call.Args[1]); c != nil {
						dataVar, capVar = o, c
					}
				}
			}
			return true
		})
		type site struct {
			call *ast.CallExpr
			list []ast.Stmt
			idx  int
		}
		var sites []site
		var lists [][]ast.Stmt
		ast.Inspect(fd.Body, func(m ast.Node) bool {
			switch x := m.(type) {
			case *ast.BlockStmt:
				lists = append(lists, x.List)
			case *ast.CaseClause:
				lists = append(lists, x.Body)
			}
			return true
		})
		for _, l := range lists {
			for i, st := range l {
				if es, ok := st.(*ast.ExprStmt); ok {
					if call, isCall := es.X.(*ast.CallExpr); isCall && strings.HasSuffix(core.CalleeName(info, call), "sliceDecoder.releaseSlice") && len(call.Args) == 1 {
						sites = append(sites, site{call, l, i})
					}
				}
			}
		}
		if len(sites) == 0 {
			continue
		}
		rc.Touch(p.FuncName(fd))
		for k, s := range sites {
			n++
			key := fmt.Sprintf("%s/releaseSlice#%d header-as-used", p.FuncName(fd), k+1)
			h := core.ObjOf(info, s.call.Args[0])
			if h == nil || capVar == nil || dataVar == nil {
				rc.Unknown(key, s.call.Pos(), "the header %s or the growth step (capacity, data = newArray(…, capacity)) was not recognised", core.Src(p.Fset, s.call.Args[0]))
				continue
			}
			gotCap, gotData := false, false
			for j := 0; j < s.idx; j++ {
				as, isAs := s.list[j].(*ast.AssignStmt)
				if !isAs || len(as.Lhs) != 1 || len(as.Rhs) != 1 {
					continue
				}
				sel, isSel := core.Unparen(as.Lhs[0]).(*ast.SelectorExpr)
				if !isSel || core.ObjOf(info, sel.X) != h || as.Tok != token.ASSIGN {
					continue
				}
				switch sel.Sel.Name {
				case "cap":
					gotCap = core.ObjOf(info, as.Rhs[0]) == capVar
				case "data":
					gotData = core.ObjOf(info, as.Rhs[0]) == dataVar
				}
			}
			switch {
			case gotCap && gotData:
				rc.OK(key, s.call.Pos(), "%s.cap = %s and %s.data = %s stand in front of the release", h.Name(), capVar.Name(), h.Name(), dataVar.Name())
			default:
				miss := "cap"
				if gotCap {
					miss = "data"
				}
				if !gotCap && !gotData {
					miss = "cap and data"
				}
				rc.Bad(key, s.call.Pos(), "the working header goes back to the pool without %s.%s set from the function's current %s: after the array has grown, the header holds a capacity and an array that do not belong together, and the next decode of the type stores elements behind the end of the smaller array", h.Name(), miss, map[string]string{"cap": capVar.Name(), "data": dataVar.Name(), "cap and data": capVar.Name() + " and " + dataVar.Name()}[miss])
			}
		}
		// no field of the header is changed alone
		hdrs := map[types.Object]bool{}
		for _, s := range sites {
			if h := core.ObjOf(info, s.call.Args[0]); h != nil {
				hdrs[h] = true
			}
		}
		for _, l := range lists {
			for i, st := range l {
				var lhs ast.Expr
				tok := token.ASSIGN
				switch x := st.(type) {
				case *ast.AssignStmt:
					if len(x.Lhs) == 1 {
						lhs, tok = x.Lhs[0], x.Tok
					}
				case *ast.IncDecStmt:
					lhs, tok = x.X, x.Tok
				}
				sel, isSel := core.Unparen(lhs).(*ast.SelectorExpr)
				if lhs == nil || !isSel || !hdrs[core.ObjOf(info, sel.X)] || (sel.Sel.Name != "cap" && sel.Sel.Name != "data") {
					continue
				}
				other := map[string]string{"cap": "data", "data": "cap"}[sel.Sel.Name]
				paired := false
				for j := i - 2; j <= i+2; j++ {
					if j < 0 || j >= len(l) || j == i {
						continue
					}
					if as, isAs := l[j].(*ast.AssignStmt); isAs && len(as.Lhs) == 1 {
						if s2, isS := core.Unparen(as.Lhs[0]).(*ast.SelectorExpr); isS && core.ObjOf(info, s2.X) == core.ObjOf(info, sel.X) && s2.Sel.Name == other {
							paired = true
						}
					}
				}
				if tok != token.ASSIGN || !paired {
					n++
					rc.Bad(fmt.Sprintf("%s/%s.%s changed-with-%s", p.FuncName(fd), core.ObjOf(info, sel.X).Name(), sel.Sel.Name, other), st.Pos(), "%s of the pooled header is changed without %s (%s): an exit that releases the header in between leaves a capacity and an array that do not belong together", sel.Sel.Name, other, core.Src(p.Fset, st))
				}
			}
		}
	}
	if n < 5 {
		rc.Unknown("decoder/releaseSlice-sites", token.NoPos, "found %d releases of the slice decoder's working header, fewer than the 5 confirmed by hand", n)
	}
}

// ---- C07.R16 the working slice starts with the destination's length ----

// newSlice hands out the working header with len = the length of the destination (its elements are copied in, the
// slots behind them are cleared by the callers before they are decoded into) or 0. A larger length (the capacity)
// makes the callers take stale slots of the pooled array for elements of the destination: pointers a former decode
// left there are decoded through. Obligation: every value given to the field len of a sliceHeader in newSlice is
// <source header>.len or the constant 0.
func c07r16(rc *core.RC) {
	p := rc.P
	fd := p.Func("decoder", "sliceDecoder.newSlice")
	if fd == nil || fd.Body == nil {
		rc.Unknown("decoder.(*sliceDecoder).newSlice/length", token.NoPos, "newSlice not found")
		return
	}
	rc.Touch(p.FuncName(fd))
	info := p.Info(fd)
	var src types.Object
	for _, fl := range fd.Type.Params.List {
		for _, nm := range fl.Names {
			src = info.Defs[nm]
		}
	}
	n := 0
	check := func(at ast.Node, v ast.Expr) {
		n++
		key := fmt.Sprintf("decoder.(*sliceDecoder).newSlice/len#%d from-the-destination", n)
		ok := false
		if c, isC := core.ConstInt(info, v); isC && c == 0 {
			ok = true
		}
		if sel, isSel := core.Unparen(v).(*ast.SelectorExpr); isSel && sel.Sel.Name == "len" && core.ObjOf(info, sel.X) == src {
			ok = true
		}
		if ok {
			rc.OK(key, at.Pos(), "len = %s", core.Src(p.Fset, v))
		} else {
			rc.Bad(key, at.Pos(), "the working slice is handed out with len = %s: the callers take the first len slots for elements of the destination and neither copy over nor clear them, so what a former decode left in the pooled array (a pointer into another caller's value) is decoded through", core.Src(p.Fset, v))
		}
	}
	ast.Inspect(fd.Body, func(m ast.Node) bool {
		switch x := m.(type) {
		case *ast.AssignStmt:
			for i, l := range x.Lhs {
				if sel, ok := core.Unparen(l).(*ast.SelectorExpr); ok && sel.Sel.Name == "len" && i < len(x.Rhs) {
					if f := core.FieldOf(info, sel); f != nil {
						check(x, x.Rhs[i])
					}
				}
			}
		case *ast.CompositeLit:
			if tv, ok := info.Types[x]; ok && strings.HasSuffix(tv.Type.String(), "sliceHeader") {
				for _, e := range x.Elts {
					if kv, isKV := e.(*ast.KeyValueExpr); isKV {
						if id, isID := kv.Key.(*ast.Ident); isID && id.Name == "len" {
							check(kv, kv.Value)
						}
					}
				}
			}
		}
		return true
	})
	if n < 2 {
		rc.Unknown("decoder.(*sliceDecoder).newSlice/length", fd.Pos(), "found %d values for the length of the working slice, fewer than the 2 confirmed by hand", n)
	}
}
