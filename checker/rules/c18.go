package rules

import (
	"fmt"
	"go/ast"
	"go/constant"
	"go/token"
	"go/types"
	"sort"
	"strings"

	"golang.org/x/tools/go/ssa"

	"verif/checker/core"
)

// emptySeed classifies an expression used as the output seed of a transformer.
// ok: provably length 0 and not overlapping live content of the destination buffer.
func emptySeed(rc *core.RC, fd *ast.FuncDecl, e ast.Expr, depth int) (ok bool, why string) {
	p := rc.P
	info := p.Info(fd)
	e = core.Unparen(e)
	isBufBytes := func(x ast.Expr) bool {
		c, isCall := core.Unparen(x).(*ast.CallExpr)
		return isCall && core.CalleeName(info, c) == "bytes.Buffer.Bytes"
	}
	switch x := e.(type) {
	case *ast.SliceExpr:
		// X[:0]
		if x.Low == nil && x.High != nil {
			if v, isC := core.ConstInt(info, x.High); isC && v == 0 {
				if isBufBytes(x.X) {
					return false, "buf.Bytes()[:0] overlaps the live content of the destination buffer"
				}
				return true, "re-sliced to length 0"
			}
		}
		// X[len(X):] or buf.Bytes()[buf.Len():]
		if x.High == nil && x.Low != nil {
			if c, isCall := core.Unparen(x.Low).(*ast.CallExpr); isCall {
				if core.IsBuiltin(info, c, "len") && len(c.Args) == 1 && types.ExprString(c.Args[0]) == types.ExprString(x.X) {
					return true, "empty tail x[len(x):]"
				}
				if core.CalleeName(info, c) == "bytes.Buffer.Len" && isBufBytes(x.X) {
					return true, "empty tail of the buffer's capacity"
				}
			}
		}
		return false, "slice expression " + core.Src(p.Fset, e) + " is not provably empty"
	case *ast.CallExpr:
		switch {
		case core.IsBuiltin(info, x, "make") && len(x.Args) >= 2:
			if v, isC := core.ConstInt(info, x.Args[1]); isC && v == 0 {
				return true, "make(_, 0, …)"
			}
		case core.CalleeName(info, x) == "bytes.Buffer.AvailableBuffer":
			return true, "AvailableBuffer()"
		case core.CalleeName(info, x) == "bytes.Buffer.Bytes":
			return false, "buf.Bytes() carries the buffer's existing content"
		}
		return false, "call " + core.Src(p.Fset, e) + " is not provably empty"
	case *ast.Ident:
		if core.IsNilIdent(info, x) {
			return true, "nil"
		}
		obj := core.ObjOf(info, x)
		// parameter: all same-package callers
		for _, f := range fd.Type.Params.List {
			for i, nm := range f.Names {
				_ = i
				if info.Defs[nm] == obj {
					if depth > 3 {
						return false, "call chain too deep"
					}
					idx := paramIndex(fd, nm)
					fo, _ := info.Defs[fd.Name].(*types.Func)
					n := 0
					for _, cfd := range p.Funcs(pkgShort(p, fd)) {
						if cfd.Body == nil {
							continue
						}
						cinfo := p.Info(cfd)
						var res *struct {
							ok  bool
							why string
						}
						ast.Inspect(cfd.Body, func(m ast.Node) bool {
							c, isCall := m.(*ast.CallExpr)
							if !isCall || core.Callee(cinfo, c) != fo || idx >= len(c.Args) {
								return true
							}
							n++
							o, w := emptySeed(rc, cfd, c.Args[idx], depth+1)
							if res == nil || !o {
								res = &struct {
									ok  bool
									why string
								}{o, p.FuncName(cfd) + ": " + w}
							}
							return true
						})
						if res != nil && !res.ok {
							return false, res.why
						}
					}
					if n == 0 {
						return false, "parameter with no caller in the package"
					}
					return true, "every caller passes an empty seed"
				}
			}
		}
		// local: single assignment
		var def ast.Expr
		cnt := 0
		ast.Inspect(fd.Body, func(m ast.Node) bool {
			if as, isAs := m.(*ast.AssignStmt); isAs && len(as.Lhs) == len(as.Rhs) {
				for i, l := range as.Lhs {
					if core.ObjOf(info, l) == obj && as.Pos() < e.Pos() {
						cnt++
						def = as.Rhs[i]
					}
				}
			}
			return true
		})
		if cnt == 1 {
			return emptySeed(rc, fd, def, depth+1)
		}
		return false, fmt.Sprintf("%s is assigned %d times before use", x.Name, cnt)
	}
	return false, "unrecognised seed " + core.Src(p.Fset, e)
}

func paramIndex(fd *ast.FuncDecl, name *ast.Ident) int {
	i := 0
	for _, f := range fd.Type.Params.List {
		for _, nm := range f.Names {
			if nm == name {
				return i
			}
			i++
		}
	}
	return -1
}

func pkgShort(p *core.Program, fd *ast.FuncDecl) string {
	pk := p.PkgOfDecl(fd)
	for s, path := range core.PkgPaths {
		if pk != nil && path == pk.PkgPath {
			return s
		}
	}
	return ""
}

// ---- C18.R1 output seed is empty ----

func c18r1(rc *core.RC) {
	p := rc.P
	trans := transformerFuncs(p)
	// every call of compact / doIndent whose result is written to a caller-supplied *bytes.Buffer
	for _, fd := range p.Funcs("encoder") {
		if fd.Body == nil {
			continue
		}
		info := p.Info(fd)
		writesBuf := false
		ast.Inspect(fd.Body, func(n ast.Node) bool {
			if c, ok := n.(*ast.CallExpr); ok && core.CalleeName(info, c) == "bytes.Buffer.Write" {
				writesBuf = true
			}
			return true
		})
		if !writesBuf {
			continue
		}
		ast.Inspect(fd.Body, func(n ast.Node) bool {
			c, ok := n.(*ast.CallExpr)
			if !ok {
				return true
			}
			cn := core.CalleeName(info, c)
			if !trans[cn] {
				return true
			}
			rc.CallSites++
			rc.Touch(p.FuncName(fd))
			key := fmt.Sprintf("%s/call %s/seed", p.FuncName(fd), cn)
			ok2, why := emptySeed(rc, fd, c.Args[0], 0)
			if ok2 {
				rc.OK(key, c.Pos(), "output seed is empty: %s", why)
			} else {
				rc.Bad(key, c.Pos(), "the slice the transformer appends to is later written to the caller's buffer in full, so it must start empty: %s", why)
			}
			return true
		})
	}
}

// transformerFuncs: compact and doIndent, and every encoder function with an error result that calls one of them (a
// wrapper that adds something to the transformer's output and hands its error on).
func transformerFuncs(p *core.Program) map[string]bool {
	set := map[string]bool{"encoder.compact": true, "encoder.doIndent": true}
	for changed := true; changed; {
		changed = false
		for _, fd := range p.Funcs("encoder") {
			if fd.Body == nil || fd.Recv != nil || fd.Type.Results == nil {
				continue
			}
			name := "encoder." + fd.Name.Name
			if set[name] {
				continue
			}
			info := p.Info(fd)
			res := fd.Type.Results.List
			if len(res) < 2 {
				continue
			}
			if t := info.TypeOf(res[len(res)-1].Type); t == nil || t.String() != "error" {
				continue
			}
			if t := info.TypeOf(res[0].Type); t == nil || t.String() != "[]byte" {
				continue
			}
			calls := false
			ast.Inspect(fd.Body, func(n ast.Node) bool {
				if c, ok := n.(*ast.CallExpr); ok && set[core.CalleeName(info, c)] {
					calls = true
				}
				return true
			})
			if calls {
				set[name] = true
				changed = true
			}
		}
	}
	return set
}

// ---- C18.R2 write only after success ----

func c18r2(rc *core.RC) {
	p := rc.P
	trans := transformerFuncs(p)
	n := 0
	for _, fd := range p.Funcs("encoder") {
		if fd.Body == nil || !scannerFiles[p.FileBase(fd.Pos())] {
			continue
		}
		info := p.Info(fd)
		var cf *core.FuncCFG
		ast.Inspect(fd.Body, func(x ast.Node) bool {
			w, ok := x.(*ast.CallExpr)
			if !ok {
				return true
			}
			cn := core.CalleeName(info, w)
			if !strings.HasPrefix(cn, "bytes.Buffer.Write") {
				return true
			}
			n++
			rc.CallSites++
			rc.Touch(p.FuncName(fd))
			key := fmt.Sprintf("%s/%s-after-success", p.FuncName(fd), strings.TrimPrefix(cn, "bytes.Buffer."))
			if cf == nil {
				cf = core.BuildCFG(fd.Body, info)
			}
			wb, _ := cf.BlockOf(w)
			// a transformer call whose error variable is tested with a returning branch that dominates the write
			good := false
			ast.Inspect(fd.Body, func(m ast.Node) bool {
				as, ok := m.(*ast.AssignStmt)
				if !ok || len(as.Rhs) != 1 {
					return true
				}
				tc, ok := core.Unparen(as.Rhs[0]).(*ast.CallExpr)
				if !ok {
					return true
				}
				tn := core.CalleeName(info, tc)
				if !trans[tn] {
					return true
				}
				errObj := core.ObjOf(info, as.Lhs[len(as.Lhs)-1])
				ast.Inspect(fd.Body, func(k ast.Node) bool {
					ifs, ok := k.(*ast.IfStmt)
					if !ok || ifs.Pos() < as.End() {
						return true
					}
					be, ok := core.Unparen(ifs.Cond).(*ast.BinaryExpr)
					if !ok || (be.Op != token.NEQ && be.Op != token.EQL) || core.ObjOf(info, be.X) != errObj || !core.IsNilIdent(info, be.Y) {
						return true
					}
					gb, _ := cf.BlockOf(ifs.Cond)
					tb, _ := core.IfEdges(gb)
					inBody := ifs.Body.Pos() <= w.Pos() && w.End() <= ifs.Body.End()
					if be.Op == token.NEQ {
						// `if err != nil { return err }` in front of the write
						if gb != nil && wb != nil && cf.Dominates(gb, wb) && tb != nil && cf.AllPathsReturnError(tb, nil) && !inBody {
							good = true
						}
					} else if inBody {
						// `if err == nil { …Write… }`, with no assignment to err between the transformer and the test
						reassigned := false
						ast.Inspect(fd.Body, func(q ast.Node) bool {
							if a2, isAs := q.(*ast.AssignStmt); isAs && a2 != as && a2.Pos() > as.End() && a2.End() < ifs.Pos() {
								for _, l := range a2.Lhs {
									if core.ObjOf(info, l) == errObj {
										reassigned = true
									}
								}
							}
							return true
						})
						if !reassigned {
							good = true
						}
					}
					return true
				})
				return true
			})
			rc.Check(good, key, w.Pos(), "the write to the caller's buffer is dominated by the nil-error test of compact/doIndent (on error the buffer is left as it was)")
			return true
		})
	}
	if n < 2 {
		rc.Unknown("encoder/buffer-writes", token.NoPos, "expected the two buffer writes of compactAndWrite/indentAndWrite, found %d", n)
	}
}

// ---- C18.R5 Compact and Indent scanners agree ----

func c18r5(rc *core.RC) {
	p := rc.P
	canon := func(name string) string {
		name = strings.TrimPrefix(name, "encoder.")
		name = strings.Replace(name, "indent", "compact", 1)
		return name
	}
	for _, pair := range [][2]string{{"compactValue", "indentValue"}, {"compactObject", "indentObject"}, {"compactArray", "indentArray"}} {
		a, b := p.Func("encoder", pair[0]), p.Func("encoder", pair[1])
		if a == nil || b == nil {
			rc.Unknown("encoder."+pair[1]+"/sibling", token.NoPos, "scanner sibling not found")
			continue
		}
		rc.Touch("encoder." + pair[0])
		rc.Touch("encoder." + pair[1])
		info := p.Info(a)
		sig := func(fd *ast.FuncDecl) (map[int]string, bool) {
			var bs *core.ByteSwitch
			ast.Inspect(fd.Body, func(n ast.Node) bool {
				if sw, ok := n.(*ast.SwitchStmt); ok && bs == nil && sw.Tag != nil && isByteExpr(info, sw.Tag) {
					bs, _ = core.EvalByteSwitch(info, sw)
				}
				return true
			})
			if bs == nil {
				return nil, false
			}
			cf := core.BuildCFGFor(fd, info)
			out := map[int]string{}
			for bt := 0; bt < 256; bt++ {
				cc := bs.ClauseOf(byte(bt))
				if cc == nil {
					out[bt] = "fallout"
					continue
				}
				var calls []string
				ast.Inspect(cc, func(n ast.Node) bool {
					if c, ok := n.(*ast.CallExpr); ok {
						if f := core.Callee(info, c); f != nil && f.Pkg() != nil && f.Pkg().Path() == core.PkgPaths["encoder"] {
							calls = append(calls, canon(f.Name()))
						}
					}
					return true
				})
				sort.Strings(calls)
				s := strings.Join(calls, "+")
				if blk := cf.CaseBodyBlock(cc); blk != nil && cf.AllPathsReturnError(blk, nil) {
					s = "error"
				}
				if s == "" {
					s = "inline"
				}
				out[bt] = s
			}
			return out, true
		}
		sa, ok1 := sig(a)
		sb, ok2 := sig(b)
		key := "encoder." + pair[1] + "/same-dispatch-as-" + pair[0]
		if !ok1 || !ok2 {
			rc.Unknown(key, b.Pos(), "byte dispatch not found in one sibling")
			continue
		}
		var diff []int
		for bt := 0; bt < 256; bt++ {
			if sa[bt] != sb[bt] {
				diff = append(diff, bt)
			}
		}
		if len(diff) == 0 {
			rc.OK(key, b.Pos(), "all 256 byte values are classified and delegated identically")
		} else {
			rc.Bad(key, b.Pos(), "Compact and Indent treat bytes %s differently (e.g. %q → %s vs %s): one accepts or formats what the other does not", core.FmtBytes(sample(diff, 8)), rune(diff[0]), sa[diff[0]], sb[diff[0]])
		}
	}
}

func c18r3(rc *core.RC) {
	sccRule(rc, entryRoots(rc, []string{"Compact", "Indent", "HTMLEscape", "Valid", "Marshal", "MarshalIndent"}), "Compact/Indent", func(f *ssa.Function) bool {
		return scannerFiles[rc.P.FileBase(f.Pos())]
	})
}

// ---- C18.R6 the HTML-escape decision is handed down unchanged ----

// Compact and Indent (and the validation of marshaler output) thread one bool, the HTML-escape
// decision, from the entry point down to compactString. Every function of the encoder that has
// such a parameter must pass its own parameter, not a constant or another value, to each callee
// that has one. (The entry points, which have no such parameter, choose the value.)
func c18r6(rc *core.RC) {
	p := rc.P
	// functions of package encoder with exactly one bool parameter named like the escape flag
	flagOf := map[*types.Func]int{}
	decl := map[*types.Func]*ast.FuncDecl{}
	for _, fd := range p.Funcs("encoder") {
		if fd.Body == nil || fd.Recv != nil {
			continue
		}
		file := p.FileBase(fd.Pos())
		if file != "compact.go" && file != "indent.go" {
			continue
		}
		info := p.Info(fd)
		obj, _ := info.Defs[fd.Name].(*types.Func)
		if obj == nil {
			continue
		}
		k, idx, cnt := 0, -1, 0
		for _, f := range fd.Type.Params.List {
			for _, nm := range f.Names {
				if o := info.Defs[nm]; o != nil && o.Type().String() == "bool" {
					idx = k
					cnt++
				}
				k++
			}
		}
		if cnt == 1 {
			flagOf[obj] = idx
			decl[obj] = fd
		}
	}
	n := 0
	for obj, fd := range decl {
		info := p.Info(fd)
		var own types.Object
		k := 0
		for _, f := range fd.Type.Params.List {
			for _, nm := range f.Names {
				if k == flagOf[obj] {
					own = info.Defs[nm]
				}
				k++
			}
		}
		fn := p.FuncName(fd)
		seq := map[string]int{}
		ast.Inspect(fd.Body, func(m ast.Node) bool {
			call, ok := m.(*ast.CallExpr)
			if !ok {
				return true
			}
			callee := core.Callee(info, call)
			if callee == nil {
				return true
			}
			ci, has := flagOf[callee.Origin()]
			if !has || ci >= len(call.Args) {
				return true
			}
			n++
			rc.Touch(fn)
			seq[callee.Name()]++
			key := fmt.Sprintf("%s/escape-flag to %s#%d", fn, callee.Name(), seq[callee.Name()])
			if core.ObjOf(info, call.Args[ci]) == own {
				rc.OK(key, call.Pos(), "passes its own escape parameter on")
			} else {
				rc.Bad(key, call.Pos(), "%s receives the HTML-escape decision as a parameter but passes `%s` to %s: that part of the text (here: what %s copies) is escaped differently from the rest, so Compact and Indent, or MarshalIndent and Indent(Marshal), disagree", fd.Name.Name, core.Src(p.Fset, call.Args[ci]), callee.Name(), callee.Name())
			}
			return true
		})
	}
	if n < 12 {
		rc.Unknown("encoder/escape-flag-calls", token.NoPos, "found %d calls that hand the escape flag down in compact.go/indent.go", n)
	}
}

// ---- C18.R7 HTMLEscape keeps numbers as text ----

// HTMLEscape decodes the text and encodes it again. Numbers survive that only if they are decoded
// as json.Number: the decoder it uses must have UseNumber set before Decode (a plain Unmarshal, or
// a Decoder without UseNumber, converts every number to float64 and back).
func c18r7(rc *core.RC) {
	decodesWithUseNumber(rc, "HTMLEscape", "json.HTMLEscape/numbers-kept-as-text", "which turns every number into a float64: 9007199254740993 comes back as 9007199254740992 and long decimals are shortened")
}

// C18.R11: validity is a matter of syntax. A Decoder that converts numbers to float64 fails on a number beyond the
// float64 range, which is a valid JSON number.
func c18r11(rc *core.RC) {
	decodesWithUseNumber(rc, "Valid", "json.Valid/numbers-not-converted", "which converts every number to float64 and fails on a range error: Valid(`1e400`) is false where encoding/json says true")
}

func decodesWithUseNumber(rc *core.RC, fname, key, consequence string) {
	p := rc.P
	fd := p.Func("json", fname)
	if fd == nil {
		rc.Unknown(key, token.NoPos, "not found")
		return
	}
	rc.Touch("json." + fname)
	info := p.Info(fd)
	var useNum, decode ast.Node
	var decObj, useObj types.Object
	plain := ""
	ast.Inspect(fd.Body, func(m ast.Node) bool {
		c, ok := m.(*ast.CallExpr)
		if !ok {
			return true
		}
		name := core.CalleeName(info, c)
		switch {
		case strings.HasSuffix(name, "Decoder.UseNumber"):
			useNum = c
			if sel, ok := c.Fun.(*ast.SelectorExpr); ok {
				useObj = core.ObjOf(info, sel.X)
			}
		case strings.HasSuffix(name, "Decoder.Decode") || strings.HasSuffix(name, "Decoder.DecodeWithOption") || strings.HasSuffix(name, "Decoder.DecodeContext"):
			decode = c
			if sel, ok := c.Fun.(*ast.SelectorExpr); ok {
				decObj = core.ObjOf(info, sel.X)
			}
		case name == "json.Unmarshal" || name == "json.UnmarshalWithOption" || name == "json.UnmarshalNoEscape" || name == "json.unmarshal":
			plain = name
		}
		return true
	})
	switch {
	case plain != "":
		rc.Bad(key, fd.Pos(), "%s decodes with %s, %s", fname, plain, consequence)
	case decode == nil || useNum == nil:
		rc.Bad(key, fd.Pos(), "%s does not decode through a Decoder on which UseNumber was called, %s", fname, strings.Replace(consequence, "which", "so it", 1))
	default:
		rc.Check(decObj != nil && decObj == useObj && useNum.Pos() < decode.Pos(), key, decode.Pos(), "the Decoder that decodes the text had UseNumber called on it before Decode")
	}
}

// ---- C18.R8 Valid looks at every byte after the value ----

// Valid decodes one value through a Decoder and must then make sure that only whitespace follows.
// Decoder.More is not that test (it is false in front of '}' and ']' and at a NUL). The success
// return has to come after a loop over data[InputOffset():] that returns false for anything but
// the four whitespace bytes.
func c18r8(rc *core.RC) {
	p := rc.P
	fd := p.Func("json", "Valid")
	key := "json.Valid/trailing-bytes-examined"
	if fd == nil {
		rc.Unknown(key, token.NoPos, "not found")
		return
	}
	rc.Touch("json.Valid")
	info := p.Info(fd)
	usesMore := false
	var loop ast.Stmt
	var loopBody *ast.BlockStmt
	ast.Inspect(fd.Body, func(m ast.Node) bool {
		switch x := m.(type) {
		case *ast.CallExpr:
			if strings.HasSuffix(core.CalleeName(info, x), "Decoder.More") {
				usesMore = true
			}
		case *ast.RangeStmt:
			loop, loopBody = x, x.Body
		case *ast.ForStmt:
			loop, loopBody = x, x.Body
		}
		return true
	})
	if usesMore {
		rc.Bad(key, fd.Pos(), "Valid uses Decoder.More as its end-of-input test: More is false in front of a closing bracket and at a NUL byte, so {}}, []], `1 ]` and \"1\\x00\" are reported valid")
		return
	}
	// a library trimmer in place of the loop: its notion of white space is Unicode's, not JSON's
	trimmer := ""
	ast.Inspect(fd.Body, func(m ast.Node) bool {
		if c, ok := m.(*ast.CallExpr); ok {
			switch name := core.CalleeName(info, c); name {
			case "bytes.TrimSpace", "strings.TrimSpace", "bytes.TrimFunc", "bytes.TrimLeftFunc", "bytes.TrimRightFunc", "unicode.IsSpace", "bytes.Fields", "strings.Fields":
				trimmer = name
			}
		}
		return true
	})
	if trimmer != "" {
		rc.Bad(key, fd.Pos(), "the bytes that follow the value are judged by %s, which takes Unicode white space (\\v, \\f, U+0085, U+00A0, U+2028, U+3000 …) for blank: JSON allows only space, tab, LF and CR after a value, so `1\\v` and `{}` followed by U+00A0 are reported valid", trimmer)
		return
	}
	if loop == nil {
		rc.Bad(key, fd.Pos(), "no loop over the bytes that follow the decoded value")
		return
	}
	// the loop body sends every non-whitespace byte to `return false`
	var bs *core.ByteSwitch
	ast.Inspect(loopBody, func(m ast.Node) bool {
		if sw, ok := m.(*ast.SwitchStmt); ok && bs == nil {
			bs, _ = core.EvalByteSwitch(info, sw)
		}
		return true
	})
	if bs == nil {
		rc.Unknown(key, loop.Pos(), "the loop over the trailing bytes has no byte switch")
		return
	}
	var passes []int
	for b := 0; b < 256; b++ {
		ci := bs.Of[b]
		if ci < 0 {
			ci = bs.Default
		}
		rejects := false
		if ci >= 0 {
			for _, st := range bs.Clauses[ci].Body {
				if r, ok := st.(*ast.ReturnStmt); ok && len(r.Results) == 1 {
					if v := core.ConstValue(info, r.Results[0]); v != nil && v.String() == "false" {
						rejects = true
					}
				}
			}
		}
		if !rejects {
			passes = append(passes, b)
		}
	}
	c18r8source(rc, fd, info, loop)
	want := []int{'\t', '\n', '\r', ' '}
	rc.Check(fmt.Sprint(passes) == fmt.Sprint(want), key, loop.Pos(), "after the value the bytes %s are skipped and every other byte makes Valid false (all 256 values evaluated; wanted exactly tab, LF, CR, space)", core.FmtBytes(passes))
}

// ---- C18.R9 Indent copies the white space after the value ----

// encoding/json's Indent preserves trailing white space. In the function that indents the source and
// writes the result to the caller's buffer, a slice of the source has to be appended to the output
// between the doIndent call and the Write.
func c18r9(rc *core.RC) {
	p := rc.P
	n := 0
	hasWrite := func(fd *ast.FuncDecl, after token.Pos) bool {
		info := p.Info(fd)
		found := false
		ast.Inspect(fd.Body, func(m ast.Node) bool {
			if c, ok := m.(*ast.CallExpr); ok && strings.HasSuffix(core.CalleeName(info, c), "bytes.Buffer.Write") && c.Pos() > after {
				found = true
			}
			return true
		})
		return found
	}
	for _, fd := range p.Funcs("encoder") {
		if fd.Body == nil || p.FileBase(fd.Pos()) != "indent.go" {
			continue
		}
		info := p.Info(fd)
		var indentCall ast.Node
		var src types.Object
		ast.Inspect(fd.Body, func(m ast.Node) bool {
			c, ok := m.(*ast.CallExpr)
			if !ok {
				return true
			}
			if core.CalleeName(info, c) == "encoder.doIndent" && len(c.Args) >= 2 {
				indentCall = c
				src = core.ObjOf(info, c.Args[1])
			}
			return true
		})
		if indentCall == nil || src == nil {
			continue
		}
		// the output reaches the caller's buffer: written here after the call, or by a function that calls this one
		// and writes afterwards
		writes := hasWrite(fd, indentCall.Pos())
		if !writes {
			self := "encoder." + fd.Name.Name
			for _, caller := range p.Funcs("encoder") {
				if caller.Body == nil || caller == fd {
					continue
				}
				cinfo := p.Info(caller)
				ast.Inspect(caller.Body, func(m ast.Node) bool {
					if c, ok := m.(*ast.CallExpr); ok && core.CalleeName(cinfo, c) == self && hasWrite(caller, c.Pos()) {
						writes = true
					}
					return true
				})
			}
		}
		if !writes {
			continue
		}
		n++
		fn := p.FuncName(fd)
		rc.Touch(fn)
		copied := false
		ast.Inspect(fd.Body, func(m ast.Node) bool {
			c, ok := m.(*ast.CallExpr)
			if !ok || !core.IsBuiltin(info, c, "append") || len(c.Args) != 2 || !c.Ellipsis.IsValid() {
				return true
			}
			if sl, ok := core.Unparen(c.Args[1]).(*ast.SliceExpr); ok && core.ObjOf(info, sl.X) == src && c.Pos() > indentCall.Pos() {
				copied = true
			}
			return true
		})
		rc.Check(copied, fn+"/trailing-white-space-copied", indentCall.Pos(), "after doIndent, before its output is written to the caller's buffer, a slice of the source (the white space after the value) is appended to the output")
	}
	if n < 1 {
		rc.Unknown("encoder/indent-and-write", token.NoPos, "no function that calls doIndent and whose output is written to the caller's buffer found")
	}
}

// ---- C05.R10 / C18.R10 bytes a Decoder consumes in front of a value ----

// prepareConsumed folds the byte dispatch of (*Stream).PrepareForDecode: for each of the 256 byte values, does the
// clause that handles it advance the cursor (the byte is consumed before the value decoder starts) and does it go on
// looking (continue) or hand over to the value decoder (return)?
func prepareConsumed(rc *core.RC) (skipped, stepped []int, pos token.Pos, ok bool) {
	p := rc.P
	fd := p.Func("decoder", "Stream.PrepareForDecode")
	if fd == nil || fd.Body == nil {
		return nil, nil, token.NoPos, false
	}
	rc.Touch(p.FuncName(fd))
	info := p.Info(fd)
	var bs *core.ByteSwitch
	ast.Inspect(fd.Body, func(m ast.Node) bool {
		if sw, isSw := m.(*ast.SwitchStmt); isSw && bs == nil {
			if b, exact := core.EvalByteSwitch(info, sw); b != nil && exact {
				bs = b
			}
		}
		return true
	})
	if bs == nil {
		return nil, nil, fd.Pos(), false
	}
	for b := 0; b < 256; b++ {
		ci := bs.Of[b]
		if ci < 0 {
			continue
		}
		adv, cont := false, false
		for _, st := range bs.Clauses[ci].Body {
			ast.Inspect(st, func(m ast.Node) bool {
				switch x := m.(type) {
				case *ast.IncDecStmt:
					if x.Tok == token.INC && isStreamCursor(info, x.X) {
						adv = true
					}
				case *ast.AssignStmt:
					if len(x.Lhs) == 1 && isStreamCursor(info, x.Lhs[0]) {
						adv = true
					}
				case *ast.BranchStmt:
					if x.Tok == token.CONTINUE {
						cont = true
					}
				}
				return true
			})
		}
		if !adv {
			continue
		}
		if cont {
			skipped = append(skipped, b)
		} else {
			stepped = append(stepped, b)
		}
	}
	return skipped, stepped, bs.Stmt.Pos(), true
}

// C05.R10: a JSON text begins with white space or a value. What the Decoder consumes before it starts the value
// decoder must be white space only.
func c05r10(rc *core.RC) {
	skipped, stepped, pos, ok := prepareConsumed(rc)
	key := "decoder.(*Stream).PrepareForDecode/consumed-before-value"
	if !ok {
		rc.Unknown(key, pos, "PrepareForDecode or its byte dispatch not found")
		return
	}
	want := []int{'\t', '\n', '\r', ' '}
	sort.Ints(skipped)
	rc.Check(fmt.Sprint(skipped) == fmt.Sprint(want), key+"/white-space", pos, "bytes skipped in front of a value: %s (all 256 values evaluated; wanted exactly tab, LF, CR, space)", core.FmtBytes(skipped))
	if len(stepped) == 0 {
		rc.OK(key+"/separators", pos, "no other byte is consumed before the value decoder starts")
		return
	}
	rc.Bad(key+"/separators", pos, "Decoder.Decode steps over one %s in front of a value, whatever came before (there is no token state): the texts `,1` and `:1`, and the stream `1,2`, are decoded without an error where encoding/json reports invalid character ',' looking for beginning of value", core.FmtBytes(stepped))
}

// byteLoopOutcome folds the body of `for _, c := range data { … }` for c == b: "continue", "reject" (return false),
// "accept" (return true), "stop" (break, or a statement list that cannot be folded ends the loop: ""), "next" (falls
// off the end of the body).
func byteLoopOutcome(p *core.Program, info *types.Info, list []ast.Stmt, c types.Object, b int) string {
	bp := &core.BytePred{P: p}
	for _, st := range list {
		switch x := st.(type) {
		case *ast.BranchStmt:
			switch x.Tok {
			case token.CONTINUE:
				return "continue"
			case token.BREAK:
				return "stop"
			}
			return ""
		case *ast.ReturnStmt:
			if len(x.Results) == 1 {
				if v := core.ConstValue(info, x.Results[0]); v != nil {
					if v.String() == "false" {
						return "reject"
					}
					if v.String() == "true" {
						return "accept"
					}
				}
			}
			return ""
		case *ast.IfStmt:
			if x.Init != nil {
				return ""
			}
			t, ok := bp.EvalBool(info, x.Cond, core.Bind(c, int64(b)))
			if !ok {
				return ""
			}
			var r string
			if t {
				r = byteLoopOutcome(p, info, x.Body.List, c, b)
			} else if x.Else != nil {
				switch e := x.Else.(type) {
				case *ast.BlockStmt:
					r = byteLoopOutcome(p, info, e.List, c, b)
				case *ast.IfStmt:
					r = byteLoopOutcome(p, info, []ast.Stmt{e}, c, b)
				}
			} else {
				r = "next"
			}
			if r != "next" {
				return r
			}
		case *ast.SwitchStmt:
			if x.Init != nil || core.ObjOf(info, x.Tag) != c {
				return ""
			}
			bs, exact := core.EvalByteSwitch(info, x)
			if bs == nil || !exact {
				return ""
			}
			ci := bs.Of[b]
			if ci < 0 {
				continue
			}
			r := byteLoopOutcome(p, info, bs.Clauses[ci].Body, c, b)
			if r == "stop" { // break inside a switch leaves the switch only
				r = "next"
			}
			if r != "next" {
				return r
			}
		default:
			return ""
		}
	}
	return "next"
}

// C18.R10: Valid decodes through a Decoder. Every byte the Decoder steps over in front of a value without it being
// white space has to make Valid false when it is the first byte of the text that is not white space, and Valid must
// not give a verdict on any other first byte before the Decoder has seen the text.
func c18r10(rc *core.RC) {
	p := rc.P
	skipped, stepped, ppos, ok := prepareConsumed(rc)
	key := "json.Valid/leading-separator-rejected"
	fd := p.Func("json", "Valid")
	if !ok || fd == nil {
		rc.Unknown(key, ppos, "Valid or PrepareForDecode not found")
		return
	}
	rc.Touch("json.Valid")
	info := p.Info(fd)
	if len(stepped) == 0 {
		rc.OK(key, fd.Pos(), "the Decoder consumes nothing but white space in front of a value: Valid needs no test of its own")
		return
	}
	// the loop over the whole of data that precedes the construction of the Decoder
	var newDec token.Pos
	ast.Inspect(fd.Body, func(m ast.Node) bool {
		if c, isCall := m.(*ast.CallExpr); isCall && !newDec.IsValid() && strings.HasSuffix(core.CalleeName(info, c), "NewDecoder") {
			newDec = c.Pos()
		}
		return true
	})
	if !newDec.IsValid() {
		rc.Unknown(key, fd.Pos(), "Valid does not construct a Decoder: the rule does not know how the text is examined")
		return
	}
	data := fd.Type.Params.List[0].Names[0]
	var loop *ast.RangeStmt
	for _, st := range fd.Body.List {
		if rs, isRange := st.(*ast.RangeStmt); isRange && rs.Pos() < newDec && core.ObjOf(info, rs.X) == info.Defs[data] && rs.Value != nil {
			loop = rs
			break
		}
	}
	if loop == nil {
		rc.Bad(key, fd.Pos(), "the Decoder steps over a leading %s (PrepareForDecode) and Valid does not look at the first byte of the text itself: Valid(`,1`) and Valid(`:1`) are true; encoding/json: false", core.FmtBytes(stepped))
		return
	}
	c := core.ObjOf(info, loop.Value)
	isIn := func(set []int, b int) bool {
		for _, x := range set {
			if x == b {
				return true
			}
		}
		return false
	}
	var bad []string
	for b := 0; b < 256; b++ {
		out := byteLoopOutcome(p, info, loop.Body.List, c, b)
		if out == "" {
			rc.Unknown(key, loop.Pos(), "the loop over the leading bytes could not be folded for byte %#x", b)
			return
		}
		want := "stop"
		switch {
		case isIn(skipped, b):
			want = "continue"
		case isIn(stepped, b):
			want = "reject"
		}
		if out == "next" && want == "continue" {
			out = "continue"
		}
		if out != want {
			bad = append(bad, fmt.Sprintf("%s: %s (wanted %s)", core.FmtBytes([]int{b}), out, want))
		}
	}
	if len(bad) > 6 {
		bad = append(bad[:6], fmt.Sprintf("… %d more", len(bad)-6))
	}
	rc.Check(len(bad) == 0, key, loop.Pos(), "first byte of the text that the Decoder would not skip as white space (%s skipped): %s make Valid false, every other byte is left to the Decoder (all 256 values evaluated)%s", core.FmtBytes(skipped), core.FmtBytes(stepped), func() string {
		if len(bad) == 0 {
			return ""
		}
		return "; wrong: " + strings.Join(bad, ", ")
	}())
}

// ---- C18.R12 structural tokens are looked for behind white space ----

// In the walkers of compact.go and indent.go (objects and arrays) every test of the byte under the cursor against a
// structural token of the container ('}' ']' ':' ',') has to see the byte that follows the white space: the cursor
// it reads was last set by skipWhiteSpace. A test directly behind `cursor++` takes a blank for "not the closing
// bracket" and rejects `{ }` or `[\n]`, which encoding/json accepts (and the sibling file still does).
func c18r12(rc *core.RC) {
	p := rc.P
	n := 0
	for _, fd := range p.Funcs("encoder") {
		if fd.Body == nil {
			continue
		}
		base := p.FileBase(fd.Pos())
		if base != "compact.go" && base != "indent.go" {
			continue
		}
		name := fd.Name.Name
		if !strings.HasSuffix(name, "Object") && !strings.HasSuffix(name, "Array") {
			continue
		}
		info := p.Info(fd)
		fn := p.FuncName(fd)
		rc.Touch(fn)
		isCursor := func(e ast.Expr) bool {
			_, ok := core.Unparen(e).(*ast.Ident)
			return ok && isCursorExpr(e)
		}
		readsCursorByte := func(e ast.Expr) bool {
			ix, ok := core.Unparen(e).(*ast.IndexExpr)
			return ok && isCursor(ix.Index)
		}
		structural := func(e ast.Expr) bool {
			v, ok := core.ConstInt(info, e)
			return ok && (v == '}' || v == ']' || v == ':' || v == ',')
		}
		k := 0
		var visit func(list []ast.Stmt, lastSet string)
		visit = func(list []ast.Stmt, lastSet string) {
			for _, st := range list {
				// tests in this statement
				var tests []ast.Node
				switch x := st.(type) {
				case *ast.IfStmt:
					if be, ok := core.Unparen(x.Cond).(*ast.BinaryExpr); ok && (be.Op == token.EQL || be.Op == token.NEQ) && readsCursorByte(be.X) && structural(be.Y) {
						tests = append(tests, be)
					}
				case *ast.SwitchStmt:
					if x.Tag != nil && readsCursorByte(x.Tag) {
						for _, c := range x.Body.List {
							for _, l := range c.(*ast.CaseClause).List {
								if structural(l) {
									tests = append(tests, x.Tag)
								}
							}
						}
						if len(tests) > 1 {
							tests = tests[:1]
						}
					}
				}
				for _, tst := range tests {
					n++
					k++
					key := fmt.Sprintf("%s/token-test#%d behind-white-space", fn, k)
					rc.Check(lastSet == "skipWhiteSpace", key, tst.Pos(), "the byte compared with a structural token (%s) is the one skipWhiteSpace stopped at (the cursor was last set by %s): a test directly behind an increment takes white space inside an empty container for an element and fails on `{ }` / `[\\n]`", core.Src(p.Fset, tst), lastSet)
				}
				// how this statement leaves the cursor
				switch x := st.(type) {
				case *ast.AssignStmt:
					for i, l := range x.Lhs {
						if !isCursor(l) {
							continue
						}
						lastSet = "an assignment"
						rhs := x.Rhs[0]
						if len(x.Rhs) == len(x.Lhs) {
							rhs = x.Rhs[i]
						}
						if c, ok := core.Unparen(rhs).(*ast.CallExpr); ok {
							lastSet = "a call of " + core.CalleeName(info, c)
							if strings.HasSuffix(core.CalleeName(info, c), "skipWhiteSpace") {
								lastSet = "skipWhiteSpace"
							}
						}
					}
				case *ast.IncDecStmt:
					if isCursor(x.X) {
						lastSet = "cursor++"
					}
				case *ast.IfStmt:
					visit(x.Body.List, lastSet)
					if e, ok := x.Else.(*ast.BlockStmt); ok {
						visit(e.List, lastSet)
					}
				case *ast.ForStmt:
					// the loop body starts with whatever the end of the previous iteration left: unknown
					visit(x.Body.List, "the previous iteration")
				case *ast.SwitchStmt:
					for _, c := range x.Body.List {
						visit(c.(*ast.CaseClause).Body, lastSet)
					}
				case *ast.BlockStmt:
					visit(x.List, lastSet)
				}
			}
		}
		visit(fd.Body.List, "the caller")
	}
	if n < 10 {
		rc.Unknown("encoder/container-walkers", token.NoPos, "found %d structural-token tests in the object and array walkers of compact.go and indent.go (confirmed: 10)", n)
	}
}

// ---- C05.R15 a closing bracket is looked for behind white space (decoder, buffer mode) ----

// The same obligation as C18.R12, for the buffer-mode container decoders (map, slice, array, struct: Decode and
// DecodePath): every test of the byte under the cursor against '}' or ']' reads a cursor that skipWhiteSpace set last.
// A test directly behind the step over the opening bracket takes a blank for a member: `{ }` is refused by Unmarshal
// and accepted by Valid and by the stream decoder.
func c05r15(rc *core.RC) {
	p := rc.P
	n := 0
	for _, fd := range p.Funcs("decoder") {
		if fd.Body == nil || fd.Recv == nil {
			continue
		}
		if fd.Name.Name != "Decode" && fd.Name.Name != "DecodePath" {
			continue
		}
		info := p.Info(fd)
		fn := p.FuncName(fd)
		rc.Touch(fn)
		isCursor := func(e ast.Expr) bool {
			_, ok := core.Unparen(e).(*ast.Ident)
			return ok && isCursorExpr(e)
		}
		readsCursorByte := func(e ast.Expr) bool {
			if c, ok := core.Unparen(e).(*ast.CallExpr); ok && core.CalleeName(info, c) == "decoder.char" && len(c.Args) == 2 {
				return isCursor(c.Args[1])
			}
			ix, ok := core.Unparen(e).(*ast.IndexExpr)
			return ok && isCursor(ix.Index)
		}
		structural := func(e ast.Expr) bool {
			v, ok := core.ConstInt(info, e)
			return ok && (v == '}' || v == ']')
		}
		k := 0
		var visit func(list []ast.Stmt, lastSet string)
		visit = func(list []ast.Stmt, lastSet string) {
			for _, st := range list {
				// tests in this statement
				var tests []ast.Node
				switch x := st.(type) {
				case *ast.IfStmt:
					if be, ok := core.Unparen(x.Cond).(*ast.BinaryExpr); ok && (be.Op == token.EQL || be.Op == token.NEQ) && readsCursorByte(be.X) && structural(be.Y) {
						tests = append(tests, be)
					}
				case *ast.SwitchStmt:
					if x.Tag != nil && readsCursorByte(x.Tag) {
						for _, c := range x.Body.List {
							for _, l := range c.(*ast.CaseClause).List {
								if structural(l) {
									tests = append(tests, x.Tag)
								}
							}
						}
						if len(tests) > 1 {
							tests = tests[:1]
						}
					}
				}
				for _, tst := range tests {
					n++
					k++
					key := fmt.Sprintf("%s/token-test#%d behind-white-space", fn, k)
					rc.Check(lastSet == "skipWhiteSpace", key, tst.Pos(), "the byte compared with a structural token (%s) is the one skipWhiteSpace stopped at (the cursor was last set by %s): a test directly behind an increment takes white space inside an empty container for an element and fails on `{ }` / `[\\n]`", core.Src(p.Fset, tst), lastSet)
				}
				// how this statement leaves the cursor
				switch x := st.(type) {
				case *ast.AssignStmt:
					for i, l := range x.Lhs {
						if !isCursor(l) {
							continue
						}
						lastSet = "an assignment"
						rhs := x.Rhs[0]
						if len(x.Rhs) == len(x.Lhs) {
							rhs = x.Rhs[i]
						}
						if c, ok := core.Unparen(rhs).(*ast.CallExpr); ok {
							lastSet = "a call of " + core.CalleeName(info, c)
							if strings.HasSuffix(core.CalleeName(info, c), "skipWhiteSpace") {
								lastSet = "skipWhiteSpace"
							}
						}
					}
				case *ast.IncDecStmt:
					if isCursor(x.X) {
						lastSet = "cursor++"
					}
				case *ast.IfStmt:
					visit(x.Body.List, lastSet)
					if e, ok := x.Else.(*ast.BlockStmt); ok {
						visit(e.List, lastSet)
					}
				case *ast.ForStmt:
					// the loop body starts with whatever the end of the previous iteration left: unknown
					visit(x.Body.List, "the previous iteration")
				case *ast.SwitchStmt:
					for _, c := range x.Body.List {
						visit(c.(*ast.CaseClause).Body, lastSet)
					}
				case *ast.BlockStmt:
					visit(x.List, lastSet)
				}
			}
		}
		visit(fd.Body.List, "the caller")
	}
	if n < 8 {
		rc.Unknown("decoder/container-walkers", token.NoPos, "found %d tests of a closing bracket in the buffer-mode Decode/DecodePath methods (confirmed: 12)", n)
	}
}

// c18r8source: the bytes the trailing loop of Valid examines are the input behind the value, data[InputOffset():].
// What the decoder happens to hold (Decoder.Buffered) ends at the read window and at the first NUL: bytes not read
// yet and bytes behind a NUL would never be looked at.
func c18r8source(rc *core.RC, fd *ast.FuncDecl, info *types.Info, loop ast.Stmt) {
	p := rc.P
	key := "json.Valid/trailing-bytes-are-the-rest-of-the-input"
	var data types.Object
	if fd.Type.Params != nil && len(fd.Type.Params.List) > 0 && len(fd.Type.Params.List[0].Names) > 0 {
		data = info.Defs[fd.Type.Params.List[0].Names[0]]
	}
	rs, ok := loop.(*ast.RangeStmt)
	if !ok || data == nil {
		rc.Unknown(key, loop.Pos(), "the trailing loop is not a range over a slice of the parameter")
		return
	}
	usesBuffered := false
	ast.Inspect(fd.Body, func(m ast.Node) bool {
		if c, ok := m.(*ast.CallExpr); ok && strings.HasSuffix(core.CalleeName(info, c), "Decoder.Buffered") {
			usesBuffered = true
		}
		return true
	})
	sl, ok := core.Unparen(rs.X).(*ast.SliceExpr)
	if !ok || core.ObjOf(info, sl.X) != data || sl.Low == nil || sl.High != nil {
		if usesBuffered {
			rc.Bad(key, rs.Pos(), "the trailing loop ranges over %s and Valid reads Decoder.Buffered(): the buffered remainder ends at the read window and at the first NUL byte, so garbage behind either is never examined; the rest of the input is data[InputOffset():]", core.Src(p.Fset, rs.X))
		} else {
			rc.Unknown(key, rs.Pos(), "the trailing loop ranges over %s, not over data[offset:]", core.Src(p.Fset, rs.X))
		}
		return
	}
	// the low bound comes from Decoder.InputOffset
	fromOffset := false
	lowObj := core.ObjOf(info, sl.Low)
	ast.Inspect(fd.Body, func(m ast.Node) bool {
		as, ok := m.(*ast.AssignStmt)
		if !ok || len(as.Lhs) != 1 || len(as.Rhs) != 1 || lowObj == nil || core.ObjOf(info, as.Lhs[0]) != lowObj {
			return true
		}
		ast.Inspect(as.Rhs[0], func(k ast.Node) bool {
			if c, ok := k.(*ast.CallExpr); ok && strings.HasSuffix(core.CalleeName(info, c), "Decoder.InputOffset") {
				fromOffset = true
			}
			return true
		})
		return true
	})
	ast.Inspect(sl.Low, func(k ast.Node) bool {
		if c, ok := k.(*ast.CallExpr); ok && strings.HasSuffix(core.CalleeName(info, c), "Decoder.InputOffset") {
			fromOffset = true
		}
		return true
	})
	rc.Check(fromOffset, key, rs.Pos(), "the trailing loop ranges over the parameter from Decoder.InputOffset() to its end (%s): every byte behind the value is examined, read or not, behind a NUL or not", core.Src(p.Fset, rs.X))
}

// ---- C18.R13 an object key is scanned by the string scanner ----

// In the object walkers of compact.go and indent.go the member key is whatever is scanned in front of the ':' test.
// RFC 8259 allows a string there and nothing else: the scanner call that precedes the colon test has to be
// compactString. The general value scanner accepts numbers, literals, arrays and objects in key position, and
// `{1:"a"}` returned by a MarshalJSON method passes through MarshalIndent.
func c18r13(rc *core.RC) {
	p := rc.P
	n := 0
	for _, fd := range p.Funcs("encoder") {
		if fd.Body == nil || !strings.HasSuffix(fd.Name.Name, "Object") {
			continue
		}
		base := p.FileBase(fd.Pos())
		if base != "compact.go" && base != "indent.go" {
			continue
		}
		info := p.Info(fd)
		fn := p.FuncName(fd)
		ast.Inspect(fd.Body, func(m ast.Node) bool {
			blk, ok := m.(*ast.BlockStmt)
			if !ok {
				return true
			}
			for i, st := range blk.List {
				ifs, isIf := st.(*ast.IfStmt)
				if !isIf {
					continue
				}
				colon := false
				ast.Inspect(ifs.Cond, func(k ast.Node) bool {
					if be, isBin := k.(*ast.BinaryExpr); isBin && (be.Op == token.NEQ || be.Op == token.EQL) {
						if v, isC := core.ConstInt(info, be.Y); isC && v == ':' {
							colon = true
						}
					}
					return true
				})
				if !colon {
					continue
				}
				// the nearest scanner call before the test
				scanner := ""
				var pos token.Pos
				for j := i - 1; j >= 0 && scanner == ""; j-- {
					as, isAs := blk.List[j].(*ast.AssignStmt)
					if !isAs || len(as.Rhs) != 1 || len(as.Lhs) != 3 {
						continue
					}
					if c, isCall := core.Unparen(as.Rhs[0]).(*ast.CallExpr); isCall {
						scanner, pos = core.CalleeName(info, c), c.Pos()
					}
				}
				n++
				rc.Touch(fn)
				key := fn + "/member-key scanned-as-a-string"
				if scanner == "" {
					rc.Unknown(key, ifs.Pos(), "no scanner call found in front of the colon test")
					continue
				}
				rc.Check(scanner == "encoder.compactString", key, pos, "what stands in front of the ':' of a member is scanned by compactString (found: %s): a general value scanner accepts numbers, literals and containers as keys", scanner)
			}
			return true
		})
	}
	if n < 2 {
		rc.Unknown("encoder/object-walkers", token.NoPos, "found %d colon tests in compactObject/indentObject (confirmed: 2)", n)
	}
}

// ---- C18.R14 the \u branch of the string scanner examines four digits and steps over four ----

// compactString is the validator of every string in Compact, Indent and marshaler output. Behind `\u` exactly four
// bytes have to be hexadecimal digits, and the cursor then moves past those four. The loop bounds and the index
// expression are evaluated as linear forms over the cursor: the offsets examined have to be cursor+1 … cursor+4 and
// the advance has to be 4. A loop that stops one short (`i < end` with end the index of the last digit) lets any
// byte stand in the fourth position, the closing quote included.
func c18r14(rc *core.RC) {
	p := rc.P
	fd := p.Func("encoder", "compactString")
	if fd == nil || fd.Body == nil {
		rc.Unknown("encoder.compactString", token.NoPos, "function not found")
		return
	}
	info := p.Info(fd)
	fn := p.FuncName(fd)
	rc.Touch(fn)
	le := &core.LinearEval{Info: info, Pkg: p.Pkg("encoder"), Body: fd.Body}
	var clause *ast.CaseClause
	ast.Inspect(fd.Body, func(m ast.Node) bool {
		cc, ok := m.(*ast.CaseClause)
		if !ok || len(cc.List) != 1 {
			return true
		}
		if v, isC := core.ConstInt(info, cc.List[0]); isC && v == 'u' {
			clause = cc
		}
		return true
	})
	key := fn + "/unicode-escape four-digits-examined-and-skipped"
	if clause == nil {
		rc.Unknown(key, fd.Pos(), "no clause for the escape letter u found")
		return
	}
	var loop *ast.ForStmt
	for _, st := range clause.Body {
		if l, ok := st.(*ast.ForStmt); ok {
			loop = l
		}
	}
	if loop == nil || loop.Init == nil || loop.Cond == nil {
		rc.Unknown(key, clause.Pos(), "no counted loop over the digits found in the clause")
		return
	}
	init, ok := loop.Init.(*ast.AssignStmt)
	cond, ok2 := core.Unparen(loop.Cond).(*ast.BinaryExpr)
	if !ok || !ok2 || len(init.Lhs) != 1 || len(init.Rhs) != 1 || (cond.Op != token.LEQ && cond.Op != token.LSS) {
		rc.Unknown(key, loop.Pos(), "the loop header is not of the form `i := L; i <= H` or `i < H`")
		return
	}
	ivar, isID := init.Lhs[0].(*ast.Ident)
	if !isID || core.ObjOf(info, cond.X) != core.ObjOf(info, ivar) {
		rc.Unknown(key, loop.Pos(), "the loop condition does not test the loop variable")
		return
	}
	lo, hi := le.Eval(init.Rhs[0]), le.Eval(cond.Y)
	if cond.Op == token.LSS {
		hi = hi.Sub(core.LinConst(1))
	}
	// the byte examined: src[X] with X linear in the loop variable
	var idx core.Linear
	ast.Inspect(loop.Body, func(m ast.Node) bool {
		ix, isIx := m.(*ast.IndexExpr)
		if !isIx || idx.OK {
			return true
		}
		if t := info.TypeOf(ix.X); t == nil || t.String() != "[]byte" {
			return true
		}
		x := le.Eval(ix.Index)
		if x.OK && x.Terms[ivar.Name] == 1 {
			idx = x
		}
		return true
	})
	if !lo.OK || !hi.OK || !idx.OK {
		rc.Unknown(key, loop.Pos(), "the loop bounds or the index expression are not linear (%s, %s, %s)", lo, hi, idx)
		return
	}
	// substitute the loop variable by its bounds: offsets relative to the cursor
	at := func(bound core.Linear) core.Linear {
		rest := idx
		rest.Terms = map[string]int64{}
		for k, v := range idx.Terms {
			if k != ivar.Name {
				rest.Terms[k] = v
			}
		}
		return rest.Add(bound)
	}
	first, last := at(lo), at(hi)
	// the scan cursor, found by its role (it indexes the text), whatever it is called
	cursorNames := map[string]bool{}
	ast.Inspect(fd.Body, func(m ast.Node) bool {
		if id, isID := m.(*ast.Ident); isID && isCursorExpr(id) {
			cursorNames[id.Name] = true
		}
		return true
	})
	off := func(l core.Linear) (int64, bool) {
		n := 0
		for k, v := range l.Terms {
			if v == 0 {
				continue
			}
			if !cursorNames[k] || v != 1 {
				return 0, false
			}
			n++
		}
		return l.Const, n == 1
	}
	f, okf := off(first)
	l, okl := off(last)
	// the advance behind the loop
	adv, okAdv := int64(0), false
	seenLoop := false
	for _, st := range clause.Body {
		if st == ast.Stmt(loop) {
			seenLoop = true
			continue
		}
		if !seenLoop {
			continue
		}
		if as, isAs := st.(*ast.AssignStmt); isAs && len(as.Lhs) == 1 && len(as.Rhs) == 1 && isCursorExpr(as.Lhs[0]) {
			switch as.Tok {
			case token.ADD_ASSIGN:
				if v, isC := core.ConstInt(info, as.Rhs[0]); isC {
					adv, okAdv = v, true
				}
			case token.ASSIGN:
				if a, isOff := off(le.Eval(as.Rhs[0])); isOff {
					adv, okAdv = a, true
				}
			}
		}
	}
	if !okf || !okl || !okAdv {
		rc.Unknown(key, loop.Pos(), "offsets not relative to the cursor (first %s, last %s) or advance not found", first, last)
		return
	}
	rc.Check(f == 1 && l == 4 && adv == 4, key, loop.Pos(), "behind `\\u` the bytes at cursor+%d … cursor+%d are tested for hexadecimal digits and the cursor then advances by %d (required: +1 … +4, then 4): a byte that is not examined can be anything, the closing quote included", f, l, adv)
}

// ---- C18.R15 what HTMLEscape writes went through the escaping encoder ----

// HTMLEscape answers with the text the encoder wrote for the decoded value: the encoder escapes <, >, & and the two
// line separators. A shortcut that copies the source into dst is the same answer only for a source that holds none of
// the five. The test that allows it has to look for the bytes '<', '>', '&' and for U+2028 and U+2029, either as the
// byte 0xE2 (bytes.IndexByte, a byte comparison) or as the two characters (a rune search). bytes.ContainsAny and
// bytes.IndexAny search by character: a lone "\xe2" in their set is an invalid character and matches no well-formed
// text. Every Write (and WriteString, append) of the source parameter in HTMLEscape is examined: it has to stand
// behind such a test; every other Write takes the result of marshal.
func c18r15(rc *core.RC) {
	p := rc.P
	fd := p.Func("json", "HTMLEscape")
	if fd == nil || fd.Body == nil {
		rc.Unknown("json.HTMLEscape", token.NoPos, "function not found")
		return
	}
	info := p.Info(fd)
	rc.Touch("json.HTMLEscape")
	var src types.Object
	for _, f := range fd.Type.Params.List {
		if t := info.TypeOf(f.Type); t != nil && t.String() == "[]byte" && len(f.Names) > 0 {
			src = info.Defs[f.Names[0]]
		}
	}
	if src == nil {
		rc.Unknown("json.HTMLEscape/source", fd.Pos(), "no []byte parameter")
		return
	}
	usesSrc := func(e ast.Expr) bool {
		hit := false
		ast.Inspect(e, func(m ast.Node) bool {
			if id, ok := m.(*ast.Ident); ok && core.ObjOf(info, id) == src {
				hit = true
			}
			return true
		})
		return hit
	}
	// what a search expression looks for: bytes and characters
	type found struct {
		bytes map[byte]bool
		runes map[rune]bool
		ok    bool
	}
	var search func(info *types.Info, e ast.Expr, depth int) found
	merge := func(a, b found) found {
		if !a.ok || !b.ok {
			return found{}
		}
		for k := range b.bytes {
			a.bytes[k] = true
		}
		for k := range b.runes {
			a.runes[k] = true
		}
		return a
	}
	strConst := func(info *types.Info, e ast.Expr) (string, bool) {
		e = core.Unparen(e)
		if c, ok := e.(*ast.CallExpr); ok && len(c.Args) == 1 {
			if tv, ok := info.Types[c.Fun]; ok && tv.IsType() {
				e = core.Unparen(c.Args[0])
			}
		}
		if tv, ok := info.Types[e]; ok && tv.Value != nil && tv.Value.Kind() == constant.String {
			return constant.StringVal(tv.Value), true
		}
		return "", false
	}
	search = func(info *types.Info, e ast.Expr, depth int) found {
		e = core.Unparen(e)
		switch x := e.(type) {
		case *ast.BinaryExpr:
			switch x.Op {
			case token.LOR:
				return merge(search(info, x.X, depth), search(info, x.Y, depth))
			case token.GEQ, token.NEQ, token.GTR:
				// Index…(src, …) >= 0, != -1, > -1
				if c, ok := core.Unparen(x.X).(*ast.CallExpr); ok {
					if v, isC := core.ConstInt(info, x.Y); isC && ((x.Op == token.GEQ && v == 0) || (x.Op != token.GEQ && v == -1)) {
						return search(info, c, depth)
					}
				}
			}
			return found{}
		case *ast.CallExpr:
			cn := core.CalleeName(info, x)
			out := found{bytes: map[byte]bool{}, runes: map[rune]bool{}, ok: true}
			switch cn {
			case "bytes.ContainsAny", "bytes.IndexAny":
				s, ok := strConst(info, x.Args[1])
				if !ok {
					return found{}
				}
				for _, r := range s {
					if r < 0x80 {
						out.bytes[byte(r)] = true
					} else if r != 0xFFFD {
						out.runes[r] = true
					}
				}
				return out
			case "bytes.IndexByte":
				if v, ok := core.ConstInt(info, x.Args[1]); ok {
					out.bytes[byte(v)] = true
					return out
				}
			case "bytes.ContainsRune", "bytes.IndexRune":
				if v, ok := core.ConstInt(info, x.Args[1]); ok {
					if v < 0x80 {
						out.bytes[byte(v)] = true
					} else {
						out.runes[rune(v)] = true
					}
					return out
				}
			case "bytes.Contains", "bytes.Index":
				if s, ok := strConst(info, x.Args[1]); ok {
					rs := []rune(s)
					if len(s) == 1 {
						out.bytes[s[0]] = true
						return out
					}
					if len(rs) == 1 && rs[0] != 0xFFFD {
						out.runes[rs[0]] = true
						return out
					}
				}
			default:
				// a predicate of the module with a body of one return
				if depth < 2 {
					if f := core.Callee(info, x); f != nil {
						if d := p.DeclOf(f); d != nil && d.Body != nil && len(d.Body.List) == 1 {
							if r, ok := d.Body.List[0].(*ast.ReturnStmt); ok && len(r.Results) == 1 {
								return search(p.Info(d), r.Results[0], depth+1)
							}
						}
					}
				}
			}
		}
		return found{}
	}
	n := 0
	ast.Inspect(fd.Body, func(m ast.Node) bool {
		c, ok := m.(*ast.CallExpr)
		if !ok {
			return true
		}
		cn := core.CalleeName(info, c)
		if cn != "bytes.Buffer.Write" && cn != "bytes.Buffer.WriteString" {
			return true
		}
		n++
		key := fmt.Sprintf("json.HTMLEscape/write#%d escaped-text-or-nothing-to-escape", n)
		if !usesSrc(c.Args[0]) {
			def := core.Unparen(core.ResolveSingleDef(info, fd.Body, c.Args[0]))
			call, isCall := def.(*ast.CallExpr)
			if id, isID := def.(*ast.Ident); isID {
				// buf, _ := marshal(v)
				ast.Inspect(fd.Body, func(d ast.Node) bool {
					if as, ok := d.(*ast.AssignStmt); ok && len(as.Rhs) == 1 && len(as.Lhs) == 2 {
						if l, ok := as.Lhs[0].(*ast.Ident); ok && core.ObjOf(info, l) == core.ObjOf(info, id) {
							call, isCall = core.Unparen(as.Rhs[0]).(*ast.CallExpr)
						}
					}
					return true
				})
			}
			rc.Check(isCall && core.CalleeName(info, call) == "json.marshal", key, c.Pos(), "the text written is the result of marshal (the encoder with HTML escaping)")
			return true
		}
		// a raw copy of the source: the conditions on the way
		var conds []condNode
		conds = append(conds, condChainNodes(fd, c)...)
		need := func(f found) string {
			if !f.ok {
				return "the test is not a search for bytes or characters this rule can read"
			}
			for _, b := range []byte{'<', '>', '&'} {
				if !f.bytes[b] {
					return fmt.Sprintf("the test does not look for %q", b)
				}
			}
			if !f.bytes[0xE2] && !(f.runes[0x2028] && f.runes[0x2029]) {
				return "the test does not find U+2028 and U+2029 (a \"\\xe2\" in the set of ContainsAny/IndexAny is an invalid character, not the byte)"
			}
			return ""
		}
		msg := "the source is copied to dst without any test"
		for _, cn := range conds {
			if cn.pos {
				continue // the branch where the search found something
			}
			msg = need(search(info, cn.cond, 0))
			if msg == "" {
				break
			}
		}
		rc.Check(msg == "", key, c.Pos(), "HTMLEscape copies its source to dst: %s; a text with a raw line separator (or <, >, &) reaches the page unescaped", msg)
		return true
	})
	if n < 1 {
		rc.Unknown("json.HTMLEscape/writes", fd.Pos(), "no Write to dst found")
	}
}

// ---- C18.R16 a multi-byte character is stepped over only where its kind is looked at ----

// decodeRuneInString tells a valid character from an invalid one and from U+2028 / U+2029. The string writers of
// string.go call it for every lead byte and dispatch on the answer (replace, escape, copy). A loop that calls it to
// step over characters without that dispatch lets the two separators through unescaped (HTMLEscape and Marshal write
// a raw U+2028 behind any multi-byte character). Obligation: every call of decodeRuneInString is in a function whose
// body holds a switch with a case for lineSepState or paragraphSepState, or (the writers without HTML escaping) for
// runeErrorState only where the function's name does not say HTML.
func c18r16(rc *core.RC) {
	p := rc.P
	n := 0
	for _, fd := range p.Funcs("encoder") {
		if fd.Body == nil {
			continue
		}
		info := p.Info(fd)
		calls := 0
		var first *ast.CallExpr
		ast.Inspect(fd.Body, func(m ast.Node) bool {
			if c, ok := m.(*ast.CallExpr); ok && core.CalleeName(info, c) == "encoder.decodeRuneInString" {
				calls++
				if first == nil {
					first = c
				}
			}
			return true
		})
		if calls == 0 {
			continue
		}
		n++
		rc.Touch(p.FuncName(fd))
		key := p.FuncName(fd) + "/decoded-characters-are-dispatched-on"
		cases := map[string]bool{}
		ast.Inspect(fd.Body, func(m ast.Node) bool {
			if cc, ok := m.(*ast.CaseClause); ok {
				for _, e := range cc.List {
					if id, isID := core.Unparen(e).(*ast.Ident); isID {
						cases[id.Name] = true
					}
				}
			}
			return true
		})
		html := strings.Contains(fd.Name.Name, "HTML")
		switch {
		case cases["lineSepState"] || cases["paragraphSepState"]:
			rc.OK(key, first.Pos(), "the state of every decoded character goes through a switch with the separator cases")
		case !html && cases["runeErrorState"] && !strings.Contains(strings.ToLower(fd.Name.Name), "skip"):
			rc.OK(key, first.Pos(), "a writer without HTML escaping: invalid characters are replaced, the separators are copied")
		default:
			rc.Bad(key, first.Pos(), "%s steps over multi-byte characters with decodeRuneInString and has no case for lineSepState / paragraphSepState: U+2028 and U+2029 behind another multi-byte character are taken for ordinary characters and written raw where HTML escaping is on", p.FuncName(fd))
		}
	}
	if n < 2 {
		rc.Unknown("encoder/decodeRuneInString-callers", token.NoPos, "found %d functions that call decodeRuneInString, fewer than the 2 confirmed by hand", n)
	}
}
