package rules

import (
	"fmt"
	"go/ast"
	"go/constant"
	"go/token"
	"go/types"
	"sort"
	"strings"

	"verif/checker/core"
)

// opTable is the encoder's opcode name table and constants, read from source.
type opTable struct {
	names  []string       // opTypeStrings
	index  map[string]int // name -> index
	consts map[string]int // "OpX" -> value
	byVal  map[int]string // value -> "OpX"
	pos    token.Pos
	optype types.Type
}

func loadOpTable(rc *core.RC) *opTable {
	pk := rc.P.Pkg("encoder")
	obj, _ := pk.Types.Scope().Lookup("opTypeStrings").(*types.Var)
	tn, _ := pk.Types.Scope().Lookup("OpType").(*types.TypeName)
	if obj == nil || tn == nil {
		rc.Unknown("encoder.opTypeStrings", token.NoPos, "opcode name table or OpType not found")
		return nil
	}
	t := &opTable{index: map[string]int{}, consts: map[string]int{}, byVal: map[int]string{}, pos: obj.Pos(), optype: tn.Type()}
	info := pk.TypesInfo
	for _, f := range pk.Syntax {
		ast.Inspect(f, func(n ast.Node) bool {
			vs, ok := n.(*ast.ValueSpec)
			if !ok {
				return true
			}
			for i, id := range vs.Names {
				if info.Defs[id] == obj && i < len(vs.Values) {
					if cl, ok := vs.Values[i].(*ast.CompositeLit); ok {
						for _, e := range cl.Elts {
							cv := core.ConstValue(info, e)
							if cv == nil || cv.Kind() != constant.String {
								rc.Unknown("encoder.opTypeStrings/elem", e.Pos(), "non-constant element")
								continue
							}
							t.names = append(t.names, constant.StringVal(cv))
						}
					}
				}
			}
			return true
		})
	}
	for i, n := range t.names {
		if _, dup := t.index[n]; !dup {
			t.index[n] = i
		}
	}
	sc := pk.Types.Scope()
	for _, n := range sc.Names() {
		c, ok := sc.Lookup(n).(*types.Const)
		if !ok || !types.Identical(c.Type(), tn.Type()) {
			continue
		}
		v, _ := constant.Int64Val(constant.ToInt(c.Val()))
		t.consts[n] = int(v)
		t.byVal[int(v)] = n
	}
	return t
}

func (t *opTable) str(i int) string {
	if i < 0 || i >= len(t.names) {
		return ""
	}
	return t.names[i]
}

// The five conversions, folded over the extracted name table with the offsets
// read from the function bodies. They mirror the *shape* the generated code
// has (substring test of the neighbour at a fixed offset).
type opConv struct {
	toPtr, toOmitHead, toOmitField, toEnd int
}

func readOffsets(rc *core.RC) (opConv, bool) {
	p := rc.P
	get := func(fn, cname string) (int, bool) {
		fd := p.Func("encoder", "OpType."+fn)
		if fd == nil {
			rc.Unknown("encoder.OpType."+fn, token.NoPos, "conversion function not found")
			return 0, false
		}
		rc.Touch("encoder.OpType." + fn)
		info := p.Info(fd)
		val, found := 0, false
		ast.Inspect(fd.Body, func(n ast.Node) bool {
			if vs, ok := n.(*ast.ValueSpec); ok {
				for i, id := range vs.Names {
					if c, ok := info.Defs[id].(*types.Const); ok && i < len(vs.Values) {
						v, _ := constant.Int64Val(constant.ToInt(c.Val()))
						val, found = int(v), true
					}
				}
			}
			return true
		})
		// sign: int(t)+off or int(t)-off
		sign := 1
		ast.Inspect(fd.Body, func(n ast.Node) bool {
			if be, ok := n.(*ast.BinaryExpr); ok && be.Op == token.SUB {
				if id, ok := be.Y.(*ast.Ident); ok {
					if _, isC := info.Uses[id].(*types.Const); isC {
						sign = -1
					}
				}
			}
			return true
		})
		if !found {
			rc.Unknown("encoder.OpType."+fn+"/offset", fd.Pos(), "offset constant not found in body")
		}
		return sign * val, found
	}
	var c opConv
	var ok [5]bool
	c.toPtr, ok[0] = get("HeadToPtrHead", "toPtrOffset")
	c.toOmitHead, ok[1] = get("HeadToOmitEmptyHead", "toOmitEmptyOffset")
	c.toOmitField, ok[2] = get("FieldToOmitEmptyField", "toOmitEmptyOffset")
	c.toEnd, ok[3] = get("FieldToEnd", "toEndOffset")
	back, ok4 := get("PtrHeadToHead", "toPtrOffset")
	ok[4] = ok4
	for _, o := range ok {
		if !o {
			return c, false
		}
	}
	if back != -c.toPtr {
		rc.Bad("encoder.OpType.PtrHeadToHead/offset", token.NoPos, "PtrHeadToHead moves by %d but HeadToPtrHead by %d: they are not inverse", back, c.toPtr)
	}
	return c, true
}

func c01r1(rc *core.RC) {
	t := loadOpTable(rc)
	if t == nil {
		return
	}
	off, ok := readOffsets(rc)
	if !ok {
		return
	}
	rc.Check(len(t.names) == len(t.consts), "encoder.opTypeStrings/len", t.pos, "%d names, %d OpType constants", len(t.names), len(t.consts))
	// constants index the table by name
	var cn []string
	for n := range t.consts {
		cn = append(cn, n)
	}
	sort.Strings(cn)
	for _, n := range cn {
		v := t.consts[n]
		rc.Check(t.str(v) == strings.TrimPrefix(n, "Op"), "encoder."+n, t.pos, "constant %s = %d but opTypeStrings[%d] = %q", n, v, v, t.str(v))
	}
	// quadruples
	for i, n := range t.names {
		if strings.HasPrefix(n, "StructHead") && !strings.HasPrefix(n, "StructHeadOmitEmpty") {
			stem := strings.TrimPrefix(n, "StructHead")
			want := map[int]string{
				off.toOmitHead:             "StructHeadOmitEmpty" + stem,
				off.toPtr:                  "StructPtrHead" + stem,
				off.toPtr + off.toOmitHead: "StructPtrHeadOmitEmpty" + stem,
			}
			for d, w := range want {
				rc.Check(t.str(i+d) == w, fmt.Sprintf("encoder.opTypeStrings/%s+%d", n, d), t.pos, "entry at offset %+d from %s is %q; the conversion functions require %q", d, n, t.str(i+d), w)
			}
		}
		if strings.HasPrefix(n, "StructField") && !strings.HasPrefix(n, "StructFieldOmitEmpty") {
			stem := strings.TrimPrefix(n, "StructField")
			want := map[int]string{
				off.toOmitField:             "StructFieldOmitEmpty" + stem,
				off.toEnd:                   "StructEnd" + stem,
				off.toEnd + off.toOmitField: "StructEndOmitEmpty" + stem,
			}
			for d, w := range want {
				rc.Check(t.str(i+d) == w, fmt.Sprintf("encoder.opTypeStrings/%s+%d", n, d), t.pos, "entry at offset %+d from %s is %q; the conversion functions require %q", d, n, t.str(i+d), w)
			}
		}
	}
}

// conversions evaluated on the name table
func (t *opTable) convs(off opConv) []func(int) int {
	has := strings.Contains
	return []func(int) int{
		func(i int) int { // HeadToPtrHead
			s := t.str(i)
			if strings.Index(s, "PtrHead") > 0 {
				return i
			}
			idx := strings.Index(s, "Head")
			if idx == -1 {
				return i
			}
			if has(t.str(i+off.toPtr), "PtrHead"+s[idx+4:]) {
				return i + off.toPtr
			}
			return i
		},
		func(i int) int { // HeadToOmitEmptyHead / FieldToOmitEmptyField
			if has(t.str(i+off.toOmitHead), "OmitEmpty") {
				return i + off.toOmitHead
			}
			return i
		},
		func(i int) int { // PtrHeadToHead
			s := t.str(i)
			idx := strings.Index(s, "PtrHead")
			if idx == -1 {
				return i
			}
			if has(t.str(i-off.toPtr), s[idx+3:]) {
				return i - off.toPtr
			}
			return i
		},
		func(i int) int { // FieldToEnd
			s := t.str(i)
			idx := strings.Index(s, "Field")
			if idx == -1 {
				return i
			}
			suf := s[idx+5:]
			if suf == "" || suf == "OmitEmpty" {
				return i
			}
			if has(t.str(i+off.toEnd), "End"+suf) {
				return i + off.toEnd
			}
			return i
		},
	}
}

// vmCases returns the set of OpType constants with a case in the `switch
// code.Op` of Run in the given VM package.
func vmCases(rc *core.RC, vm string, t *opTable) (map[int]bool, *ast.SwitchStmt) {
	fd := rc.P.Func(vm, "Run")
	if fd == nil {
		rc.Unknown(vm+".Run", token.NoPos, "interpreter entry not found")
		return nil, nil
	}
	rc.Touch(vm + ".Run")
	info := rc.P.Info(fd)
	var best *ast.SwitchStmt
	bestN := 0
	ast.Inspect(fd.Body, func(n ast.Node) bool {
		sw, ok := n.(*ast.SwitchStmt)
		if !ok || sw.Tag == nil {
			return true
		}
		tv := info.Types[sw.Tag]
		if tv.Type == nil || !types.Identical(tv.Type, t.optype) {
			return true
		}
		if n := len(sw.Body.List); n > bestN {
			best, bestN = sw, n
		}
		return true
	})
	if best == nil {
		rc.Unknown(vm+".Run/switch", fd.Pos(), "opcode dispatch switch not found")
		return nil, nil
	}
	set := map[int]bool{}
	for _, st := range best.Body.List {
		for _, e := range st.(*ast.CaseClause).List {
			if v, ok := core.ConstInt(info, e); ok {
				set[int(v)] = true
			}
		}
	}
	return set, best
}

func c01r2(rc *core.RC) {
	t := loadOpTable(rc)
	if t == nil {
		return
	}
	off, ok := readOffsets(rc)
	if !ok {
		return
	}
	pk := rc.P.Pkg("encoder")
	info := pk.TypesInfo
	// seeds: OpType constants in emitting positions (not case labels, not comparisons) outside optype.go
	seeds := map[int]token.Pos{}
	for _, f := range pk.Syntax {
		if rc.P.FileBase(f.Pos()) == "optype.go" {
			continue
		}
		var stack []ast.Node
		ast.Inspect(f, func(n ast.Node) bool {
			if n == nil {
				stack = stack[:len(stack)-1]
				return true
			}
			stack = append(stack, n)
			id, ok := n.(*ast.Ident)
			if !ok {
				return true
			}
			c, ok := info.Uses[id].(*types.Const)
			if !ok || !types.Identical(c.Type(), t.optype) {
				return true
			}
			// parent decides
			if len(stack) >= 2 {
				switch par := stack[len(stack)-2].(type) {
				case *ast.CaseClause:
					for _, e := range par.List {
						if e == ast.Expr(id) {
							return true
						}
					}
				case *ast.BinaryExpr:
					if par.Op == token.EQL || par.Op == token.NEQ {
						return true
					}
				}
			}
			v, _ := constant.Int64Val(constant.ToInt(c.Val()))
			if _, ok := seeds[int(v)]; !ok {
				seeds[int(v)] = id.Pos()
			}
			return true
		})
	}
	if len(seeds) < 100 {
		rc.Unknown("encoder/seeds", token.NoPos, "only %d emitted opcode constants found in the compiler (confirmed: 125)", len(seeds))
	}
	closure := map[int]string{}
	var work []int
	for s := range seeds {
		closure[s] = "emitted literally"
		work = append(work, s)
	}
	convs := t.convs(off)
	cname := []string{"HeadToPtrHead", "…ToOmitEmpty…", "PtrHeadToHead", "FieldToEnd"}
	endDomain := fieldToEndDomain(rc, t)
	if endDomain == nil {
		return
	}
	// the OmitEmpty conversions are applied only to what ToHeaderType / ToFieldType return
	omitDomain := map[int]bool{}
	for _, fn := range []string{"Opcode.ToHeaderType", "Opcode.ToFieldType"} {
		fd := rc.P.Func("encoder", fn)
		if fd == nil {
			rc.Unknown("encoder."+fn, token.NoPos, "anchor not found")
			return
		}
		ast.Inspect(fd.Body, func(n ast.Node) bool {
			if r, ok := n.(*ast.ReturnStmt); ok {
				for k := range opConstsIn(info, r, t) {
					omitDomain[k] = true
				}
			}
			return true
		})
	}
	for len(work) > 0 {
		x := work[len(work)-1]
		work = work[:len(work)-1]
		for ci, f := range convs {
			if ci == 1 && !omitDomain[x] {
				continue
			}
			if ci == 3 && !endDomain[x] {
				continue // FieldToEnd is applied only to fields whose value code enables the struct-end optimisation
			}
			y := f(x)
			if ci == 1 && endDomain[x] {
				endDomain[y] = true
			}
			if _, ok := closure[y]; !ok && y >= 0 && y < len(t.names) {
				closure[y] = cname[ci] + "(" + t.str(x) + ")"
				work = append(work, y)
			}
		}
	}
	var ops []int
	for o := range closure {
		ops = append(ops, o)
	}
	sort.Ints(ops)
	for _, vm := range core.VMPkgs {
		cases, sw := vmCases(rc, vm, t)
		if cases == nil {
			continue
		}
		// end markers addressed only as code.End.Next: verify no `code = code.End` style jump lands on them
		for _, o := range ops {
			key := fmt.Sprintf("%s.Run/case Op%s", vm, t.str(o))
			if cases[o] {
				rc.OK(key, sw.Pos(), "handler present (%s)", closure[o])
				continue
			}
			name := t.str(o)
			if name == "SliceEnd" || name == "ArrayEnd" {
				if endMarkerOnlySkipped(rc, vm, sw) {
					rc.OK(key, sw.Pos(), "structural end marker: never the current op (every jump to code.End continues at code.End.Next)")
					continue
				}
			}
			rc.Bad(key, sw.Pos(), "the compiler can emit Op%s (%s) but %s.Run has no case for it: Marshal fails with \"opcode has not been implemented\" where encoding/json succeeds", name, closure[o], vm)
		}
	}
}

// endMarkerOnlySkipped verifies that in the interpreter no statement assigns
// `code = code.End` (which would make an end marker the current op); only
// `code = code.End.Next` is allowed.
func endMarkerOnlySkipped(rc *core.RC, vm string, sw *ast.SwitchStmt) bool {
	ok := true
	// the program counter is the variable whose Op field the dispatch switches on, whatever it is called
	pc := "code"
	if tag, isSel := core.Unparen(sw.Tag).(*ast.SelectorExpr); isSel {
		if id, isID := core.Unparen(tag.X).(*ast.Ident); isID {
			pc = id.Name
		}
	}
	ast.Inspect(sw, func(n ast.Node) bool {
		as, isAs := n.(*ast.AssignStmt)
		if !isAs || len(as.Lhs) != 1 || len(as.Rhs) != 1 {
			return true
		}
		l, isId := as.Lhs[0].(*ast.Ident)
		if !isId || l.Name != pc {
			return true
		}
		if sel, isSel := as.Rhs[0].(*ast.SelectorExpr); isSel && sel.Sel.Name == "End" {
			if x, isX := sel.X.(*ast.Ident); isX && x.Name == pc {
				// `code = code.End` is legal for map ops whose End is OpMapEnd (has a handler); flag only in slice/array clauses
				path := core.PathTo(sw, as)
				for _, pn := range path {
					if cc, isCC := pn.(*ast.CaseClause); isCC {
						for _, e := range cc.List {
							if id, isI := e.(*ast.Ident); isI && (strings.Contains(id.Name, "Slice") || strings.Contains(id.Name, "Array")) && !strings.Contains(id.Name, "Struct") {
								ok = false
							}
						}
					}
				}
			}
		}
		return true
	})
	return ok
}

// ---- C01.R3 kind coverage ----

var reflectKinds = map[int]string{
	1: "Bool", 2: "Int", 3: "Int8", 4: "Int16", 5: "Int32", 6: "Int64", 7: "Uint", 8: "Uint8", 9: "Uint16", 10: "Uint32", 11: "Uint64", 12: "Uintptr",
	13: "Float32", 14: "Float64", 15: "Complex64", 16: "Complex128", 17: "Array", 18: "Chan", 19: "Func", 20: "Interface", 21: "Map", 22: "Ptr", 23: "Slice",
	24: "String", 25: "Struct", 26: "UnsafePointer",
}

var jsonKinds = []string{"Bool", "Int", "Int8", "Int16", "Int32", "Int64", "Uint", "Uint8", "Uint16", "Uint32", "Uint64", "Uintptr", "Float32", "Float64", "Array", "Interface", "Map", "Ptr", "Slice", "String", "Struct"}
var nonJSONKinds = []string{"Complex64", "Complex128", "Chan", "Func", "UnsafePointer"}

// kindSwitches returns the switches of fd whose tag has type reflect.Kind,
// with labels mapped to kind names.
type kindSwitch struct {
	sw     *ast.SwitchStmt
	clause map[string]*ast.CaseClause
	deflt  *ast.CaseClause
}

func kindSwitches(info *types.Info, fd *ast.FuncDecl) []*kindSwitch {
	var out []*kindSwitch
	ast.Inspect(fd.Body, func(n ast.Node) bool {
		sw, ok := n.(*ast.SwitchStmt)
		if !ok || sw.Tag == nil {
			return true
		}
		tv := info.Types[sw.Tag]
		nt, ok := tv.Type.(*types.Named)
		if !ok || nt.Obj().Name() != "Kind" || nt.Obj().Pkg() == nil || nt.Obj().Pkg().Path() != "reflect" {
			return true
		}
		ks := &kindSwitch{sw: sw, clause: map[string]*ast.CaseClause{}}
		for _, st := range sw.Body.List {
			cc := st.(*ast.CaseClause)
			if cc.List == nil {
				ks.deflt = cc
			}
			for _, e := range cc.List {
				if v, ok := core.ConstInt(info, e); ok {
					ks.clause[reflectKinds[int(v)]] = cc
				}
			}
		}
		out = append(out, ks)
		return true
	})
	return out
}

// clauseReturnsCall: last statement is `return f(...)` (a constructor), not an error literal.
func clauseReturnsCall(info *types.Info, cc *ast.CaseClause) (string, bool) {
	if len(cc.Body) == 0 {
		return "", false
	}
	r, ok := cc.Body[len(cc.Body)-1].(*ast.ReturnStmt)
	if !ok || len(r.Results) == 0 {
		return "", false
	}
	call, ok := core.Unparen(r.Results[0]).(*ast.CallExpr)
	if !ok {
		return "", false
	}
	return core.CalleeName(info, call), true
}

func c01r3(rc *core.RC) {
	p := rc.P
	for _, fname := range []string{"Compiler.typeToCode", "Compiler.typeToCodeWithPtr"} {
		fd := p.Func("encoder", fname)
		if fd == nil {
			rc.Unknown("encoder."+fname, token.NoPos, "anchor not found")
			continue
		}
		rc.Touch("encoder." + fname)
		info := p.Info(fd)
		kss := kindSwitches(info, fd)
		if len(kss) == 0 {
			rc.Unknown("encoder."+fname+"/kind-switch", fd.Pos(), "no switch over reflect.Kind")
			continue
		}
		ks := kss[len(kss)-1]
		hasDelegate := false
		if ks.deflt != nil {
			if cn, ok := clauseReturnsCall(info, ks.deflt); ok && strings.HasSuffix(cn, "typeToCodeWithPtr") {
				hasDelegate = true
			}
		}
		for _, k := range jsonKinds {
			key := fmt.Sprintf("encoder.%s/kind %s", fname, k)
			cc := ks.clause[k]
			if cc == nil {
				if hasDelegate {
					rc.OK(key, ks.sw.Pos(), "delegated to typeToCodeWithPtr by the default clause")
				} else {
					rc.Bad(key, ks.sw.Pos(), "reflect.%s has no clause: values of this kind get UnsupportedTypeError where encoding/json encodes them", k)
				}
				continue
			}
			if cn, ok := clauseReturnsCall(info, cc); ok {
				rc.OK(key, cc.Pos(), "routed to %s", cn)
			} else {
				rc.Bad(key, cc.Pos(), "clause for reflect.%s does not return a code constructor", k)
			}
		}
		for _, k := range nonJSONKinds {
			key := fmt.Sprintf("encoder.%s/kind %s", fname, k)
			rc.Check(ks.clause[k] == nil, key, ks.sw.Pos(), "reflect.%s must reach UnsupportedTypeError (encoding/json rejects it)", k)
		}
	}
	// map keys
	fd := p.Func("encoder", "Compiler.mapKeyCode")
	if fd == nil {
		rc.Unknown("encoder.Compiler.mapKeyCode", token.NoPos, "anchor not found")
		return
	}
	info := p.Info(fd)
	kss := kindSwitches(info, fd)
	if len(kss) == 0 {
		rc.Unknown("encoder.Compiler.mapKeyCode/kind-switch", fd.Pos(), "no switch over reflect.Kind")
		return
	}
	ks := kss[len(kss)-1]
	for _, k := range []string{"String", "Int", "Int8", "Int16", "Int32", "Int64", "Uint", "Uint8", "Uint16", "Uint32", "Uint64", "Uintptr"} {
		key := "encoder.Compiler.mapKeyCode/kind " + k
		cc := ks.clause[k]
		if cc == nil {
			rc.Bad(key, ks.sw.Pos(), "map key kind %s has no clause (encoding/json supports it)", k)
			continue
		}
		_, ok := clauseReturnsCall(info, cc)
		rc.Check(ok, key, cc.Pos(), "routed to a key code constructor")
	}
}

// ---- C01.R4 copy completeness ----

// writtenFields returns the fields of struct st assigned anywhere in pkg
// (composite literal keys or x.f = … statements).
func writtenFields(rc *core.RC, short string, st *types.Struct) map[*types.Var]bool {
	pk := rc.P.Pkg(short)
	info := pk.TypesInfo
	own := map[*types.Var]bool{}
	for i := 0; i < st.NumFields(); i++ {
		own[st.Field(i)] = false
	}
	for _, f := range pk.Syntax {
		ast.Inspect(f, func(n ast.Node) bool {
			switch x := n.(type) {
			case *ast.KeyValueExpr:
				if id, ok := x.Key.(*ast.Ident); ok {
					if v, ok := info.Uses[id].(*types.Var); ok {
						if _, mine := own[v]; mine {
							own[v] = true
						}
					}
				}
			case *ast.AssignStmt:
				for _, l := range x.Lhs {
					if v := core.FieldOf(info, l); v != nil {
						if _, mine := own[v]; mine {
							own[v] = true
						}
					}
				}
			case *ast.IncDecStmt:
				if v := core.FieldOf(info, x.X); v != nil {
					if _, mine := own[v]; mine {
						own[v] = true
					}
				}
			}
			return true
		})
	}
	return own
}

// checkCopy verifies that fd mentions every written field of the struct in a
// composite literal of that struct type or a field assignment, and that a
// value of the form src.G assigned to field F has G == F.
func checkCopy(rc *core.RC, short string, fd *ast.FuncDecl, named *types.Named, label string) {
	st, ok := named.Underlying().(*types.Struct)
	if !ok {
		return
	}
	info := rc.P.Info(fd)
	written := writtenFields(rc, short, st)
	mentioned := map[*types.Var]bool{}
	hasLit := false
	ast.Inspect(fd.Body, func(n ast.Node) bool {
		switch x := n.(type) {
		case *ast.CompositeLit:
			tv := info.Types[x]
			tt := tv.Type
			if pt, ok := tt.(*types.Pointer); ok {
				tt = pt.Elem()
			}
			if !types.Identical(tt, named) {
				return true
			}
			hasLit = true
			for _, e := range x.Elts {
				kv, ok := e.(*ast.KeyValueExpr)
				if !ok {
					continue
				}
				id, _ := kv.Key.(*ast.Ident)
				fv, _ := info.Uses[id].(*types.Var)
				if fv == nil {
					continue
				}
				mentioned[fv] = true
				if src := core.FieldOf(info, kv.Value); src != nil {
					if _, same := written[src]; same && src != fv {
						rc.Bad(fmt.Sprintf("%s/field %s", label, fv.Name()), kv.Pos(), "copy assigns field %s from source field %s", fv.Name(), src.Name())
					}
				}
			}
		case *ast.AssignStmt:
			for _, l := range x.Lhs {
				if v := core.FieldOf(info, l); v != nil {
					mentioned[v] = true
				}
			}
		}
		return true
	})
	if !hasLit {
		return
	}
	for i := 0; i < st.NumFields(); i++ {
		f := st.Field(i)
		key := fmt.Sprintf("%s/field %s", label, f.Name())
		if !written[f] {
			rc.OK(key, fd.Pos(), "field is never assigned anywhere in package %s: exempt", short)
			continue
		}
		rc.Check(mentioned[f], key, fd.Pos(), "field %s of %s is set elsewhere in the package but is not carried over by this copy", f.Name(), named.Obj().Name())
	}
}

func c01r4(rc *core.RC) {
	p := rc.P
	pk := p.Pkg("encoder")
	opc, _ := pk.Types.Scope().Lookup("Opcode").(*types.TypeName)
	fd := p.Func("encoder", "copyOpcode")
	if opc == nil || fd == nil {
		rc.Unknown("encoder.copyOpcode", token.NoPos, "anchor not found")
	} else {
		rc.Touch("encoder.copyOpcode")
		checkCopy(rc, "encoder", fd, opc.Type().(*types.Named), "encoder.copyOpcode")
	}
	// every other function of the package that makes an Opcode from the fields of another one (five or more elements
	// of the form F: x.F) is a copy as well
	if opc != nil {
		for _, g := range p.Funcs("encoder") {
			if g.Body == nil || g == fd {
				continue
			}
			ginfo := p.Info(g)
			copies := false
			ast.Inspect(g.Body, func(m ast.Node) bool {
				cl, ok := m.(*ast.CompositeLit)
				if !ok {
					return true
				}
				tv, has := ginfo.Types[cl]
				if !has || !types.Identical(tv.Type, opc.Type()) {
					return true
				}
				same := 0
				for _, e := range cl.Elts {
					if kv, isKV := e.(*ast.KeyValueExpr); isKV {
						if id, isID := kv.Key.(*ast.Ident); isID {
							if sel, isSel := core.Unparen(kv.Value).(*ast.SelectorExpr); isSel && sel.Sel.Name == id.Name {
								same++
							}
						}
					}
				}
				if same >= 5 {
					copies = true
				}
				return true
			})
			if copies {
				rc.Touch(p.FuncName(g))
				checkCopy(rc, "encoder", g, opc.Type().(*types.Named), p.FuncName(g))
			}
		}
	}
	// Filter methods that rebuild their receiver
	for _, fd := range p.Funcs("encoder") {
		if fd.Recv == nil || fd.Name.Name != "Filter" || fd.Body == nil {
			continue
		}
		obj, _ := pk.TypesInfo.Defs[fd.Name].(*types.Func)
		if obj == nil {
			continue
		}
		rt := obj.Type().(*types.Signature).Recv().Type()
		if pt, ok := rt.(*types.Pointer); ok {
			rt = pt.Elem()
		}
		named, ok := rt.(*types.Named)
		if !ok {
			continue
		}
		rc.Touch(p.FuncName(fd))
		checkCopy(rc, "encoder", fd, named, p.FuncName(fd))
	}
}

// opConstsIn collects the OpType constants used in emitting positions of a body.
func opConstsIn(info *types.Info, n ast.Node, t *opTable) map[int]bool {
	out := map[int]bool{}
	ast.Inspect(n, func(x ast.Node) bool {
		if id, ok := x.(*ast.Ident); ok {
			if c, ok := info.Uses[id].(*types.Const); ok && types.Identical(c.Type(), t.optype) {
				v, _ := constant.Int64Val(constant.ToInt(c.Val()))
				out[int(v)] = true
			}
		}
		return true
	})
	return out
}

// switchMap reads a `switch x.Op { case A,B: … return C … }` function as a
// relation label -> returned constants.
func switchMap(info *types.Info, fd *ast.FuncDecl, t *opTable) map[int]map[int]bool {
	rel := map[int]map[int]bool{}
	ast.Inspect(fd.Body, func(n ast.Node) bool {
		cc, ok := n.(*ast.CaseClause)
		if !ok {
			return true
		}
		rets := map[int]bool{}
		for _, st := range cc.Body {
			ast.Inspect(st, func(x ast.Node) bool {
				if r, ok := x.(*ast.ReturnStmt); ok {
					for k := range opConstsIn(info, r, t) {
						rets[k] = true
					}
				}
				return true
			})
		}
		for _, e := range cc.List {
			if v, ok := core.ConstInt(info, e); ok {
				if rel[int(v)] == nil {
					rel[int(v)] = map[int]bool{}
				}
				for k := range rets {
					rel[int(v)][k] = true
				}
			}
		}
		return true
	})
	return rel
}

// fieldToEndDomain derives, from isEnableStructEndOptimization, the Kind()
// methods, the ToOpcode methods, convertPtrOp and ToFieldType, the set of field
// opcodes to which the compiler applies FieldToEnd.
func fieldToEndDomain(rc *core.RC, t *opTable) map[int]bool {
	p := rc.P
	pk := p.Pkg("encoder")
	info := pk.TypesInfo
	en := p.Func("encoder", "isEnableStructEndOptimization")
	conv := p.Func("encoder", "convertPtrOp")
	tft := p.Func("encoder", "Opcode.ToFieldType")
	if en == nil || conv == nil || tft == nil {
		rc.Unknown("encoder/struct-end-optimisation", token.NoPos, "anchors isEnableStructEndOptimization/convertPtrOp/ToFieldType not found")
		return nil
	}
	kinds := map[types.Object]bool{}
	ast.Inspect(en.Body, func(n ast.Node) bool {
		if cc, ok := n.(*ast.CaseClause); ok {
			for _, e := range cc.List {
				if o := core.ObjOf(info, e); o != nil {
					kinds[o] = true
				}
			}
		}
		return true
	})
	base := map[int]bool{}
	for _, fd := range p.Funcs("encoder") {
		if fd.Recv == nil || fd.Name.Name != "Kind" || fd.Body == nil {
			continue
		}
		enabled := false
		ast.Inspect(fd.Body, func(n ast.Node) bool {
			if r, ok := n.(*ast.ReturnStmt); ok && len(r.Results) == 1 && kinds[core.ObjOf(info, r.Results[0])] {
				enabled = true
			}
			return true
		})
		if !enabled {
			continue
		}
		recv := core.RecvString(fd.Recv.List[0].Type)
		recv = strings.Trim(recv, "(*)")
		if to := p.Func("encoder", recv+".ToOpcode"); to != nil {
			for k := range opConstsIn(info, to.Body, t) {
				base[k] = true
			}
		}
	}
	if len(base) < 6 {
		rc.Unknown("encoder/struct-end-optimisation/base", en.Pos(), "only %d base opcodes derived for the enabled code kinds", len(base))
		return nil
	}
	cm := switchMap(info, conv, t)
	for changed := true; changed; {
		changed = false
		for l, rs := range cm {
			if base[l] {
				for r := range rs {
					if !base[r] {
						base[r] = true
						changed = true
					}
				}
			}
		}
	}
	dom := map[int]bool{}
	for l, rs := range switchMap(info, tft, t) {
		if base[l] {
			for r := range rs {
				dom[r] = true
			}
		}
	}
	return dom
}

// ---- C01.R5 every handler uses the primitive its opcode names ----

var opFamilies = []string{"Float32", "Float64", "Uint", "Int", "Bool", "Bytes", "Number", "MarshalJSON", "MarshalText", "Interface", "Array", "Slice", "Map", "Struct", "String"}

// opFamily derives the value family from an opcode name: the positional prefix
// (StructHead…, StructField…, StructEnd…) and the Ptr/String suffixes are stripped.
func opFamily(name string) string {
	s := name
	for _, pre := range []string{"StructPtrHeadOmitEmpty", "StructHeadOmitEmpty", "StructPtrHead", "StructHead", "StructFieldOmitEmpty", "StructField", "StructEndOmitEmpty", "StructEnd"} {
		if strings.HasPrefix(s, pre) {
			s = strings.TrimPrefix(s, pre)
			break
		}
	}
	for _, suf := range []string{"PtrString", "Ptr"} {
		if strings.HasSuffix(s, suf) && len(s) > len(suf) {
			s = strings.TrimSuffix(s, suf)
		}
	}
	if strings.HasSuffix(s, "String") && s != "String" {
		s = strings.TrimSuffix(s, "String")
	}
	for _, f := range opFamilies {
		if s == f {
			return f
		}
	}
	return ""
}

var familyAppender = map[string]string{
	"Int": "appendInt", "Uint": "appendUint", "Float32": "appendFloat32", "Float64": "appendFloat64", "Bool": "appendBool",
	"String": "appendString", "Bytes": "appendByteSlice", "Number": "appendNumber", "MarshalJSON": "appendMarshalJSON", "MarshalText": "appendMarshalText",
}

var familyLoader = map[string]string{
	"Float32": "ptrToFloat32", "Float64": "ptrToFloat64", "Bool": "ptrToBool", "String": "ptrToString", "Bytes": "ptrToBytes", "Number": "ptrToNumber",
}

func c01r5(rc *core.RC) {
	p := rc.P
	t := loadOpTable(rc)
	if t == nil {
		return
	}
	allAppenders := map[string]bool{}
	for _, a := range familyAppender {
		allAppenders[a] = true
	}
	allLoaders := map[string]bool{}
	for _, l := range familyLoader {
		allLoaders[l] = true
	}
	for _, vm := range core.VMPkgs {
		cl, sw := opClauses(rc, vm, t)
		if cl == nil {
			continue
		}
		pk := p.Pkg(vm)
		info := pk.TypesInfo
		// the plain packages alias encoder functions: the alias must point at the function of the same name
		for a := range allAppenders {
			if _, isVar := pk.Types.Scope().Lookup(a).(*types.Var); isVar {
				_, target := vmAlias(rc, vm, a)
				want := strings.ToUpper(a[:1]) + a[1:]
				if a == "appendMarshalJSON" || a == "appendMarshalText" {
					continue
				}
				rc.Check(target != nil && target.Name() == want, fmt.Sprintf("%s.%s/alias", vm, a), sw.Pos(), "package variable %s aliases encoder.%s", a, want)
			}
		}
		var keys []string
		for k := range cl {
			keys = append(keys, k)
		}
		sort.Strings(keys)
		for _, k := range keys {
			cc := cl[k]
			fams := map[string]bool{}
			for _, lab := range strings.Split(k, ",") {
				if f := opFamily(strings.TrimPrefix(lab, "Op")); f != "" {
					fams[f] = true
				}
			}
			if len(fams) != 1 {
				continue
			}
			var fam string
			for f := range fams {
				fam = f
			}
			wantApp, scalar := familyAppender[fam]
			if !scalar {
				continue
			}
			used := map[string]bool{}
			loaders := map[string]bool{}
			// a clause ending in `fallthrough` continues in the next clause: follow the chain
			for cur := cc; cur != nil; {
				ast.Inspect(cur, func(n ast.Node) bool {
					call, ok := n.(*ast.CallExpr)
					if !ok {
						return true
					}
					if o := calledIdent(info, call); o != nil && o.Pkg() == pk.Types {
						if allAppenders[o.Name()] {
							used[o.Name()] = true
						}
						if allLoaders[o.Name()] {
							loaders[o.Name()] = true
						}
					}
					return true
				})
				next := (*ast.CaseClause)(nil)
				if n := len(cur.Body); n > 0 {
					if br, ok := cur.Body[n-1].(*ast.BranchStmt); ok && br.Tok == token.FALLTHROUGH {
						for i, st := range sw.Body.List {
							if st == ast.Stmt(cur) && i+1 < len(sw.Body.List) {
								next = sw.Body.List[i+1].(*ast.CaseClause)
							}
						}
					}
				}
				cur = next
			}
			key := fmt.Sprintf("%s.Run/case %s/value-primitive", vm, strings.Split(k, ",")[0])
			var wrong []string
			for u := range used {
				if u != wantApp {
					wrong = append(wrong, u)
				}
			}
			sort.Strings(wrong)
			switch {
			case len(wrong) > 0:
				rc.Bad(key, cc.Pos(), "the handler of a %s opcode formats its value with %s; the opcode names %s: values of that type are printed through the wrong primitive", fam, strings.Join(wrong, ","), wantApp)
			case !used[wantApp]:
				rc.Bad(key, cc.Pos(), "the handler of a %s opcode never calls %s", fam, wantApp)
			default:
				rc.OK(key, cc.Pos(), "%s", wantApp)
			}
			if wl, ok := familyLoader[fam]; ok {
				var wrongL []string
				for l := range loaders {
					if l != wl {
						wrongL = append(wrongL, l)
					}
				}
				sort.Strings(wrongL)
				rc.Check(len(wrongL) == 0 && loaders[wl], fmt.Sprintf("%s.Run/case %s/value-loader", vm, strings.Split(k, ",")[0]), cc.Pos(), "a %s opcode loads its value with %s (found %v)", fam, wl, keysOf(loaders))
			}
		}
	}
}

func keysOf(m map[string]bool) []string {
	var out []string
	for k := range m {
		out = append(out, k)
	}
	sort.Strings(out)
	return out
}

// ---- C01.R6 the two kind routers of the encoder compiler take the same decisions ----

// typeToCode handles the root (and what a pointer points to); typeToCodeWithPtr handles every nested
// position. For a kind both route, the clause bodies must be the same up to the isPtr argument.
func c01r6(rc *core.RC) {
	p := rc.P
	a, b := p.Func("encoder", "Compiler.typeToCode"), p.Func("encoder", "Compiler.typeToCodeWithPtr")
	if a == nil || b == nil {
		rc.Unknown("encoder.typeToCode/typeToCodeWithPtr", token.NoPos, "routers not found")
		return
	}
	rc.Touch("encoder.(*Compiler).typeToCode")
	rc.Touch("encoder.(*Compiler).typeToCodeWithPtr")
	ia, ib := p.Info(a), p.Info(b)
	ka, kb := kindSwitches(ia, a), kindSwitches(ib, b)
	if len(ka) == 0 || len(kb) == 0 {
		rc.Unknown("encoder.typeToCode/kind-switch", a.Pos(), "kind switch not found")
		return
	}
	sa, sb := ka[len(ka)-1], kb[len(kb)-1]
	// the pointer flag, by role: the bool parameter of a router, or else its local of type bool defined as `false`
	flagOf := func(fd *ast.FuncDecl, info *types.Info) string {
		for _, f := range fd.Type.Params.List {
			for _, nm := range f.Names {
				if o := info.Defs[nm]; o != nil && o.Type().String() == "bool" {
					return nm.Name
				}
			}
		}
		flag := "isPtr"
		ast.Inspect(fd.Body, func(m ast.Node) bool {
			as, ok := m.(*ast.AssignStmt)
			if !ok || as.Tok != token.DEFINE || len(as.Lhs) != 1 || len(as.Rhs) != 1 {
				return true
			}
			if v, isFalse := core.Unparen(as.Rhs[0]).(*ast.Ident); isFalse && v.Name == "false" {
				if id, isID := as.Lhs[0].(*ast.Ident); isID {
					flag = id.Name
				}
			}
			return true
		})
		return flag
	}
	optFor := func(fd *ast.FuncDecl, info *types.Info) core.NormOpts {
		flag := flagOf(fd, info)
		return core.NormOpts{Subst: map[string]string{flag: "false"}, DropStmt: func(info *types.Info, st ast.Stmt) bool {
			ifs, ok := st.(*ast.IfStmt)
			if !ok {
				return false
			}
			id, ok := core.Unparen(ifs.Cond).(*ast.Ident)
			return ok && id.Name == flag
		}}
	}
	optA, optB := optFor(a, ia), optFor(b, ib)
	n := 0
	for _, k := range jsonKinds {
		ca, cb := sa.clause[k], sb.clause[k]
		if ca == nil || cb == nil {
			continue
		}
		n++
		na := core.NormalStmts(p.Fset, ia, ca.Body, optA)
		nb := core.NormalStmts(p.Fset, ib, cb.Body, optB)
		key := "encoder.typeToCode~typeToCodeWithPtr/kind " + k
		if i := core.FirstDiff(na, nb); i >= 0 {
			da, db := "<end>", "<end>"
			if i < len(na) {
				da = na[i]
			}
			if i < len(nb) {
				db = nb[i]
			}
			rc.Bad(key, cb.Pos(), "a value of kind %s is routed differently at the root and in a nested position (apart from isPtr): statement %d is `%s` in typeToCode and `%s` in typeToCodeWithPtr; the same Go value would be encoded differently depending on where it sits", k, i+1, oneLine(da), oneLine(db))
		} else {
			rc.OK(key, cb.Pos(), "same decisions in both routers (%d statements, isPtr aside)", len(na))
		}
	}
	if n < 15 {
		rc.Unknown("encoder.typeToCode~typeToCodeWithPtr/kinds", a.Pos(), "only %d kinds are routed by both functions", n)
	}
}

func oneLine(s string) string {
	s = strings.Join(strings.Fields(s), " ")
	if len(s) > 160 {
		s = s[:160] + "…"
	}
	return s
}

// ---- C01.R7 sorted maps are ordered by key, not by encoded text ----

// encoding/json sorts map members by the key string (the resolved text for integer and
// TextMarshaler keys). Mapslice.Less compares MapItem.Key; if that field holds a slice of
// the output buffer, the comparison is over the encoded text including the closing quote,
// the separator and every escape sequence.
func c01r7(rc *core.RC) {
	p := rc.P
	less := p.Func("encoder", "Mapslice.Less")
	if less == nil {
		rc.Unknown("encoder.(*Mapslice).Less", token.NoPos, "comparator not found")
		return
	}
	usesKey := false
	ast.Inspect(less.Body, func(m ast.Node) bool {
		if f := core.FieldOf(p.Info(less), exprOf(m)); f != nil && f.Name() == "Key" {
			usesKey = true
		}
		return true
	})
	if !usesKey {
		rc.Unknown("encoder.(*Mapslice).Less/key", less.Pos(), "the comparator does not read MapItem.Key")
		return
	}
	// does the comparator decode the recorded text? It, or a module function it calls, looks for the quotes and the
	// backslash of the JSON string (comparisons with '"' and '\\')
	decodes := false
	var scan func(fd *ast.FuncDecl, depth int)
	seenFn := map[*ast.FuncDecl]bool{}
	scan = func(fd *ast.FuncDecl, depth int) {
		if fd == nil || fd.Body == nil || seenFn[fd] || depth > 2 {
			return
		}
		seenFn[fd] = true
		info := p.Info(fd)
		quote, backslash := false, false
		ast.Inspect(fd.Body, func(m ast.Node) bool {
			switch x := m.(type) {
			case *ast.BasicLit:
				if v, ok := core.ConstInt(info, x); ok {
					if v == '"' {
						quote = true
					}
					if v == '\\' {
						backslash = true
					}
				}
			case *ast.CallExpr:
				if f := core.Callee(info, x); f != nil && f.Pkg() != nil && f.Pkg().Path() == core.PkgPaths["encoder"] {
					scan(p.DeclOf(f), depth+1)
				}
			}
			return true
		})
		if quote && backslash {
			decodes = true
		}
	}
	scan(less, 0)
	n := 0
	for _, vm := range core.VMPkgs {
		fd := p.Func(vm, "Run")
		if fd == nil {
			continue
		}
		info := p.Info(fd)
		rc.Touch(vm + ".Run")
		// the output buffer: the []byte parameter of Run
		var buf types.Object
		for _, f := range fd.Type.Params.List {
			for _, nm := range f.Names {
				if o := info.Defs[nm]; o != nil && o.Type().String() == "[]byte" {
					buf = o
				}
			}
		}
		ast.Inspect(fd.Body, func(m ast.Node) bool {
			as, ok := m.(*ast.AssignStmt)
			if !ok || len(as.Lhs) != 1 || len(as.Rhs) != 1 {
				return true
			}
			f := core.FieldOf(info, as.Lhs[0])
			if f == nil || f.Name() != "Key" || !strings.HasSuffix(f.Pkg().Path(), "internal/encoder") {
				return true
			}
			n++
			key := vm + ".Run/map-sort-key"
			if sl, ok := core.Unparen(as.Rhs[0]).(*ast.SliceExpr); ok && buf != nil && core.ObjOf(info, sl.X) == buf && decodes {
				rc.OK(key, as.Pos(), "the sort key is the encoded text of the member key, and the comparator decodes it (it locates the quotes and undoes the escape sequences) before it compares")
			} else if ok && buf != nil && core.ObjOf(info, sl.X) == buf {
				rc.Bad(key, as.Pos(), "the sort key of a map member is `%s`, a slice of the output buffer: members are ordered by their encoded text (closing quote, separator and escapes included), so {\"a\":1,\"a \":2} is written with \"a \" first and keys that need escaping move; encoding/json orders by the key string", core.Src(p.Fset, as.Rhs[0]))
			} else {
				rc.OK(key, as.Pos(), "the sort key is not a slice of the encoded output")
			}
			return true
		})
	}
	if n < 4 {
		rc.Unknown("vm/map-sort-key", token.NoPos, "found %d stores of MapItem.Key in the interpreters", n)
	}
}

func exprOf(n ast.Node) ast.Expr {
	if e, ok := n.(ast.Expr); ok {
		return e
	}
	return nil
}

// ---- C01.R8 pointer-shaped composites: both kinds that can be stored directly in an interface word are handled ----

// A struct with one pointer-shaped field and an array of length one with a pointer-shaped element
// are both "direct" interface values: the interface's data word is the value, not its address.
// The compiler handles the struct case (structCode consults runtime.IfaceIndir and sets
// isIndirect); the array constructor must do the same or the interpreters treat the value as
// the array's address.
func c01r8(rc *core.RC) {
	p := rc.P
	reach := func(fd *ast.FuncDecl) bool {
		seen := map[*ast.FuncDecl]bool{}
		var visit func(fd *ast.FuncDecl, depth int) bool
		visit = func(fd *ast.FuncDecl, depth int) bool {
			if fd == nil || fd.Body == nil || seen[fd] || depth > 2 {
				return false
			}
			seen[fd] = true
			info := p.Info(fd)
			found := false
			ast.Inspect(fd.Body, func(m ast.Node) bool {
				if found {
					return false
				}
				if call, ok := m.(*ast.CallExpr); ok {
					if core.CalleeName(info, call) == "runtime.IfaceIndir" {
						found = true
						return false
					}
					if f := core.Callee(info, call); f != nil && f.Pkg() != nil && f.Pkg().Path() == core.PkgPaths["encoder"] && !strings.HasSuffix(f.Name(), "typeToCode") && f.Name() != "typeToCodeWithPtr" {
						if visit(p.DeclOf(f), depth+1) {
							found = true
						}
					}
				}
				return true
			})
			return found
		}
		return visit(fd, 0)
	}
	n := 0
	for _, k := range []struct{ kind, ctor string }{{"Struct", "Compiler.structCode"}, {"Array", "Compiler.arrayCode"}} {
		fd := p.Func("encoder", k.ctor)
		key := "encoder.(*" + strings.Replace(k.ctor, ".", ").", 1) + "/direct-interface"
		if fd == nil {
			rc.Unknown(key, token.NoPos, "constructor not found")
			continue
		}
		n++
		rc.Touch("encoder.(*" + strings.Replace(k.ctor, ".", ").", 1))
		if reach(fd) {
			rc.OK(key, fd.Pos(), "the %s constructor consults runtime.IfaceIndir", k.kind)
		} else if boxed := p.Func("encoder", "isBoxedValue"); k.kind == "Array" && boxed != nil && reach(boxed) {
			// since fix 97f301a the decision is taken for the whole code set: isBoxedValue consults IfaceIndir for an
			// ArrayCode, and every place that starts a program consults the result (rule C08.R21)
			rc.OK(key, boxed.Pos(), "isBoxedValue consults runtime.IfaceIndir for array programs; the starts of programs consult it (C08.R21)")
		} else {
			rc.Bad(key, fd.Pos(), "kind %s can be pointer-shaped (stored directly in an interface word) but its constructor never consults runtime.IfaceIndir, while the Struct constructor does: the interpreters take the interface's data word as the address of the array", k.kind)
		}
	}
	if n < 2 {
		rc.Unknown("encoder/composite-constructors", token.NoPos, "structCode/arrayCode not found")
	}
}

// ---- C01.R9 what may stand in map key position ----

// encoding/json accepts string, integer and TextMarshaler keys and writes each as a JSON string.
// mapKeyCode must (a) return a pointer code only under a test that the pointer type implements
// TextMarshaler, and (b) not hand a json.Number to the value path of strings, which emits it
// unquoted (OpNumber).
func c01r9(rc *core.RC) {
	p := rc.P
	fd := p.Func("encoder", "Compiler.mapKeyCode")
	if fd == nil {
		rc.Unknown("encoder.mapKeyCode", token.NoPos, "not found")
		return
	}
	rc.Touch("encoder.(*Compiler).mapKeyCode")
	info := p.Info(fd)
	kss := kindSwitches(info, fd)
	if len(kss) == 0 {
		rc.Unknown("encoder.mapKeyCode/kind-switch", fd.Pos(), "kind switch not found")
		return
	}
	ks := kss[len(kss)-1]
	// (a) Ptr
	if cc := ks.clause["Ptr"]; cc == nil {
		rc.OK("encoder.mapKeyCode/kind Ptr", ks.sw.Pos(), "pointer keys reach the unsupported-type error unless the TextMarshaler test at the top matched")
	} else {
		guarded := true
		ast.Inspect(cc, func(m ast.Node) bool {
			r, ok := m.(*ast.ReturnStmt)
			if !ok {
				return true
			}
			g := false
			for _, c := range condChainNodes(fd, r) {
				if c.pos && strings.Contains(core.Src(p.Fset, c.cond), "marshalTextType") {
					g = true
				}
			}
			if !g {
				guarded = false
			}
			return true
		})
		rc.Check(guarded, "encoder.mapKeyCode/kind Ptr", cc.Pos(), "a pointer key is compiled only under a test that the pointer type implements encoding.TextMarshaler (encoding/json rejects other pointer keys; compiled as values they are written unquoted)")
	}
	// (b) String: json.Number separated
	if cc := ks.clause["String"]; cc == nil {
		rc.Bad("encoder.mapKeyCode/kind String", ks.sw.Pos(), "string keys have no clause")
	} else {
		sep := false
		ast.Inspect(cc, func(m ast.Node) bool {
			if ifs, ok := m.(*ast.IfStmt); ok && strings.Contains(core.Src(p.Fset, ifs.Cond), "jsonNumberType") {
				sep = true
			}
			return true
		})
		rc.Check(sep, "encoder.mapKeyCode/kind String/json.Number", cc.Pos(), "a json.Number key is separated from the value path of strings, which writes a Number unquoted (OpNumber): in key position it has to be a quoted string")
	}
	// integers: the *String constructors
	n := 0
	for _, k := range []string{"Int", "Int8", "Int16", "Int32", "Int64", "Uint", "Uint8", "Uint16", "Uint32", "Uint64", "Uintptr"} {
		cc := ks.clause[k]
		if cc == nil {
			rc.Bad("encoder.mapKeyCode/kind "+k, ks.sw.Pos(), "integer keys of kind %s have no clause", k)
			continue
		}
		n++
		name, ok := clauseReturnsCall(info, cc)
		rc.Check(ok && strings.Contains(name, "StringCode"), "encoder.mapKeyCode/kind "+k, cc.Pos(), "integer keys are compiled with the quoting constructor (%s)", name)
	}
	// (c) a key of string kind is its own text even when its type implements TextMarshaler
	// (encoding/json's resolveKeyName tests the kind first)
	isStringKindTest := func(e ast.Expr, op token.Token) bool {
		be, ok := core.Unparen(e).(*ast.BinaryExpr)
		if !ok || be.Op != op {
			return false
		}
		for _, side := range []ast.Expr{be.X, be.Y} {
			if sel, isSel := core.Unparen(side).(*ast.SelectorExpr); isSel && sel.Sel.Name == "String" {
				if c, isConst := info.Uses[sel.Sel].(*types.Const); isConst && c.Pkg() != nil && c.Pkg().Path() == "reflect" {
					return true
				}
			}
		}
		return false
	}
	var conjuncts func(e ast.Expr) []ast.Expr
	conjuncts = func(e ast.Expr) []ast.Expr {
		if be, ok := core.Unparen(e).(*ast.BinaryExpr); ok && be.Op == token.LAND {
			return append(conjuncts(be.X), conjuncts(be.Y)...)
		}
		return []ast.Expr{e}
	}
	found := 0
	ast.Inspect(fd.Body, func(m ast.Node) bool {
		r, ok := m.(*ast.ReturnStmt)
		if !ok || len(r.Results) == 0 {
			return true
		}
		c, isCall := core.Unparen(r.Results[0]).(*ast.CallExpr)
		if !isCall || !strings.HasSuffix(core.CalleeName(info, c), "marshalTextCode") {
			return true
		}
		found++
		excluded := false
		path := core.PathTo(fd.Body, r)
		for i, pn := range path {
			switch x := pn.(type) {
			case *ast.CaseClause:
				for _, l := range x.List {
					for _, cj := range conjuncts(l) {
						if isStringKindTest(cj, token.NEQ) {
							excluded = true
						}
					}
				}
			case *ast.IfStmt:
				if i+1 < len(path) && path[i+1] == ast.Node(x.Body) {
					for _, cj := range conjuncts(x.Cond) {
						if isStringKindTest(cj, token.NEQ) {
							excluded = true
						}
					}
				}
			case *ast.BlockStmt:
				// an earlier `if kind == reflect.String { return … }` in the same block
				for _, st := range x.List {
					if i+1 < len(path) && st == path[i+1] {
						break
					}
					if ifs, isIf := st.(*ast.IfStmt); isIf && isStringKindTest(ifs.Cond, token.EQL) && len(ifs.Body.List) > 0 {
						if _, rets := ifs.Body.List[len(ifs.Body.List)-1].(*ast.ReturnStmt); rets {
							excluded = true
						}
					}
				}
			}
		}
		rc.Check(excluded, fmt.Sprintf("encoder.mapKeyCode/TextMarshaler-key#%d not-for-string-kinds", found), r.Pos(), "the MarshalText path for keys is taken only when the key's kind is not String: encoding/json writes a string-kind key as its own text even if the type implements TextMarshaler")
		return true
	})
	if found == 0 {
		rc.Unknown("encoder.mapKeyCode/TextMarshaler-key", fd.Pos(), "no return of marshalTextCode found")
	}
}

// ---- C01.R10 ptrToUint64 reads exactly the number of bits it is asked for ----

// The omitempty tests of integer fields and the integer printers read the field through
// ptrToUint64(p, bitSize). Each `case N` of its switch must dereference an N-bit unsigned type:
// a narrower read makes values whose low bits are zero look empty (the member disappears), a wider
// one reads the neighbouring field.
func c01r10(rc *core.RC) {
	p := rc.P
	for _, pk := range []string{"vm", "vm_indent", "vm_color", "vm_color_indent"} {
		fd := p.Func(pk, "ptrToUint64")
		if fd == nil {
			rc.Unknown(pk+".ptrToUint64", token.NoPos, "not found")
			continue
		}
		rc.Touch(pk + ".ptrToUint64")
		info := p.Info(fd)
		seen := map[int64]bool{}
		ast.Inspect(fd.Body, func(m ast.Node) bool {
			cc, ok := m.(*ast.CaseClause)
			if !ok {
				return true
			}
			for _, l := range cc.List {
				bits, isConst := core.ConstInt(info, l)
				if !isConst {
					continue
				}
				seen[bits] = true
				key := fmt.Sprintf("%s.ptrToUint64/case %d", pk, bits)
				// the widths of all pointer element types mentioned in the clause
				var widths []int64
				for _, st := range cc.Body {
					ast.Inspect(st, func(x ast.Node) bool {
						if st, isStar := x.(*ast.StarExpr); isStar {
							if tv, has := info.Types[st.X]; has && tv.IsType() {
								if b, isBasic := tv.Type.Underlying().(*types.Basic); isBasic && b.Info()&types.IsInteger != 0 {
									if sz := p.Pkg(pk).TypesSizes.Sizeof(b); sz > 0 {
										widths = append(widths, sz*8)
									}
								}
							}
						}
						return true
					})
				}
				if len(widths) == 0 {
					rc.Unknown(key, cc.Pos(), "no integer dereference found in the clause")
					continue
				}
				ok := true
				for _, w := range widths {
					if w != bits {
						ok = false
					}
				}
				rc.Check(ok, key, cc.Pos(), "the clause for bitSize %d reads integer(s) of width %v", bits, widths)
			}
			return true
		})
		for _, b := range []int64{8, 16, 32, 64} {
			if !seen[b] {
				rc.Bad(fmt.Sprintf("%s.ptrToUint64/case %d", pk, b), fd.Pos(), "no clause for bitSize %d", b)
			}
		}
	}
}

// ---- C01.R11 omitempty knows that a zero-length array is empty ----

// encoding/json's emptiness test is by kind; for arrays it is len == 0, which depends on the type
// alone. The interpreters have no emptiness test in their OmitEmptyArray handlers (they write the key
// and hand over to the array opcodes), so the decision has to be taken when the struct is compiled:
// a field with omitempty whose type is an array of length 0 is left out of the field list. The rule
// looks for that decision in the struct compilation of package encoder, or else for a length test in
// every OmitEmptyArray handler.
func c01r11(rc *core.RC) {
	p := rc.P
	key := "encoder/omitempty-zero-length-array"
	// (a) compile-time: a branch whose condition mentions IsOmitEmpty, reflect.Array and Len() == 0 and that skips the field
	var at token.Pos
	for _, fd := range p.Funcs("encoder") {
		if fd.Body == nil {
			continue
		}
		info := p.Info(fd)
		ast.Inspect(fd.Body, func(m ast.Node) bool {
			ifs, ok := m.(*ast.IfStmt)
			if !ok {
				return true
			}
			omit, arr, zero := false, false, false
			ast.Inspect(ifs.Cond, func(x ast.Node) bool {
				switch y := x.(type) {
				case *ast.SelectorExpr:
					if y.Sel.Name == "IsOmitEmpty" {
						omit = true
					}
					if y.Sel.Name == "Array" {
						if c, isConst := info.Uses[y.Sel].(*types.Const); isConst && c.Pkg() != nil && c.Pkg().Path() == "reflect" {
							arr = true
						}
					}
				case *ast.BinaryExpr:
					if y.Op == token.EQL {
						if c, isCall := core.Unparen(y.X).(*ast.CallExpr); isCall {
							if sel, isSel := core.Unparen(c.Fun).(*ast.SelectorExpr); isSel && sel.Sel.Name == "Len" {
								if v, isConst := core.ConstInt(info, y.Y); isConst && v == 0 {
									zero = true
								}
							}
						}
					}
				}
				return true
			})
			if !(omit && arr && zero) || len(ifs.Body.List) == 0 {
				return true
			}
			if br, isBranch := ifs.Body.List[len(ifs.Body.List)-1].(*ast.BranchStmt); isBranch && br.Tok == token.CONTINUE {
				at = ifs.Pos()
				rc.Touch(p.FuncName(fd))
			}
			return true
		})
	}
	if at != token.NoPos {
		rc.OK(key, at, "an omitempty field of a zero-length array type is left out when the struct is compiled")
		return
	}
	// (b) run-time: every OmitEmptyArray handler tests a length
	t := loadOpTable(rc)
	if t == nil {
		return
	}
	all := true
	n := 0
	for _, vm := range []string{"vm", "vm_indent", "vm_color", "vm_color_indent"} {
		cl, _ := opClauses(rc, vm, t)
		for l, cc := range cl {
			if !strings.Contains(l, "OmitEmptyArray") || strings.Contains(l, "ArrayPtr") {
				continue
			}
			n++
			tests := false
			ast.Inspect(cc, func(x ast.Node) bool {
				if sel, ok := x.(*ast.SelectorExpr); ok && (sel.Sel.Name == "Length" || sel.Sel.Name == "Len") {
					tests = true
				}
				return true
			})
			if !tests {
				all = false
			}
		}
	}
	rc.Check(all && n > 0, key, token.NoPos, "an omitempty field of array type [0]T is omitted: dropped when the struct is compiled, or tested for length 0 by every OmitEmptyArray handler (%d handlers looked at)", n)
}

// ---- C01.R12 omitempty on marshaler types uses encoding/json's emptiness ----

// encoding/json decides emptiness by kind before it looks for a marshaler: false, 0, "", nil pointer
// or interface, and a map, slice or array of length 0. The interpreters take that decision for
// marshaler-typed fields through encoder.IsNilForMarshaler. (1) Its kind switch must measure Map,
// Slice and Array by length. (2) Every OmitEmpty handler of a MarshalJSON or MarshalText field
// (the pointer-field variants aside, which are empty only when nil) must call it.
func c01r12(rc *core.RC) {
	p := rc.P
	fd := p.Func("encoder", "IsNilForMarshaler")
	if fd == nil {
		rc.Unknown("encoder.IsNilForMarshaler", token.NoPos, "not found")
		return
	}
	rc.Touch("encoder.IsNilForMarshaler")
	info := p.Info(fd)
	kss := kindSwitches(info, fd)
	if len(kss) == 0 {
		rc.Unknown("encoder.IsNilForMarshaler/kind-switch", fd.Pos(), "kind switch not found")
		return
	}
	ks := kss[0]
	for _, k := range []string{"Map", "Slice", "Array", "String"} {
		key := "encoder.IsNilForMarshaler/kind " + k
		cc := ks.clause[k]
		if cc == nil {
			rc.Bad(key, ks.sw.Pos(), "values of kind %s are never empty here; encoding/json: empty when the length is 0", k)
			continue
		}
		byLen := false
		ast.Inspect(cc, func(m ast.Node) bool {
			if c, ok := m.(*ast.CallExpr); ok {
				if n := core.CalleeName(info, c); n == "reflect.Value.Len" || n == "len" {
					byLen = true
				}
			}
			return true
		})
		rc.Check(byLen, key, cc.Pos(), "a value of kind %s is empty when its length is 0 (encoding/json isEmptyValue)", k)
	}
	// a float is empty when it compares equal to 0 (encoding/json: v.Float() == 0): that includes -0, whose bits are not zero
	for _, k := range []string{"Float32", "Float64"} {
		cc := ks.clause[k]
		if cc == nil {
			continue
		}
		byBits := false
		ast.Inspect(cc, func(m ast.Node) bool {
			if c, ok := m.(*ast.CallExpr); ok {
				if n := core.CalleeName(info, c); n == "math.Float64bits" || n == "math.Float32bits" {
					byBits = true
				}
			}
			return true
		})
		rc.Check(!byBits, "encoder.IsNilForMarshaler/kind "+k+" compared-as-a-number", cc.Pos(), "a float of a marshaler type is empty when it equals 0 as a number; compared by its bit pattern, -0 is not empty and an omitempty member that holds it is written where encoding/json omits it")
	}
	for _, k := range []string{"Bool", "Int", "Int8", "Int16", "Int32", "Int64", "Uint", "Uint8", "Uint16", "Uint32", "Uint64", "Uintptr", "Float32", "Float64", "Interface", "Ptr"} {
		rc.Check(ks.clause[k] != nil, "encoder.IsNilForMarshaler/kind "+k, ks.sw.Pos(), "kind %s has an emptiness clause", k)
	}
	t := loadOpTable(rc)
	if t == nil {
		return
	}
	for _, vm := range []string{"vm", "vm_indent", "vm_color", "vm_color_indent"} {
		cl, _ := opClauses(rc, vm, t)
		vinfo := p.Pkg(vm).TypesInfo
		var labels []string
		for l := range cl {
			labels = append(labels, l)
		}
		sort.Strings(labels)
		n := 0
		for _, l := range labels {
			// the labels of one clause are joined by commas; the last one names the handler proper
			parts := strings.Split(l, ",")
			last := parts[len(parts)-1]
			if !(strings.Contains(last, "OmitEmptyMarshalJSON") || strings.Contains(last, "OmitEmptyMarshalText")) || strings.HasSuffix(last, "Ptr") {
				continue
			}
			if body := cl[l].Body; len(body) > 0 {
				if br, isBranch := body[len(body)-1].(*ast.BranchStmt); isBranch && br.Tok == token.FALLTHROUGH {
					continue // the pointer-head prologue: the decision is taken in the clause it falls into
				}
			}
			n++
			calls := false
			ast.Inspect(cl[l], func(m ast.Node) bool {
				if c, ok := m.(*ast.CallExpr); ok && core.CalleeName(vinfo, c) == "encoder.IsNilForMarshaler" {
					calls = true
				}
				return true
			})
			rc.Check(calls, fmt.Sprintf("%s.Run/%s uses-emptiness-test", vm, last), cl[l].Pos(), "the omitempty handler of a marshaler-typed field asks encoder.IsNilForMarshaler whether the value is empty")
		}
		if n < 4 {
			rc.Unknown(vm+".Run/omitempty-marshaler-handlers", token.NoPos, "found %d handlers (4 confirmed)", n)
		}
	}
}

// ---- C01.R14 map keys are reached through the address of their slot ----

// The map iterator hands the interpreters the address of the key slot, as it does for the value slot. For a key whose
// type is a pointer (possible only for TextMarshaler keys) the key's first opcode must carry IndirectFlags like the
// value's first opcode, so that the handler follows the slot to the pointer; and since a nil pointer key is the empty
// string, not null, the key opcode is marked as a key.
func c01r14(rc *core.RC) {
	p := rc.P
	fd := p.Func("encoder", "MapCode.ToOpcode")
	key := "encoder.(*MapCode).ToOpcode"
	if fd == nil || fd.Body == nil {
		rc.Unknown(key+"/key-indirect", token.NoPos, "not found")
		return
	}
	rc.Touch(key)
	info := p.Info(fd)
	// variables holding the key and value programs
	progs := map[string]types.Object{}
	ast.Inspect(fd.Body, func(m ast.Node) bool {
		as, ok := m.(*ast.AssignStmt)
		if !ok || len(as.Lhs) != 1 || len(as.Rhs) != 1 {
			return true
		}
		c, isCall := core.Unparen(as.Rhs[0]).(*ast.CallExpr)
		if !isCall {
			return true
		}
		if sel, isSel := c.Fun.(*ast.SelectorExpr); isSel && sel.Sel.Name == "ToOpcode" {
			if f := core.FieldOf(info, sel.X); f != nil {
				progs[f.Name()] = core.ObjOf(info, as.Lhs[0])
			}
		}
		return true
	})
	flagsOf := func(v types.Object) map[string]bool {
		out := map[string]bool{}
		ast.Inspect(fd.Body, func(m ast.Node) bool {
			as, ok := m.(*ast.AssignStmt)
			if !ok || as.Tok != token.OR_ASSIGN || len(as.Lhs) != 1 {
				return true
			}
			sel, isSel := core.Unparen(as.Lhs[0]).(*ast.SelectorExpr)
			if !isSel || sel.Sel.Name != "Flags" {
				return true
			}
			c, isCall := core.Unparen(sel.X).(*ast.CallExpr)
			if !isCall {
				return true
			}
			fs, isFS := c.Fun.(*ast.SelectorExpr)
			if !isFS || fs.Sel.Name != "First" || core.ObjOf(info, fs.X) != v {
				return true
			}
			ast.Inspect(as.Rhs[0], func(k ast.Node) bool {
				if id, isIdent := k.(*ast.Ident); isIdent {
					out[id.Name] = true
				}
				return true
			})
			return true
		})
		return out
	}
	kv, vv := progs["key"], progs["value"]
	if kv == nil || vv == nil {
		rc.Unknown(key+"/key-indirect", fd.Pos(), "the key and value programs of the map were not found")
		return
	}
	vf, kf := flagsOf(vv), flagsOf(kv)
	rc.Check(vf["IndirectFlags"], key+"/value-indirect", fd.Pos(), "the first opcode of the value program carries IndirectFlags (the value is reached through its slot)")
	rc.Check(kf["IndirectFlags"], key+"/key-indirect", fd.Pos(), "the first opcode of the key program carries IndirectFlags like the value's: without it a key of pointer type (map[*K]int with a pointer-receiver MarshalText on K) is marshalled from the address of the key slot, not from the pointer in it ({\"k:\":1} instead of {\"k:a\":1})")
	rc.Check(kf["MapKeyFlags"], key+"/key-marked", fd.Pos(), "the first opcode of the key program is marked MapKeyFlags, so that the interpreters write a nil pointer key as \"\" and not as null (a bare null is not a member name)")
	// every interpreter honours the mark where it dereferences a marshaler key
	n := 0
	for _, vm := range []string{"vm", "vm_indent", "vm_color", "vm_color_indent"} {
		run := p.Func(vm, "Run")
		if run == nil {
			continue
		}
		rinfo := p.Info(run)
		found := false
		ast.Inspect(run.Body, func(m ast.Node) bool {
			cc, ok := m.(*ast.CaseClause)
			if !ok || found {
				return true
			}
			isText := false
			for _, l := range cc.List {
				if strings.HasSuffix(core.Src(p.Fset, l), "OpMarshalText") {
					isText = true
				}
			}
			if !isText {
				return true
			}
			ast.Inspect(cc, func(k ast.Node) bool {
				if sel, isSel := k.(*ast.SelectorExpr); isSel && sel.Sel.Name == "MapKeyFlags" {
					found = true
				}
				return true
			})
			_ = rinfo
			return true
		})
		n++
		rc.Check(found, vm+".Run/case OpMarshalText/nil-key-is-empty-string", run.Pos(), "the OpMarshalText handler tests MapKeyFlags for a nil pointer after following the slot")
	}
	if n < 4 {
		rc.Unknown("vm*/Run", token.NoPos, "found %d interpreters", n)
	}
}

// ---- C01.R15 the null exit of a marshaler opcode depends on the type ----

// encoding/json writes null for a nil value of a marshaler type without calling the method only when the value is a
// pointer or an interface; a nil map or func, and a struct or array that is one nil pointer, are handed to the method.
// In the encoder the decision is taken in two places: the handlers of OpMarshalJSON / OpMarshalText (values at the
// root, in interfaces, elements) leave with null on a zero word, and the struct-field handlers do so under
// NilCheckFlags, which the compiler derives from StructFieldCode.isNilCheck. Both have to depend on the type: an
// unconditional exit, or a flag that is the constant true, writes null where encoding/json calls the method.
func c01r15(rc *core.RC) {
	p := rc.P
	n := 0
	for _, vm := range []string{"vm", "vm_indent", "vm_color", "vm_color_indent"} {
		fd := p.Func(vm, "Run")
		if fd == nil || fd.Body == nil {
			rc.Unknown(vm+".Run", token.NoPos, "interpreter not found")
			continue
		}
		info := p.Info(fd)
		rc.Touch(vm + ".Run")
		ast.Inspect(fd.Body, func(m ast.Node) bool {
			cc, ok := m.(*ast.CaseClause)
			if !ok || len(cc.List) != 1 {
				return true
			}
			sel, ok := core.Unparen(cc.List[0]).(*ast.SelectorExpr)
			if !ok || (sel.Sel.Name != "OpMarshalJSON" && sel.Sel.Name != "OpMarshalText") {
				return true
			}
			// the first zero test of the handler
			for _, st := range cc.Body {
				ifs, isIf := st.(*ast.IfStmt)
				if !isIf {
					continue
				}
				zero, cond := false, false
				for _, cj := range conjuncts(ifs.Cond) {
					if be, isBin := core.Unparen(cj).(*ast.BinaryExpr); isBin && be.Op == token.EQL {
						if v, isC := core.ConstInt(info, be.Y); isC && v == 0 {
							zero = true
							continue
						}
					}
					cond = true
				}
				if !zero {
					continue
				}
				n++
				key := fmt.Sprintf("%s.Run/case %s/null-exit-depends-on-the-type", vm, sel.Sel.Name)
				rc.Check(cond, key, ifs.Pos(), "the handler leaves with null (or \"\") on a zero word only under a further condition on the opcode (a flag the compiler derives from the kind of the type): unconditional, a nil map, func or pointer-shaped struct with a value-receiver marshaler is written as null where encoding/json calls the method")
				break
			}
			return true
		})
	}
	if n < 8 {
		rc.Unknown("vm/marshaler-null-exits", token.NoPos, "found %d zero tests at the head of the OpMarshalJSON/OpMarshalText handlers (confirmed: 8)", n)
	}
	// the compiler's flag
	fd := p.Func("encoder", "Compiler.structFieldCode")
	if fd == nil || fd.Body == nil {
		rc.Unknown("encoder.structFieldCode", token.NoPos, "function not found")
		return
	}
	info := p.Info(fd)
	rc.Touch(p.FuncName(fd))
	found := false
	ast.Inspect(fd.Body, func(m ast.Node) bool {
		kv, ok := m.(*ast.KeyValueExpr)
		if !ok {
			return true
		}
		id, ok := kv.Key.(*ast.Ident)
		if !ok || id.Name != "isNilCheck" {
			return true
		}
		found = true
		key := p.FuncName(fd) + "/isNilCheck derived-from-the-type"
		v := core.ConstValue(info, kv.Value)
		rc.Check(v == nil, key, kv.Pos(), "the nil check of a member's value opcode is computed from the member's type (%s): the constant true makes every nil map, func or pointer-shaped struct with a value-receiver marshaler null, where encoding/json calls the method", core.Src(p.Fset, kv.Value))
		return true
	})
	if !found {
		rc.Unknown(p.FuncName(fd)+"/isNilCheck", fd.Pos(), "the field code literal does not set isNilCheck")
	}
}

// ---- C01.R16 only an embedding of the struct itself adds nothing ----

// structCode leaves out an embedded struct whose code is marked recursive (a struct type whose compilation is in
// progress). That is right when the embedded struct is the struct being compiled (type T struct{ *T; N int }: its
// members are hidden by T's own). It is wrong for an enclosing struct of a recursive definition (type R struct{ Kids
// []RW }; type RW struct{ R; Name string }): the members of R are promoted into RW and encoding/json writes them.
// The skip therefore has to compare the embedded type with the type being compiled.
func c01r16(rc *core.RC) {
	p := rc.P
	fd := p.Func("encoder", "Compiler.structCode")
	if fd == nil || fd.Body == nil {
		rc.Unknown("encoder.structCode", token.NoPos, "function not found")
		return
	}
	info := p.Info(fd)
	fn := p.FuncName(fd)
	rc.Touch(fn)
	var typParam types.Object
	if len(fd.Type.Params.List) > 0 && len(fd.Type.Params.List[0].Names) > 0 {
		typParam = info.Defs[fd.Type.Params.List[0].Names[0]]
	}
	n := 0
	ast.Inspect(fd.Body, func(m ast.Node) bool {
		ifs, ok := m.(*ast.IfStmt)
		if !ok || len(ifs.Body.List) == 0 {
			return true
		}
		br, isBr := ifs.Body.List[len(ifs.Body.List)-1].(*ast.BranchStmt)
		if !isBr || br.Tok != token.CONTINUE {
			return true
		}
		recursive, sameType := false, false
		ast.Inspect(ifs.Cond, func(k ast.Node) bool {
			switch x := k.(type) {
			case *ast.SelectorExpr:
				if x.Sel.Name == "isRecursive" {
					recursive = true
				}
			case *ast.BinaryExpr:
				if x.Op == token.EQL && typParam != nil && (core.ObjOf(info, x.X) == typParam || core.ObjOf(info, x.Y) == typParam) {
					sameType = true
				}
			}
			return true
		})
		if !recursive {
			return true
		}
		n++
		key := fn + "/recursive-embedded-struct-skipped only-when-it-is-the-struct-itself"
		rc.Check(sameType, key, ifs.Pos(), "an embedded struct whose compilation is in progress is left out only when it is the struct being compiled (the condition compares its type with %s): an enclosing struct of a recursive definition that is embedded further down has members to promote", typParam.Name())
		return true
	})
	if n == 0 {
		rc.Unknown(fn+"/recursive-embedded-struct-skipped", fd.Pos(), "the skip of a recursive embedded struct was not found")
	}
	// the decoder's twin: compileStruct promotes the members of an embedded struct from that struct's field map; a
	// decoder taken from the memo of structs in progress has an unfinished field map
	dfd := p.Func("decoder", "compileStruct")
	if dfd == nil || dfd.Body == nil {
		rc.Unknown("decoder.compileStruct", token.NoPos, "function not found")
		return
	}
	dinfo := p.Info(dfd)
	rc.Touch("decoder.compileStruct")
	var memo types.Object
	for _, f := range dfd.Type.Params.List {
		for _, nm := range f.Names {
			if o := dinfo.Defs[nm]; o != nil {
				if _, isMap := o.Type().Underlying().(*types.Map); isMap {
					memo = o
				}
			}
		}
	}
	k := 0
	ast.Inspect(dfd.Body, func(m ast.Node) bool {
		rs, ok := m.(*ast.RangeStmt)
		if !ok {
			return true
		}
		if isProm, _ := promotionRange(p, dinfo, rs); !isProm {
			return true
		}
		k++
		key := fmt.Sprintf("decoder.compileStruct/promotion#%d only-from-a-finished-decoder", k)
		// a condition on the way to the loop (or a returning/continuing guard before it in the same block) that consults the memo
		consults := false
		for _, c := range condChainNodes(dfd, rs) {
			ast.Inspect(c.cond, func(x ast.Node) bool {
				if id, isID := x.(*ast.Ident); isID && memo != nil && dinfo.Uses[id] == memo {
					consults = true
				}
				return true
			})
		}
		path := core.PathTo(dfd.Body, rs)
		if len(path) >= 2 {
			if blk, isBlk := path[len(path)-2].(*ast.BlockStmt); isBlk {
				for _, st := range blk.List {
					if st == ast.Stmt(rs) {
						break
					}
					if ifs, isIf := st.(*ast.IfStmt); isIf {
						ast.Inspect(ifs, func(x ast.Node) bool {
							if id, isID := x.(*ast.Ident); isID && memo != nil && dinfo.Uses[id] == memo {
								consults = true
							}
							return true
						})
					}
				}
			}
		}
		rc.Check(consults, key, rs.Pos(), "the members of an embedded struct are promoted from its decoder's field map only after a test that the decoder is not one whose compilation is in progress (the memo %s): an enclosing struct of a recursive definition has an empty field map at that moment and nothing is promoted", core.Src(p.Fset, rs.X))
		return true
	})
	if k < 2 {
		rc.Unknown("decoder.compileStruct/promotions", dfd.Pos(), "found %d promotion loops over an embedded struct decoder's field map (confirmed: 2)", k)
	}
}

// ---- C01.R17 sizes and offsets are not narrowed below 32 bits ----

// The compiler stores the element size of slices and arrays, member offsets and frame lengths in Opcode fields; the
// interpreters compute addresses from them (data + idx*size). The values come from the type descriptor as uintptr.
// A conversion of such a value to an integer type of fewer than 32 bits truncates for large types (an element of 64
// KiB or more with a 16-bit size: every element after the first is read from the wrong address).
func c01r17(rc *core.RC) { narrowedSizes(rc, []string{"encoder"}, 4) }

// c07r11: the same for the decoder side (element sizes for typedmemmove and map slots, offsets).
func c07r11(rc *core.RC) { narrowedSizes(rc, []string{"decoder", "runtime", "json"}, 1) }

func narrowedSizes(rc *core.RC, pkgs []string, floor int) {
	p := rc.P
	n := 0
	var fds []*ast.FuncDecl
	for _, pk := range pkgs {
		fds = append(fds, p.Funcs(pk)...)
	}
	for _, fd := range fds {
		if fd.Body == nil {
			continue
		}
		info := p.Info(fd)
		fn := p.FuncName(fd)
		k := 0
		ast.Inspect(fd.Body, func(m ast.Node) bool {
			call, ok := m.(*ast.CallExpr)
			if !ok || len(call.Args) != 1 {
				return true
			}
			tv, isConv := info.Types[call.Fun]
			if !isConv || !tv.IsType() {
				return true
			}
			to, ok := tv.Type.Underlying().(*types.Basic)
			if !ok || to.Info()&types.IsInteger == 0 {
				return true
			}
			from := info.TypeOf(call.Args[0])
			if from == nil || from.String() != "uintptr" {
				return true
			}
			if v := info.Types[call.Args[0]]; v.Value != nil {
				return true
			}
			k++
			n++
			rc.Touch(fn)
			key := fmt.Sprintf("%s/uintptr-conversion#%d at-least-32-bits", fn, k)
			bits := map[types.BasicKind]int{types.Int8: 8, types.Uint8: 8, types.Int16: 16, types.Uint16: 16, types.Int32: 32, types.Uint32: 32, types.Int64: 64, types.Uint64: 64, types.Int: 32, types.Uint: 32, types.Uintptr: 32}[to.Kind()]
			rc.Check(bits >= 32, key, call.Pos(), "a size, offset or address taken from a type descriptor (uintptr) is converted to a type of at least 32 bits (%s): narrower, it is cut for large types and the interpreters compute element addresses from the remainder", core.Src(p.Fset, call))
			return true
		})
	}
	if n < floor {
		rc.Unknown(pkgs[0]+"/uintptr-conversions", token.NoPos, "found %d conversions of a uintptr to another integer type in %v", n, pkgs)
	}
}

// ---- C01.R18 which values sit in the interface word is the runtime's own answer ----

// Whether a value is stored in the interface word itself or behind it decides how every entry point and the
// interface opcodes read it (C01.R8, C08.R21, C08.R12). runtime.IfaceIndir is linked to reflect's own function
// (a declaration without a body under //go:linkname), so the answer is the compiler's by construction. A
// re-implementation has to state the compiler's rule: a struct is direct only when it has exactly one field and
// that field is direct, an array only when it has exactly one element and that is direct. Skipping zero-size
// members in front of the one that "fills the word" is not that rule: struct{ _ [0]func(); P *int } has two
// fields and is stored indirectly.
func c01r18(rc *core.RC) {
	p := rc.P
	fd := p.Func("runtime", "IfaceIndir")
	key := "runtime.IfaceIndir/the-compiler's-rule"
	if fd == nil {
		rc.Unknown(key, token.NoPos, "declaration not found")
		return
	}
	rc.Touch("runtime.IfaceIndir")
	if fd.Body == nil {
		linked := false
		if fd.Doc != nil {
			for _, c := range fd.Doc.List {
				if strings.HasPrefix(c.Text, "//go:linkname IfaceIndir reflect.") {
					linked = true
				}
			}
		}
		rc.Check(linked, key, fd.Pos(), "IfaceIndir has no body and is linked to reflect's own function: the answer is the compiler's")
		return
	}
	info := p.Info(fd)
	oneField, oneElem := false, false
	ast.Inspect(fd.Body, func(m ast.Node) bool {
		be, ok := m.(*ast.BinaryExpr)
		if !ok || (be.Op != token.EQL && be.Op != token.NEQ) {
			return true
		}
		v, isC := core.ConstInt(info, be.Y)
		if !isC || v != 1 {
			return true
		}
		if c, isCall := core.Unparen(be.X).(*ast.CallExpr); isCall {
			if sel, isSel := core.Unparen(c.Fun).(*ast.SelectorExpr); isSel {
				switch sel.Sel.Name {
				case "NumField":
					oneField = true
				case "Len":
					oneElem = true
				}
			}
		}
		return true
	})
	rc.Check(oneField && oneElem, key, fd.Pos(), "a hand-written IfaceIndir states the compiler's rule: a struct is direct only with exactly one field (NumField() compared with 1: %v), an array only with exactly one element (Len() compared with 1: %v); a version that skips zero-size members takes struct{ _ [0]func(); P *int } for direct and the encoder reads the address of the struct as its member", oneField, oneElem)
}

// ---- C01.R19 a length test in front of a fixed-width slice admits the sequence that ends with the text ----

// Where the library takes a fixed number of bytes out of a text (the four digits of \uXXXX: text[i+1 : i+5]) the
// test in front compares the cursor with the length. It has to admit exactly the positions at which the slice fits:
// `i+4 < len(text)` for a high bound of i+5. A test that is stricter by one (`i+5 < len(text)`) is still safe and is
// wrong for the one input in which the sequence is the last thing in the text: the escape is then not decoded (a map
// key that ends in & is compared as if it ended in the letters u0026, and the members come out in another order
// than in encoding/json). Obligation, for every slice x[lo:hi] whose nearest enclosing condition compares a linear
// form of the same cursor with len(x): the condition is equivalent to hi <= len(x).
func c01r19(rc *core.RC) {
	p := rc.P
	n := 0
	for _, pk := range p.LibPkgs() {
		info := pk.TypesInfo
		for _, fd := range p.Funcs(pk.Name) {
			if fd.Body == nil {
				continue
			}
			name := p.FuncName(fd)
			le := &core.LinearEval{Info: info, Pkg: pk, Body: fd.Body}
			k := 0
			ast.Inspect(fd.Body, func(m ast.Node) bool {
				se, ok := m.(*ast.SliceExpr)
				if !ok || se.High == nil || se.Max != nil {
					return true
				}
				t := info.TypeOf(se.X)
				if t == nil || (t.String() != "[]byte" && t.String() != "string") {
					return true
				}
				hi := le.Eval(se.High)
				if !hi.OK {
					return true
				}
				lenAtom := "len(" + types.ExprString(core.Unparen(se.X)) + ")"
				// the nearest enclosing condition that compares something with len(x)
				conds := condChainNodes(fd, se)
				for i := len(conds) - 1; i >= 0; i-- {
					c := conds[i]
					be, ok := core.Unparen(c.cond).(*ast.BinaryExpr)
					if !ok {
						continue
					}
					l, r := le.Eval(be.X), le.Eval(be.Y)
					if !l.OK || !r.OK {
						continue
					}
					op := be.Op
					// bring to the form A OP len(x)
					var a core.Linear
					switch {
					case r.Terms[lenAtom] == 1 && len(nonzeroTerms(r)) == 1 && r.Const == 0:
						a = l
					case l.Terms[lenAtom] == 1 && len(nonzeroTerms(l)) == 1 && l.Const == 0:
						a = r
						switch op {
						case token.LSS:
							op = token.GTR
						case token.LEQ:
							op = token.GEQ
						case token.GTR:
							op = token.LSS
						case token.GEQ:
							op = token.LEQ
						}
					default:
						continue
					}
					if !c.pos {
						switch op {
						case token.LSS:
							op = token.GEQ
						case token.LEQ:
							op = token.GTR
						case token.GTR:
							op = token.LEQ
						case token.GEQ:
							op = token.LSS
						}
					}
					// what the condition says about len(x): A < len  =>  A+1 <= len;  A <= len
					var need core.Linear
					switch op {
					case token.LSS:
						need = a.Add(core.LinConst(1))
					case token.LEQ:
						need = a
					default:
						continue
					}
					d := need.Sub(hi)
					if !d.OK || len(nonzeroTerms(d)) != 0 {
						break // another cursor: not a guard of this slice
					}
					k++
					n++
					rc.Touch(name)
					rc.Check(d.Const == 0, fmt.Sprintf("%s/slice#%d %s guard-is-exact", name, k, core.Src(p.Fset, se)), se.Pos(), "the slice %s needs %s <= %s; the condition `%s` in front of it says %s <= %s: it has to admit exactly the positions at which the slice fits (stricter by %d: a sequence that ends with the text is refused and handled as if it were not one)", core.Src(p.Fset, se), hi, lenAtom, core.Src(p.Fset, c.cond), need, lenAtom, d.Const)
					break
				}
				return true
			})
		}
	}
	if n < 1 {
		rc.Unknown("module/guarded-slices", token.NoPos, "no slice with a length test on the same cursor in front of it found")
	}
}

// ---- C01.R20 the addressability a position has is the one its values are compiled with ----

// typeToCodeWithPtr and structCode take the flag isPtr: whether the value is reached through an address (then a
// marshal method on the pointer receiver is called on it, as encoding/json does for addressable values). A map value
// has no address in encoding/json (its pointer-receiver methods are not used), an element of a slice and what a
// pointer refers to have one. The flag is a constant at each of these positions. Obligation, for each of the three
// entry functions below: every call of typeToCodeWithPtr or structCode that the entry makes, directly or through
// helpers of the package that are no compile dispatchers themselves (a bool parameter of a helper stands for the
// constant it is called with), passes the constant of the table.
func c01r20(rc *core.RC) {
	p := rc.P
	pk := p.Pkg("encoder")
	if pk == nil {
		rc.Unknown("encoder/package", token.NoPos, "package encoder not loaded")
		return
	}
	info := pk.TypesInfo
	want := []struct {
		entry string
		val   bool
		why   string
	}{
		{"(*Compiler).mapValueCode", false, "a map value has no address: encoding/json does not call pointer-receiver methods on it"},
		{"(*Compiler).listElemCode", true, "an element of a slice is reached through its address"},
		{"(*Compiler).ptrCode", true, "what a pointer refers to is reached through its address"},
	}
	targets := map[string]bool{"typeToCodeWithPtr": true, "structCode": true}
	// compile dispatchers: a call of one of these starts a position of its own
	stop := map[string]bool{"typeToCode": true, "typeToCodeWithPtr": true, "structCode": true, "structFieldCode": true, "ptrCode": true, "listElemCode": true,
		"mapValueCode": true, "mapKeyCode": true, "sliceCode": true, "arrayCode": true, "mapCode": true}
	for _, w := range want {
		fd := p.Func("encoder", w.entry)
		if fd == nil || fd.Body == nil {
			rc.Unknown("encoder."+w.entry+"/addressability", token.NoPos, "entry function not found")
			continue
		}
		rc.Touch(p.FuncName(fd))
		n := 0
		seen := map[*ast.FuncDecl]bool{}
		var visit func(cur *ast.FuncDecl, env map[types.Object]*bool, depth int)
		visit = func(cur *ast.FuncDecl, env map[types.Object]*bool, depth int) {
			if seen[cur] || depth > 4 {
				return
			}
			seen[cur] = true
			eval := func(e ast.Expr) *bool {
				e = core.Unparen(e)
				if tv, ok := info.Types[e]; ok && tv.Value != nil && tv.Value.Kind() == constant.Bool {
					b := constant.BoolVal(tv.Value)
					return &b
				}
				if o := core.ObjOf(info, e); o != nil {
					if v, ok := env[o]; ok {
						return v
					}
				}
				return nil
			}
			ast.Inspect(cur.Body, func(m ast.Node) bool {
				call, ok := m.(*ast.CallExpr)
				if !ok {
					return true
				}
				f := core.Callee(info, call)
				if f == nil || f.Pkg() == nil || f.Pkg() != pk.Types {
					return true
				}
				if targets[f.Name()] && len(call.Args) == 2 {
					n++
					key := fmt.Sprintf("encoder.%s/call %s#%d in %s addressable=%v", w.entry, f.Name(), n, cur.Name.Name, w.val)
					v := eval(call.Args[1])
					switch {
					case v == nil:
						rc.Unknown(key, call.Pos(), "the flag %s is no constant here", core.Src(p.Fset, call.Args[1]))
					case *v == w.val:
						rc.OK(key, call.Pos(), "%s(…, %v): %s", f.Name(), *v, w.why)
					default:
						rc.Bad(key, call.Pos(), "%s compiles its values with isPtr=%v (%s): %s, so a member type with a marshal method on the pointer receiver is written differently from encoding/json", w.entry, *v, core.Src(p.Fset, call), w.why)
					}
					return true
				}
				if stop[f.Name()] {
					return true
				}
				hd := p.DeclOf(f)
				if hd == nil || hd.Body == nil {
					return true
				}
				sig, _ := f.Type().(*types.Signature)
				env2 := map[types.Object]*bool{}
				if sig != nil {
					for i := 0; i < sig.Params().Len() && i < len(call.Args); i++ {
						if v := eval(call.Args[i]); v != nil {
							// the parameter object of the declaration
							k := 0
							for _, fl := range hd.Type.Params.List {
								for _, nm := range fl.Names {
									if k == i {
										env2[info.Defs[nm]] = v
									}
									k++
								}
							}
						}
					}
				}
				visit(hd, env2, depth+1)
				return true
			})
		}
		visit(fd, map[types.Object]*bool{}, 0)
		if n == 0 {
			rc.Unknown("encoder."+w.entry+"/addressability", fd.Pos(), "no call of typeToCodeWithPtr or structCode is reached from %s", w.entry)
		}
	}
}

// ---- C01.R21 the table of programs per struct type tells apart what the programs depend on ----

// The program of a struct depends on whether the occurrence it is compiled for is addressable: structCode hands its
// isPtr on to the members, and a member type with a marshal method on the pointer receiver is compiled to a call of
// the method (addressable) or by its kind (not addressable), as encoding/json does. A recursive reference is linked
// (linkRecursiveCode) to the one program compileContext.structTypeToCodes holds for the struct type. What a
// reference through a pointer or a slice needs is the addressable program, through a map value the other one.
// Obligation: the key under which (*StructCode).ToOpcode stores the program mentions the addressability the
// program was compiled for (c.isPtr) besides the type.
func c01r21(rc *core.RC) {
	p := rc.P
	fd := p.Func("encoder", "StructCode.ToOpcode")
	key := "encoder.(*StructCode).ToOpcode/program-table-key-covers-addressability"
	if fd == nil || fd.Body == nil {
		rc.Unknown(key, token.NoPos, "(*StructCode).ToOpcode not found")
		return
	}
	rc.Touch(p.FuncName(fd))
	info := p.Info(fd)
	var store *ast.IndexExpr
	ast.Inspect(fd.Body, func(m ast.Node) bool {
		as, ok := m.(*ast.AssignStmt)
		if !ok {
			return true
		}
		for _, l := range as.Lhs {
			if ix, isIx := core.Unparen(l).(*ast.IndexExpr); isIx {
				if f := core.FieldOf(info, core.Unparen(ix.X)); f != nil && f.Name() == "structTypeToCodes" {
					store = ix
				}
			}
		}
		return true
	})
	if store == nil {
		rc.Unknown(key, fd.Pos(), "no store into structTypeToCodes in (*StructCode).ToOpcode")
		return
	}
	covers := false
	ast.Inspect(store.Index, func(m ast.Node) bool {
		if sel, ok := m.(*ast.SelectorExpr); ok && (sel.Sel.Name == "isPtr" || sel.Sel.Name == "isIndirect") {
			covers = true
		}
		return true
	})
	if covers {
		rc.OK(key, store.Pos(), "the key %s tells the addressable program of a type from the other one", core.Src(p.Fset, store.Index))
	} else {
		rc.Bad(key, store.Pos(), "the program of a struct is stored under %s, the type alone, and every recursive reference to the type is linked to the program stored last: when the type occurs both addressable and not (struct{ B *T; A T } passed by value), the values behind a recursive pointer are written by whichever program was compiled last, with or without the pointer-receiver marshal methods of their members", core.Src(p.Fset, store.Index))
	}
}

// ---- C01.R22 an omitempty head looks through the member only where the member lies behind an address ----

// OpStructHeadOmitEmpty decides whether its first member, a pointer, is nil. Reached through the address of the struct
// (IndirectFlags), the member is the word at that address: ptrToPtr(p). A struct that is one pointer and is passed by
// value is held directly: p is the member itself, and ptrToPtr(p) is the first word of what it points to. Testing that
// word omits a non-nil pointer to a struct whose first word happens to be zero (struct{ P *T `omitempty` }{&T{A: 0}}
// is written {}). Obligation, in the OpStructHeadOmitEmpty clause of every interpreter: a test ptrToPtr(p) == 0 that
// decides the omission stands together with a test of IndirectFlags.
func c01r22(rc *core.RC) {
	p := rc.P
	t := loadOpTable(rc)
	if t == nil {
		return
	}
	n := 0
	for _, vm := range core.VMPkgs {
		cl, _ := opClauses(rc, vm, t)
		if cl == nil {
			continue
		}
		info := p.Pkg(vm).TypesInfo
		for label, cc := range cl {
			if !strings.Contains(","+label+",", ",OpStructHeadOmitEmpty,") {
				continue
			}
			ast.Inspect(cc, func(m ast.Node) bool {
				ifs, ok := m.(*ast.IfStmt)
				if !ok {
					return true
				}
				for _, d := range disjuncts(ifs.Cond) {
					mentionsDeref, mentionsIndirect := false, false
					ast.Inspect(d, func(q ast.Node) bool {
						switch x := q.(type) {
						case *ast.CallExpr:
							if strings.HasSuffix(core.CalleeName(info, x), ".ptrToPtr") {
								mentionsDeref = true
							}
						case *ast.SelectorExpr:
							if x.Sel.Name == "IndirectFlags" {
								mentionsIndirect = true
							}
						}
						return true
					})
					if !mentionsDeref {
						continue
					}
					n++
					key := fmt.Sprintf("%s.Run/case OpStructHeadOmitEmpty/member-read-through-an-address-only", vm)
					if mentionsIndirect {
						rc.OK(key, d.Pos(), "the member is read through p only where p is the address of the struct")
					} else {
						rc.Bad(key, d.Pos(), "%s takes the word p points to for the member also when the struct is held directly (one pointer, passed by value): p is the member then, and a non-nil pointer to a struct whose first word is zero is omitted", core.Src(p.Fset, d))
					}
				}
				return true
			})
		}
	}
	if n < 4 {
		rc.Unknown("encoder-vms/OpStructHeadOmitEmpty", token.NoPos, "found %d emptiness tests through ptrToPtr in the OpStructHeadOmitEmpty clauses, fewer than the 4 confirmed by hand", n)
	}
}

// ---- C01.R23 a nil value of a kind that has no encoding is an error, not null ----

// OpInterface writes null for a dynamic value whose data word is nil. encoding/json does so for nil pointers, maps
// and slices; for a nil channel, func or unsafe.Pointer it reports the unsupported type, as it does for a non-nil
// one. The clause compiles the dynamic type only behind the null exit, so the exit must leave these kinds to the
// compilation (which reports them). Obligation, in the OpInterface clause of every interpreter: the exit that
// writes null for a nil data word is closed for reflect.Chan and reflect.Func.
func c01r23(rc *core.RC) {
	p := rc.P
	t := loadOpTable(rc)
	if t == nil {
		return
	}
	n := 0
	for _, vm := range core.VMPkgs {
		cl, _ := opClauses(rc, vm, t)
		if cl == nil {
			continue
		}
		info := p.Pkg(vm).TypesInfo
		for label, cc := range cl {
			if !strings.Contains(","+label+",", ",OpInterface,") {
				continue
			}
			// if ifacePtr == nil { … appendNullComma … }
			ast.Inspect(cc, func(m ast.Node) bool {
				ifs, ok := m.(*ast.IfStmt)
				if !ok {
					return true
				}
				be, isB := core.Unparen(ifs.Cond).(*ast.BinaryExpr)
				if !isB || be.Op != token.EQL {
					return true
				}
				if tv, has := info.Types[be.Y]; !has || !tv.IsNil() {
					return true
				}
				if o := core.ObjOf(info, be.X); o == nil || o.Type().String() != "unsafe.Pointer" {
					return true
				}
				writesNull := false
				kinds := map[string]bool{}
				ast.Inspect(ifs.Body, func(q ast.Node) bool {
					switch x := q.(type) {
					case *ast.CallExpr:
						if strings.HasSuffix(core.CalleeName(info, x), ".appendNullComma") {
							writesNull = true
						}
					case *ast.SelectorExpr:
						if id, isID := x.X.(*ast.Ident); isID && id.Name == "reflect" {
							kinds[x.Sel.Name] = true
						}
					}
					return true
				})
				if !writesNull {
					return true
				}
				n++
				key := fmt.Sprintf("%s.Run/case OpInterface/nil-of-a-kind-without-encoding-is-no-null", vm)
				if kinds["Chan"] && kinds["Func"] {
					rc.OK(key, ifs.Pos(), "the null exit is closed for reflect.Chan and reflect.Func: the compilation of the type reports them")
				} else {
					rc.Bad(key, ifs.Pos(), "a nil data word is written as null whatever the dynamic type is: []interface{}{(chan int)(nil)} and a nil func succeed with null where encoding/json returns an UnsupportedTypeError")
				}
				return false
			})
		}
	}
	if n < 4 {
		rc.Unknown("encoder-vms/OpInterface-null-exit", token.NoPos, "found %d null exits for a nil data word in the OpInterface clauses, fewer than the 4 confirmed by hand", n)
	}
}

// ---- C01.R24 where both marshal interfaces are asked for, MarshalJSON is asked first ----

// encoding/json prefers MarshalJSON to MarshalText wherever a type has both. The compiler decides that in several
// places (the root, behind a pointer, elements, members), each a switch whose cases ask for the two interfaces.
// Obligation, for every tagless switch of compiler.go that has cases for both: a case that asks for MarshalJSON
// stands in front of the first case that asks for MarshalText.
func c01r24(rc *core.RC) {
	p := rc.P
	n := 0
	for _, fd := range p.Funcs("encoder") {
		if fd.Body == nil || p.FileBase(fd.Pos()) != "compiler.go" {
			continue
		}
		k := 0
		ast.Inspect(fd.Body, func(m ast.Node) bool {
			sw, ok := m.(*ast.SwitchStmt)
			if !ok || sw.Tag != nil {
				return true
			}
			firstJSON, firstText := -1, -1
			for i, st := range sw.Body.List {
				cc := st.(*ast.CaseClause)
				for _, e := range cc.List {
					src := core.Src(p.Fset, e)
					if firstJSON < 0 && (strings.Contains(src, "MarshalJSON") || strings.Contains(src, "marshalJSON")) {
						firstJSON = i
					}
					if firstText < 0 && (strings.Contains(src, "MarshalText") || strings.Contains(src, "marshalText")) && !strings.Contains(src, "MarshalJSON") && !strings.Contains(src, "marshalJSON") {
						firstText = i
					}
				}
			}
			if firstJSON < 0 || firstText < 0 {
				return true
			}
			n++
			k++
			rc.Touch(p.FuncName(fd))
			key := fmt.Sprintf("%s/marshaler-switch#%d MarshalJSON-asked-first", p.FuncName(fd), k)
			if firstJSON < firstText {
				rc.OK(key, sw.Pos(), "the case for MarshalJSON stands in front of the case for MarshalText")
			} else {
				rc.Bad(key, sw.Pos(), "%s asks for MarshalText before MarshalJSON: a type that has both methods is written through MarshalText at this position (a quoted text) where encoding/json and the other positions of the compiler call MarshalJSON", p.FuncName(fd))
			}
			return true
		})
	}
	if n < 4 {
		rc.Unknown("encoder/compiler.go/marshaler-switches", token.NoPos, "found %d switches that ask for both marshal interfaces, fewer than the 4 confirmed by hand", n)
	}
}

// ---- C01.R25 the string option looks through one pointer, in the encoder as in encoding/json ----

// encoding/json applies the string option to a field whose type, after one unnamed pointer is taken off, is a
// scalar or a string: *int is quoted, **int is written as it is. The encoder chooses the quoting variants of the
// member operations in optimizeStructHeader / optimizeStructField (ToHeaderType, ToFieldType), where a pointer
// operation stands for a chain of any depth (Opcode.PtrNum). Obligation: the flag those two conversions are called
// with is not the tag's IsString alone: it is joined with a test of the pointer depth (directly, or in the one-line
// helper the call names).
func c01r25(rc *core.RC) {
	p := rc.P
	pk := p.Pkg("encoder")
	if pk == nil {
		return
	}
	info := pk.TypesInfo
	n := 0
	for _, fd := range p.Funcs("encoder") {
		if fd.Body == nil {
			continue
		}
		k := 0
		ast.Inspect(fd.Body, func(m ast.Node) bool {
			call, ok := m.(*ast.CallExpr)
			if !ok || len(call.Args) != 1 {
				return true
			}
			cn := core.CalleeName(info, call)
			if !strings.HasSuffix(cn, "Opcode.ToHeaderType") && !strings.HasSuffix(cn, "Opcode.ToFieldType") {
				return true
			}
			n++
			k++
			rc.Touch(p.FuncName(fd))
			key := fmt.Sprintf("%s/%s#%d string-option-looks-through-one-pointer", p.FuncName(fd), cn[strings.LastIndex(cn, ".")+1:], k)
			var cond ast.Node = call.Args[0]
			if c2, isCall := core.Unparen(call.Args[0]).(*ast.CallExpr); isCall {
				if f := core.Callee(info, c2); f != nil && f.Pkg() == pk.Types {
					if hd := p.DeclOf(f); hd != nil && hd.Body != nil {
						cond = hd.Body
					}
				}
			}
			depth := false
			ast.Inspect(cond, func(q ast.Node) bool {
				if sel, isSel := q.(*ast.SelectorExpr); isSel && sel.Sel.Name == "PtrNum" {
					depth = true
				}
				return true
			})
			rc.Check(depth, key, call.Pos(), "the flag that chooses the quoting variant of the member operation is the tag's string option joined with a test of the pointer depth: a pointer operation stands for a chain of any depth, and encoding/json quotes *int and writes **int as it is")
			return true
		})
	}
	if n < 2 {
		rc.Unknown("encoder/ToHeaderType-ToFieldType-calls", token.NoPos, "found %d calls of ToHeaderType / ToFieldType, fewer than the 2 confirmed by hand", n)
	}
}
