package rules

import (
	"fmt"
	"go/ast"
	"go/token"
	"go/types"
	"strings"

	"golang.org/x/tools/go/ssa"

	"verif/checker/core"
)

// C20.R1: look-ahead reads of the path builder (the path text is a []rune without a terminator),
// and the non-empty precondition of builder functions that read buf[0].
func c20r1(rc *core.RC) {
	lookaheadRule(rc, "decoder", func(f string) bool { return f == "path.go" }, false, 1)
	p := rc.P
	// functions reading param[0] without a local emptiness test
	type need struct {
		fd  *ast.FuncDecl
		prm types.Object
		idx int
	}
	var needs []need
	for _, fd := range p.Funcs("decoder") {
		if fd.Body == nil || p.FileBase(fd.Pos()) != "path.go" {
			continue
		}
		info := p.Info(fd)
		k := 0
		for _, f := range fd.Type.Params.List {
			for _, nm := range f.Names {
				prm := info.Defs[nm]
				if _, isSlice := prm.Type().Underlying().(*types.Slice); isSlice {
					reads0, guarded := false, false
					var first ast.Node
					ast.Inspect(fd.Body, func(m ast.Node) bool {
						if ix, ok := m.(*ast.IndexExpr); ok && core.ObjOf(info, ix.X) == prm {
							if v, isC := core.ConstInt(info, ix.Index); isC && v == 0 && first == nil {
								reads0 = true
								first = ix
							}
						}
						return true
					})
					if reads0 {
						cf := core.BuildCFG(fd.Body, info)
						fb, _ := cf.BlockOf(first)
						ast.Inspect(fd.Body, func(m ast.Node) bool {
							ifs, ok := m.(*ast.IfStmt)
							if !ok || len(ifs.Body.List) == 0 {
								return true
							}
							if _, isRet := ifs.Body.List[len(ifs.Body.List)-1].(*ast.ReturnStmt); !isRet {
								return true
							}
							be, ok := core.Unparen(ifs.Cond).(*ast.BinaryExpr)
							if !ok {
								return true
							}
							c, ok := core.Unparen(be.X).(*ast.CallExpr)
							if !ok || !core.IsBuiltin(info, c, "len") || core.ObjOf(info, c.Args[0]) != prm {
								return true
							}
							if v, isC := core.ConstInt(info, be.Y); isC && v == 0 && be.Op == token.EQL {
								gb, _ := cf.BlockOf(ifs.Cond)
								if gb != nil && fb != nil && cf.Dominates(gb, fb) {
									guarded = true
								}
							}
							return true
						})
						if !guarded {
							needs = append(needs, need{fd, prm, k})
						} else {
							rc.OK(p.FuncName(fd)+"/"+nm.Name+"[0]", first.Pos(), "guarded by a local len(%s) == 0 exit", nm.Name)
						}
					}
				}
				k++
			}
		}
	}
	// every call of such a function passes a provably non-empty slice
	for _, nd := range needs {
		fo, _ := p.Info(nd.fd).Defs[nd.fd.Name].(*types.Func)
		sites := 0
		for _, cfd := range p.Funcs("decoder") {
			if cfd.Body == nil {
				continue
			}
			info := p.Info(cfd)
			var cf *core.FuncCFG
			ast.Inspect(cfd.Body, func(m ast.Node) bool {
				call, ok := m.(*ast.CallExpr)
				if !ok || core.Callee(info, call) != fo || nd.idx >= len(call.Args) {
					return true
				}
				sites++
				rc.CallSites++
				if cf == nil {
					cf = core.BuildCFG(cfd.Body, info)
				}
				key := fmt.Sprintf("%s/call %s/non-empty-argument", p.FuncName(cfd), nd.fd.Name.Name)
				ok2, why := nonEmptyArg(rc, cfd, cf, call, call.Args[nd.idx])
				if ok2 {
					rc.OK(key, call.Pos(), "%s", why)
				} else {
					rc.Unknown(key, call.Pos(), "%s reads its argument's first element unconditionally, and this call passes %s without a recognisable proof that it is non-empty (%s)", nd.fd.Name.Name, core.Src(p.Fset, call.Args[nd.idx]), why)
				}
				return true
			})
		}
		if sites == 0 {
			rc.Note(p.FuncName(nd.fd)+"/callers", nd.fd.Pos(), "reads its slice argument's first element; no caller found in the package")
		}
	}
}

// nonEmptyArg recognises: X[e:] after a dominating exit `e+j >= len(X)` / `len(X) == e` (with X[0..e-1] known to exist),
// inside `if len(X) > e`, or a variable assigned from such an expression.
func nonEmptyArg(rc *core.RC, fd *ast.FuncDecl, cf *core.FuncCFG, at ast.Node, arg ast.Expr) (bool, string) {
	info := rc.P.Info(fd)
	arg = core.Unparen(arg)
	if id, ok := arg.(*ast.Ident); ok {
		// last assignment before the call of the form  id = id[e:]  /  id := X[e:]
		obj := core.ObjOf(info, id)
		var def *ast.AssignStmt
		ast.Inspect(fd.Body, func(m ast.Node) bool {
			if as, ok := m.(*ast.AssignStmt); ok && as.Pos() < at.Pos() && len(as.Lhs) == 1 && core.ObjOf(info, as.Lhs[0]) == obj {
				def = as
			}
			return true
		})
		if def == nil {
			return false, "no defining assignment"
		}
		return nonEmptyArg(rc, fd, cf, def, def.Rhs[0])
	}
	se, ok := arg.(*ast.SliceExpr)
	if !ok || se.Low == nil || se.High != nil {
		return false, "not a tail slice"
	}
	base := types.ExprString(core.Unparen(se.X))
	lowBase, lowK, okLow := splitOffset(info, se.Low)
	lowConst, isConst := core.ConstInt(info, se.Low)
	ab, _ := cf.BlockOf(at)
	found, why := false, ""
	ast.Inspect(fd.Body, func(m ast.Node) bool {
		ifs, ok := m.(*ast.IfStmt)
		if !ok || found {
			return true
		}
		gb, _ := cf.BlockOf(ifs.Cond)
		inBody := ifs.Body.Pos() <= at.Pos() && at.End() <= ifs.Body.End()
		be, ok := core.Unparen(ifs.Cond).(*ast.BinaryExpr)
		if !ok {
			return true
		}
		// if len(X) > e { … call … }
		if inBody && (be.Op == token.GTR || be.Op == token.LSS) {
			lenSide, other := be.X, be.Y
			if be.Op == token.LSS { // e < len(X)
				lenSide, other = be.Y, be.X
			}
			if c, ok := core.Unparen(lenSide).(*ast.CallExpr); ok && core.IsBuiltin(info, c, "len") && types.ExprString(core.Unparen(c.Args[0])) == base {
				if types.ExprString(core.Unparen(other)) == types.ExprString(core.Unparen(se.Low)) {
					found, why = true, "inside `if "+core.Src(rc.P.Fset, ifs.Cond)+"`"
				}
			}
		}
		if inBody || gb == nil || ab == nil || !cf.Dominates(gb, ab) || len(ifs.Body.List) == 0 {
			return true
		}
		if _, isRet := ifs.Body.List[len(ifs.Body.List)-1].(*ast.ReturnStmt); !isRet {
			return true
		}
		// exit: e+j >= len(X)
		if b2, j, form, ok := lengthBound(info, fd, ifs.Cond); ok && form == "exit" && okLow && b2 == lowBase && j >= lowK {
			found, why = true, "after the exit `"+core.Src(rc.P.Fset, ifs.Cond)+"`"
		}
		// exit: len(X) == e  (elements 0..e-1 exist because X[0] is read by this function's own precondition)
		if be.Op == token.EQL && isConst {
			if c, ok := core.Unparen(be.X).(*ast.CallExpr); ok && core.IsBuiltin(info, c, "len") && types.ExprString(core.Unparen(c.Args[0])) == base {
				if v, ok := core.ConstInt(info, be.Y); ok && v == lowConst {
					found, why = true, "after the exit `"+core.Src(rc.P.Fset, ifs.Cond)+"` (shorter lengths are excluded by the function's own non-empty precondition)"
				}
			}
		}
		return true
	})
	return found, why
}

// ---- C20.R2 a document key is unescaped before it is compared with a selector ----

// In DecodePath methods the name handed to Path.Field (or PathNode.Field) must be the decoded
// key text: the result of a stringDecoder method. A slice of the input buffer is the key as it
// is spelled, with its escape sequences, and never equals the selector for a member written as
// {"a":1}.
func c20r2(rc *core.RC) {
	p := rc.P
	n := 0
	for _, fd := range p.Funcs("decoder") {
		if fd.Body == nil || fd.Recv == nil || fd.Name.Name != "DecodePath" {
			continue
		}
		info := p.Info(fd)
		fn := p.FuncName(fd)
		ast.Inspect(fd.Body, func(m ast.Node) bool {
			call, ok := m.(*ast.CallExpr)
			if !ok || len(call.Args) != 1 {
				return true
			}
			cn := core.CalleeName(info, call)
			if !strings.HasSuffix(cn, ".Field") || !strings.HasPrefix(cn, "decoder.") {
				return true
			}
			n++
			rc.Touch(fn)
			key := fn + "/selector-compared-with-decoded-key"
			// string(key) → key
			arg := core.Unparen(call.Args[0])
			if conv, ok := arg.(*ast.CallExpr); ok && len(conv.Args) == 1 {
				if tv, ok := info.Types[conv.Fun]; ok && tv.IsType() {
					arg = core.Unparen(conv.Args[0])
				}
			}
			obj := core.ObjOf(info, arg)
			if obj == nil {
				rc.Unknown(key, call.Pos(), "the argument of Field is not a variable")
				return true
			}
			var defs []ast.Expr
			ast.Inspect(fd.Body, func(k ast.Node) bool {
				if as, ok := k.(*ast.AssignStmt); ok {
					for i, l := range as.Lhs {
						if core.ObjOf(info, l) == obj {
							if len(as.Rhs) == len(as.Lhs) {
								defs = append(defs, as.Rhs[i])
							} else if len(as.Rhs) == 1 {
								defs = append(defs, as.Rhs[0])
							}
						}
					}
				}
				return true
			})
			good := len(defs) > 0
			origin := ""
			for _, d := range defs {
				c, ok := core.Unparen(d).(*ast.CallExpr)
				if !ok {
					good, origin = false, core.Src(p.Fset, d)
					continue
				}
				name := core.CalleeName(info, c)
				origin = name
				if !strings.HasPrefix(name, "decoder.stringDecoder.") {
					good = false
				}
			}
			if good {
				rc.OK(key, call.Pos(), "the name comes from %s, which unescapes the key", origin)
			} else {
				rc.Bad(key, call.Pos(), "the name compared with the selector comes from `%s`, not from the string decoder: an escaped spelling of a key (\\u0061 for a, \\/ for /) is compared as written and never matches its selector", origin)
			}
			return true
		})
	}
	if n < 1 {
		rc.Unknown("decoder/DecodePath-field-lookups", token.NoPos, "no Path.Field call found in a DecodePath method")
	}
}

// ---- C20.R3 integer texts are parsed in base 10 ----

// JSON numbers and JSON Path indexes are decimal. Every strconv.ParseInt/ParseUint call of the
// library must pass the constant base 10: base 0 accepts 0x/0o/0b prefixes and underscores and
// reads a leading zero as octal.
func c20r3(rc *core.RC) {
	p := rc.P
	n := 0
	for _, short := range []string{"decoder", "encoder", "json", "runtime"} {
		for _, fd := range p.Funcs(short) {
			if fd.Body == nil {
				continue
			}
			info := p.Info(fd)
			fn := p.FuncName(fd)
			k := 0
			ast.Inspect(fd.Body, func(m ast.Node) bool {
				c, ok := m.(*ast.CallExpr)
				if !ok || len(c.Args) != 3 {
					return true
				}
				name := core.CalleeName(info, c)
				if name != "strconv.ParseInt" && name != "strconv.ParseUint" {
					return true
				}
				n++
				k++
				rc.Touch(fn)
				base, ok := core.ConstInt(info, c.Args[1])
				rc.Check(ok && base == 10, fmt.Sprintf("%s/%s#%d base", fn, strings.TrimPrefix(name, "strconv."), k), c.Pos(), "the text is parsed with base `%s`; JSON numbers and path indexes are decimal (base 0 reads 010 as 8 and accepts 0x1, 0b1, 1_0)", core.Src(p.Fset, c.Args[1]))
				return true
			})
		}
	}
	if n < 3 {
		rc.Unknown("strconv-integer-parses", token.NoPos, "found %d strconv.ParseInt/ParseUint calls", n)
	}
}

// ---- C20.R4 Path.Unmarshal hands its destination only the list of all extracted parts ----

// Path.Unmarshal decodes every extracted part and assigns the list of results to the destination
// with decoder.AssignValue, whatever the number of parts. A shortcut that decodes a part straight
// into the destination makes the outcome depend on how many parts the path happened to select in
// this document. The destination parameter may therefore be used only inside the AssignValue call,
// and a nil return must come after that call.
func c20r4(rc *core.RC) {
	p := rc.P
	fd := p.Func("json", "Path.Unmarshal")
	if fd == nil {
		rc.Unknown("json.(*Path).Unmarshal", token.NoPos, "not found")
		return
	}
	rc.Touch("json.(*Path).Unmarshal")
	info := p.Info(fd)
	// the destination: the parameter of interface type
	var dst types.Object
	for _, f := range fd.Type.Params.List {
		if tv, ok := info.Types[f.Type]; ok {
			if _, isIface := tv.Type.Underlying().(*types.Interface); isIface && len(f.Names) == 1 {
				dst = info.Defs[f.Names[0]]
			}
		}
	}
	if dst == nil {
		rc.Unknown("json.(*Path).Unmarshal/destination", fd.Pos(), "destination parameter not found")
		return
	}
	var assign *ast.CallExpr
	ast.Inspect(fd.Body, func(m ast.Node) bool {
		if c, ok := m.(*ast.CallExpr); ok && core.CalleeName(info, c) == "decoder.AssignValue" {
			assign = c
		}
		return true
	})
	if assign == nil {
		rc.Bad("json.(*Path).Unmarshal/assigns-list", fd.Pos(), "decoder.AssignValue is not called: the destination does not receive the list of extracted parts")
		return
	}
	bad := token.NoPos
	ast.Inspect(fd.Body, func(m ast.Node) bool {
		id, ok := m.(*ast.Ident)
		if !ok || info.Uses[id] != dst {
			return true
		}
		if !(assign.Pos() <= id.Pos() && id.End() <= assign.End()) && bad == token.NoPos {
			bad = id.Pos()
		}
		return true
	})
	rc.Check(bad == token.NoPos, "json.(*Path).Unmarshal/destination-only-assigned-the-list", firstPos(bad, assign.Pos()), "the destination is used only as the target of decoder.AssignValue (a part decoded straight into it would make the result depend on the number of matches)")
	cf := core.BuildCFG(fd.Body, info)
	ab, _ := cf.BlockOf(assign)
	ok := true
	n := 0
	for _, r := range cf.Returns() {
		if len(r.Results) == 1 && core.IsNilIdent(info, r.Results[0]) {
			n++
			rb, _ := cf.BlockOf(r)
			if ab == nil || rb == nil || !(cf.Dominates(ab, rb) || ab == rb) {
				ok = false
			}
		}
	}
	rc.Check(ok && n > 0, "json.(*Path).Unmarshal/success-after-assign", assign.Pos(), "every `return nil` (%d) comes after the AssignValue call", n)
	// the list holds a result for every part: the append sits in a range over the extracted parts
	ranged := false
	ast.Inspect(fd.Body, func(m ast.Node) bool {
		rs, ok := m.(*ast.RangeStmt)
		if !ok {
			return true
		}
		hasAppend, leaves := false, false
		ast.Inspect(rs.Body, func(x ast.Node) bool {
			switch y := x.(type) {
			case *ast.CallExpr:
				if core.CalleeName(info, y) == "append" {
					hasAppend = true
				}
			case *ast.BranchStmt:
				if y.Tok == token.BREAK || y.Tok == token.CONTINUE {
					leaves = true
				}
			}
			return true
		})
		if hasAppend && !leaves {
			ranged = true
		}
		return true
	})
	rc.Check(ranged, "json.(*Path).Unmarshal/every-part-decoded", fd.Pos(), "the results are appended in a loop over all extracted parts that has no break or continue")
}

func firstPos(a, b token.Pos) token.Pos {
	if a != token.NoPos {
		return a
	}
	return b
}

// ---- C20.R5 path nodes are per-path objects ----

// A compiled Path is a chain of nodes linked through BasePathNode.child, which chain() writes while the path text is
// built. A node object that is shared between two selectors (a package-level `[*]` node handed out by the constructor)
// makes every path that uses the selector share one child link: a Path then depends on the paths created after it.
// Every node a constructor or builder function returns has to be allocated by that call.
func c20r5(rc *core.RC) {
	p := rc.P
	of := core.NewOriginFinder(p)
	pk := p.Pkg("decoder")
	if pk == nil {
		rc.Unknown("decoder/path-nodes", token.NoPos, "package not loaded")
		return
	}
	var nodeIface *types.Interface
	if o := pk.Types.Scope().Lookup("PathNode"); o != nil {
		nodeIface, _ = o.Type().Underlying().(*types.Interface)
	}
	if nodeIface == nil {
		rc.Unknown("decoder/path-nodes", token.NoPos, "interface PathNode not found")
		return
	}
	isNode := func(t types.Type) bool {
		if t == nil {
			return false
		}
		if types.Implements(t, nodeIface) {
			return true
		}
		if pt, ok := t.Underlying().(*types.Pointer); ok {
			if strings.HasSuffix(pt.Elem().String(), "decoder.Path") || strings.HasSuffix(pt.Elem().String(), "decoder.BasePathNode") {
				return true
			}
		}
		return false
	}
	// (1) no package-level variable holds a node
	n := 0
	for _, short := range []string{"decoder", "json"} {
		q := p.Pkg(short)
		if q == nil {
			continue
		}
		sc := q.Types.Scope()
		for _, name := range sc.Names() {
			v, ok := sc.Lookup(name).(*types.Var)
			if !ok {
				continue
			}
			if isNode(v.Type()) {
				n++
				rc.Bad(fmt.Sprintf("%s.%s/package-level-path-node", short, name), v.Pos(), "the package-level variable %s holds a path node (%s): a node carries the child link of the path it belongs to, so one that outlives a CreatePath call is shared by every path built from it", name, v.Type())
			}
		}
	}
	// (2) what the constructors and builders return was allocated by the call
	k := 0
	for _, fn := range p.ModuleFuncs() {
		if fn.Pkg == nil || fn.Pkg.Pkg.Path() != core.PkgPaths["decoder"] || fn.Signature.Recv() != nil {
			continue
		}
		res := fn.Signature.Results()
		if res.Len() == 0 || !isNode(res.At(0).Type()) {
			continue
		}
		for _, b := range fn.Blocks {
			for _, ins := range b.Instrs {
				r, ok := ins.(*ssa.Return)
				if !ok || len(r.Results) == 0 {
					continue
				}
				k++
				rc.Touch(core.SSAName(fn))
				key := fmt.Sprintf("%s/returned-node#%d allocated-by-the-call", core.SSAName(fn), k)
				var bad []string
				for _, o := range of.Origins(r.Results[0]) {
					if o.Kind == "global" {
						bad = append(bad, o.String())
					}
				}
				rc.Check(len(bad) == 0, key, core.SSAPos(r), "the node returned does not come from a package-level variable%s", func() string {
					if len(bad) == 0 {
						return ""
					}
					return " — it is " + strings.Join(bad, ", ") + ": every path that contains this selector shares the node and its child link; creating a second such path re-links the first ($.items[*].id stops matching after CreatePath(\"$.tags[*].k\"))"
				}())
			}
		}
	}
	if k < 4 {
		rc.Unknown("decoder/path-node-constructors", token.NoPos, "found %d returns of path node constructors/builders (confirmed: newPathSelectorNode, newPathIndexNode, newPathIndexAllNode, newPathRecursiveNode and the builder)", k)
	}
	if n == 0 {
		rc.OK("module/package-level-path-nodes", token.NoPos, "no package-level variable of json or decoder has a path node type")
	}
}

// ---- C20.R6 an index selector is not negative ----

// PathIndexNode.Get hands its selector to reflect.Value.Index after testing it against the length only from above. A
// selector below zero must therefore never be built: where the builder turns the text of an index into a node, the
// parsed number is refused when it is negative (or it is parsed as an unsigned number).
func c20r6(rc *core.RC) {
	p := rc.P
	n := 0
	for _, fd := range p.Funcs("decoder") {
		if fd.Body == nil || p.FileBase(fd.Pos()) != "path.go" {
			continue
		}
		info := p.Info(fd)
		fn := p.FuncName(fd)
		k := 0
		var visit func(list []ast.Stmt, guards []*ast.IfStmt)
		visit = func(list []ast.Stmt, guards []*ast.IfStmt) {
			local := append([]*ast.IfStmt{}, guards...)
			for _, st := range list {
				// calls of addIndexNode in this statement (not in nested lists, which are visited below)
				switch x := st.(type) {
				case *ast.IfStmt:
					local = append(local, x)
					visit(x.Body.List, local)
					if e, ok := x.Else.(*ast.BlockStmt); ok {
						visit(e.List, local)
					}
					continue
				case *ast.ForStmt:
					visit(x.Body.List, local)
					continue
				case *ast.RangeStmt:
					visit(x.Body.List, local)
					continue
				case *ast.SwitchStmt:
					for _, c := range x.Body.List {
						visit(c.(*ast.CaseClause).Body, local)
					}
					continue
				case *ast.BlockStmt:
					visit(x.List, local)
					continue
				}
				ast.Inspect(st, func(m ast.Node) bool {
					c, ok := m.(*ast.CallExpr)
					if !ok || len(c.Args) != 1 {
						return true
					}
					sel, isSel := c.Fun.(*ast.SelectorExpr)
					if !isSel || sel.Sel.Name != "addIndexNode" {
						return true
					}
					n++
					k++
					rc.Touch(fn)
					key := fmt.Sprintf("%s/addIndexNode#%d selector-not-negative", fn, k)
					arg := core.Unparen(c.Args[0])
					if cv, isConv := arg.(*ast.CallExpr); isConv && len(cv.Args) == 1 {
						arg = core.Unparen(cv.Args[0])
					}
					v := core.ObjOf(info, arg)
					if v == nil {
						rc.Unknown(key, c.Pos(), "the selector %s is not a variable", core.Src(p.Fset, c.Args[0]))
						return true
					}
					// parsed unsigned?
					unsigned := false
					ast.Inspect(fd.Body, func(y ast.Node) bool {
						if as, isAs := y.(*ast.AssignStmt); isAs && len(as.Rhs) == 1 && len(as.Lhs) >= 1 && core.ObjOf(info, as.Lhs[0]) == v {
							if pc, isCall := core.Unparen(as.Rhs[0]).(*ast.CallExpr); isCall && core.CalleeName(info, pc) == "strconv.ParseUint" {
								unsigned = true
							}
						}
						return true
					})
					guarded := false
					for _, g := range local {
						if g.End() > c.Pos() {
							continue // the call is inside this if: its condition is not an exit in front of the call
						}
						exits := false
						for _, s2 := range g.Body.List {
							if r, isRet := s2.(*ast.ReturnStmt); isRet && core.ReturnIsError(info, r) {
								exits = true
							}
						}
						if !exits {
							continue
						}
						var disj func(e ast.Expr) bool
						disj = func(e ast.Expr) bool {
							e = core.Unparen(e)
							be, isBin := e.(*ast.BinaryExpr)
							if !isBin {
								return false
							}
							if be.Op == token.LOR {
								return disj(be.X) || disj(be.Y)
							}
							if be.Op == token.LSS && core.ObjOf(info, be.X) == v {
								if z, isC := core.ConstInt(info, be.Y); isC && z == 0 {
									return true
								}
							}
							return false
						}
						if disj(g.Cond) {
							guarded = true
						}
					}
					rc.Check(unsigned || guarded, key, c.Pos(), "the number that becomes an index selector (%s) is refused when it is below zero before the node is made (Path.Get would hand it to reflect.Value.Index: CreatePath(\"$[-1]\") followed by Get on a slice panics)", v.Name())
					// the number is parsed in the width of the int it becomes: parsed in 64 bits and converted, an index of
					// 2^32-1 is the selector -1 on a 32-bit build
					if _, isConv := core.Unparen(c.Args[0]).(*ast.CallExpr); isConv {
						intBits := int64(64)
						if pk := p.Pkg("decoder"); pk != nil && pk.TypesSizes != nil {
							intBits = pk.TypesSizes.Sizeof(types.Typ[types.Int]) * 8
						}
						key2 := fmt.Sprintf("%s/addIndexNode#%d parsed-in-the-width-of-int", fn, k)
						width := int64(-1)
						ast.Inspect(fd.Body, func(y ast.Node) bool {
							if as, isAs := y.(*ast.AssignStmt); isAs && len(as.Rhs) == 1 && len(as.Lhs) >= 1 && core.ObjOf(info, as.Lhs[0]) == v {
								if pc, isCall := core.Unparen(as.Rhs[0]).(*ast.CallExpr); isCall && len(pc.Args) == 3 {
									if cn := core.CalleeName(info, pc); cn == "strconv.ParseInt" || cn == "strconv.ParseUint" {
										if w, isC := core.ConstInt(info, pc.Args[2]); isC {
											width = w
											if w == 0 {
												width = intBits
											}
										}
									}
								}
							}
							return true
						})
						switch {
						case width < 0:
							rc.Unknown(key2, c.Pos(), "the width the index is parsed in was not recognised")
						case width <= intBits:
							rc.OK(key2, c.Pos(), "parsed in %d bits, int has %d in this configuration", width, intBits)
						default:
							rc.Bad(key2, c.Pos(), "the index is parsed in %d bits and converted to int, which has %d bits in this configuration: CreatePath(\"$[4294967295]\") is accepted, the selector becomes -1 and Path.Get hands it to reflect.Value.Index (panic)", width, intBits)
						}
					}
					return true
				})
			}
		}
		visit(fd.Body.List, nil)
	}
	if n < 1 {
		rc.Unknown("decoder/path-index-nodes", token.NoPos, "no addIndexNode call found in path.go")
	}
}

// ---- C20.R7 a selector matches a name or an index by equality ----

// Each path node answers Field(name) and Index(i) with (next node, matched, error). Child, quoted-name and
// recursive-descent selectors select the members whose name EQUALS the selector, index selectors the element whose
// index EQUALS it. A `matched == true` answer is therefore either unconditional (the wildcard, the recursive node for
// array elements) or stands under exactly the test `n.selector == <parameter>`.
func c20r7(rc *core.RC) {
	p := rc.P
	n := 0
	for _, fd := range p.Funcs("decoder") {
		if fd.Body == nil || fd.Recv == nil || (fd.Name.Name != "Field" && fd.Name.Name != "Index") || p.FileBase(fd.Pos()) != "path.go" {
			continue
		}
		if fd.Type.Results == nil || fd.Type.Results.NumFields() != 3 || len(fd.Recv.List[0].Names) == 0 || fd.Type.Params.NumFields() != 1 {
			continue
		}
		info := p.Info(fd)
		fn := p.FuncName(fd)
		recv := info.Defs[fd.Recv.List[0].Names[0]]
		var param types.Object
		if len(fd.Type.Params.List[0].Names) > 0 {
			param = info.Defs[fd.Type.Params.List[0].Names[0]]
		}
		k := 0
		var visit func(list []ast.Stmt, conds []ast.Expr)
		visit = func(list []ast.Stmt, conds []ast.Expr) {
			for _, st := range list {
				switch x := st.(type) {
				case *ast.ReturnStmt:
					if len(x.Results) != 3 {
						continue
					}
					v := core.ConstValue(info, x.Results[1])
					if v == nil {
						n++
						k++
						rc.Unknown(fmt.Sprintf("%s/match#%d by-equality", fn, k), x.Pos(), "the matched result %s is not a constant", core.Src(p.Fset, x.Results[1]))
						continue
					}
					if v.String() != "true" {
						continue
					}
					n++
					k++
					rc.Touch(fn)
					key := fmt.Sprintf("%s/match#%d by-equality", fn, k)
					if len(conds) == 0 {
						rc.OK(key, x.Pos(), "matches every %s (wildcard or recursive descent)", map[string]string{"Field": "name", "Index": "index"}[fd.Name.Name])
						continue
					}
					good := len(conds) == 1
					if good {
						be, isBin := core.Unparen(conds[0]).(*ast.BinaryExpr)
						good = isBin && be.Op == token.EQL
						if good {
							isSel := func(e ast.Expr) bool {
								s, ok := core.Unparen(e).(*ast.SelectorExpr)
								return ok && s.Sel.Name == "selector" && core.ObjOf(info, s.X) == recv
							}
							isParam := func(e ast.Expr) bool { return param != nil && core.ObjOf(info, e) == param }
							good = (isSel(be.X) && isParam(be.Y)) || (isSel(be.Y) && isParam(be.X))
						}
					}
					var cs []string
					for _, c := range conds {
						cs = append(cs, core.Src(p.Fset, c))
					}
					rc.Check(good, key, x.Pos(), "the node matches under `%s`; a selector selects by equality of its own selector with the name or index asked for (not by prefix, case folding or an ordering)", strings.Join(cs, " && "))
				case *ast.IfStmt:
					visit(x.Body.List, append(append([]ast.Expr{}, conds...), x.Cond))
					if e, ok := x.Else.(*ast.BlockStmt); ok {
						visit(e.List, append(append([]ast.Expr{}, conds...), &ast.UnaryExpr{Op: token.NOT, X: x.Cond}))
					}
				case *ast.BlockStmt:
					visit(x.List, conds)
				case *ast.SwitchStmt:
					for _, c := range x.Body.List {
						cc := c.(*ast.CaseClause)
						visit(cc.Body, append(append([]ast.Expr{}, conds...), x.Tag))
					}
				}
			}
		}
		visit(fd.Body.List, nil)
	}
	if n < 4 {
		rc.Unknown("decoder/path-node-matchers", token.NoPos, "found %d matching returns in the Field/Index methods of the path nodes (confirmed: selector, index, wildcard, recursive x2)", n)
	}
}

// ---- C20.R8 a container's DecodePath visits every element ----

// The DecodePath methods of the container decoders (slice, array, map, struct) walk the elements or members of a
// container in a loop and collect what the path selects. A selector can match any number of them (wildcard, recursive
// descent, duplicate keys), so the collected results may only be returned where the loop meets the closing bracket of
// the container: a success return anywhere else in the loop cuts the walk short.
func c20r8(rc *core.RC) {
	p := rc.P
	n := 0
	for _, fd := range p.Funcs("decoder") {
		if fd.Body == nil || fd.Recv == nil || fd.Name.Name != "DecodePath" {
			continue
		}
		recv := core.RecvString(fd.Recv.List[0].Type)
		if !strings.Contains(recv, "sliceDecoder") && !strings.Contains(recv, "arrayDecoder") && !strings.Contains(recv, "mapDecoder") && !strings.Contains(recv, "structDecoder") {
			continue
		}
		info := p.Info(fd)
		fn := p.FuncName(fd)
		rc.Touch(fn)
		// element loops: for-loops nested inside the clause of the opening bracket
		var loops []*ast.ForStmt
		ast.Inspect(fd.Body, func(m ast.Node) bool {
			if fs, ok := m.(*ast.ForStmt); ok {
				for _, anc := range core.PathTo(fd.Body, fs) {
					if cc, isCC := anc.(*ast.CaseClause); isCC {
						for _, l := range cc.List {
							if v, isC := core.ConstInt(info, l); isC && (v == '[' || v == '{') {
								loops = append(loops, fs)
							}
						}
					}
				}
			}
			return true
		})
		if len(loops) == 0 {
			// the struct and map decoders enter their loop after testing the opening bracket: take the outermost loop
			ast.Inspect(fd.Body, func(m ast.Node) bool {
				if fs, ok := m.(*ast.ForStmt); ok && len(loops) == 0 {
					loops = append(loops, fs)
				}
				return true
			})
		}
		k := 0
		for _, loop := range loops {
			ast.Inspect(loop.Body, func(m ast.Node) bool {
				r, ok := m.(*ast.ReturnStmt)
				if !ok || len(r.Results) != 3 || !core.IsNilIdent(info, r.Results[2]) || core.IsNilIdent(info, r.Results[0]) {
					return true
				}
				if _, isCall := core.Unparen(r.Results[0]).(*ast.CallExpr); isCall {
					return true
				}
				n++
				k++
				key := fmt.Sprintf("%s/success-return#%d at-the-closing-bracket", fn, k)
				atClose := false
				for _, anc := range core.PathTo(loop.Body, r) {
					switch a := anc.(type) {
					case *ast.CaseClause:
						for _, l := range a.List {
							if v, isC := core.ConstInt(info, l); isC && (v == ']' || v == '}') {
								atClose = true
							}
						}
					case *ast.IfStmt:
						// if <byte> == ']' / '}' { … return }
						ast.Inspect(a.Cond, func(y ast.Node) bool {
							if be, isBin := y.(*ast.BinaryExpr); isBin && be.Op == token.EQL {
								if v, isC := core.ConstInt(info, be.Y); isC && (v == ']' || v == '}') {
									atClose = true
								}
							}
							return true
						})
					}
				}
				rc.Check(atClose, key, r.Pos(), "the collected results are returned where the element loop meets the closing bracket of the container; a success return elsewhere in the loop ends the walk early, and a selector that matches several elements (recursive descent, wildcard) loses the later ones ($..b on [{\"b\":1},{\"b\":2}] gives [1])")
				return true
			})
		}
	}
	if n < 2 {
		rc.Unknown("decoder/container-decodepath-returns", token.NoPos, "found %d success returns in the element loops of the container DecodePath methods (confirmed: slice and map; the array and struct decoders do not support paths)", n)
	}
}

// ---- C20.R9 a number reaches an integer destination without float arithmetic ----

// Path.Unmarshal and Path.Get hand the selected parts, decoded into interface{} (numbers as float64), to the cast
// helpers of assign.go. An integer destination gets int64(f) / uint64(f): every integer of magnitude below 2^53 is
// exact in the float64 and is reproduced exactly by the conversion. Arithmetic on the float before the conversion
// (adding 0.5 "to round", scaling) is not exact for large magnitudes: between 2^52 and 2^53 f+0.5 is a tie that
// rounds to the even neighbour and every odd integer comes out one off. The operand of every float-to-integer
// conversion in the decoder package therefore is the reflect.Value.Float() call, a variable or a field, with no
// arithmetic in it; module helpers in operand position are followed one level.
func c20r9(rc *core.RC) {
	p := rc.P
	n := 0
	isFloat := func(t types.Type) bool {
		b, ok := t.Underlying().(*types.Basic)
		return ok && b.Info()&types.IsFloat != 0
	}
	isInteger := func(t types.Type) bool {
		b, ok := t.Underlying().(*types.Basic)
		return ok && b.Info()&types.IsInteger != 0
	}
	var arithmetic func(info *types.Info, e ast.Expr, depth int) string
	arithmetic = func(info *types.Info, e ast.Expr, depth int) string {
		bad := ""
		ast.Inspect(e, func(m ast.Node) bool {
			if bad != "" {
				return false
			}
			switch x := m.(type) {
			case *ast.BinaryExpr:
				switch x.Op {
				case token.ADD, token.SUB, token.MUL, token.QUO:
					if t := info.TypeOf(x); t != nil && isFloat(t) {
						if tv := info.Types[x]; tv.Value == nil {
							bad = core.Src(p.Fset, x)
						}
					}
				}
			case *ast.CallExpr:
				if f := core.Callee(info, x); f != nil && f.Pkg() != nil && strings.HasPrefix(f.Pkg().Path(), core.ModPath) && depth < 1 {
					if fd := p.DeclOf(f); fd != nil && fd.Body != nil {
						finfo := p.Info(fd)
						ast.Inspect(fd.Body, func(k ast.Node) bool {
							if ret, ok := k.(*ast.ReturnStmt); ok {
								for _, r := range ret.Results {
									if t := finfo.TypeOf(r); t != nil && isFloat(t) {
										if a := arithmetic(finfo, r, depth+1); a != "" && bad == "" {
											bad = f.Name() + " returns " + a
										}
									}
								}
							}
							return true
						})
					}
				}
			}
			return true
		})
		return bad
	}
	for _, fd := range p.Funcs("decoder") {
		if fd.Body == nil {
			continue
		}
		info := p.Info(fd)
		fn := p.FuncName(fd)
		k := 0
		ast.Inspect(fd.Body, func(m ast.Node) bool {
			call, ok := m.(*ast.CallExpr)
			if !ok || len(call.Args) != 1 {
				return true
			}
			tv, isConv := info.Types[call.Fun]
			if !isConv || !tv.IsType() || !isInteger(tv.Type) {
				return true
			}
			at := info.TypeOf(call.Args[0])
			if at == nil || !isFloat(at) {
				return true
			}
			if v := info.Types[call.Args[0]]; v.Value != nil {
				return true
			}
			n++
			k++
			rc.Touch(fn)
			key := fmt.Sprintf("%s/float-to-integer#%d operand-without-arithmetic", fn, k)
			a := arithmetic(info, call.Args[0], 0)
			rc.Check(a == "", key, call.Pos(), "the float64 that is converted to an integer (%s) is the decoded number itself: arithmetic on it first (%s) is inexact for magnitudes of 2^52 and more, where adding 0.5 is a tie that rounds to even and moves every odd integer by one", core.Src(p.Fset, call), a)
			return true
		})
	}
	if n < 2 {
		rc.Unknown("decoder/float-to-integer", token.NoPos, "found %d conversions of a float to an integer type in the decoder package (confirmed: castInt, castUint)", n)
	}
}

// ---- C20.R10 the path text becomes runes by the language conversion ----

// The path builder works on []rune so that member names keep their characters. The text becomes runes through
// []rune(s), which decodes UTF-8. Widening the bytes of the string one by one (rune(s[i])) is the same for ASCII and
// wrong for every other member name: `$.名前` would look for a member whose key is the Latin-1 reading of its bytes.
func c20r10(rc *core.RC) {
	p := rc.P
	n := 0
	for _, fd := range p.Funcs("decoder") {
		if fd.Body == nil || p.FileBase(fd.Pos()) != "path.go" {
			continue
		}
		info := p.Info(fd)
		fn := p.FuncName(fd)
		k := 0
		ast.Inspect(fd.Body, func(m ast.Node) bool {
			call, ok := m.(*ast.CallExpr)
			if !ok {
				return true
			}
			// (a) the argument of the builder's entry
			if strings.HasSuffix(core.CalleeName(info, call), "PathBuilder.Build") && len(call.Args) == 1 {
				n++
				rc.Touch(fn)
				key := fn + "/path-text decoded-as-UTF-8"
				good := false
				why := core.Src(p.Fset, call.Args[0])
				if conv, isCall := core.Unparen(call.Args[0]).(*ast.CallExpr); isCall && len(conv.Args) == 1 {
					if tv, isT := info.Types[conv.Fun]; isT && tv.IsType() && tv.Type.String() == "[]rune" {
						if at := info.TypeOf(conv.Args[0]); at != nil {
							if b, isB := at.Underlying().(*types.Basic); isB && b.Info()&types.IsString != 0 {
								good = true
							}
						}
					}
				}
				rc.Check(good, key, call.Pos(), "the builder is given []rune(<string>), the conversion that decodes UTF-8 (found: %s): runes made from single bytes turn every non-ASCII member name into another name", why)
				return true
			}
			// (b) no byte of a string is widened to a rune in path.go
			if tv, isT := info.Types[call.Fun]; isT && tv.IsType() && tv.Type.String() == "rune" && len(call.Args) == 1 {
				if ix, isIx := core.Unparen(call.Args[0]).(*ast.IndexExpr); isIx {
					if at := info.TypeOf(ix.X); at != nil {
						if b, isB := at.Underlying().(*types.Basic); isB && b.Info()&types.IsString != 0 {
							k++
							rc.Bad(fmt.Sprintf("%s/byte-widened-to-rune#%d", fn, k), call.Pos(), "%s widens one byte of a string to a rune: for a multi-byte character that is not its code point", core.Src(p.Fset, call))
						}
					}
				}
			}
			return true
		})
	}
	if n < 1 {
		rc.Unknown("decoder/path-entry", token.NoPos, "no call of PathBuilder.Build found in path.go")
	}
}

// ---- C20.R11 the skippers walk strings byte by byte ----

// Where a string ends is decided by walking it from its opening quote and consuming escape pairs left to right:
// a quote ends the string exactly when an even number of backslashes precedes it. The six skippers (skipObject,
// skipArray, skipValue in buffer and stream form) do that with a byte dispatch that has a clause for '\\' (step over
// the next byte) and one for '"'. A search for the next quote (bytes.IndexByte) with a look at the two bytes in
// front of it gets \\\" wrong: the scanner leaves the string early and the object is cut at the wrong brace.
func c20r11(rc *core.RC) {
	has := map[string]bool{}
	for _, d := range dispatchSites(rc) {
		if d.role == "in-string" && d.bs.ClauseOf('\\') != nil && d.bs.ClauseOf('"') != nil {
			has[d.fn] = true
		}
	}
	p := rc.P
	n := 0
	for _, name := range []string{"skipObject", "skipArray", "skipValue", "Stream.skipObject", "Stream.skipArray", "Stream.skipValue"} {
		fd := p.Func("decoder", name)
		if fd == nil {
			rc.Unknown("decoder."+name, token.NoPos, "skipper not found")
			continue
		}
		n++
		fn := p.FuncName(fd)
		rc.Touch(fn)
		key := fn + "/strings-walked-byte-by-byte"
		// a quote search in the function is the tell-tale of the shortcut
		search := ""
		info := p.Info(fd)
		ast.Inspect(fd.Body, func(m ast.Node) bool {
			if c, ok := m.(*ast.CallExpr); ok {
				if name := core.CalleeName(info, c); strings.HasPrefix(name, "bytes.Index") || strings.HasPrefix(name, "strings.Index") {
					search = name
				}
			}
			return true
		})
		switch {
		case has[fn] && search == "":
			rc.OK(key, fd.Pos(), "strings are walked by a byte dispatch with clauses for the backslash and the quote")
		case search != "":
			rc.Bad(key, fd.Pos(), "the skipper looks for the end of a string with %s: whether the quote it finds is escaped depends on the parity of all backslashes in front of it, which a look at one or two bytes cannot tell (\\\\\\\" ends the string too early)", search)
		default:
			rc.Bad(key, fd.Pos(), "no in-string byte dispatch with clauses for '\\\\' and '\"' found: strings inside skipped values are not walked escape by escape")
		}
	}
	if n < 6 {
		rc.Unknown("decoder/skippers-strings", token.NoPos, "found %d of the six skippers", n)
	}
}

// ---- C20.R12 the path builder consumes all of its text or fails ----

// The path text is parsed by mutually recursive methods of PathBuilder that take the rest of the text ([]rune) and
// return how much of it they consumed. Only build compares that number with the length, and it can do so for one
// level only; what makes trailing text an error is that every method either fails or consumes everything it was given.
// That is an inductive invariant visible in the returns: a success return is
//   - len(buf), or a value v under a condition that says len(buf) <= v (nothing remains), or
//   - c + n where n is what another builder method reported for buf[k:] and c >= k, or
//   - the result of a builder method that was handed the same buf.
//
// A success return that fits none of these leaves text that nobody examined: `$[0][1]x` would be a valid path.
func c20r12(rc *core.RC) {
	p := rc.P
	pk := p.Pkg("decoder")
	if pk == nil {
		rc.Unknown("decoder", token.NoPos, "package not found")
		return
	}
	type builder struct {
		fd     *ast.FuncDecl
		bufIdx int
	}
	builders := map[*types.Func]builder{}
	for _, fd := range p.Funcs("decoder") {
		if fd.Recv == nil || fd.Body == nil {
			continue
		}
		fn, _ := pk.TypesInfo.Defs[fd.Name].(*types.Func)
		if fn == nil {
			continue
		}
		sig := fn.Type().(*types.Signature)
		if !strings.HasSuffix(sig.Recv().Type().String(), "decoder.PathBuilder") || sig.Results().Len() != 2 {
			continue
		}
		if b, ok := sig.Results().At(0).Type().(*types.Basic); !ok || b.Kind() != types.Int || sig.Results().At(1).Type().String() != "error" {
			continue
		}
		for i := 0; i < sig.Params().Len(); i++ {
			if sig.Params().At(i).Type().String() == "[]rune" {
				builders[fn] = builder{fd, i}
				break
			}
		}
	}
	if len(builders) < 6 {
		rc.Unknown("decoder/path-builders", token.NoPos, "found %d methods of PathBuilder with the shape ([]rune …) (int, error) (confirmed: 6)", len(builders))
	}
	for fn, b := range builders {
		fd := b.fd
		info := pk.TypesInfo
		name := p.FuncName(fd)
		rc.Touch(name)
		bufVar := fn.Type().(*types.Signature).Params().At(b.bufIdx)
		reassigned := false
		ast.Inspect(fd.Body, func(n ast.Node) bool {
			if as, ok := n.(*ast.AssignStmt); ok {
				for _, l := range as.Lhs {
					if core.ObjOf(info, l) == bufVar {
						reassigned = true
					}
				}
			}
			return true
		})
		le := &core.LinearEval{Info: info, Pkg: pk, Body: fd.Body}
		lenAtom := "len(" + bufVar.Name() + ")"
		// the builder call that defines a variable (n, err := b.buildX(buf[k:]))
		defCall := func(id *ast.Ident) (*ast.CallExpr, bool) {
			obj := core.ObjOf(info, id)
			var call *ast.CallExpr
			ast.Inspect(fd.Body, func(n ast.Node) bool {
				as, ok := n.(*ast.AssignStmt)
				if !ok || len(as.Rhs) != 1 || len(as.Lhs) != 2 {
					return true
				}
				if lid, ok := as.Lhs[0].(*ast.Ident); ok && core.ObjOf(info, lid) == obj && info.Defs[lid] != nil {
					if c, ok := core.Unparen(as.Rhs[0]).(*ast.CallExpr); ok {
						if _, isB := builders[core.Callee(info, c)]; isB {
							call = c
						}
					}
				}
				return true
			})
			return call, call != nil
		}
		// nothing remains: a condition on the path to n that says len(buf) <= v
		emptyAt := func(n ast.Node, v core.Linear) bool {
			var conds []condNode
			conds = append(conds, condChainNodes(fd, n)...)
			path := core.PathTo(fd.Body, n)
			for i, pn := range path {
				var list []ast.Stmt
				switch x := pn.(type) {
				case *ast.BlockStmt:
					list = x.List
				case *ast.CaseClause:
					list = x.Body
				default:
					continue
				}
				if i+1 >= len(path) {
					continue
				}
				for _, st := range list {
					if ast.Node(st) == path[i+1] {
						break
					}
					ifs, ok := st.(*ast.IfStmt)
					if !ok || ifs.Else != nil || ifs.Init != nil || len(ifs.Body.List) == 0 {
						continue
					}
					if _, isRet := ifs.Body.List[len(ifs.Body.List)-1].(*ast.ReturnStmt); !isRet {
						continue
					}
					cond, flip := stripNot(ifs.Cond)
					conds = append(conds, condNode{cond, flip})
				}
			}
			for _, c := range conds {
				be, ok := core.Unparen(c.cond).(*ast.BinaryExpr)
				if !ok {
					continue
				}
				l, r := le.Eval(be.X), le.Eval(be.Y)
				if !l.OK || !r.OK {
					continue
				}
				// d = (left - right); with len(buf) on one side: bring to the form len(buf) OP bound
				op := be.Op
				if !c.pos {
					switch op {
					case token.GTR:
						op = token.LEQ
					case token.GEQ:
						op = token.LSS
					case token.LSS:
						op = token.GEQ
					case token.LEQ:
						op = token.GTR
					case token.EQL:
						op = token.NEQ
					case token.NEQ:
						op = token.EQL
					default:
						continue
					}
				}
				var bound core.Linear
				switch {
				case l.Terms[lenAtom] == 1 && len(nonzeroTerms(l)) == 1 && l.Const == 0:
					// len(buf) OP r
					switch op {
					case token.LEQ, token.EQL:
						bound = r
					case token.LSS:
						bound = r.Sub(core.LinConst(1))
					default:
						continue
					}
				case r.Terms[lenAtom] == 1 && len(nonzeroTerms(r)) == 1 && r.Const == 0:
					// l OP len(buf)
					switch op {
					case token.GEQ, token.EQL:
						bound = l
					case token.GTR:
						bound = l.Sub(core.LinConst(1))
					default:
						continue
					}
				default:
					continue
				}
				// len(buf) <= bound and bound <= v
				if d := v.Sub(bound); d.OK && len(nonzeroTerms(d)) == 0 && d.Const >= 0 {
					return true
				}
			}
			return false
		}
		nret := 0
		ast.Inspect(fd.Body, func(n ast.Node) bool {
			if _, isLit := n.(*ast.FuncLit); isLit {
				return false
			}
			ret, ok := n.(*ast.ReturnStmt)
			if !ok {
				return true
			}
			nret++
			key := fmt.Sprintf("%s/success-return#%d consumes-all-or-delegates", name, nret)
			if reassigned {
				rc.Unknown(key, ret.Pos(), "the text parameter %s is reassigned: its length is no longer the length of what was handed in", bufVar.Name())
				return true
			}
			switch len(ret.Results) {
			case 1:
				c, ok := core.Unparen(ret.Results[0]).(*ast.CallExpr)
				callee, isB := builders[core.Callee(info, c)]
				if !ok || !isB {
					rc.Unknown(key, ret.Pos(), "a single-expression return that is not a call of a builder method")
					return true
				}
				arg := core.Unparen(c.Args[callee.bufIdx])
				rc.Check(core.ObjOf(info, arg) == bufVar, key, ret.Pos(), "the result of %s is returned as this method's own count: it has to be handed the same text (%s), not a part of it", core.CalleeName(info, c), bufVar.Name())
			case 2:
				if tv, ok := info.Types[ret.Results[1]]; !ok || !tv.IsNil() {
					return true // an error return
				}
				v := le.Eval(ret.Results[0])
				if !v.OK {
					rc.Unknown(key, ret.Pos(), "the count returned (%s) is not a linear form", core.Src(p.Fset, ret.Results[0]))
					return true
				}
				// the share a builder call reported
				var viaCall *ast.CallExpr
				var viaName string
				ast.Inspect(ret.Results[0], func(m ast.Node) bool {
					if id, ok := m.(*ast.Ident); ok {
						if c, ok := defCall(id); ok {
							viaCall, viaName = c, id.Name
						}
					}
					return true
				})
				switch {
				case viaCall != nil:
					callee := builders[core.Callee(info, viaCall)]
					arg := core.Unparen(viaCall.Args[callee.bufIdx])
					k := core.LinConst(0)
					if se, ok := arg.(*ast.SliceExpr); ok && se.High == nil && se.Max == nil && core.ObjOf(info, se.X) == bufVar {
						if se.Low != nil {
							k = le.Eval(se.Low)
						}
					} else if core.ObjOf(info, arg) != bufVar {
						rc.Unknown(key, ret.Pos(), "the builder call behind %s is not handed %s or %s[k:]", viaName, bufVar.Name(), bufVar.Name())
						return true
					}
					rest := v.Sub(core.Linear{Terms: map[string]int64{viaName: 1}, OK: true})
					d := rest.Sub(k)
					rc.Check(d.OK && len(nonzeroTerms(d)) == 0 && d.Const >= 0, key, ret.Pos(), "%s reports all of %s[%s:] consumed; this method returns %s for the whole of %s: the part in front has to count at least %s", core.CalleeName(info, viaCall), bufVar.Name(), k, v, bufVar.Name(), k)
				case v.Terms[lenAtom] == 1 && len(nonzeroTerms(v)) == 1 && v.Const >= 0:
					rc.OK(key, ret.Pos(), "returns len(%s): the scan reached the end of the text", bufVar.Name())
				default:
					rc.Check(emptyAt(ret, v), key, ret.Pos(), "success with the count %s: a condition on the way to this return has to say that nothing of %s remains behind it (len(%s) <= %s); text behind the count that nobody examined is accepted as part of a valid path", v, bufVar.Name(), bufVar.Name(), v)
				}
			}
			return true
		})
	}
}

// ---- C20.R13 selectors that remain select nothing from a value that is no container ----

// The value a path ends at is taken by the container that holds it (the member or element is copied out with
// skipValue). DecodePath is entered for a value only while selectors remain: for an object or an array they are applied
// to its members; a number, string or literal has nothing they could select, so the answer is no text. The branches of
// interfaceDecoder.DecodePath for those values return the value's own text instead: `$.a.b` over {"a":1} yields 1,
// `$.z[*].a` yields every scalar element of z, and a string comes back without its quotes. (The recursive selector is
// built on this: `$..a` finds a top-level scalar only because the scalar is returned when the selector that follows
// the match is applied to it, which is why the branches cannot simply be emptied.)
func c20r13(rc *core.RC) {
	p := rc.P
	fd := p.Func("decoder", "interfaceDecoder.DecodePath")
	if fd == nil || fd.Body == nil {
		rc.Unknown("decoder.interfaceDecoder.DecodePath", token.NoPos, "method not found")
		return
	}
	info := p.Info(fd)
	name := p.FuncName(fd)
	rc.Touch(name)
	n := 0
	ast.Inspect(fd.Body, func(m ast.Node) bool {
		cc, ok := m.(*ast.CaseClause)
		if !ok || len(cc.List) == 0 {
			return true
		}
		first, isC := core.ConstInt(info, cc.List[0])
		if !isC || first == '{' || first == '[' {
			return true
		}
		n++
		// what the clause answers with: a non-nil list of texts
		answers := false
		ast.Inspect(cc, func(k ast.Node) bool {
			r, ok := k.(*ast.ReturnStmt)
			if !ok || len(r.Results) != 3 {
				return true
			}
			if tv, has := info.Types[r.Results[2]]; !has || !tv.IsNil() {
				return true // an error return
			}
			if tv, has := info.Types[r.Results[0]]; has && tv.IsNil() {
				return true
			}
			answers = true
			return true
		})
		// a clause that hands on to a scalar decoder's DecodePath answers with what that returns
		ast.Inspect(cc, func(k ast.Node) bool {
			if r, ok := k.(*ast.ReturnStmt); ok && len(r.Results) == 1 {
				if c, ok := core.Unparen(r.Results[0]).(*ast.CallExpr); ok && strings.HasSuffix(core.CalleeName(info, c), ".DecodePath") {
					answers = true
				}
			}
			return true
		})
		rc.Check(!answers, fmt.Sprintf("%s/clause %q no-text-for-a-scalar", name, rune(first)), cc.Pos(), "with selectors still to apply, the clause for a value that begins with %q answers with the value's own text: a selector applied to a number, string or literal selects nothing (`$.a.b` over {\"a\":1} yields 1)", rune(first))
		return true
	})
	if n < 4 {
		rc.Unknown(name+"/scalar-clauses", fd.Pos(), "found %d clauses for values that are neither objects nor arrays (confirmed: 5)", n)
	}
}

// ---- C20.R14 the value begins behind the colon that was tested ----

// Between a member name and its value stand optional white space, the colon, optional white space. The object
// walkers of the decoder skip the white space, compare the byte under the cursor with ':' and step over it: the
// cursor that goes on to the value is the one the colon was found under, plus one. A value position computed from the
// end of the key instead (keyCursor + 1) is the same number only when the colon follows the key directly:
// `"name" : value` sends the decoder into the white space or the colon. Obligation: the statement that follows each
// test of a byte against ':' (an if that leaves with an error) advances the cursor of that test by one.
func c20r14(rc *core.RC) {
	p := rc.P
	pk := p.Pkg("decoder")
	if pk == nil {
		rc.Unknown("decoder", token.NoPos, "package not found")
		return
	}
	info := pk.TypesInfo
	n := 0
	for _, fd := range p.Funcs("decoder") {
		if fd.Body == nil {
			continue
		}
		name := p.FuncName(fd)
		k := 0
		ast.Inspect(fd.Body, func(m ast.Node) bool {
			ifs, ok := m.(*ast.IfStmt)
			if !ok || ifs.Else != nil || len(ifs.Body.List) == 0 {
				return true
			}
			if _, isRet := ifs.Body.List[len(ifs.Body.List)-1].(*ast.ReturnStmt); !isRet {
				return true
			}
			be, ok := core.Unparen(ifs.Cond).(*ast.BinaryExpr)
			if !ok || be.Op != token.NEQ {
				return true
			}
			if v, isC := core.ConstInt(info, be.Y); !isC || v != ':' {
				return true
			}
			// the cursor the byte was read under: buf[X], char(p, X), or the stream's own (s.skipWhiteSpace(), s.char())
			cur := ""
			switch x := core.Unparen(be.X).(type) {
			case *ast.IndexExpr:
				cur = types.ExprString(core.Unparen(x.Index))
			case *ast.CallExpr:
				cn := core.CalleeName(info, x)
				switch {
				case cn == "decoder.char" && len(x.Args) == 2:
					cur = types.ExprString(core.Unparen(x.Args[1]))
				case strings.HasPrefix(cn, "decoder.Stream.") && len(x.Args) == 0:
					if sel, ok := x.Fun.(*ast.SelectorExpr); ok {
						cur = types.ExprString(sel.X) + ".cursor"
					}
				}
			}
			if cur == "" {
				return true
			}
			k++
			n++
			rc.Touch(name)
			// the statement that follows the test: the next one in its block, or behind the statement that holds it
			var next ast.Stmt
			path := core.PathTo(fd.Body, ifs)
			child := ast.Node(ifs)
			for i := len(path) - 2; i >= 0 && next == nil; i-- {
				var list []ast.Stmt
				switch b := path[i].(type) {
				case *ast.BlockStmt:
					list = b.List
				case *ast.CaseClause:
					list = b.Body
				default:
					child = path[i]
					continue
				}
				for j, st := range list {
					if ast.Node(st) == child && j+1 < len(list) {
						next = list[j+1]
					}
				}
				if i > 0 {
					if _, isLoop := path[i-1].(*ast.ForStmt); isLoop && next == nil {
						break
					}
				}
				child = path[i]
			}
			advanced := false
			switch st := next.(type) {
			case *ast.IncDecStmt:
				advanced = st.Tok == token.INC && types.ExprString(core.Unparen(st.X)) == cur
			case *ast.AssignStmt:
				if len(st.Lhs) == 1 && len(st.Rhs) == 1 && types.ExprString(core.Unparen(st.Lhs[0])) == cur {
					le := &core.LinearEval{Info: info, Pkg: pk, Body: fd.Body}
					switch st.Tok {
					case token.ADD_ASSIGN:
						v, isC := core.ConstInt(info, st.Rhs[0])
						advanced = isC && v == 1
					case token.ASSIGN:
						if be2, ok := core.Unparen(st.Rhs[0]).(*ast.BinaryExpr); ok && be2.Op == token.ADD {
							l := le.Eval(be2)
							_ = l
							if types.ExprString(core.Unparen(be2.X)) == cur {
								v, isC := core.ConstInt(info, be2.Y)
								advanced = isC && v == 1
							}
						}
					}
				}
			}
			what := "nothing"
			if next != nil {
				what = "`" + core.Src(p.Fset, next) + "`"
			}
			rc.Check(advanced, fmt.Sprintf("%s/colon-test#%d value-begins-behind-it", name, k), ifs.Pos(), "the byte under %s is compared with ':'; what follows the test is %s, which has to step %s over the colon: a value position taken from somewhere else (the end of the key) is right only when the colon follows the key directly, and `\"name\" : value` is decoded from the white space or the colon", cur, what, cur)
			return true
		})
	}
	if n < 4 {
		rc.Unknown("decoder/colon-tests", token.NoPos, "found %d tests of a byte against ':' that leave with an error (confirmed: 4)", n)
	}
}

// ---- C20.R15 a text taken backwards from the cursor spans what the cursor just stepped over ----

// Where a value's text is handed out as a part of the input after the cursor has moved past it, the part is
// buf[cursor-K : cursor] and the step in front of it was cursor += N: K has to be N. The literals have different
// lengths (true and null 4, false 5); a slice copied from a sibling clause hands out `alse`.
func c20r15(rc *core.RC) {
	p := rc.P
	pk := p.Pkg("decoder")
	if pk == nil {
		rc.Unknown("decoder", token.NoPos, "package not found")
		return
	}
	info := pk.TypesInfo
	n := 0
	for _, fd := range p.Funcs("decoder") {
		if fd.Body == nil {
			continue
		}
		name := p.FuncName(fd)
		le := &core.LinearEval{Info: info, Pkg: pk, Body: fd.Body}
		k := 0
		var walk func(list []ast.Stmt)
		walk = func(list []ast.Stmt) {
			step := map[string]int64{} // cursor -> last constant advance in this list
			for _, st := range list {
				if as, ok := st.(*ast.AssignStmt); ok && as.Tok == token.ADD_ASSIGN && len(as.Lhs) == 1 && isCursorExpr(as.Lhs[0]) {
					if v, isC := core.ConstInt(info, as.Rhs[0]); isC {
						step[types.ExprString(core.Unparen(as.Lhs[0]))] = v
					}
				}
				ast.Inspect(st, func(m ast.Node) bool {
					switch x := m.(type) {
					case *ast.BlockStmt:
						walk(x.List)
						return false
					case *ast.CaseClause:
						walk(x.Body)
						return false
					case *ast.SliceExpr:
						if x.Low == nil || x.High == nil || !isCursorExpr(x.High) {
							return true
						}
						cur := types.ExprString(core.Unparen(x.High))
						lo := le.Eval(x.Low)
						if !lo.OK || lo.Terms[cur] != 1 || len(nonzeroTerms(lo)) != 1 || lo.Const >= 0 {
							return true
						}
						nstep, has := step[cur]
						if !has {
							return true
						}
						k++
						n++
						rc.Touch(name)
						rc.Check(-lo.Const == nstep, fmt.Sprintf("%s/backward-slice#%d spans-the-step", name, k), x.Pos(), "%s is taken after %s += %d: the part handed out has to be the %d bytes the cursor stepped over (a width copied from a sibling literal hands out `alse` for false)", core.Src(p.Fset, x), cur, nstep, nstep)
					}
					return true
				})
			}
		}
		walk(fd.Body.List)
	}
	// no instance on a tree that hands out copies of the literals: the rule is kept alive by its seeded change
	rc.OK("decoder/backward-slices", token.NoPos, "%d parts of the input taken backwards from a cursor behind a constant step, each spanning the step", n)
}

// ---- C20.R16 evaluating a path cuts text and converts nothing ----

// DecodePath of a decoder answers with parts of the input. A number that a path selects, or walks past, is handed out
// as it is spelled: 1e400 and an integer of 400 digits are valid documents that no Go number holds. Obligation: no
// DecodePath method of package decoder calls a conversion of package strconv or the package's own parseInt / parseUint
// (directly: the scanners it shares with Decode only find the end of the number).
func c20r16(rc *core.RC) {
	p := rc.P
	n := 0
	for _, fd := range p.Funcs("decoder") {
		if fd.Body == nil || fd.Name.Name != "DecodePath" || fd.Recv == nil {
			continue
		}
		n++
		info := p.Info(fd)
		rc.Touch(p.FuncName(fd))
		key := p.FuncName(fd) + "/no-conversion"
		var bad *ast.CallExpr
		name := ""
		ast.Inspect(fd.Body, func(m ast.Node) bool {
			call, ok := m.(*ast.CallExpr)
			if !ok || bad != nil {
				return true
			}
			cn := core.CalleeName(info, call)
			if strings.HasPrefix(cn, "strconv.Parse") || cn == "strconv.Atoi" || strings.HasSuffix(cn, ".parseInt") || strings.HasSuffix(cn, ".parseUint") || strings.HasPrefix(cn, "math/big.") {
				bad, name = call, cn
			}
			return true
		})
		if bad != nil {
			rc.Bad(key, bad.Pos(), "%s converts the number it found (%s) and fails when the conversion does: a valid document with a number outside the range of the Go type (1e400) is refused by Extract as soon as a path walks past that number", p.FuncName(fd), name)
		} else {
			rc.OK(key, fd.Pos(), "the selected text is handed out without a conversion")
		}
	}
	if n < 15 {
		rc.Unknown("decoder/DecodePath-methods", token.NoPos, "found %d DecodePath methods, fewer than the 15 confirmed by hand", n)
	}
}

// ---- C20.R17 an array destination takes exactly as many parts as it has places ----

// castArray builds the value for a destination of array kind from the list of selected parts. Either the source is
// assignable as it is (an array of the destination's own type), or its length is compared with the array's and a
// difference is an error: a conversion of the whole (reflect's Convert cuts a longer slice to the array's length) or
// any other early return drops parts without a word. Obligation: every return of a value in castArray is behind a
// test with AssignableTo, or behind the exit that compares t.Len() with v.Len().
func c20r17(rc *core.RC) {
	p := rc.P
	fd := p.Func("decoder", "castArray")
	if fd == nil || fd.Body == nil {
		rc.Unknown("decoder.castArray/length-agrees", token.NoPos, "castArray not found")
		return
	}
	rc.Touch(p.FuncName(fd))
	info := p.Info(fd)
	// the exit on different lengths
	var lenExit *ast.IfStmt
	for _, st := range fd.Body.List {
		ifs, ok := st.(*ast.IfStmt)
		if !ok || len(ifs.Body.List) == 0 {
			continue
		}
		be, isB := core.Unparen(ifs.Cond).(*ast.BinaryExpr)
		if !isB || be.Op != token.NEQ {
			continue
		}
		isLen := func(e ast.Expr) bool {
			c, isCall := core.Unparen(e).(*ast.CallExpr)
			if !isCall {
				return false
			}
			cn := core.CalleeName(info, c)
			return cn == "reflect.Type.Len" || cn == "reflect.Value.Len"
		}
		if r, isRet := ifs.Body.List[len(ifs.Body.List)-1].(*ast.ReturnStmt); isRet && isLen(be.X) && isLen(be.Y) && core.ReturnIsError(info, r) {
			lenExit = ifs
		}
	}
	n := 0
	ast.Inspect(fd.Body, func(m ast.Node) bool {
		r, ok := m.(*ast.ReturnStmt)
		if !ok || len(r.Results) != 2 {
			return true
		}
		if o := core.ObjOf(info, r.Results[0]); o != nil && o.Name() == "nilValue" {
			return true
		}
		if c, isCall := core.Unparen(r.Results[0]).(*ast.CallExpr); isCall && core.CalleeName(info, c) == "decoder.castArray" {
			return true // the same question for the value an interface holds
		}
		n++
		key := fmt.Sprintf("decoder.castArray/return#%d length-agrees", n)
		ok2, why := false, ""
		if lenExit != nil && lenExit.End() <= r.Pos() {
			ok2, why = true, "behind the exit "+core.Src(p.Fset, lenExit.Cond)
		}
		for _, anc := range core.PathTo(fd.Body, r) {
			if ifs, isIf := anc.(*ast.IfStmt); isIf && ifs.Body.Pos() <= r.Pos() && r.End() <= ifs.Body.End() {
				ast.Inspect(ifs.Cond, func(q ast.Node) bool {
					if c, isCall := q.(*ast.CallExpr); isCall && core.CalleeName(info, c) == "reflect.Type.AssignableTo" {
						ok2, why = true, "the source is assignable as it is ("+core.Src(p.Fset, ifs.Cond)+")"
					}
					return true
				})
			}
		}
		if ok2 {
			rc.OK(key, r.Pos(), "%s", why)
		} else {
			rc.Bad(key, r.Pos(), "castArray returns %s without having compared the number of parts with the length of the array: a path that selects more parts than the destination [N]T holds stores the first N and reports success (reflect's Convert cuts a longer slice)", core.Src(p.Fset, r.Results[0]))
		}
		return true
	})
	if n < 2 || lenExit == nil {
		rc.Unknown("decoder.castArray/length-agrees", fd.Pos(), "found %d returns of a value and the length exit=%v (2 returns and the exit confirmed by hand)", n, lenExit != nil)
	}
}

// ---- C20.R18 the path that selects the whole document is answered where every caller passes ----

// For the path `$` there is no node to evaluate: Path.node is nil, and the path decoders call methods of the node
// they are handed. extractFromPath, which Path.Extract and Path.Unmarshal both go through, answers that path with the
// document itself before it runs a decoder. Answered in one of the callers only, the other one runs the decoders
// with a nil node (Path.Unmarshal of `$` over an array dereferences it, over an object selects nothing). Obligation:
// extractFromPath tests RootSelectorOnly and returns in front of its DecodePath call.
func c20r18(rc *core.RC) {
	p := rc.P
	fd := p.Func("json", "extractFromPath")
	key := "json.extractFromPath/root-path-answered-before-the-decoders-run"
	if fd == nil || fd.Body == nil {
		rc.Unknown(key, token.NoPos, "extractFromPath not found")
		return
	}
	rc.Touch(p.FuncName(fd))
	info := p.Info(fd)
	var guard *ast.IfStmt
	var run *ast.CallExpr
	ast.Inspect(fd.Body, func(m ast.Node) bool {
		switch x := m.(type) {
		case *ast.IfStmt:
			if guard == nil && strings.Contains(core.Src(p.Fset, x.Cond), "RootSelectorOnly") && len(x.Body.List) > 0 {
				if _, isRet := x.Body.List[len(x.Body.List)-1].(*ast.ReturnStmt); isRet {
					guard = x
				}
			}
		case *ast.CallExpr:
			if sel, ok := core.Unparen(x.Fun).(*ast.SelectorExpr); ok && sel.Sel.Name == "DecodePath" && run == nil {
				run = x
			}
		}
		return true
	})
	_ = info
	switch {
	case run == nil:
		rc.Unknown(key, fd.Pos(), "no DecodePath call found in extractFromPath")
	case guard != nil && guard.End() <= run.Pos():
		rc.OK(key, guard.Pos(), "a path that is `$` alone is answered with the document before a decoder runs")
	default:
		rc.Bad(key, run.Pos(), "extractFromPath runs the path decoders also for the path `$`, whose node is nil: Path.Unmarshal (which does not pass through Path.Extract) dereferences the nil node for a root array and selects nothing for a root object")
	}
}
